/-
C15 — Scenario execution: order, multiplicity, variable flow, stop on failure; weights; `[next]` round robin.

The theorems are about `Pandora.Model.C15` (the functions mirror decode.go / gun.go / mp/iterator.go / mp/map.go /
math/gcd_lcm.go one to one; the correspondence run compares them with the real provider and the real gun on every
check).  Templating, the target and the postprocessor libraries are an arbitrary `World`; request definitions are an
arbitrary registry `reqs`; the `[next]` theorem quantifies over every number of threads, every (adaptive) program
and every schedule of the small steps lock / read / write / unlock.

Statement-level definitions live next to the lemmas that use them:
  `Spec.C15.specSteps`, `specNames`, `gcdList`, `effWeights`        — the meaning of a request list / of weights
  `Proofs.C15.parseAll`, `domOK`, `proj`                            — parsed items, the accepted descriptions
  `Proofs.C15.okEvents`, `okRun`, `stepTag`                         — events of successful steps
  `Proofs.C15.StepRec`-based `rvOf`, `expSeen`, `recVal`, `lastRec` — the variable tree step by step
  `Proofs.C15.scenarioOf`, `effW`                                   — decoded scenario, effective weight
-/
import Pandora.Proofs.C15Expand
import Pandora.Proofs.C15Gcd
import Pandora.Proofs.C15Ring
import Pandora.Proofs.C15RingSpec
import Pandora.Proofs.C15Shoot
import Pandora.Proofs.C15Verdict
import Pandora.Proofs.C15Post
import Pandora.Proofs.C15Next
import Pandora.Proofs.C15Lock
import Pandora.Bridge.C15Scen
import Pandora.Proofs.C15Flow
import Pandora.Bridge.C15Flow
import Pandora.Proofs.C15Walk
import Pandora.Bridge.C15Walk
import Pandora.Proofs.C15Tmpl
import Pandora.Proofs.C15Jpath
import Pandora.Bridge.C15Tmpl
import Pandora.Proofs.C15R6
import Pandora.Proofs.C15Prep
import Pandora.Proofs.C15Pub

namespace Pandora.Props.C15
open Pandora.Model.C15 Pandora.Spec.C15 Pandora.Proofs.C15

/-! ## order, multiplicity, pauses -/

/-- **order and multiplicity**: whenever the decoder accepts a request list, every item parsed, and the produced
step list IS the meaning of the list (`specSteps`: `name(n, s)` = n consecutive executions of `name`, each followed by
a pause of s ms; `sleep(ms)` adds ms to the pause after the step executed last before it) — names in the listed
order with the stated multiplicities (`specNames`), each step carrying the request registered under its name. -/
theorem C15_order_mult {ρ} (reqs : List Char → Option ρ) (shoots : List (List Char)) (steps : List (Step ρ))
    (h : expand reqs shoots [] = .ok steps) :
    ∃ items, parseAll shoots = some items ∧
      specSteps items = some (steps.map proj) ∧
      steps.map (·.name) = specNames items ∧
      ∀ st ∈ steps, reqs st.name = some st.req := by
  obtain ⟨items, hp⟩ := parse_of_expand reqs shoots [] steps h
  have he : expandItems reqs items [] = .ok steps := by rw [← expand_of_parse reqs shoots items [] hp]; exact h
  refine ⟨items, hp, specSteps_of_expand reqs items steps he, ?_, ?_⟩
  · have := names_of_expand reqs items.reverse steps (by simpa using he)
    simpa using this
  · exact expandItems_req reqs items [] steps (by simp) he

/-- **the accepted descriptions, exactly**: a list whose items all parse is decoded successfully iff every request
name is defined, every `sleep` item has an executed step before it and no item lets the scenario grow beyond
`config.MaxScenarioRequests` (2^20) steps (otherwise: an error, never a panic, never an allocation without bound —
repair 1eaf10a). -/
theorem C15_order_mult_total {ρ} (reqs : List Char → Option ρ) (shoots : List (List Char)) (items : List Item)
    (hp : parseAll shoots = some items) :
    (∃ steps, expand reqs shoots [] = .ok steps) ↔ domOK reqs items 0 = true := by
  rw [expand_of_parse reqs shoots items [] hp]
  exact expandItems_ok_iff reqs items []

/-- an accepted request list expands to at most `config.MaxScenarioRequests` steps, whatever the repeat counts -/
theorem C15_order_mult_bounded {ρ} (reqs : List Char → Option ρ) (shoots : List (List Char)) (steps : List (Step ρ))
    (h : expand reqs shoots [] = .ok steps) : (steps.length : Int) ≤ maxScenarioRequests := by
  obtain ⟨items, hp⟩ := parse_of_expand reqs shoots [] steps h
  rw [expand_of_parse reqs shoots items [] hp] at h
  exact expandItems_length reqs items [] steps (by simp [maxScenarioRequests]) h

/-- an item that does not parse, an unknown name or a leading `sleep` is an error of the decoder (no panic) -/
theorem C15_order_no_panic {ρ} (reqs : List Char → Option ρ) (shoots : List (List Char)) (acc : List (Step ρ)) (p : String) :
    expand reqs shoots acc ≠ .panic p := by
  induction shoots generalizing acc with
  | nil => simp [expand]
  | cons sh rest ih =>
    simp only [expand]
    split
    · simp
    · rename_i it _
      have : ∀ q, expandItem reqs acc it ≠ .panic q := by
        intro q
        unfold expandItem
        split
        · split <;> simp
        · split
          · simp
          · dsimp only; split <;> simp
      split
      · exact ih _
      · simp
      · rename_i q hq; exact absurd hq (this q)

/-! ## the step loop: stop on failure -/

/-- **stop on failure** (and order of execution): one shot appends to the log
* if it succeeds: for every step of the scenario, in order, its request, its successful sample and its pause;
* if it fails: exactly that for the first `i` steps, then — for step `i` — at most its request and ONE failed
  sample tagged `<scenario>.<step i>|__EMPTY__` with code 0, and nothing after it: no request, sample or pause of
  any later step.
(`none` — a Go panic inside the shot — is not a value of the model: see `C15_shoot_no_panic`.) -/
theorem C15_stop_on_failure {Req Resp : Type} (w : World Req Resp) (source : Val) (sc : Scenario ReqDef)
    (g : GState Req) (b : Bool) (g' : GState Req) (h : shoot w source sc g = some (b, g')) :
    (b = true → ∃ rcs : List (Req × Int), rcs.length = sc.steps.length ∧
        g'.log = g.log ++ okRun (String.ofList sc.name) sc.steps rcs) ∧
    (b = false → ∃ (i : Nat) (hi : i < sc.steps.length) (rcs : List (Req × Int)) (pre : List (Ev Req)),
        rcs.length = i ∧ (pre = [] ∨ ∃ r, pre = [.request r]) ∧
        g'.log = g.log ++ okRun (String.ofList sc.name) (sc.steps.take i) rcs ++ pre ++
          [.sample (failTag (stepTag (String.ofList sc.name) sc.steps[i])) 0 true]) :=
  shootLoop_log w source (String.ofList sc.name) sc.steps [] g b g' h

/-- **what "fails" means**: a step is reported successful exactly when all four of its stages succeed on what the
libraries answer in the state the earlier steps left behind — the preprocessor (`preStage`: e.g. an empty data source or
an unknown path is an error), the templater (`render` on the variable tree `{source, request}` with the step's own
preprocessor variables), the transport (`target` on the history including this request) and every extractor /
assertion in order (`runPosts`); if any of them fails the step is reported failed (`C15_stop_on_failure`: one failed
sample, nothing of any later step). No other outcome exists (a Go panic inside the step is not a value of the model). -/
theorem C15_step_outcome {Req Resp : Type} (w : World Req Resp) (source : Val) (scName : String) (st : Step ReqDef)
    (rv : List (String × Val)) (g : GState Req) (b : Bool) (rv' : List (String × Val)) (g' : GState Req)
    (h : shootStep w source scName st rv g = some (b, rv', g')) :
    (b = true ↔ StepSucceeds w source st rv g) :=
  shootStep_outcome w source scName st rv g b rv' g' h

/-- **stops at the FIRST step that fails**: the loop runs the head step; if that step succeeds (`StepSucceeds`) the
outcome of the shot is the outcome of the remaining steps run in the state (variables, iterator, history, log) the
step produced; if it does not, the shot is over — failed — in the state that step produced, and the remaining steps
are not touched. -/
theorem C15_stop_first_failure {Req Resp : Type} (w : World Req Resp) (source : Val) (scName : String)
    (st : Step ReqDef) (rest : List (Step ReqDef)) (rv : List (String × Val)) (g : GState Req) (b : Bool)
    (g' : GState Req) (h : shootLoop w source scName (st :: rest) rv g = some (b, g')) :
    (StepSucceeds w source st rv g →
      ∃ rv1 g1, shootStep w source scName st rv g = some (true, rv1, g1) ∧
        shootLoop w source scName rest rv1 g1 = some (b, g')) ∧
    (¬ StepSucceeds w source st rv g →
      b = false ∧ ∃ rv1, shootStep w source scName st rv g = some (false, rv1, g')) :=
  shootLoop_cons w source scName st rest rv g b g' h

/-- **the judge of the correspondence run holds of the model** (stop on failure / order / multiplicity as `./check`
judges them on what the REAL gun did): seen from outside — the target logs the name of every request it receives (`nm`;
every request rendered from a definition `d` is recognisably a request `d.name`: `Named`), the aggregator logs every
sample — the events a shot adds are accepted by the executable predicate `Spec.C15.shotVerdict` for the step-name list
of the scenario: the i-th sample belongs to the i-th listed step, requests follow the listed order, a failed sample is
the last event, without a failure every step was executed, and there is at most one request without sample. -/
theorem C15_shot_verdict {Req Resp : Type} (w : World Req Resp) (nm : Req → String) (hnm : Named w nm) (source : Val)
    (sc : Scenario ReqDef) (g : GState Req) (b : Bool) (g' : GState Req) (h : shoot w source sc g = some (b, g')) :
    ∃ evs, obsLog nm g'.log = obsLog nm g.log ++ evs ∧
      shotVerdict (String.ofList sc.name) (sc.steps.map (·.req.name)) evs = "ok" := by
  obtain ⟨evs, he, hs⟩ := shootLoop_shape w nm hnm source (String.ofList sc.name) sc.steps [] g b g' h
  exact ⟨evs, he, verdict_of_shape hs⟩

/-- the same with the expected step names computed the way the driver computes them — from the MEANING of the
request list (`specSteps`), not from the decoder's output: for a scenario of an accepted description whose registry
stores every request under its own name, every shot of the decoded scenario is accepted by `shotVerdict`. -/
theorem C15_shot_verdict_listed {Req Resp : Type} (reqs : List Char → Option ReqDef)
    (hreg : ∀ n d, reqs n = some d → d.name = String.ofList n) (sc : ScenarioCfg) (steps : List (Step ReqDef))
    (hx : expand reqs sc.requests [] = .ok steps)
    (w : World Req Resp) (nm : Req → String) (hnm : Named w nm) (source : Val)
    (g : GState Req) (b : Bool) (g' : GState Req)
    (h : shoot w source { name := sc.name, minWaitingTime := sc.minWaitingTime, steps } g = some (b, g')) :
    ∃ items psteps evs, parseAll sc.requests = some items ∧ specSteps items = some psteps ∧
      obsLog nm g'.log = obsLog nm g.log ++ evs ∧
      shotVerdict (String.ofList sc.name) (psteps.map fun p => String.ofList p.1) evs = "ok" := by
  obtain ⟨items, hp, hspec, _, hreq⟩ := C15_order_mult reqs sc.requests steps hx
  obtain ⟨evs, he, hv⟩ := C15_shot_verdict w nm hnm source _ g b g' h
  refine ⟨items, steps.map proj, evs, hp, hspec, he, ?_⟩
  have e : (steps.map proj).map (fun p => String.ofList p.1) = steps.map (·.req.name) := by
    rw [List.map_map]
    apply List.map_congr_left
    intro st hst
    simp only [Function.comp, proj]
    exact (hreg _ _ (hreq st hst)).symm
  rw [e]
  exact hv

/-! ## what "a failed assertion" and "a captured header value" are (pandora's own postprocessors) -/

/-- **a failed assertion**: `assert/response` lets the step go on exactly when every configured body text occurs in the
response body, every configured header text occurs in the value of its header, the status code is the configured
one (0 = not configured) and the body length satisfies the configured size relation (`eq`/`=`: equal, `lt`/`<`: at most
`val`, `gt`/`>`: at least `val`; an unknown operator fails) — measured on the body that was received, also when no body
text is configured (repair e0ff541). In every other case the step fails (`C15_step_outcome`: `runPosts` = `none`). -/
theorem C15_assert_outcome (a : AssertCfg) (r : RespView) :
    assertResponse a r = true ↔
      (∀ p ∈ a.body, isSub p r.body = true) ∧
      (∀ kv ∈ a.headers, isSub kv.2 (r.header kv.1) = true) ∧
      (a.status = 0 ∨ a.status = r.status) ∧
      (∀ s, a.size = some s → sizeHolds s.op s.val r.body.length) :=
  assertResponse_iff a r

/-- the `substr(start, end)` modifier of `var/header` never slices out of range (no panic inside a postprocessor),
whatever the arguments (negative = from the end) and the length of the header value -/
theorem C15_substr_in_range (start stop l : Int) (hl : 0 ≤ l) :
    0 ≤ (substrBounds start stop l).1 ∧ (substrBounds start stop l).1 ≤ (substrBounds start stop l).2 ∧
      (substrBounds start stop l).2 ≤ l :=
  substrBounds_range start stop l hl

/-! ## variable flow -/

/-- **variable flow**: the shot appends one record per step whose preprocessor ran (`R`: name, preprocessor
variables, postprocessor variables once the step succeeded), the records follow the step list, every record but the
last belongs to a step that succeeded, and the variable tree handed to the templater of the k-th of these steps is
`{source: <data sources>, request: M}` with `M` = the records of the steps before it, plus the step's own entry
holding only its preprocessor variables (`expSeen`; `C15_var_visible` spells out `M`). -/
theorem C15_var_flow {Req Resp : Type} (w : World Req Resp) (source : Val) (sc : Scenario ReqDef)
    (g : GState Req) (b : Bool) (g' : GState Req) (h : shoot w source sc g = some (b, g')) :
    ∃ R : List StepRec, g'.recs = g.recs ++ R ∧ g'.seen = g.seen ++ expSeen source [] R ∧
      R.map (·.name) = (sc.steps.take R.length).map (·.req.name) ∧
      (∀ r ∈ R.dropLast, r.post.isSome) ∧
      (b = true → R.length = sc.steps.length ∧ ∀ r ∈ R, r.post.isSome) :=
  shootLoop_ghost w source (String.ofList sc.name) sc.steps [] g b g' [] h rfl

/-- what a template sees when the steps `done` have been executed and step `r` has run its preprocessor:
`.source` is the data sources; `.request.<n>` is, for the step's own name, `{preprocessor: …}` only (values of an
earlier execution of the same request are gone), for any other name the record of the LAST executed step of that name
(`{preprocessor: …, postprocessor: …}`), and absent when no such step has been executed — nothing else is visible. -/
theorem C15_var_visible (source : Val) (done : List StepRec) (r : StepRec) (n : String) :
    ∃ M, tree source (setKey r.name (preOnly r.pre) (rvOf done)) = [("source", source), ("request", .map M)] ∧
      getKey n M = if r.name == n then some (preOnly r.pre) else (lastRec n done).map recVal := by
  refine ⟨_, rfl, ?_⟩
  by_cases h : r.name == n
  · have e : r.name = n := by simpa using h
    subst e
    simp [getKey_setKey_same]
  · have hf : (r.name == n) = false := by simpa using h
    rw [hf, getKey_setKey_other r.name n _ hf, getKey_rvOf]
    rfl

/-! ## weights -/

/-- **GCD**: the subtraction-free loop of `lib/math.GCD` terminates and computes the greatest common divisor -/
theorem C15_gcd (a b : Nat) (ha : 0 < a) (hb : 0 < b) : GCD (a : Int) (b : Int) = some ((Nat.gcd a b : Nat) : Int) :=
  GCD_nat a b ha hb

/-- `GCDM` of at least two positive weights is the gcd of all of them (three and more included) -/
theorem C15_gcdm (ws : List Nat) (hp : ∀ w ∈ ws, 0 < w) (h2 : 2 ≤ ws.length) :
    GCDM (ws.map fun (w : Nat) => (w : Int)) = some ((gcdList ws : Nat) : Int) :=
  GCDM_nat ws hp h2

/-- **weights**: for pairwise different scenario names and non-negative weights, whenever `decodeAmmo` succeeds
* the ring (one pass of the provider) lists the scenarios in the given order, scenario `sc` standing
  `w_sc / gcd(w)` times in a row, each copy being the decoded form of `sc` (its expanded request list);
* so scenario `sc` occurs `w_sc / gcd(w) > 0` times per pass, and for any two scenarios
  `cnt_i · w_j = cnt_j · w_i`;
* the k-th delivered ammo is `ring[k mod |ring|]` (every pass is the same).
`w` = effective weight (`effW`): absent / 0 counts as 1, a single scenario counts once. -/
theorem C15_weights {ρ} (reqs : List Char → Option ρ) (scs : List ScenarioCfg) (ring : List (Scenario ρ))
    (hnd : (scs.map (·.name)).Nodup) (hw : ∀ sc ∈ scs, 0 ≤ sc.weight)
    (h : decodeAmmo reqs scs = .ok ring) :
    let w := effW scs.length
    let g := gcdList (scs.map w)
    ring = scs.flatMap (fun sc => List.replicate (w sc / g) (scenarioOf reqs sc)) ∧
    (∀ sc ∈ scs, expand reqs sc.requests [] = .ok (scenarioOf reqs sc).steps) ∧
    (∀ sc ∈ scs, ring.countP (·.name == sc.name) = w sc / g ∧ 0 < w sc / g) ∧
    (∀ si ∈ scs, ∀ sj ∈ scs,
      ring.countP (·.name == si.name) * w sj = ring.countP (·.name == sj.name) * w si) ∧
    (∀ k, deliver ring k = if ring.length = 0 then none else ring[k % ring.length]?) := by
  intro w g
  obtain ⟨hall, hring⟩ := decodeAmmo_ring reqs scs ring hnd hw h
  have hcount : ∀ sc ∈ scs, ring.countP (·.name == sc.name) = w sc / g := by
    intro sc hsc
    rw [hring]
    exact countP_name (scenarioOf reqs) (fun sc => w sc / g) (fun _ => rfl) scs hnd sc hsc
  have hdvd : ∀ sc ∈ scs, g ∣ w sc := fun sc hsc => gcdList_dvd _ _ (List.mem_map.mpr ⟨sc, hsc, rfl⟩)
  refine ⟨hring, ?_, ?_, ?_, ?_⟩
  · intro sc hsc
    obtain ⟨s, hs⟩ := hall sc hsc
    simp [scenarioOf, hs]
  · intro sc hsc
    refine ⟨hcount sc hsc, ?_⟩
    have hpos : 0 < w sc := effW_pos _ sc (hw sc hsc)
    have hgpos : 0 < g := Nat.pos_of_dvd_of_pos (hdvd sc hsc) hpos
    exact Nat.div_pos (Nat.le_of_dvd hpos (hdvd sc hsc)) hgpos
  · intro si hsi sj hsj
    rw [hcount si hsi, hcount sj hsj]
    exact cross_mul g (w si) (w sj) (hdvd si hsi) (hdvd sj hsj)
  · intro k
    unfold deliver
    by_cases h0 : ring.length = 0 <;> simp [h0]

/-- **the judge of the correspondence run holds of the model**: whatever number `n` of ammo is taken from the provider,
the delivered scenario names satisfy the executable predicate `Spec.C15.ringOK` that `./check` applies to the
deliveries of the REAL provider — every complete pass of Σ w_i/gcd(w) deliveries contains scenario i exactly
`w_i/gcd(w)` times, and the counts over every whole number of passes are cross-multiplied proportional to the weights. -/
theorem C15_ring_spec {ρ} (reqs : List Char → Option ρ) (scs : List ScenarioCfg) (ring : List (Scenario ρ))
    (hnd : (scs.map (·.name)).Nodup) (hw : ∀ sc ∈ scs, 0 ≤ sc.weight)
    (h : decodeAmmo reqs scs = .ok ring) (n : Nat) :
    ringOK (scs.map (·.name)) (scs.map (·.weight))
      (((List.range n).filterMap (deliver ring)).map (·.name)) = true := by
  obtain ⟨_, hring⟩ := decodeAmmo_ring reqs scs ring hnd hw h
  have e : ((List.range n).filterMap (deliver ring)).map (·.name) =
      cycle (ringNames (fun sc => effW scs.length sc / gcdList (scs.map (effW scs.length))) scs) n := by
    show (cycle ring n).map (·.name) = _
    rw [cycle_map, hring]
    rw [ring_names_eq (scenarioOf reqs) (fun _ => rfl)]
  rw [e]
  exact ringOK_cycle scs hnd hw n

/-- **from the description to the wire** (the first sentence of the property in one statement): for a scenario `sc` of
an accepted description, every copy of it in the ring carries the step list its request list MEANS
(`specSteps`: order, multiplicities, pauses), and a shot of it that does not fail appends to the log exactly one
request, one successful sample and the pause for each of these steps, in this order — nothing else. -/
theorem C15_shot_executes_listed {Req Resp : Type} (reqs : List Char → Option ReqDef) (scs : List ScenarioCfg)
    (ring : List (Scenario ReqDef)) (hnd : (scs.map (·.name)).Nodup) (hw : ∀ sc ∈ scs, 0 ≤ sc.weight)
    (hd : decodeAmmo reqs scs = .ok ring) (sc : ScenarioCfg) (hsc : sc ∈ scs)
    (w : World Req Resp) (source : Val) (g g' : GState Req)
    (h : shoot w source (scenarioOf reqs sc) g = some (true, g')) :
    ∃ items, parseAll sc.requests = some items ∧
      specSteps items = some ((scenarioOf reqs sc).steps.map proj) ∧
      (scenarioOf reqs sc).steps.map (·.name) = specNames items ∧
      ∃ rcs : List (Req × Int), rcs.length = (specNames items).length ∧
        g'.log = g.log ++ okRun (String.ofList sc.name) (scenarioOf reqs sc).steps rcs := by
  obtain ⟨_, hexp, _, _, _⟩ := C15_weights reqs scs ring hnd hw hd
  obtain ⟨items, hp, hspec, hnames, _⟩ := C15_order_mult reqs sc.requests _ (hexp sc hsc)
  obtain ⟨hok, _⟩ := C15_stop_on_failure w source (scenarioOf reqs sc) g true g' h
  obtain ⟨rcs, hlen, hlog⟩ := hok rfl
  refine ⟨items, hp, hspec, hnames, rcs, ?_, hlog⟩
  rw [hlen, ← hnames, List.length_map]

/-- a negative weight is refused with an error before anything else (the hypothesis `0 ≤ weight` of `C15_weights`
is exactly the accepted range; `SpreadNames` never sees a negative weight, so its division and `make` cannot panic) -/
theorem C15_negative_weight_refused {ρ} (reqs : List Char → Option ρ) (scs : List ScenarioCfg)
    (h : ∃ sc ∈ scs, sc.weight < 0) : decodeAmmo reqs scs = .err "negweight" := by
  obtain ⟨sc, hsc, hlt⟩ := h
  have : (scs.any fun sc => decide (sc.weight < 0)) = true := List.any_eq_true.mpr ⟨sc, hsc, by simpa using hlt⟩
  unfold decodeAmmo
  rw [this]
  rfl

/-- the effective weights used above are the ones of the executable Spec (`ringOK`) -/
theorem C15_weights_spec (scs : List ScenarioCfg) :
    effWeights (scs.map (·.weight)) = scs.map (effW scs.length) := effWeights_eq scs

/-! ## `[next]`: round robin over all instances -/

/-- the atomic counter step of the sequential model (what one instance alone does) is the read-then-write of the
small-step system -/
theorem C15_next_atomic (gs : List (CKey × Nat)) (key : CKey) :
    Iter.bump gs key = gsWrite gs key (gsRead gs key) := bump_eq gs key

/-- **round robin**: for any number of threads running any (adaptive) programs over one shared iterator and for EVERY
schedule of the small steps Lock / map read / insert-or-Add / Unlock-and-return:
* the k-th call on a counter to return (k = 0, 1, 2, … over all threads together) returns k, hence — over a data
  source of `L > 0` rows — selects row `k mod L`;
* each thread received exactly the values the global order attributes to it;
* at every moment at most the mutex holder is between Lock and Unlock. -/
theorem C15_next_round_robin (prog : NProg) (sched : List Nat) (key : CKey) (L : Nat) (_hL : 0 < L) :
    let s := NSys.init.run prog sched
    (∀ k (hk : k < (s.vals key).length), (s.vals key)[k] = k ∧ rowOf L (s.vals key)[k] = k % L) ∧
    (∀ t, s.got t = s.valsOf t) ∧
    (∀ t, s.pcs t ≠ .idle → s.holder = some t) := by
  intro s
  have inv : NInv s := NInv_run prog sched _ NInv_init
  refine ⟨?_, inv.gotOK, inv.excl⟩
  intro k hk
  have hseq : s.vals key = List.range (s.vals key).length := inv.seq key
  have hk' : k < (List.range (s.vals key).length).length := by simpa using hk
  have e : (s.vals key)[k] = k := by
    have : (s.vals key)[k] = (List.range (s.vals key).length)[k] := by
      congr 1
    rw [this, List.getElem_range]
  refine ⟨e, ?_⟩
  rw [e]
  unfold rowOf
  split
  · rfl
  · rename_i hlt
    exact (Nat.mod_eq_of_lt (by omega)).symm

/-- the executable judge of the correspondence run (`Spec.C15.roundRobinOK`: as a multiset the rows are
`{k mod L | k < n}`) holds of the rows selected under every schedule -/
theorem C15_next_spec (prog : NProg) (sched : List Nat) (key : CKey) (L : Nat) (hL : 0 < L) :
    roundRobinOK L (((NSys.init.run prog sched).vals key).map (rowOf L)) = true := by
  have inv : NInv (NSys.init.run prog sched) := NInv_run prog sched _ NInv_init
  have hseq : (NSys.init.run prog sched).vals key = List.range ((NSys.init.run prog sched).vals key).length :=
    inv.seq key
  have hrow : rowOf L = (· % L) := by
    funext i
    unfold rowOf
    split
    · rfl
    · exact (Nat.mod_eq_of_lt (by omega)).symm
  rw [hseq, hrow]
  exact roundRobinOK_range L _ hL

/-- `calcIndex` of a `[next]` segment over a non-empty source is `rowOf` of the value drawn from the iterator -/
theorem C15_next_row (seg : String) (L id : Nat) (it : Iter) (hL : 0 < L) :
    calcIndex "next" seg L id it = .ok (rowOf L (it.next id seg).1, (it.next id seg).2) := by
  have h1 : ("next" == "last") = false := by decide
  have h2 : ("next" == "rand") = false := by decide
  have h3 : ("next" == "next") = true := by decide
  have hL' : (L == 0) = false := by simpa using Nat.ne_of_gt hL
  unfold calcIndex rowOf
  simp only [h1, h2, h3, hL', Bool.or_true, Bool.not_true, Bool.and_false, Bool.false_eq_true, if_false, if_true]
  split <;> rfl

/-- indexing into an empty data source is an error of the step (repair d4ccb1f), never a panic -/
theorem C15_empty_source_is_error (indexStr seg : String) (id : Nat) (it : Iter) :
    ∃ e, calcIndex indexStr seg 0 id it = .err e := by
  unfold calcIndex
  simp only
  split
  · exact ⟨_, rfl⟩
  · exact ⟨_, rfl⟩

/-! ## `[next]` at the level of the code of `NextIterator.Next` (regenerated from the source on every run) -/

/-- **round robin, for the code as it is**: `Gen.C15Scen.nextCode` is the instruction list /verif/gen extracts from
`(*NextIterator).Next` (lock, map lookup, `if !ok` {insert a fresh counter, return 0}, atomic add, return; the deferred
`Unlock` before each return). Executed by any number of threads running any (adaptive) programs on one shared
iterator, one instruction at a time under EVERY schedule (a thread whose next instruction is `lock` while the mutex
is taken does not move):
* the k-th value DECIDED for a counter (k = 0, 1, 2, … over all threads together) is k, hence selects row `k mod L`
  of a data source of `L > 0` rows;
* what a thread has received plus the value it is about to return is exactly what this order attributes to it, and
  once it is outside `Next` it has received exactly those values;
* at most one thread is between its `lock` and its `unlock`;
* no Unlock of an unlocked mutex and no `Add` through a nil counter happens. -/
theorem C15_next_code_round_robin (prog : NProg) (sched : List Nat) (key : CKey) (L : Nat) (_hL : 0 < L) :
    let s := LSys.init.run Gen.C15Scen.nextCode prog sched
    (∀ k (hk : k < (s.vals key).length), (s.vals key)[k] = k ∧ rowOf L (s.vals key)[k] = k % L) ∧
    (∀ t, s.got t ++ s.pend t = s.valsOf t) ∧
    (∀ t, s.pcs t = none → s.got t = s.valsOf t) ∧
    (∀ t t' f f', s.pcs t = some f → s.pcs t' = some f' → inCrit f.ops = true → inCrit f'.ops = true → t = t') ∧
    s.fault = false := by
  rw [Bridge.C15Scen.nextCode_eq]
  intro s
  have inv : LInv s := LInv_run prog sched _ LInv_init
  refine ⟨?_, inv.gotOK, ?_, ?_, inv.noFault⟩
  · intro k hk
    have hseq : s.vals key = List.range (s.vals key).length := inv.seq key
    have e : (s.vals key)[k] = k := by
      have : (s.vals key)[k] = (List.range (s.vals key).length)[k]'(by simpa using hk) := by
        congr 1
      rw [this, List.getElem_range]
    refine ⟨e, ?_⟩
    rw [e]
    unfold rowOf
    split
    · rfl
    · rename_i hlt
      exact (Nat.mod_eq_of_lt (by omega)).symm
  · intro t ht
    have := inv.gotOK t
    rw [pend_eq, ht] at this
    simpa [optPend, LSys.valsOf] using this
  · intro t t' f f' hf hf' hc hc'
    have h1 := inv.excl t f hf hc
    have h2 := inv.excl t' f' hf' hc'
    rw [h1] at h2
    exact Option.some.inj h2

/-- the executable judge of the correspondence run holds of the rows the code selects under every schedule -/
theorem C15_next_code_spec (prog : NProg) (sched : List Nat) (key : CKey) (L : Nat) (hL : 0 < L) :
    roundRobinOK L (((LSys.init.run Gen.C15Scen.nextCode prog sched).vals key).map (rowOf L)) = true := by
  rw [Bridge.C15Scen.nextCode_eq]
  have inv : LInv (LSys.init.run nextCode prog sched) := LInv_run prog sched _ LInv_init
  have hseq : (LSys.init.run nextCode prog sched).vals key =
      List.range ((LSys.init.run nextCode prog sched).vals key).length := inv.seq key
  have hrow : rowOf L = (· % L) := by
    funext i
    unfold rowOf
    split
    · rfl
    · exact (Nat.mod_eq_of_lt (by omega)).symm
  rw [hseq, hrow]
  exact roundRobinOK_range L _ hL

/-- what `calcIndex` does with the value `iter.Next` returns (regenerated) is `rowOf` -/
theorem C15_next_index_source (i L : Nat) : Gen.C15Scen.nextIndex (i : Int) (L : Int) = ((rowOf L i : Nat) : Int) :=
  Bridge.C15Scen.nextIndex_eq i L

/-! ## weights, for the code as it is -/

/-- `lib/math.GCD` as regenerated from the source computes the greatest common divisor -/
theorem C15_gcd_source (a b : Nat) (ha : 0 < a) (hb : 0 < b) :
    Gen.C15Scen.GCD (a : Int) (b : Int) = some ((Nat.gcd a b : Nat) : Int) := by
  rw [Bridge.C15Scen.GCD_eq]; exact GCD_nat a b ha hb

/-- `lib/math.GCDM` as regenerated from the source (recursion over every prefix of the weight slice, indexing
`weights[l-2]`, `weights[l-1]`, `weights[:l-1]` — none of which is out of range) is the gcd of ALL the weights -/
theorem C15_gcdm_source (ws : List Nat) (hp : ∀ w ∈ ws, 0 < w) (h2 : 2 ≤ ws.length) :
    Gen.C15Scen.GCDM (ws.map fun (w : Nat) => (w : Int)) = some ((gcdList ws : Nat) : Int) := by
  rw [Bridge.C15Scen.GCDM_eq]; exact GCDM_nat ws hp h2

/-- `SpreadNames` of the model (about which `C15_weights` speaks) computes with the arithmetic regenerated from
`config.SpreadNames`: the early returns for no / one scenario, absent weight = 1, the divisor `GCDM(weights…)`, the
count `weight / div` per scenario and the running total -/
theorem C15_spread_source (scs : List ScenarioCfg) :
    spreadNames scs =
      match scs with
      | [] => .ok ([], Gen.C15Scen.spreadEmpty)
      | [s] => .ok ([(s.name, Gen.C15Scen.spreadSingle.1)], Gen.C15Scen.spreadSingle.2)
      | _ =>
        let ws := scs.map fun s => Gen.C15Scen.spreadEffWeight s.weight
        match Gen.C15Scen.spreadDiv ws with
        | none => .panic "gcd-fuel"
        | some div =>
          if div == 0 then .panic "div0" else
          let cnts := ws.map fun w => Gen.C15Scen.spreadCnt w div
          .ok ((scs.map (·.name)).zip cnts, cnts.foldl Gen.C15Scen.spreadTotalStep 0) :=
  Bridge.C15Scen.spreadNames_eq scs

/-- the failed sample of `C15_stop_on_failure`, with the constants regenerated from `gun.go` (`EmptyTag`, the `.` of
`tag := ammo.Name + "." + req.Name`, `reportErr`: `SetProtoCode(0)`, `AddTag(EmptyTag)`, `SetErr`, `Report`) and from
`netsample.Sample.AddTag` (the `|`) -/
theorem C15_failed_sample_source {Req : Type} (scName : String) (st : Step ReqDef) :
    (Ev.sample (failTag (stepTag scName st)) 0 true : Ev Req) =
      .sample (scName ++ Gen.C15Scen.stepTagSep ++ st.req.name ++ Gen.C15Scen.tagSep ++ Gen.C15Scen.emptyTag)
        Gen.C15Scen.failCode Gen.C15Scen.failTagged :=
  Bridge.C15Scen.failed_sample_eq scName st.req.name

/-- the weights `decodeAmmo` refuses (regenerated condition) are the negative ones of `C15_negative_weight_refused` -/
theorem C15_refused_source (w : Int) : Gen.C15Scen.weightRefused w ↔ w < 0 := Iff.rfl

/-! ## the step loop, the decoder and pandora's own postprocessors — for the code as it is (area `c15flow`) -/

/-- **`shootStep` / `shoot` as regenerated**: `Gen.C15Flow.stepCode` is the instruction list /verif/gen extracts from
`shootStep` (initVars, preprocessor + check + store, template + check, prepareRequest + check, send + check, read body +
check, the postprocessor loop [call, check, merge, rewind, check], store, set code, report, pause) and
`Gen.C15Flow.onStepErr` the error branch of the loop of `shoot` (reportErr, return). Interpreted literally — a
fallible statement only ASSIGNS `err`, only a check looks at it — on any `World`, they compute exactly the model's
`shoot`, about which the stop-on-failure / variable-flow theorems above speak. -/
theorem C15_shoot_code_source {Req Resp : Type} (w : World Req Resp) (source : Val) (sc : Scenario ReqDef) (g : GState Req) :
    runShootCode w source (String.ofList sc.name) Gen.C15Flow.stepCode Gen.C15Flow.onStepErr sc.steps [] g true =
      shoot w source sc g := by
  rw [Bridge.C15Flow.stepCode_eq, Bridge.C15Flow.onStepErr_eq]
  exact runShootCode_eq w source (String.ofList sc.name) sc.steps [] g

/-- hence the regenerated code, interpreted, passes the executable judge of the correspondence run on every `World` -/
theorem C15_shoot_code_verdict {Req Resp : Type} (w : World Req Resp) (nm : Req → String) (hnm : Named w nm) (source : Val)
    (sc : Scenario ReqDef) (g : GState Req) (b : Bool) (g' : GState Req)
    (h : runShootCode w source (String.ofList sc.name) Gen.C15Flow.stepCode Gen.C15Flow.onStepErr sc.steps [] g true =
      some (b, g')) :
    ∃ evs, obsLog nm g'.log = obsLog nm g.log ++ evs ∧
      shotVerdict (String.ofList sc.name) (sc.steps.map (·.req.name)) evs = "ok" := by
  rw [C15_shoot_code_source] at h
  exact C15_shot_verdict w nm hnm source sc g b g' h

/-- `requestVars` is created once per shot, before the loop (regenerated), and the mapping loop of
`Preprocessor.Process` resolves an entry, returns on its error, stores it — in this order -/
theorem C15_vars_per_shot_source : Gen.C15Flow.requestVarsPerShot = true ∧
    Gen.C15Flow.preLoopCode = ["resolve", "chk", "store"] :=
  ⟨Bridge.C15Flow.requestVarsPerShot_eq, Bridge.C15Flow.preLoopCode_eq⟩

/-- **`ParseShootName` and the loop body of `convertScenarioToAmmo` as regenerated** (defaults `cnt = 1`, `sleep = 0`, the
guards `len(args) > k && args[k] != ""`, the argument positions, the order of the results; the `sleep` branch with its
refusal of an empty step list and `Requests[len-1].Sleep +=`, the lookup, `if sleep > 0 { r.Sleep += … }`, the copy loop
`for i := 0; i < cnt; i++`; durations in ms) are the model's `parseShootName` and `expandItem`: the decoder the
order / multiplicity theorems speak about is the loop over the regenerated body. -/
theorem C15_expand_source {ρ} (reqs : List Char → Option ρ) (sh : List Char) (rest : List (List Char)) (acc : List (Step ρ)) :
    (Gen.C15Flow.convShoot atoi reqs sh acc =
      match parseShootName sh with
      | .error _ => .err "parse"
      | .ok it => expandItem reqs acc it) ∧
    expand reqs (sh :: rest) acc =
      match Gen.C15Flow.convShoot atoi reqs sh acc with
      | .ok acc' => expand reqs rest acc'
      | .err e => .err e
      | .panic p => .panic p :=
  ⟨Bridge.C15Flow.convShoot_eq reqs sh acc, Bridge.C15Flow.expand_gen reqs sh rest acc⟩

/-- `decodeAmmo` appends a scenario to the ring as often as `SpreadNames` counted it (regenerated copy loop) -/
theorem C15_ring_copies_source (ns : Int) : (Gen.C15Flow.ringCopies ns).toNat = ns.toNat :=
  Bridge.C15Flow.ringCopies_eq ns

/-- **indexing as regenerated from `calcIndex`**: over a non-empty list a numeric index — any integer — selects an
existing row (the regenerated arithmetic stays in `[0, L)`), and that row is what the model's `calcIndex` returns;
`[last]` is row `L - 1`; an empty list is refused (the regenerated guard) -/
theorem C15_index_source (i : Int) (L : Nat) (hL : 0 < L) :
    (0 ≤ Gen.C15Flow.idxNumeric i L ∧ Gen.C15Flow.idxNumeric i L < L) ∧
    (∀ (indexStr seg : String) (id : Nat) (it : Iter), atoi indexStr.toList = some i → indexStr ≠ "last" →
      indexStr ≠ "rand" → indexStr ≠ "next" →
      calcIndex indexStr seg L id it = .ok ((Gen.C15Flow.idxNumeric i L).toNat, it)) ∧
    Gen.C15Flow.idxLast (L : Int) = ((L - 1 : Nat) : Int) ∧
    (Gen.C15Flow.idxEmptyRefused ((0 : Nat) : Int) ∧ ¬ Gen.C15Flow.idxEmptyRefused (L : Int)) := by
  refine ⟨Bridge.C15Flow.idxNumeric_range i L hL, ?_, Bridge.C15Flow.idxLast_eq L hL, ?_, ?_⟩
  · intro indexStr seg id it hi h1 h2 h3
    exact Bridge.C15Flow.calcIndex_numeric indexStr seg L id it i hL hi h1 h2 h3
  · exact (Bridge.C15Flow.idxEmptyRefused_iff 0).mpr rfl
  · intro c
    have := (Bridge.C15Flow.idxEmptyRefused_iff L).mp c
    omega

/-- **assert/response as regenerated**: the size table, the status condition, the set of checks and WHEN the body is read
(`len(a.Body) > 0 || a.Size != nil`: the repaired condition) are the ones of the model of `C15_assert_outcome` -/
theorem C15_assert_source (a : AssertCfg) (op : String) (val len want got : Int) :
    Gen.C15Flow.assertSizeFails op val len = sizeFails op val len ∧
    (Gen.C15Flow.assertReadsBody (a.body.length : Int) (a.size.isSome = true) ↔ readsBody a = true) ∧
    (¬ Gen.C15Flow.assertStatusFails want got ↔ (want = 0 ∨ want = got)) ∧
    Gen.C15Flow.assertChecks = ["body", "headers", "status", "size"] :=
  ⟨Bridge.C15Flow.assertSizeFails_eq op val len, Bridge.C15Flow.assertReadsBody_iff a,
   Bridge.C15Flow.assertStatusFails_iff want got, Bridge.C15Flow.assertChecks_eq⟩

/-- the index arithmetic of the `substr` modifier as regenerated from `var_header.go` is the model's, hence in range -/
theorem C15_substr_source (start stop l : Int) (hl : 0 ≤ l) :
    Gen.C15Flow.substrBounds start stop l = substrBounds start stop l ∧
    0 ≤ (Gen.C15Flow.substrBounds start stop l).1 ∧
    (Gen.C15Flow.substrBounds start stop l).1 ≤ (Gen.C15Flow.substrBounds start stop l).2 ∧
    (Gen.C15Flow.substrBounds start stop l).2 ≤ l := by
  rw [Bridge.C15Flow.substrBounds_eq]
  exact ⟨rfl, substrBounds_range start stop l hl⟩

/-! ## round 3: the path walk of `GetMapValue`, `calcIndex`'s dispatch, template functions, the provider's feed -/

/-- **the segment loop of `mp.GetMapValue` as regenerated from the source** (trim, key builder `'.' + segment`, the
bracket test, index text = lower-cased trimmed text between the first `[` and the final `]`, field name = text before
the first `[`, lookup, `extractFromSlice` keyed by the WHOLE path so far, descent / last-segment rule), run statement by
statement with Go's variables explicit, computes exactly the model's `walk` — for every path, variable tree and
iterator state; the path is split at `.` after one leading `.` was dropped. -/
theorem C15_walk_code_source (id : Nat) (segs : List String) (cur : List (String × Val)) (key : String) (it : Iter) :
    walkBy Gen.C15Walk.walkCode id segs cur key it = some (walk id segs cur key it) ∧
    Gen.C15Walk.walkSplit = (".", ".") :=
  ⟨Bridge.C15Walk.walk_gen id segs cur key it, Bridge.C15Walk.walkSplit_eq⟩

/-- the two slice expressions of the indexed branch (`segment[open+1 : len-1]`, `segment[:open]`) are in range whenever
the branch is taken (the segment contains `[` and ends in `]`): the path walk cannot panic with "slice bounds out of range" -/
theorem C15_walk_slices_in_range (seg : List Char) (h : (seg.contains '[' && seg.getLast? == some ']') = true) :
    (goSlice seg (indexOfC '[' seg + 1) ((seg.length : Int) - 1)).isSome = true ∧
    (goSlice seg 0 (indexOfC '[' seg)).isSome = true := walk_slices_ok seg h

/-- **`calcIndex` as regenerated**: the guards and keyword branches in source order (Atoi; refuse a non-number that is
no keyword; refuse an empty list; numeric branch; `last`; `rand`; `next`) compute exactly the model's `calcIndex` — in
particular the empty-list guard precedes every branch that would compute `length − 1` or a remainder. -/
theorem C15_calc_code_source (indexStr seg : String) (len id : Nat) (it : Iter) :
    runCOps indexStr seg len id Gen.C15Walk.calcCode none it = some (outInt (calcIndex indexStr seg len id it)) :=
  Bridge.C15Walk.calcIndex_gen indexStr seg len id it

/-- every list type `extractFromSlice` accepts has its case in the type switch (each returning row `index`) -/
theorem C15_extract_total_source : Gen.C15Walk.extractCases = Gen.C15Walk.extractValid := Bridge.C15Walk.extract_total

/-- **one entry of a preprocessor mapping, as regenerated** (`Preprocessor.Process`, `templater.ParseFunc` / `parseStr` /
`GetFuncs`, `ExecTemplateFuncWithVariables`): a value whose text before the first `(` is exactly one of the regenerated
function names is a call of that function with its (trimmed) arguments looked up in the variable tree — a found value is
passed, anything else stays the literal text; every other value is a path resolved by `GetMapValue` -/
theorem C15_pre_entry_source (fn : String → List Val → Option String) (vars : List (String × Val)) (v : String) (id : Nat) (it : Iter) :
    resolveEntryBy Gen.C15Walk.entryCode fn vars v id it = resolveEntry fn vars v id it ∧
    (∀ t, parseStrBy Gen.C15Walk.strFnFacts t = parseStrF t) ∧
    Gen.C15Walk.funcNames = funcNames ∧ Gen.C15Walk.parseFuncExact = true ∧
    (funcNames.contains (String.ofList (parseStrF v.toList).1) = false →
      resolveEntry fn vars v id it = getMapValue vars v id it) ∧
    (funcNames.contains (String.ofList (parseStrF v.toList).1) = true →
      resolveEntry fn vars v id it =
        match fn (String.ofList (parseStrF v.toList).1)
            (resolveArgs vars id ((parseStrF v.toList).2.map String.ofList) it).1 with
        | some s => .ok (.str s, (resolveArgs vars id ((parseStrF v.toList).2.map String.ofList) it).2)
        | none => .err "template-func") :=
  ⟨Bridge.C15Walk.resolveEntry_gen fn vars v id it, Bridge.C15Walk.parseStr_gen, Bridge.C15Walk.funcNames_eq,
   Bridge.C15Walk.parseFuncExact_eq, resolveEntry_path fn vars v id it, resolveEntry_func fn vars v id it⟩

/-- **the provider's feed with `passes` / `limit`** (`scenario.Provider.Run`; 0 = unlimited): a consumer taking at most
`n` ammo receives exactly the deliveries 0 … m−1 of the endless feed (`ring[k mod |ring|]`), where
`m = min n (passes·|ring|) limit` (a zero option dropped) — whole passes, never more than `limit`; hence the deliveries
satisfy the weight judge `ringOK` like every prefix of the endless feed. -/
theorem C15_feed {ρ} (reqs : List Char → Option ρ) (scs : List ScenarioCfg) (ring : List (Scenario ρ))
    (hnd : (scs.map (·.name)).Nodup) (hw : ∀ sc ∈ scs, 0 ≤ sc.weight)
    (h : decodeAmmo reqs scs = .ok ring) (hne : ring.length ≠ 0) (passes limit n : Nat) :
    feed ring passes limit n = (List.range (feedCount ring.length passes limit n)).filterMap (deliver ring) ∧
    (feed ring passes limit n).length = feedCount ring.length passes limit n ∧
    feedCount ring.length passes limit n ≤ n ∧
    (passes ≠ 0 → feedCount ring.length passes limit n ≤ passes * ring.length) ∧
    (limit ≠ 0 → feedCount ring.length passes limit n ≤ limit) ∧
    ringOK (scs.map (·.name)) (scs.map (·.weight)) ((feed ring passes limit n).map (·.name)) = true := by
  have hlen := feed_length ring hne passes limit n
  obtain ⟨m, _, he, _, _⟩ := feed_spec ring hne passes limit n
  have hm : m = feedCount ring.length passes limit n := by
    rw [← hlen, he]; exact (length_deliveries ring hne m).symm
  refine ⟨by rw [← hm]; exact he, hlen, ?_, ?_, ?_, ?_⟩
  · unfold feedCount; by_cases hp : passes = 0 <;> by_cases hl : limit = 0 <;> simp [hp, hl] <;> omega
  · intro hp; unfold feedCount; by_cases hl : limit = 0 <;> simp [hp, hl] <;> omega
  · intro hl; unfold feedCount; simp [hl]; omega
  · rw [he]; exact C15_ring_spec reqs scs ring hnd hw h m

/-- **the loop of `Provider.Run` as regenerated**: one iteration of the model's feed is the regenerated index / pass
arithmetic and stop conditions, and the statements stand in an order in which the index and the pass number are computed
from the counter before it is incremented, both stop conditions are tested before the increment, and the ammo is picked
before it is sent -/
theorem C15_feed_source {α} (ring : List α) (p l fuel k : Nat) :
    feedLoop ring p l (fuel + 1) k =
      (if Gen.C15Walk.feedPassStop p (Gen.C15Walk.feedPassNum k ring.length) then []
       else if Gen.C15Walk.feedLimitStop l k then []
       else match ring[(Gen.C15Walk.feedIndex k ring.length).toNat]? with
         | some a => a :: feedLoop ring p l fuel (k + 1)
         | none => []) ∧
    Gen.C15Walk.feedFacts.all (·.2) = true :=
  ⟨Bridge.C15Walk.feedLoop_gen ring p l fuel k, Bridge.C15Walk.feedFacts_ok⟩

/-! ## round 4: the template cache between the gun and the template library -/

/-- **the templaters' cache is invisible** ("renders URI, headers and body from …" — the request of a step is a function
of its definition and the variables in scope ONLY): `Apply` and `getTemplate` of `TextTemplater` and of `HTMLTemplater`
as regenerated from the source — per part: fetch the template under `templateKey{scenario, step, part[, header name]}`
(cached, else parsed and remembered; nothing is remembered on a parse error), check, execute into the builder, check,
assign, reset; URL, then every header in whatever order the map is visited, then the body when present — run statement
by statement with the builder's buffer and the cache explicit, over an ARBITRARY template library (`parse`, `exec`
which may write partial output before failing) and for EVERY sequence of calls on one templater (any scenarios, steps,
variables, any number of shots and instances one after the other) whose parts are the texts of the request definitions
`defs scenario step`, yield for every call exactly the parts rendered on their own, each from its own text and the
variables of that call: no call sees a template, or a piece of output, of another slot or of an earlier call. -/
theorem C15_template_cache_transparent {τ V : Type} (parse : String → Option τ) (exec : τ → V → String × Bool)
    (defs : String → String → TParts) (calls : List (String × String × TParts × V))
    (hf : ∀ x ∈ calls, Fits defs x.1 x.2.1 x.2.2.1) :
    runApplies Gen.C15Tmpl.applyCodeText Gen.C15Tmpl.getCodeText parse exec id [] calls =
      calls.map (fun x => applyPure parse exec x.2.2.1 x.2.2.2) ∧
    runApplies Gen.C15Tmpl.applyCodeHTML Gen.C15Tmpl.getCodeHTML parse exec id [] calls =
      calls.map (fun x => applyPure parse exec x.2.2.1 x.2.2.2) := by
  refine ⟨Bridge.C15Tmpl.applies_gen parse exec defs calls hf, ?_⟩
  rw [Bridge.C15Tmpl.applyCodeHTML_eq, Bridge.C15Tmpl.getCodeHTML_eq, ← Bridge.C15Tmpl.applyCodeText_eq, ← Bridge.C15Tmpl.getCodeText_eq]
  exact Bridge.C15Tmpl.applies_gen parse exec defs calls hf

/-- **cache keys as regenerated separate the slots**: `templateKey` has the four string fields the call sites fill, the
three `part` constants are pairwise different, every site stores scenario and step, the header site the header name —
so two slots (scenario, step, part, header name) have the same key only if they are the same slot; and the parts handed
to `Apply` are copies of the ammo's (`GetHeaders`, `GetBody` as regenerated from ammo.go). -/
theorem C15_template_key_source (s s' : TSite) (scn stp hk scn' stp' hk' : String)
    (hs : s ∈ [Gen.C15Tmpl.applyCodeText.url.site, Gen.C15Tmpl.applyCodeText.header.site, Gen.C15Tmpl.applyCodeText.body.site])
    (hs' : s' ∈ [Gen.C15Tmpl.applyCodeText.url.site, Gen.C15Tmpl.applyCodeText.header.site, Gen.C15Tmpl.applyCodeText.body.site])
    (h : s.keyOf scn stp hk = s'.keyOf scn' stp' hk') :
    (s = s' ∧ scn = scn' ∧ stp = stp' ∧ (s.keyed = true → hk = hk')) ∧
    Gen.C15Tmpl.keyFields = ["scenario", "step", "part", "key"] ∧ Gen.C15Tmpl.partsFresh.all (·.2) = true := by
  refine ⟨?_, Bridge.C15Tmpl.keyFields_eq, Bridge.C15Tmpl.partsFresh_ok⟩
  have hall := Bridge.C15Tmpl.sites_distinct
  simp only [List.all_cons, List.all_nil, Bool.and_true, Bool.and_eq_true] at hall
  obtain ⟨d1, d2, d3, ⟨a1, a2, a3⟩, _⟩ := hall
  have hb : ∀ t ∈ [Gen.C15Tmpl.applyCodeText.url.site, Gen.C15Tmpl.applyCodeText.header.site, Gen.C15Tmpl.applyCodeText.body.site],
      (t.scen && t.step) = true := by
    intro t ht
    simp only [List.mem_cons, List.not_mem_nil, or_false] at ht
    rcases ht with rfl | rfl | rfl
    · simpa using a1
    · simpa using a2
    · simpa using a3
  obtain ⟨p, e1, e2, e3⟩ := Bridge.C15Tmpl.keyOf_inj s s' scn stp hk scn' stp' hk' (hb s hs) (hb s' hs') h
  have hss : s = s' := by
    simp only [List.mem_cons, List.not_mem_nil, or_false] at hs hs'
    rcases hs with rfl | rfl | rfl <;> rcases hs' with rfl | rfl | rfl <;>
      first | rfl | exact absurd p d1 | exact absurd p d2 | exact absurd p d3
            | exact absurd p.symm d1 | exact absurd p.symm d2 | exact absurd p.symm d3
  subst hss
  exact ⟨rfl, e1, e2, fun k => e3 k k⟩

/-- the full-strength claim for a cache that compares keys by the JOINED text `scenario_step_part_key`
(`templateKey.String()`, what the cache was keyed by before repair 2826876) -/
def C15_template_joined_key_statement : Prop :=
  ∀ (parse : String → Option String) (exec : String → String → String × Bool)
    (defs : String → String → TParts) (calls : List (String × String × TParts × String)),
    (∀ x ∈ calls, Fits defs x.1 x.2.1 x.2.2.1) →
    runApplies Gen.C15Tmpl.applyCodeText Gen.C15Tmpl.getCodeText parse exec TKey.joined [] calls =
      calls.map (fun x => applyPure parse exec x.2.2.1 x.2.2.2)

/-- **`var/jsonpath` as regenerated from the source** (its own loop around `encoding/json` and `jsonpath`, both abstract:
any `decode`, any `get`): the extractor yields nothing for an empty mapping; otherwise it succeeds exactly when the body
decodes and EVERY path of the mapping resolves — one unresolved path fails the step whatever the other entries did, in
whatever order the map is visited — and then it yields exactly the resolved entries. -/
theorem C15_jsonpath_source {β J V : Type} (decode : β → Option J) (get : String → J → Option V)
    (mapping : List (String × String)) (body : β) :
    runJsonpath decode get Gen.C15Tmpl.jsonpathCode mapping body = varJsonpath decode get mapping body ∧
    ((varJsonpath decode get mapping body).isSome = true ↔
      (mapping = [] ∨ ∃ d, decode body = some d ∧ ∀ kp ∈ mapping, (get kp.2 d).isSome = true)) ∧
    (∀ d, decode body = some d → mapping ≠ [] → (∀ kp ∈ mapping, (get kp.2 d).isSome = true) →
      varJsonpath decode get mapping body = some (jResolved get d mapping) ∧
      (jResolved get d mapping).map (·.1) = mapping.map (·.1)) := by
  refine ⟨Bridge.C15Tmpl.jsonpath_gen decode get mapping body, varJsonpath_ok_iff decode get mapping body, ?_⟩
  intro d hd hne hall
  have hres : ∀ m : List (String × String), (∀ kp ∈ m, (get kp.2 d).isSome = true) →
      jAnyFail get d m = false ∧ (jResolved get d m).map (·.1) = m.map (·.1) := by
    intro m
    induction m with
    | nil => intro _; exact ⟨rfl, rfl⟩
    | cons a t ih =>
      obtain ⟨k, p⟩ := a
      intro h
      have hp := h (k, p) (List.mem_cons_self ..)
      obtain ⟨i1, i2⟩ := ih (fun kp hk => h kp (List.mem_cons_of_mem _ hk))
      simp only at hp
      cases hg : get p d with
      | none => rw [hg] at hp; cases hp
      | some v => simp [jAnyFail, jResolved, hg, i1, i2]
  obtain ⟨h1, h2⟩ := hres mapping hall
  refine ⟨?_, h2⟩
  unfold varJsonpath
  cases mapping with
  | nil => exact absurd rfl hne
  | cons a t => simp only [List.isEmpty_cons, Bool.false_eq_true, ↓reduceIte, hd]; rw [resolveAll_eq, h1]; rfl

/-! ## non-vacuity: concrete inputs meeting the hypotheses of every theorem -/

/-! ## round 6: size limits, one report per step, `prepareRequest`, min_waiting_time, concurrent first use of a template -/

/-- **the ring is bounded** (repair 4cfc662): an accepted description spreads into at most `config.MaxSpreadSize` (2^24)
ammo, whatever the weights — larger ones are the error `toolarge`, never a `make` that panics or exhausts the memory -/
theorem C15_spread_bounded {ρ} (reqs : List Char → Option ρ) (scs : List ScenarioCfg) (ring : List (Scenario ρ))
    (hnd : (scs.map (·.name)).Nodup) (hw : ∀ sc ∈ scs, 0 ≤ sc.weight)
    (h : decodeAmmo reqs scs = .ok ring) : (ring.length : Int) ≤ maxSpreadSize :=
  decodeAmmo_len reqs scs ring hnd hw h

/-- the refusal after `SpreadNames` is `config.CheckSpread` as regenerated from the source (total or some count negative
or above `MaxSpreadSize`), applied by `decodeAmmo` before it allocates -/
theorem C15_spread_refused_source (names : List (List Char × Int)) (total : Int) :
    (spreadRefused names total = true ↔
      (Gen.C15Scen.spreadTotalRefused total ∨ ∃ nc ∈ names, Gen.C15Scen.spreadCntRefused nc.2)) ∧
    Gen.C15Scen.spreadChecked = true :=
  ⟨Bridge.C15Scen.spreadRefused_iff names total, rfl⟩

/-- **every executed step is reported exactly once** (seed C15-r6-1: a step the target answered was reported a second
time, as failed, when the pause after it was interrupted): a shot appends exactly one sample per executed step — as many
samples as steps and none of them failed when the shot succeeds; `i + 1` samples of which exactly the last is failed when
step `i` fails. -/
theorem C15_sample_once {Req Resp : Type} (w : World Req Resp) (source : Val) (sc : Scenario ReqDef)
    (g : GState Req) (b : Bool) (g' : GState Req) (h : shoot w source sc g = some (b, g')) :
    ∃ evs, g'.log = g.log ++ evs ∧
      (b = true → evs.countP isSample = sc.steps.length ∧ evs.countP isFailedSample = 0) ∧
      (b = false → ∃ i, i < sc.steps.length ∧ evs.countP isSample = i + 1 ∧ evs.countP isFailedSample = 1 ∧
        ∃ tag, evs.getLast? = some (.sample tag 0 true)) := by
  obtain ⟨hok, hfail⟩ := C15_stop_on_failure w source sc g b g' h
  cases b with
  | true =>
    obtain ⟨rcs, hlen, hlog⟩ := hok rfl
    refine ⟨_, by rw [hlog], fun _ => okRun_samples _ sc.steps rcs hlen, fun hb => by cases hb⟩
  | false =>
    obtain ⟨i, hi, rcs, pre, hlen, hpre, hlog⟩ := hfail rfl
    have hl : rcs.length = (sc.steps.take i).length := by rw [hlen, List.length_take]; omega
    have hcnt := okRun_samples (String.ofList sc.name) (sc.steps.take i) rcs hl
    have hti : (sc.steps.take i).length = i := by rw [List.length_take]; omega
    refine ⟨okRun (String.ofList sc.name) (sc.steps.take i) rcs ++ pre ++
      [.sample (failTag (stepTag (String.ofList sc.name) sc.steps[i])) 0 true], ?_, ?_, ?_⟩
    · rw [hlog]; simp [List.append_assoc]
    · intro hb; cases hb
    · intro _
      refine ⟨i, hi, ?_, ?_, failTag (stepTag (String.ofList sc.name) sc.steps[i]), by simp⟩
      · rcases hpre with rfl | ⟨r, rfl⟩ <;>
          simp [List.countP_append, hcnt.1, hti, isSample, List.countP_cons]
      · rcases hpre with rfl | ⟨r, rfl⟩ <;>
          simp [List.countP_append, hcnt.2, isFailedSample, List.countP_cons]

/-- **from the description through the provider to the wire** (composition decoder → `Provider.Run` → gun): for an
accepted description, whatever the options `passes` / `limit` and the number `n` of ammo an instance takes, the ammo it is
handed are the first `feedCount` deliveries of the ring (in proportion to the weights: `ringOK`), and shooting them one
after the other appends, for each of them in order, a block of events the judge `shotVerdict` accepts for THAT
scenario's step list — nothing else reaches the target or the aggregator. -/
theorem C15_pool_shots {Req Resp : Type} (reqs : List Char → Option ReqDef) (scs : List ScenarioCfg)
    (ring : List (Scenario ReqDef)) (hnd : (scs.map (·.name)).Nodup) (hw : ∀ sc ∈ scs, 0 ≤ sc.weight)
    (hd : decodeAmmo reqs scs = .ok ring) (hne : ring.length ≠ 0) (passes limit n : Nat)
    (w : World Req Resp) (nm : Req → String) (hnm : Named w nm) (source : Val) (g g' : GState Req)
    (h : shootAll w source (feed ring passes limit n) g = some g') :
    ringOK (scs.map (·.name)) (scs.map (·.weight)) ((feed ring passes limit n).map (·.name)) = true ∧
    (feed ring passes limit n).length = feedCount ring.length passes limit n ∧
    ∃ evss : List (List OEv), obsLog nm g'.log = obsLog nm g.log ++ evss.flatten ∧
      evss.length = (feed ring passes limit n).length ∧
      ∀ p ∈ (feed ring passes limit n).zip evss,
        shotVerdict (String.ofList p.1.name) (p.1.steps.map (·.req.name)) p.2 = "ok" := by
  obtain ⟨_, hlen, _, _, _, hok⟩ := C15_feed reqs scs ring hnd hw hd hne passes limit n
  exact ⟨hok, hlen, shootAll_verdict w nm hnm source _ g g' h⟩

/-- **`prepareRequest` as regenerated** (statement list with Go's `err` explicit, over arbitrary `http.NewRequest`,
header canonicalisation and `net.SplitHostPort`) computes the direct reading `prepareRequest` of the model -/
theorem C15_prepare_source (lib : PrepLib) (cfg : PrepCfg) (p : ReqParts) :
    runPrepOps lib cfg p Gen.C15Flow.prepCode {} = some (prepareRequest lib cfg p) := by
  rw [Bridge.C15Flow.prepCode_eq]; exact runPrep_eq lib cfg p

/-- **which host the target sees** (repair 789fa67): when the request can be built, the Host on the wire is the value of
the LAST visited header whose name is `Host` in any case (simple case folding: also `hoſt`), else the host of the
rendered URL, and — when that is empty — the configured target without its port; the connection always goes to the
resolved target, the scheme follows the `ssl` option, and a header named Host is not sent as an ordinary header. -/
theorem C15_prepare_host (lib : PrepLib) (cfg : PrepCfg) (p : ReqParts) (uh : String)
    (hn : lib.newReq p.method p.url = some uh) :
    ∃ q, prepareRequest lib cfg p = some q ∧
      q.host = (let h := (((p.headers.filter fun kv => equalFoldTo "Host" kv.1).getLast?).map (·.2)).getD uh
                if h == "" then hostWithoutPort lib cfg.target else h) ∧
      q.urlHost = cfg.targetResolved ∧ q.scheme = (if cfg.ssl then "https" else "http") ∧
      ((∀ kv ∈ p.headers, equalFoldTo "Host" kv.1 = false) →
        q.header = p.headers.foldl (fun m kv => setKey (lib.canon kv.1) kv.2 m) []) := by
  unfold prepareRequest
  rw [hn]
  refine ⟨_, rfl, ?_, rfl, rfl, ?_⟩
  · simp only [prepHeaders_host]
  · intro hno
    simp only [prepHeaders_header_of_noHost lib p.headers _ hno]

/-- **min_waiting_time** as regenerated from the tail of `shoot`: a shot in which no step failed lasts at least
`min_waiting_time` (the pause added is exactly the remainder, and none when the steps took longer) -/
theorem C15_min_waiting_time (m spent : Int) :
    spent + (Gen.C15Flow.mwtPause m spent).getD 0 = max m spent ∧
    (∀ p, Gen.C15Flow.mwtPause m spent = some p → 0 < p) := by
  rw [Bridge.C15Flow.mwtPause_eq]
  exact ⟨mwtPause_total m spent, fun p => mwtPause_pos m spent p⟩

/-- **concurrent first use of a template slot** (seed C15-r6-2): `getTemplate` of both templaters AS REGENERATED (load; on a
miss parse, check, store; return), executed one statement at a time by any number of instances under EVERY schedule,
never returns a template object that is not parsed — every call that has returned got a parsed object, and every object
the cache ever holds is parsed. -/
theorem C15_template_first_use (sched : List Nat) (t : Nat) :
    ofGetCode Gen.C15Tmpl.getCodeHTML = realGet ∧ ofGetCode Gen.C15Tmpl.getCodeText = realGet ∧
    (((PSys.init realGet).run sched).ths t).exposed = false ∧
    (∀ i, ((PSys.init realGet).run sched).cache = some i → ((PSys.init realGet).run sched).heap.getD i false = true) := by
  have hinv := run_inv (PSys.init realGet) sched init_inv
  refine ⟨by rw [Bridge.C15Tmpl.getCodeHTML_eq]; exact ofGetCode_getCode,
          by rw [Bridge.C15Tmpl.getCodeText_eq]; exact ofGetCode_getCode, (hinv.ths t).1, ?_⟩
  intro i hi
  exact hinv.parsed i (hinv.cache i hi)

section Examples

/-- the request registry of the bundled payload -/
def exReqs : List Char → Option Unit := fun n =>
  if n == "auth_req".toList || n == "list_req".toList || n == "order_req".toList then some () else none

/-- the bundled payload `auth -> list -> order x3` with pauses -/
def exShoots : List (List Char) :=
  ["auth_req(1,100)".toList, "list_req".toList, "sleep(100)".toList, "order_req(3,100)".toList]

-- C15_order_mult: the decoder accepts it; the step list is auth, list (+100 ms from sleep), order ×3
example : (expand exReqs exShoots []).bind (fun s => .ok (s.map proj)) =
    .ok [("auth_req".toList, 100), ("list_req".toList, 100), ("order_req".toList, 100),
         ("order_req".toList, 100), ("order_req".toList, 100)] := by decide

-- C15_order_mult_total: both sides of the iff occur — a leading sleep / an unknown name is refused with an error
example : (parseAll exShoots).map (domOK exReqs · 0) = some true := by decide
example : expand exReqs ["sleep(3)".toList, "auth_req".toList] [] = .err "sleepfirst" ∧
    (parseAll ["sleep(3)".toList, "auth_req".toList]).map (domOK exReqs · 0) = some false := by decide
example : expand exReqs ["auth_req(0)".toList, "sleep".toList] [] = .err "sleepfirst" ∧
    expand exReqs ["nosuch(2)".toList] [] = .err "notfound" ∧ expand exReqs ["auth_req(x)".toList] [] = .err "parse" := by decide

-- repair 1eaf10a: a repeat count that lets the scenario grow beyond 2^20 steps is refused (`decide` on the refusal only:
-- nothing is expanded), also when the total is reached by several items; 2^20 itself is the domain's edge
example : expand exReqs ["auth_req(1048577)".toList] [] = .err "toomany" ∧
    expand exReqs ["auth_req(3)".toList, "list_req(1048574)".toList] [] = .err "toomany" ∧
    (parseAll ["auth_req(3)".toList, "list_req(1048574)".toList]).map (domOK exReqs · 0) = some false ∧
    (parseAll ["auth_req(3)".toList, "list_req(1048573)".toList]).map (domOK exReqs · 0) = some true := by decide

-- C15_template_first_use is not blind: the publish-first order of seed C15-r6-2 under the schedule "instance 0 publishes
-- the empty object, instance 1 loads and returns it" exposes an unparsed template; the real order under the same
-- schedule (and a longer one in which both finish) does not
example : (((PSys.init publishFirst).run [0, 1, 1, 1]).ths 1).exposed = true ∧
    (((PSys.init realGet).run [0, 1, 1, 1, 0, 0, 1, 1, 0, 0, 0, 1, 1, 1, 0]).ths 1).exposed = false ∧
    (((PSys.init realGet).run [0, 1, 1, 1, 0, 0, 1, 1, 0, 0, 0, 1, 1, 1, 0]).ths 1).returned = some (some 0) := by decide

/-- a toy library for `prepareRequest`: the URL `//u/a` carries a host, `X-A` is canonicalised to `x-a` -/
def exPrepLib : PrepLib :=
  { newReq := fun m u => if m == "BAD" then none else if u == "//u/a" then some "url.host" else some "",
    canon := fun k => if k == "X-A" then "x-a" else k,
    splitHost := fun t => if t == "127.0.0.1:8080" then some "127.0.0.1" else none }

-- C15_prepare_host: a Host header in any case (also with the long s) wins, is not sent as a header, the default is the
-- target without port; an error of NewRequest is returned
example : (prepareRequest exPrepLib ⟨false, "127.0.0.1:8080", "10.0.0.1:80"⟩
      ⟨"/a", "GET", none, [("X-A", "1"), ("hoſt", "example.org"), ("x-a", "2")]⟩).map (fun q => (q.host, q.urlHost, q.scheme, q.header)) =
      some ("example.org", "10.0.0.1:80", "http", [("x-a", "2")]) ∧
    (prepareRequest exPrepLib ⟨true, "127.0.0.1:8080", "10.0.0.1:80"⟩ ⟨"/a", "GET", some "b", []⟩).map (fun q => (q.host, q.scheme, q.hasBody)) =
      some ("127.0.0.1", "https", true) ∧
    (prepareRequest exPrepLib ⟨true, "nohostport", "x"⟩ ⟨"//u/a", "GET", none, [("Host", "")]⟩).map (·.host) = some "nohostport" ∧
    prepareRequest exPrepLib ⟨true, "t", "x"⟩ ⟨"/a", "BAD", none, []⟩ = none := by decide

/-- text of a leaf of a variable tree -/
def strAt : Val → List String → Option String
  | .str s, [] => some s
  | .map m, k :: rest =>
    match getKey k m with
    | some v => strAt v rest
    | none => none
  | _, _ => none

/-- a world: requests render as `<name>:<token captured by step a>`; the `failAt`-th request gets a transport error;
postprocessor 0 captures `tok` -/
def exWorld (failAt : Nat) : World String Nat where
  render := fun d t => some (d.name ++ ":" ++ ((strAt (.map t) ["request", "a", "postprocessor", "tok"]).getD "-"))
  target := fun hist => if hist.length == failAt then none else some 200
  post := fun id _ => if id == 0 then some [("tok", .str "T")] else some []
  code := fun r => r

def exSc : Scenario ReqDef :=
  { name := "s".toList, minWaitingTime := 0,
    steps := [{ name := "a".toList, req := { name := "a", pre := none, iter := 0, posts := [0] }, sleep := 3 },
              { name := "b".toList, req := { name := "b", pre := none, iter := 0, posts := [] }, sleep := 0 },
              { name := "b".toList, req := { name := "b", pre := none, iter := 0, posts := [] }, sleep := 0 }] }

def exG : GState String := { iter := Iter.empty, hist := [], log := [] }

-- C15_stop_on_failure, b = true: all three steps in order, the pause after a, and (C15_var_flow) step b sees a's token
example : (shoot (exWorld 9) (.map []) exSc exG).map (fun r => (r.1, r.2.log)) =
    some (true, [.request "a:-", .sample "s.a" 200 false, .pause 3, .request "b:T", .sample "s.b" 200 false,
                 .request "b:T", .sample "s.b" 200 false]) := by decide

-- C15_stop_on_failure, b = false: the 2nd request fails — one failed sample for step 1 and nothing of step 2
example : (shoot (exWorld 2) (.map []) exSc exG).map (fun r => (r.1, r.2.log)) =
    some (false, [.request "a:-", .sample "s.a" 200 false, .pause 3, .request "b:T",
                  .sample "s.b|__EMPTY__" 0 true]) := by decide


-- C15_shot_verdict: a world whose requests are pairs (name of the definition, rendered text) is `Named` by the first
-- component; the judge accepts the outside view of its shots (one that fails at the 2nd request, one that does not) and is
-- NOT blind: it rejects a log that goes on after the failed step, one that skips a step without a failure, and one whose
-- samples are out of the listed order
def exWorldP (failAt : Nat) : World (String × String) Nat where
  render := fun d t => some (d.name, (strAt (.map t) ["request", "a", "postprocessor", "tok"]).getD "-")
  target := fun hist => if hist.length == failAt then none else some 200
  post := fun id _ => if id == 0 then some [("tok", .str "T")] else some []
  code := fun r => r
example (k : Nat) : Named (exWorldP k) Prod.fst := by
  intro d t r h
  cases h
  rfl
example : (shoot (exWorldP 2) (.map []) exSc { iter := Iter.empty, hist := [], log := [] }).map
      (fun r => (obsLog Prod.fst r.2.log, shotVerdict "s" ["a", "b", "b"] (obsLog Prod.fst r.2.log))) =
    some ([.req "a", .sample "s.a" false, .req "b", .sample "s.b|__EMPTY__" true], "ok") ∧
  (shoot (exWorldP 9) (.map []) exSc { iter := Iter.empty, hist := [], log := [] }).map
      (fun r => shotVerdict "s" ["a", "b", "b"] (obsLog Prod.fst r.2.log)) = some "ok" := by decide
example : shotVerdict "s" ["a", "b", "b"]
      [.req "a", .sample "s.a" false, .req "b", .sample "s.b|__EMPTY__" true, .req "b", .sample "s.b" false] =
    "fail:stop:events after the failed step" ∧
  shotVerdict "s" ["a", "b", "b"] [.req "a", .sample "s.a" false, .req "b", .sample "s.b" false] =
    "fail:mult:no failure but not every step was executed" ∧
  shotVerdict "s" ["a", "b", "b"] [.req "b", .sample "s.b" false] =
    "fail:order:sample tags do not follow the listed order" := by decide

-- C15_assert_outcome: a 20-byte response against `size lt 7` alone (fails: the body IS measured), against a combined
-- block that holds, and the header capture `x-tok|lower|substr(1,-1)|replace(0,zz)` of `H0x0`
def exResp : RespView :=
  { status := 200, body := "{\"tok\":\"T0x0\",\"n\":0}".toList,
    header := fun n => if n.map lowerC == "x-tok".toList then "H0x0".toList else [] }
example : assertResponse { headers := [], body := [], status := 0, size := some { val := 7, op := "lt" } } exResp = false ∧
    assertResponse { headers := [("X-Tok".toList, "0x".toList)], body := ["tok".toList], status := 200,
                     size := some { val := 20, op := "=" } } exResp = true ∧
    assertResponse { headers := [], body := ["ZZ".toList], status := 0, size := none } exResp = false := by decide
example : (varHeader [("h", "x-tok|lower|substr(1,-1)|replace(0,zz)".toList), ("m", "X-None|upper".toList)] exResp).toOption.map
      (fun vs => vs.map fun kv => (kv.1, match kv.2 with | .str s => s | _ => "?")) = some [("h", "zzx")] ∧
    (varHeader [("h", "x-tok|nosuch".toList)] exResp).toOption.isNone = true ∧ substrBounds (-1) 0 4 = (3, 4) ∧
    substrBounds 7 (-9) 4 = (0, 4) := by decide

-- C15_shoot_code_source: the interpreter is NOT blind. A world whose first extractor (id 0) fails and whose second
-- (id 1) passes; `b2` has both. With the code of the repository the step is reported failed; with the check moved behind
-- the loop (only the LAST extractor's error survives) it is reported successful; a loop that does not return on an error
-- goes on to the next step; a send whose error is not checked leaves the model (a nil response is used)
def exWorld2 : World String Nat where
  render := fun d _ => some d.name
  target := fun _ => some 200
  post := fun id _ => if id == 0 then none else some []
  code := fun r => r
def exSc2 : Scenario ReqDef :=
  { name := "s".toList, minWaitingTime := 0,
    steps := [{ name := "b2".toList, req := { name := "b2", pre := none, iter := 0, posts := [0, 1] }, sleep := 0 },
              { name := "c".toList, req := { name := "c", pre := none, iter := 0, posts := [] }, sleep := 0 }] }
def lateCheck : List SOp :=
  [.initVars, .pre, .chk, .storePre, .template, .chk, .prepare, .chk, .send, .chk, .readBody, .chk,
   .posts [.call, .merge, .rewind], .chk, .storePost, .setCode, .report, .pause]
example : ((runShootCode exWorld2 (.map []) "s" Gen.C15Flow.stepCode Gen.C15Flow.onStepErr exSc2.steps [] exG true).map
      fun r => (r.1, r.2.log)) = some (false, [.request "b2", .sample "s.b2|__EMPTY__" 0 true]) ∧
    ((runShootCode exWorld2 (.map []) "s" lateCheck onStepErr exSc2.steps [] exG true).map fun r => (r.1, r.2.log)) =
      some (true, [.request "b2", .sample "s.b2" 200 false, .request "c", .sample "s.c" 200 false]) ∧
    ((runShootCode exWorld2 (.map []) "s" stepCode [.reportErr] exSc2.steps [] exG true).map fun r => (r.1, r.2.log)) =
      some (false, [.request "b2", .sample "s.b2|__EMPTY__" 0 true, .request "c", .sample "s.c" 200 false]) ∧
    ((runShootCode (exWorld 1) (.map []) "s" (stepCode.eraseIdx 9) onStepErr exSc.steps [] exG true).isNone = true) := by
  decide

-- C15_expand_source / C15_index_source / C15_assert_source / C15_substr_source on concrete values
example : Gen.C15Flow.parseShoot atoi "a( 2 , 3 )".toList = .ok ("a".toList, 2, 3) ∧
    Gen.C15Flow.parseShoot atoi "a(,5)".toList = .ok ("a".toList, 1, 5) ∧
    Gen.C15Flow.parseShoot atoi "a(x)".toList = .err "parse" ∧
    (Gen.C15Flow.convShoot atoi exReqs "sleep(7)".toList [{ name := "a".toList, req := (), sleep := 1 }]).bind
      (fun s => .ok (s.map proj)) = .ok [("a".toList, 8)] ∧
    Gen.C15Flow.convShoot atoi exReqs "sleep(7)".toList [] = .err "sleepfirst" ∧
    Gen.C15Flow.idxNumeric (-1) 5 = 4 ∧ Gen.C15Flow.idxNumeric 12 5 = 2 ∧ Gen.C15Flow.idxNumeric 3 5 = 3 ∧
    Gen.C15Flow.assertSizeFails "lt" 7 20 = some true ∧ Gen.C15Flow.assertSizeFails ">" 7 20 = some false ∧
    Gen.C15Flow.assertSizeFails "ge" 7 20 = none ∧ Gen.C15Flow.substrBounds 1 (-1) 4 = (1, 3) := by decide

-- C15_step_outcome / C15_stop_first_failure: in `exWorld 2` the first step succeeds and the second does not
example : StepSucceeds (exWorld 2) (.map []) exSc.steps[0] [] exG :=
  ⟨[], Iter.empty, "a:-", 200, [("tok", .str "T")], rfl, by decide, by decide, rfl⟩

-- C15_var_flow / C15_var_visible: the trees handed to the templater, read at `.request.a.postprocessor.tok`
example : (shoot (exWorld 9) (.map []) exSc exG).map
      (fun r => r.2.seen.map fun t => strAt (.map t) ["request", "a", "postprocessor", "tok"]) =
    some [none, some "T", some "T"] := by decide

-- C15_gcd / C15_gcdm: two and three weights
example : GCD 6 4 = some 2 ∧ GCDM [6, 4, 2] = some 2 ∧ GCDM [6, 10, 15] = some 1 ∧ GCDM [4, 6, 8, 10] = some 2 := by decide

def exScs : List ScenarioCfg :=
  [{ name := "s1".toList, weight := 6, minWaitingTime := 0, requests := ["auth_req(2)".toList] },
   { name := "s2".toList, weight := 4, minWaitingTime := 0, requests := ["list_req".toList, "sleep(5)".toList] },
   { name := "s3".toList, weight := 0, minWaitingTime := 7, requests := ["order_req".toList] }]

-- C15_weights: hypotheses hold (distinct names, weights ≥ 0, decodeAmmo succeeds); weights 6 : 4 : (absent → 1)
example : (exScs.map (·.name)).Nodup ∧ (∀ sc ∈ exScs, 0 ≤ sc.weight) := by decide
example : (decodeAmmo exReqs exScs).bind (fun ring => .ok (ring.map (String.ofList ·.name))) =
    .ok ["s1", "s1", "s1", "s1", "s1", "s1", "s2", "s2", "s2", "s2", "s3"] := by decide
example : decodeAmmo exReqs ({ name := "neg".toList, weight := -1, minWaitingTime := 0, requests := [] } :: exScs) =
    .err "negweight" := by decide
example : (decodeAmmo exReqs (exScs.take 2)).bind (fun ring => .ok (ring.map (String.ofList ·.name))) =
    .ok ["s1", "s1", "s1", "s2", "s2"] := by decide


-- C15_ring_spec: the judge accepts 25 deliveries of the 6 : 4 : absent ring, and rejects a 6 : 3 : 2 ring
example : ringOK (exScs.map (·.name)) (exScs.map (·.weight))
    ((List.range 25).filterMap fun k => (["s1", "s1", "s1", "s1", "s1", "s1", "s2", "s2", "s2", "s2", "s3"].map String.toList)[k % 11]?) = true ∧
  ringOK (exScs.map (·.name)) (exScs.map (·.weight))
    ((List.range 25).filterMap fun k => (["s1", "s1", "s1", "s1", "s1", "s1", "s2", "s2", "s2", "s3", "s3"].map String.toList)[k % 11]?) = false := by
  decide

/-- two threads, each drawing twice from the same counter -/
def exKey : CKey := (0, ".source.users")
def exProg : NProg := fun _ got => if got.length < 2 then some exKey else none

-- C15_next_round_robin: an interleaving with blocked Lock attempts; thread 1 gets two consecutive values
example : let s := NSys.init.run exProg [0, 1, 0, 0, 1, 0, 1, 0, 1, 1, 0, 1, 1, 1, 0, 1, 1, 0, 0, 1, 0, 0]
    (s.vals exKey, s.got 0, s.got 1, (s.vals exKey).map (rowOf 3)) = ([0, 1, 2, 3], [0, 3], [1, 2], [0, 1, 2, 0]) := by
  decide


-- C15_next_code_round_robin: the same two threads at instruction level; thread 1 is blocked in `lock` twice
def exSched : List Nat := [0, 0, 1, 1, 0, 1, 0, 0, 0, 1, 1, 1, 1, 1, 1, 1, 1, 1, 1, 1, 1, 1, 1, 0, 0, 0, 0, 0, 0, 0]
example : let s := LSys.init.run Gen.C15Scen.nextCode exProg exSched
    (s.vals exKey, s.got 0, s.got 1, s.fault) = ([0, 1, 2, 3], [0, 3], [1, 2], false) := by
  decide

/-- two threads, one draw each -/
def exProg1 : NProg := fun _ got => if got.length < 1 then some exKey else none

/-- a `Next` whose lookup and insert are two critical sections (the counter itself being atomic) -/
def splitCode : NextCode :=
  { pre := [.lock, .mapGet, .unlock], miss := [.lock, .putFresh, .unlock, .ret0], hit := [.add 1, .retAdd] }

-- the semantics is not blind: under the schedule "both lookups before the first insert" the split code hands out
-- row 0 twice (and the second insert replaces the counter the first one created), while `nextCode` cannot
example : let s := LSys.init.run splitCode exProg1 [0, 0, 0, 0, 1, 1, 1, 1, 0, 0, 0, 0, 1, 1, 1, 1]
    (s.vals exKey, s.got 0, s.got 1) = ([0, 0], [0], [0]) := by decide
example : let s := LSys.init.run nextCode exProg1 [0, 0, 0, 0, 1, 1, 1, 1, 0, 0, 0, 0, 1, 1, 1, 1, 1, 1]
    (s.vals exKey, s.got 0, s.got 1) = ([0, 1], [0], [1]) := by decide

-- C15_next_index_source / C15_gcd_source / C15_gcdm_source / C15_spread_source on concrete values
example : Gen.C15Scen.nextIndex 7 3 = 1 ∧ Gen.C15Scen.GCD 6 4 = some 2 ∧ Gen.C15Scen.GCDM [4, 6, 3] = some 1 ∧
    Gen.C15Scen.GCDM [6, 10, 15] = some 1 ∧ Gen.C15Scen.GCDM [4, 6, 8, 10] = some 2 := by decide

-- C15_next_row / C15_empty_source_is_error
example : (calcIndex "next" ".source.users" 3 0 { Iter.empty with gs := [((0, ".source.users"), 6)] }).bind
    (fun r => .ok r.1) = .ok 1 := by decide
example : (calcIndex "last" ".source.users" 0 0 Iter.empty).bind (fun r => .ok r.1) = .err "empty" := by decide


/-! ### round 3: path walk, `calcIndex` dispatch, template functions, feed -/

/-- two data sources whose lists have the same field name -/
def exVars : List (String × Val) :=
  [("source", .map [("buyers", .map [("rows", .list [.str "b0", .str "b1", .str "b2"])]),
                    ("sellers", .map [("rows", .list [.str "s0", .str "s1", .str "s2"])])])]

/-- the first values of two lookups in a row -/
def twoLookups (code : WalkCode) (p1 p2 : List String) : Option (Val × Val) :=
  match walkBy code 0 p1 exVars "" Iter.empty with
  | some (.ok (v1, it)) =>
    match walkBy code 0 p2 exVars "" it with
    | some (.ok (v2, _)) => some (v1, v2)
    | _ => none
  | _ => none

def strOf : Option (Val × Val) → Option (String × String)
  | some (.str a, .str b) => some (a, b)
  | _ => none

/-- the loop body with the counter keyed by the bare field name (seeded change C15-r3-2) -/
def bareKeyCode : WalkCode := { walkCode with indexed := [.openIdx '[', .indexStr true true 1 1, .cutName, .lookup, .extract .segment, .descend] }

def valStr : Val → String
  | .str s => s
  | _ => "?"

-- the regenerated code gives each list its own counter, the bare-key code makes them share one
unseal lowerS in
example : strOf (twoLookups Gen.C15Walk.walkCode ["source", "buyers", "rows[next]"] ["source", "sellers", "rows[next]"]) = some ("b0", "s0") ∧
    strOf (twoLookups bareKeyCode ["source", "buyers", "rows[next]"] ["source", "sellers", "rows[next]"]) = some ("b0", "s1") := by decide

/-- the loop body without `strings.ToLower` -/
def noLowerCode : WalkCode := { walkCode with indexed := [.openIdx '[', .indexStr false true 1 1, .cutName, .lookup, .extract .builder, .descend] }

unseal lowerS in
example : (walkBy Gen.C15Walk.walkCode 0 ["source", " buyers ", "rows[ LAST ]"] exVars "" Iter.empty).map (fun o => o.bind fun r => .ok (valStr r.1)) = some (.ok "b2") ∧
    (walkBy noLowerCode 0 ["source", " buyers ", "rows[ LAST ]"] exVars "" Iter.empty).map (fun o => o.bind fun r => .ok (valStr r.1)) = some (.err "bad-index") := by decide

/-- `calcIndex` with the `[last]` branch moved in front of the empty-list guard -/
def lastFirstCode : List COp :=
  [.atoi, .refuseBad ["next", "rand", "last"], .last "last", .refuseEmpty, .numeric ["next", "rand", "last"], .rand "rand", .next]

-- on an empty list the regenerated code refuses, the reordered code returns −1 (the caller then indexes out of range)
example : (runCOps "last" ".source.users" 0 0 Gen.C15Walk.calcCode none Iter.empty).map (fun o => o.bind fun r => .ok r.1) = some (.err "empty") ∧
    (runCOps "last" ".source.users" 0 0 lastFirstCode none Iter.empty).map (fun o => o.bind fun r => .ok r.1) = some (.ok (-1)) ∧
    (runCOps "-4" ".source.users" 3 0 Gen.C15Walk.calcCode none Iter.empty).map (fun o => o.bind fun r => .ok r.1) = some (.ok 2) ∧
    (runCOps "first" ".source.users" 3 0 Gen.C15Walk.calcCode none Iter.empty).map (fun o => o.bind fun r => .ok r.1) = some (.err "bad-index") := by decide

-- `parseStr`: the name is not trimmed, the arguments are; a missing `)` is tolerated; only one `)` is removed
example : parseStrF "randString( 3 ,z )".toList = ("randString".toList, ["3".toList, "z".toList]) ∧
    parseStrF "randString(2,z".toList = ("randString".toList, ["2".toList, "z".toList]) ∧
    parseStrF "uuid()".toList = ("uuid".toList, []) ∧
    parseStrF " randString(2)".toList = (" randString".toList, ["2".toList]) ∧
    parseStrF "source.users[next].id".toList = ("source.users[next].id".toList, []) := by decide

/-- a function library for the examples: `randString(n, c)` over one letter -/
def exFn : String → List Val → Option String := fun name args =>
  match name, args with
  | "randString", [.str n, .str c] => (atoi n.toList).map fun k => String.ofList (List.replicate k.toNat (c.toList.headD (Char.ofNat 120)))
  | _, _ => none

def exTree : List (String × Val) :=
  [("source", .map [("users", .list [.map [("id", .str "u0")], .map [("id", .str "u1")]])]),
   ("request", .map [("a", .map [("postprocessor", .map [("h", .str "3")])])])]

def entryStr (o : Outcome (Val × Iter)) : Outcome String := o.bind fun r => .ok (match r.1 with | .str s => s | _ => "?")

-- a function whose count is a captured value, a literal count, an unknown name (looked up as a path), a plain path
unseal lowerS in
example : entryStr (resolveEntryBy Gen.C15Walk.entryCode exFn exTree "randString(request.a.postprocessor.h, z)" 0 Iter.empty) = .ok "zzz" ∧
    entryStr (resolveEntry exFn exTree "randString(2, q)" 0 Iter.empty) = .ok "qq" ∧
    entryStr (resolveEntry exFn exTree "nosuch(1)" 0 Iter.empty) = .err "segment-not-found" ∧
    entryStr (resolveEntry exFn exTree "source.users[next].id" 0 Iter.empty) = .ok "u0" := by decide

-- with `nil` instead of the literal text for an argument that is no variable (mutant) the same call fails
unseal lowerS in
example : entryStr (resolveEntryBy { entryCode with argErr := .nilValue } exFn exTree "randString(2, q)" 0 Iter.empty) = .err "template-func" := by decide

-- the feed: three ammo per pass; two passes; a limit of four; both; unlimited
example : feed ["a", "b", "c"] 2 0 10 = ["a", "b", "c", "a", "b", "c"] ∧ feed ["a", "b", "c"] 0 4 10 = ["a", "b", "c", "a"] ∧
    feed ["a", "b", "c"] 2 4 10 = ["a", "b", "c", "a"] ∧ feed ["a", "b", "c"] 0 0 5 = ["a", "b", "c", "a", "b"] ∧
    feedCount 3 2 0 10 = 6 ∧ feedCount 3 0 4 10 = 4 ∧ feedCount 3 2 4 10 = 4 ∧ feedCount 3 0 0 5 = 5 ∧
    ringPeriod [6, 4, 2] = 6 ∧ ringPeriod [0] = 1 := by decide

-- C15_feed: hypotheses hold (the ring of `exScs.take 2` has 5 entries); one pass with a limit of 7 gives 5, two passes 7
example : (decodeAmmo exReqs (exScs.take 2)).bind (fun ring => .ok ((feed ring 1 7 20).map (String.ofList ·.name), ring.length)) =
      .ok (["s1", "s1", "s1", "s2", "s2"], 5) ∧
    (decodeAmmo exReqs (exScs.take 2)).bind (fun ring => .ok ((feed ring 2 7 20).map (String.ofList ·.name))) =
      .ok ["s1", "s1", "s1", "s2", "s2", "s1", "s1"] := by decide


-- C15_template_cache_transparent: the hypotheses hold of three calls (the third one is served from the cache, a header is named `url`)
example : runApplies Gen.C15Tmpl.applyCodeText Gen.C15Tmpl.getCodeText tExParse tExExec id [] tExCalls =
    [some { url := "/x!", headers := [("h", "1!"), ("url", "2!")], body := some "B!" },
     some { url := "/y?", headers := [], body := none },
     some { url := "/x#", headers := [("h", "1#"), ("url", "2#")], body := some "B#" }] := by decide

-- … and the interpretation is not blind: without `reset` (a builder that keeps what an earlier part wrote) the second
-- header carries the first one's text; with the error check of `Execute` dropped a failed template is sent half rendered
example : (runApply { applyCode with header := { applyCode.header with ops := [.get, .chk, .exec, .chk, .assign] } } getCode
      tExParse tExExec id [] "a_b" "c" (tExDefs "a_b" "c") "!").1 =
    some { url := "/x!", headers := [("h", "1!"), ("url", "1!2!")], body := some "1!2!B!" } := by decide
example : (runApply { applyCode with url := { applyCode.url with ops := [.get, .chk, .exec, .assign, .reset] } } getCode
      tExParse tExExec id [] "s" "t" { url := "boom", headers := [], body := none } "!").1 =
    some { url := "par", headers := [], body := none } ∧
    (runApply applyCode getCode tExParse tExExec id [] "s" "t" { url := "boom", headers := [], body := none } "!").1 = none := by decide


-- C15_jsonpath_source: both sides occur (bodies are key lists, a path resolves when it is one of the keys); and the
-- interpretation is not blind: with the `continue` branch dropped an unresolved path is skipped and the step succeeds
example : varJsonpath (fun (b : List String) => if b.isEmpty then none else some b) (fun p d => if d.contains p then some p else none)
      [("tok", "a"), ("n", "b")] ["a", "b", "c"] = some [("tok", "a"), ("n", "b")] ∧
    varJsonpath (fun (b : List String) => if b.isEmpty then none else some b) (fun p d => if d.contains p then some p else none)
      [("tok", "a"), ("n", "zz")] ["a", "b", "c"] = none ∧
    runJsonpath (fun (b : List String) => if b.isEmpty then none else some b) (fun p d => if d.contains p then some p else none)
      { jsonpathCode with loop := [.get, .store] } [("tok", "a"), ("n", "zz")] ["a", "b", "c"] = some [("tok", "a")] := by decide

end Examples

/-- **a cache keyed by the joined text is NOT invisible**: scenario `a_b` / step `c` and scenario `a` / step `b_c` share
the key text `a_b_c_url_`, the second is rendered from the first one's template -/
theorem C15_template_joined_key_counterexample : ¬ C15_template_joined_key_statement := by
  intro h
  have := h tExParse tExExec tExDefs tExCalls tExCalls_fit
  revert this
  decide


end Pandora.Props.C15
