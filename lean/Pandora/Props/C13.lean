/-
C13 — malformed ammo, scenario or config input is rejected, never crashes or hangs.

All theorems are about the REPAIRED code (`fixed := true`, fixes/C13-*.diff) unless a name says
`unrepaired`; they quantify over ALL inputs (all byte strings, all ints, all paths, all oracles for
the third-party `url.Parse`), with no size bound.  The models (`Pandora.Model.C13*`) make every
partial Go operation an explicit `panic` outcome, so "no panic" is a real statement: it is proved
by exhibiting the bound each slice / index / remainder / `Intn` / `make` relies on.

* `C13_no_panic_*`      the function returns a value or an error, never panics or dies
* `C13_rejected_*`      a malformed input is answered by an error
* `C13_prefix_preserved_*` entries before the malformed part are delivered exactly as without it
* `C13_terminates_*`    the decoding loop stops (measure: unread bytes)
* `C13_unrepaired_*`    the same models with `fixed := false` (the tree as found) do panic on the witnesses
-/
import Pandora.Proofs.C13Ammo
import Pandora.Proofs.C13Funcs

namespace Pandora.Props.C13
open Pandora.Model.C13 Pandora.Proofs.C13

/-- a provider run ended by plain return: end of data, or an error value -/
def Returned (r : Run) : Prop := r.end_ = .ok ∨ ∃ c, r.end_ = .err c

/-- `good` is a complete well-formed piece of a size-prefixed file: decoded alone it ends at the end of data
and leaves no unread bytes (its last entry is complete and its last line is terminated) -/
def WellFormed (run : Bytes → Run) (good : Bytes) : Prop := (run good).end_ = .ok ∧ (run good).rest = []

theorem clean_returned {r : Run} (h : End.clean r.end_) : Returned r := by
  unfold Returned
  cases he : r.end_ with
  | ok => left; rfl
  | err c => right; exact ⟨c, rfl⟩
  | panic => rw [he] at h; exact absurd h (by simp [End.clean])
  | fatal => rw [he] at h; exact absurd h (by simp [End.clean])
  | fuel => rw [he] at h; exact absurd h (by simp [End.clean])

/-! ## never panics -/

/-- uripost files: every byte string, every `url.Parse` oracle -/
theorem C13_no_panic_uripost (urlOk : Bytes → Bool) (s : Bytes) : Returned (uripostRun true urlOk s) :=
  clean_returned (runSteps_end_clean _ (uripostStep_clean urlOk) _ s (by omega) (uripostStep_decreases true urlOk))

/-- raw (size-prefixed HTTP request) files: every byte string -/
theorem C13_no_panic_raw (s : Bytes) : Returned (rawRun true s) :=
  clean_returned (runSteps_end_clean _ rawStep_clean _ s (by omega) (rawStep_decreases true))

/-- uri files: every byte string (this decoder needed no repair) -/
theorem C13_no_panic_uri (urlOk : Bytes → Bool) (s : Bytes) : Returned (uriRun urlOk s) :=
  clean_returned (uriLines_end_clean urlOk _)

/-- `util.DecodeHeader` on every string: `h[0]`, `h[len-1]`, `h[1:len-1]` are inside the string -/
theorem C13_no_panic_decodeHeader (h : Bytes) : (decodeHeader h).returns = true := decodeHeader_returns h

/-- `str.ParseStringFunc` on every string: the three slice expressions are inside the string -/
theorem C13_no_panic_parseStringFunc (shoot : Bytes) : (parseStringFunc shoot).returns = true :=
  parseStringFunc_returns shoot

theorem C13_no_panic_parseShootName (shoot : Bytes) : (parseShootName shoot).returns = true :=
  parseShootName_returns shoot

/-- scenario request lists (http and grpc `convertScenarioToAmmo`): every list of strings, every request registry -/
theorem C13_no_panic_expand (known : Bytes → Bool) (reqs : List Bytes) : (expand true known reqs).returns = true :=
  expandGo_fixed_returns known reqs []

/-- `mp.calcIndex`: every index string, every length (empty, negative), every iterator value:
an error, or an index inside `[0, length)` - which is what makes the following `v[index]` safe -/
theorem C13_no_panic_calcIndex (indexStr : Bytes) (length next : Int) (rnd : Nat) (hnext : 0 ≤ next) :
    (∃ c, calcIndex true indexStr length next rnd = .err c) ∨
    (∃ i, calcIndex true indexStr length next rnd = .ok i ∧ 0 ≤ i ∧ i < length) :=
  calcIndex_fixed indexStr length next rnd hnext

/-- `mp.GetMapValue`: every variable tree, every path, every iterator state -/
theorem C13_no_panic_getMapValue (cur : List (Bytes × Val)) (path : Bytes) (st : IterState) (rnd : Nat) :
    (getMapValue true cur path st rnd).1.returns = true :=
  getGo_fixed_returns rnd _ _

/-- `${type:var}` placeholders: every string, every environment, every file system -/
theorem C13_no_panic_resolveTags (env : Bytes → Option Bytes) (fileOf : Bytes → Option (List Bytes)) (s : Bytes) :
    (resolveTags true env fileOf s).returns = true :=
  resolveGo_fixed_returns env fileOf _ _

theorem C13_no_panic_propertyResolve (fileOf : Bytes → Option (List Bytes)) (inp : Bytes) :
    (propertyResolve true fileOf inp).returns = true :=
  propertyResolve_fixed_returns fileOf inp

/-- `randInt(f, t)`: all pairs of integers (equal, reversed, spanning more than int64) -/
theorem C13_no_panic_randInt (f t : Int) (rnd : Nat) : (randInt true f t rnd).returns = true :=
  randInt_fixed_returns f t rnd

/-- `cli.readConfig`: every shape of the `pools` value (missing, scalar, list with non-mapping items) -/
theorem C13_no_panic_readConfig (p : PoolsVal) : ∃ v, massagePools true p = .ok v := massagePools_fixed p

/-! ## terminates (measure: number of unread bytes; holds for the unrepaired code too) -/

theorem C13_terminates_uripost (fixed : Bool) (urlOk : Bytes → Bool) (s : Bytes) :
    (uripostRun fixed urlOk s).end_ ≠ .fuel :=
  runSteps_no_fuel _ (uripostStep_decreases fixed urlOk) (uripostStep_fail_bad fixed urlOk) _ s (by omega)

theorem C13_terminates_raw (fixed : Bool) (s : Bytes) : (rawRun fixed s).end_ ≠ .fuel :=
  runSteps_no_fuel _ (rawStep_decreases fixed) (rawStep_fail_bad fixed) _ s (by omega)

/-- every decoding step that does not stop consumes at least one byte -/
theorem C13_terminates_step (fixed : Bool) (urlOk : Bytes → Bool) (s : Bytes) :
    Step.decreases s (uripostStep fixed urlOk s) ∧ Step.decreases s (rawStep fixed s) :=
  ⟨uripostStep_decreases fixed urlOk s, rawStep_decreases fixed s⟩

/-! ## prefix preserved -/

theorem uripostRun_append (fixed : Bool) (urlOk : Bytes → Bool) (good junk : Bytes)
    (h : WellFormed (uripostRun fixed urlOk) good) :
    uripostRun fixed urlOk (good ++ junk) =
      (uripostRun fixed urlOk junk).prepend (uripostRun fixed urlOk good).entries := by
  have := runSteps_append (uripostStep fixed urlOk) (uripostStep_decreases fixed urlOk) (uripostStep_fail_bad fixed urlOk)
    (uripostStep_appendOk fixed urlOk) junk (good.length + 1) good (by omega) h.1 h.2
  unfold uripostRun
  have e : (good ++ junk).length + 1 = good.length + 1 + junk.length := by simp; omega
  rw [e]; exact this

/-- uripost: whatever follows a well-formed piece of file - garbage, a negative size, a truncated entry, nothing -
the entries of the well-formed piece are delivered unchanged and first; the rest is decoded as if it stood alone -/
theorem C13_prefix_preserved_uripost (fixed : Bool) (urlOk : Bytes → Bool) (good junk : Bytes)
    (h : WellFormed (uripostRun fixed urlOk) good) :
    (uripostRun fixed urlOk (good ++ junk)).entries =
      (uripostRun fixed urlOk good).entries ++ (uripostRun fixed urlOk junk).entries := by
  rw [uripostRun_append fixed urlOk good junk h]; rfl

theorem rawRun_append (fixed : Bool) (good junk : Bytes) (h : WellFormed (rawRun fixed) good) :
    rawRun fixed (good ++ junk) = (rawRun fixed junk).prepend (rawRun fixed good).entries := by
  have := runSteps_append (rawStep fixed) (rawStep_decreases fixed) (rawStep_fail_bad fixed)
    (rawStep_appendOk fixed) junk (good.length + 1) good (by omega) h.1 h.2
  unfold rawRun
  have e : (good ++ junk).length + 1 = good.length + 1 + junk.length := by simp; omega
  rw [e]; exact this

theorem C13_prefix_preserved_raw (fixed : Bool) (good junk : Bytes) (h : WellFormed (rawRun fixed) good) :
    (rawRun fixed (good ++ junk)).entries = (rawRun fixed good).entries ++ (rawRun fixed junk).entries := by
  rw [rawRun_append fixed good junk h]; rfl

/-- uri: `good` is a block of complete lines (the `\n` after it is written explicitly) that decodes cleanly -/
theorem C13_prefix_preserved_uri (urlOk : Bytes → Bool) (good junk : Bytes) (h : (uriRun urlOk good).end_ = .ok) :
    uriRun urlOk (good ++ 10 :: junk) = (uriRun urlOk junk).prepend (uriRun urlOk good).entries := by
  unfold uriRun at h ⊢
  have hne := split_ne_nil good 10
  have hsplit : split good 10 = (split good 10).dropLast ++ [(split good 10).getLast hne] :=
    (List.dropLast_concat_getLast hne).symm
  rw [split_append_sep good junk 10 _ _ hsplit]
  have e : (split good 10).dropLast ++ (split good 10).getLast hne :: split junk 10 = split good 10 ++ split junk 10 := by
    conv => rhs; rw [hsplit]
    simp
  rw [e]
  exact uriLines_append urlOk _ _ h

/-! ## rejected -/

/-- a negative announced size is an error (uripost and raw share the reader) -/
theorem C13_rejected_negative_size (size : Int) (rest : Bytes) (h : size < 0) :
    readBody true size rest = .err "size" := by
  rcases readBody_fixed size rest with ⟨_, h'⟩ | ⟨h0, _, _⟩ | ⟨h0, _, _⟩
  · exact h'
  · omega
  · omega

/-- an announced size beyond what the file holds (truncated body, absurdly large size) is an error,
whatever the size: nothing is allocated from the announced number -/
theorem C13_rejected_oversize (size : Int) (rest : Bytes) (h : size > rest.length) :
    readBody true size rest = .err "trunc" ∨ readBody true size rest = .err "size" := by
  rcases readBody_fixed size rest with ⟨_, h'⟩ | ⟨_, _, h'⟩ | ⟨_, h1, _⟩
  · right; exact h'
  · left; exact h'
  · omega

/-- uripost: if the first thing after a well-formed piece is something the decoder refuses, the run delivers exactly
the well-formed entries and ends with that refusal, which is an error value -/
theorem C13_rejected_uripost (urlOk : Bytes → Bool) (good junk : Bytes) (e : End)
    (h : WellFormed (uripostRun true urlOk) good) (hj : uripostStep true urlOk junk = .fail e) :
    uripostRun true urlOk (good ++ junk) = ⟨(uripostRun true urlOk good).entries, e, junk⟩ ∧ ∃ c, e = .err c := by
  constructor
  · have hjr : uripostRun true urlOk junk = ⟨[], e, junk⟩ := by
      unfold uripostRun; rw [runSteps]; simp [hj]
    rw [uripostRun_append true urlOk good junk h, hjr]
    simp [Run.prepend]
  · have := uripostStep_clean urlOk junk
    rw [hj] at this
    cases e <;> simp [Step.clean, End.isErr] at this
    exact ⟨_, rfl⟩

theorem C13_rejected_raw (good junk : Bytes) (e : End)
    (h : WellFormed (rawRun true) good) (hj : rawStep true junk = .fail e) :
    rawRun true (good ++ junk) = ⟨(rawRun true good).entries, e, junk⟩ ∧ ∃ c, e = .err c := by
  constructor
  · have hjr : rawRun true junk = ⟨[], e, junk⟩ := by
      unfold rawRun; rw [runSteps]; simp [hj]
    rw [rawRun_append true good junk h, hjr]
    simp [Run.prepend]
  · have := rawStep_clean junk
    rw [hj] at this
    cases e <;> simp [Step.clean, End.isErr] at this
    exact ⟨_, rfl⟩

/-- a size line with a negative size is refused by the uripost step, whatever follows -/
theorem C13_rejected_uripost_negative_line (urlOk : Bytes → Bool) (line rest : Bytes) (size : Int) (uri tag : Bytes) (b : UInt8)
    (hne : ¬ (trimSpace line).isEmpty) (hb : indexC (trimSpace line) 0 = .ok b) (hb' : b ≠ 91)
    (hd : decodeURI (trimSpace line) = .ok (size, uri, tag)) (hu : urlOk uri = true) (hneg : size < 0) :
    uripostLine true urlOk line rest = .fail (.err "size") := by
  unfold uripostLine
  simp only [hne, Bool.false_eq_true, if_false, hb]
  split
  · rename_i heq; simp at heq; exact absurd heq hb'
  · simp [hd, hu, C13_rejected_negative_size size rest hneg, endOfRes]
  · rename_i h1 h2; exact absurd rfl (h2 b)

/-- a header line that does not end with `]` is an error -/
theorem C13_rejected_header_no_bracket (h : Bytes) (hl : 3 ≤ h.length)
    (hlast : indexC h ((h.length : Int) - 1) = .ok b) (hb : b ≠ 93) : decodeHeader h = .err "hdr" := by
  unfold decodeHeader
  have : ¬ h.length < 3 := by omega
  simp only [this, if_false]
  obtain ⟨a, ha⟩ := indexC_ok h 0 (by omega) (by omega)
  rw [ha]; simp only
  split
  · rfl
  · rw [hlast]; simp [hb]

/-- a scenario whose request list starts with `sleep(…)` is an error at provider construction -/
theorem C13_rejected_leading_sleep (known : Bytes → Bool) (sh : Bytes) (rest : List Bytes) (cnt sl : Int)
    (h : parseShootName sh = .ok ⟨sleepName, cnt, sl⟩) :
    expand true known (sh :: rest) = .err "leading-sleep" := by
  unfold expand expandGo
  simp [h, addSleep]

/-- a request name that is not defined makes the scenario an error, wherever it stands in the list -/
theorem C13_rejected_unknown_request (known : Bytes → Bool) (pre : List Bytes) (sh : Bytes) (rest : List Bytes)
    (name : Bytes) (cnt sl : Int) (h : parseShootName sh = .ok ⟨name, cnt, sl⟩)
    (hn : name ≠ sleepName) (hk : known name = false) :
    (expand true known (pre ++ sh :: rest)).isOk = false ∧ (expand true known (pre ++ sh :: rest)).returns = true := by
  refine ⟨expandGo_rejects true known pre sh rest ?_ [], expandGo_fixed_returns known _ []⟩
  intro acc
  unfold expandGo
  simp [h, hn, hk, Res.isOk]

/-- `name(n)` with a count that is not an integer (or any other string `ParseShootName` refuses) -/
theorem C13_rejected_bad_shoot (known : Bytes → Bool) (pre : List Bytes) (sh : Bytes) (rest : List Bytes) (c : String)
    (h : parseShootName sh = .err c) :
    (expand true known (pre ++ sh :: rest)).isOk = false ∧ (expand true known (pre ++ sh :: rest)).returns = true := by
  refine ⟨expandGo_rejects true known pre sh rest ?_ [], expandGo_fixed_returns known _ []⟩
  intro acc
  unfold expandGo
  simp [h, Res.isOk]

/-- `[next]`, `[rand]`, `[last]`, `[0]`, `[-1]`, … on an empty source -/
theorem C13_rejected_empty_source (indexStr : Bytes) (next : Int) (rnd : Nat) :
    ∃ c, calcIndex true indexStr 0 next rnd = .err c := calcIndex_fixed_empty indexStr next rnd

/-- `${property:file}` without `#` -/
theorem C13_rejected_property_no_hash (fileOf : Bytes → Option (List Bytes)) (inp : Bytes)
    (h : cut inp 35 = none) : propertyResolve true fileOf inp = .err "format" :=
  propertyResolve_fixed_no_hash fileOf inp h

/-- `randInt(f, f)` for an in-range `f`: a value in `[f, f+10)` -/
theorem C13_randInt_equal_bounds (f : Int) (rnd : Nat) (h0 : minInt64 ≤ f) (h1 : f + 10 ≤ maxInt64) (hf : f ≠ 0) :
    ∃ v, randInt true f f rnd = .ok v ∧ f ≤ v ∧ v < f + 10 := by
  unfold randInt randIntBounds
  have e1 : wrap64 (f + 10) = f + 10 := wrap64_id _ (by unfold minInt64 at *; omega) h1
  have e2 : wrap64 (f + 10 - f) = 10 := by
    have : f + 10 - f = 10 := by omega
    rw [this]; unfold wrap64; omega
  simp [hf, e1, e2]
  rw [intnC_ok 10 rnd (by omega)]
  simp only
  have hm0 : 0 ≤ Int.ofNat rnd % 10 := Int.emod_nonneg _ (by omega)
  have hm1 : Int.ofNat rnd % 10 < 10 := Int.emod_lt_of_pos _ (by omega)
  refine ⟨_, rfl, ?_, ?_⟩
  · rw [wrap64_id _ (by unfold minInt64 at *; omega) (by unfold maxInt64 at *; omega)]; omega
  · rw [wrap64_id _ (by unfold minInt64 at *; omega) (by unfold maxInt64 at *; omega)]; omega

/-- after the massage of `readConfig` every pool that is a mapping carries `discard_overflow`, and nothing else changed shape -/
theorem C13_readConfig_massage (items : List PoolItem) :
    ∃ l, massagePools true (.list items) = .ok (.list l) ∧ l.length = items.length ∧
      ∀ i ∈ l, i = .mapping true ∨ i = .other := by
  induction items with
  | nil => exact ⟨[], by simp [massagePools, massageItems], rfl, by simp⟩
  | cons i rest ih =>
    obtain ⟨l, hl, hlen, hall⟩ := ih
    have hl' : massageItems true rest = .ok l := by
      unfold massagePools at hl
      cases hm : massageItems true rest with
      | ok l' => simp [hm] at hl; rw [hl]
      | err c => simp [hm, Res.castFail] at hl
      | panic w => simp [hm, Res.castFail] at hl
      | fatal w => simp [hm, Res.castFail] at hl
    cases i with
    | mapping d =>
      refine ⟨.mapping true :: l, by simp [massagePools, massageItems, hl'], by simp [hlen], ?_⟩
      intro x hx; simp at hx; rcases hx with rfl | hx
      · left; rfl
      · exact hall x hx
    | other =>
      refine ⟨.other :: l, by simp [massagePools, massageItems, hl'], by simp [hlen], ?_⟩
      intro x hx; simp at hx; rcases hx with rfl | hx
      · right; rfl
      · exact hall x hx

/-! ## concrete witnesses: non-vacuity of the hypotheses above, and the defects of the unrepaired tree -/

namespace Ex
def anyUrl : Bytes → Bool := fun _ => true
/-- `5 /a t\nhello\n` -/
def good1 : Bytes := [53, 32, 47, 97, 32, 116, 10, 104, 101, 108, 108, 111, 10]
/-- `-1 /b t2\n` -/
def junkNeg : Bytes := [45, 49, 32, 47, 98, 32, 116, 50, 10]
/-- `9 /b t2\nshort\n` -/
def junkTrunc : Bytes := [57, 32, 47, 98, 32, 116, 50, 10, 115, 104, 111, 114, 116, 10]
/-- `[Host example.com\n0 /b\n` -/
def junkHdr : Bytes := [91, 72, 111, 115, 116, 32, 101, 120, 97, 109, 112, 108, 101, 46, 99, 111, 109, 10, 48, 32, 47, 98, 10]
/-- `-5 /a\n` -/
def negOnly : Bytes := [45, 53, 32, 47, 97, 10]
/-- `99999999999999 /a t\n` -/
def huge : Bytes := [57, 57, 57, 57, 57, 57, 57, 57, 57, 57, 57, 57, 57, 57, 32, 47, 97, 32, 116, 10]
/-- `16 t1\nGET / HTTP/1.0\n\n\n` -/
def rawGood : Bytes := [49, 54, 32, 116, 49, 10, 71, 69, 84, 32, 47, 32, 72, 84, 84, 80, 47, 49, 46, 48, 10, 10, 10]
/-- `-5 t\n` -/
def rawNeg : Bytes := [45, 53, 32, 116, 10]
/-- `[A: b]\n/a t` -/
def uriGood : Bytes := [91, 65, 58, 32, 98, 93, 10, 47, 97, 32, 116]
/-- `[broken\n/b\n` -/
def uriJunk : Bytes := [91, 98, 114, 111, 107, 101, 110, 10, 47, 98, 10]
def sleep10 : Bytes := [115, 108, 101, 101, 112, 40, 49, 48, 41]
def r1 : Bytes := [114, 49]
/-- `r1(2, 50)` -/
def r1x2 : Bytes := [114, 49, 40, 50, 44, 32, 53, 48, 41]
def nosuch : Bytes := [110, 111, 115, 117, 99, 104, 40, 49, 41]
/-- `r1(x)` -/
def r1bad : Bytes := [114, 49, 40, 120, 41]
/-- `[Host: example.com` -/
def hdrNoClose : Bytes := [91, 72, 111, 115, 116, 58, 32, 101, 120, 97, 109, 112, 108, 101, 46, 99, 111, 109]
/-- `/tmp/x` -/
def propNoHash : Bytes := [47, 116, 109, 112, 47, 120]
/-- `source.users[next]` -/
def pathNext : Bytes := [115, 111, 117, 114, 99, 101, 46, 117, 115, 101, 114, 115, 91, 110, 101, 120, 116, 93]
def source : Bytes := [115, 111, 117, 114, 99, 101]
def users : Bytes := [117, 115, 101, 114, 115]
/-- `${property:/tmp/x}` -/
def tagProp : Bytes := [36, 123, 112, 114, 111, 112, 101, 114, 116, 121, 58, 47, 116, 109, 112, 47, 120, 125]
def emptySource : List (Bytes × Val) := [(source, .map [(users, .arr true [])])]
def knownR1 : Bytes → Bool := fun n => n = r1
end Ex

open Ex

/- the well-formed piece is well-formed, and each kind of junk is refused: the hypotheses of
`C13_rejected_uripost` / `C13_prefix_preserved_uripost` are met by real files -/
example : WellFormed (uripostRun true anyUrl) good1 := by unfold WellFormed; decide
example : uripostStep true anyUrl junkNeg = .fail (.err "size") := by decide
example : uripostStep true anyUrl junkTrunc = .fail (.err "trunc") := by decide
example : uripostStep true anyUrl junkHdr = .fail (.err "hdr") := by decide
example : uripostRun true anyUrl (good1 ++ junkNeg) = ⟨[⟨[116], [47, 97], [104, 101, 108, 108, 111]⟩], .err "size", junkNeg⟩ := by decide
example : uripostRun true anyUrl huge = ⟨[], .err "trunc", huge⟩ := by decide
example : WellFormed (rawRun true) rawGood := by unfold WellFormed; decide
example : rawStep true rawNeg = .fail (.err "size") := by decide
example : (uriRun anyUrl uriGood).end_ = .ok ∧ (uriRun anyUrl uriGood).entries.length = 1 := by decide
example : (uriRun anyUrl (uriGood ++ 10 :: uriJunk)).end_ = .err "hdr" ∧ (uriRun anyUrl (uriGood ++ 10 :: uriJunk)).entries.length = 1 := by decide
example : decodeHeader hdrNoClose = .err "hdr" := by decide
example : parseShootName sleep10 = .ok ⟨sleepName, 10, 0⟩ := by decide
example : expand true knownR1 [r1x2, sleep10, r1] = .ok [(r1, 50), (r1, 60), (r1, 0)] := by decide
example : expand true knownR1 [sleep10, r1] = .err "leading-sleep" := by decide
example : expand true knownR1 [r1, nosuch] = .err "unknown-request" := by decide
example : ∃ c, parseShootName r1bad = .err c := ⟨"count", by decide⟩
example : cut propNoHash 35 = none := by decide
example : resolveTags true (fun _ => none) (fun _ => none) tagProp = .err "format" := by decide
example : (getMapValue true emptySource pathNext [] 0).1.isErr = true := by decide

/-- the tree as found: a negative size panics in `make([]byte, size)` -/
theorem C13_unrepaired_negative_size_panics :
    (uripostRun false anyUrl negOnly).end_ = .panic ∧ (rawRun false rawNeg).end_ = .panic := by decide

/-- the tree as found: a huge size is a fatal out-of-memory (not even recoverable) -/
theorem C13_unrepaired_huge_size_fatal : (uripostRun false anyUrl huge).end_ = .fatal := by decide

/-- the tree as found: a well-formed entry followed by the negative size - the run panics -/
theorem C13_unrepaired_prefix_then_panic :
    uripostRun false anyUrl (good1 ++ junkNeg) = ⟨[⟨[116], [47, 97], [104, 101, 108, 108, 111]⟩], .panic, junkNeg⟩ := by decide

/-- the tree as found: `requests: [sleep(10), r1]` indexes `Requests[-1]` -/
theorem C13_unrepaired_leading_sleep_panics : (expand false knownR1 [sleep10, r1]).isPanic = true := by decide

/-- the tree as found: `[next]` on an empty source divides by zero; `[last]` indexes -1; `[rand]` calls Intn(0) -/
theorem C13_unrepaired_empty_source_panics :
    (calcIndex false kwNext 0 0 0).isPanic = true ∧ (calcIndex false kwRand 0 0 0).isPanic = true ∧
    (calcIndex false [48] 0 0 0).isPanic = true ∧
    (getMapValue false emptySource pathNext [] 0).1.isPanic = true := by decide

/-- the tree as found: `${property:/tmp/x}` indexes `split[1]` of a one-element slice -/
theorem C13_unrepaired_property_no_hash_panics :
    (resolveTags false (fun _ => none) (fun _ => none) tagProp).isPanic = true := by decide

/-- the tree as found: `randInt(5,5)` calls `rand.Int63n(-10)` -/
theorem C13_unrepaired_randInt_equal_panics : (randInt false 5 5 0).isPanic = true := by decide

/-- the tree as found: a config without `pools`, or with a scalar among the pools, panics in a type assertion -/
theorem C13_unrepaired_readConfig_panics :
    (massagePools false .absent).isPanic = true ∧ (massagePools false (.list [.mapping false, .other])).isPanic = true := by decide

end Pandora.Props.C13
