/-
C13 — malformed ammo, scenario or config input is rejected, never crashes or hangs.

The models (`Pandora.Model.C13*`) make every partial Go operation an explicit outcome - slice / index expression,
`make` with a negative or absurd size, integer remainder and division, `Intn`, type assertion, method call on a nil
interface - so "no panic" is a real statement: it is proved by exhibiting the bound each operation relies on.
Every model carries the code variant `fixed : Bool`: `true` is the repaired code (the `fix:` commits of /repo and
fixes/C13-*.diff), `false` the tree as found. All theorems quantify over ALL inputs (all byte strings, all integers,
all paths, all weight lists, all oracles for the third-party `url.Parse` / jsoniter), with no size bound.

* `C13_no_panic`             the function returns a value or an error, never panics or dies   (+ one theorem per component)
* `C13_rejected_or_skipped`  a malformed input is answered by an error, or skipped with continue_on_error
* `C13_prefix_preserved`     entries before the malformed part are delivered exactly as without it
* `C13_terminates`           the decoding loops stop (measure: unread bytes), the GCD loop stops, an empty pass is not repeated
                             (grpc/json, the four http decoders, `MultiPassReader` under the generic JSON provider)
* `…_counterexample`         the statement for `fixed := false` is refuted by the witness of the defect
* `C13_unrepaired_*`         the same witnesses, as computed facts about the tree as found
-/
import Pandora.Proofs.C13Ammo
import Pandora.Proofs.C13Funcs
import Pandora.Proofs.C13Multi
import Pandora.Proofs.C13Jsonline
import Pandora.Proofs.C13Grpc
import Pandora.Proofs.C13Cfg
import Pandora.Proofs.C13Csv
import Pandora.Proofs.C13R6
import Pandora.Bridge.C13

namespace Pandora.Props.C13
open Pandora.Model.C13 Pandora.Proofs.C13

/-- a provider run ended by plain return: end of data, or an error value -/
def Returned (r : Run) : Prop := r.end_ = .ok ∨ ∃ c, r.end_ = .err c

/-- the same for a grpc/json run -/
def GReturned (r : GRun) : Prop := r.end_ = .ok ∨ ∃ c, r.end_ = .err c

/-- `good` is a complete well-formed piece of a raw file: decoded alone it ends at the end of data, and it is empty or
ends with a newline (since dbbf16d the raw decoder decodes a last line without newline, which more bytes would lengthen) -/
def WellFormed (run : Bytes → Run) (good : Bytes) : Prop := (run good).end_ = .ok ∧ Terminated good

/-- `good` is a well-formed piece of a uripost file: decoded alone it ends at the end of data, and it is empty or ends
with a newline (the uripost decoder also decodes a last line without newline, which more bytes would lengthen) -/
def WellFormedU (run : Bytes → Run) (good : Bytes) : Prop := (run good).end_ = .ok ∧ Terminated good

/-! ## never panics -/

/-- uripost files: every byte string, every `url.Parse` oracle -/
theorem C13_no_panic_uripost (urlOk : Bytes → Bool) (s : Bytes) : Returned (uripostRun true urlOk s) :=
  clean_returned (runSteps_end_clean _ (uripostStep_clean urlOk) _ s (by omega) (uripostStep_decreases true urlOk))

/-- raw (size-prefixed HTTP request) files: every byte string -/
theorem C13_no_panic_raw (s : Bytes) : Returned (rawRun true s) :=
  clean_returned (runSteps_end_clean _ rawStep_clean _ s (by omega) (rawStep_decreases true))

/-- uri files: every byte string (this decoder needed no repair) -/
theorem C13_no_panic_uri (urlOk : Bytes → Bool) (s : Bytes) : Returned (uriRun urlOk s) :=
  clean_returned (uriLines_end_clean urlOk _)

/-- `util.DecodeHeader` on every string: `h[0]`, `h[len-1]`, `h[1:len-1]` are inside the string -/
theorem C13_no_panic_decodeHeader (h : Bytes) : (decodeHeader h).returns = true := decodeHeader_returns h

/-- `str.ParseStringFunc` on every string: the three slice expressions are inside the string -/
theorem C13_no_panic_parseStringFunc (shoot : Bytes) : (parseStringFunc shoot).returns = true :=
  parseStringFunc_returns shoot

theorem C13_no_panic_parseShootName (shoot : Bytes) : (parseShootName shoot).returns = true :=
  parseShootName_returns shoot

/-- scenario request lists (http and grpc `convertScenarioToAmmo`): every list of strings, every request registry -/
theorem C13_no_panic_expand (known : Bytes → Bool) (reqs : List Bytes) : (expand true known reqs).returns = true :=
  expandGo_fixed_returns known reqs []

/-- `mp.calcIndex`: every index string, every length (empty, negative), every iterator value:
an error, or an index inside `[0, length)` - which is what makes the following `v[index]` safe -/
theorem C13_no_panic_calcIndex (indexStr : Bytes) (length next : Int) (rnd : Nat) (hnext : 0 ≤ next) :
    (∃ c, calcIndex true indexStr length next rnd = .err c) ∨
    (∃ i, calcIndex true indexStr length next rnd = .ok i ∧ 0 ≤ i ∧ i < length) :=
  calcIndex_fixed indexStr length next rnd hnext

/-- `mp.GetMapValue`: every variable tree, every path, every iterator state -/
theorem C13_no_panic_getMapValue (cur : List (Bytes × Val)) (path : Bytes) (st : IterState) (rnd : Nat) :
    (getMapValue true cur path st rnd).1.returns = true :=
  getGo_fixed_returns rnd _ _

/-- `${type:var}` placeholders: every string, every environment, every file system -/
theorem C13_no_panic_resolveTags (env : Bytes → Option Bytes) (fileOf : Bytes → Option (List Bytes)) (s : Bytes) :
    (resolveTags true env fileOf s).returns = true :=
  resolveGo_fixed_returns env fileOf _ _

theorem C13_no_panic_propertyResolve (fileOf : Bytes → Option (List Bytes)) (inp : Bytes) :
    (propertyResolve true fileOf inp).returns = true :=
  propertyResolve_fixed_returns fileOf inp

/-- `randInt(f, t)`: all pairs of integers (equal, reversed, spanning more than int64) -/
theorem C13_no_panic_randInt (f t : Int) (rnd : Nat) : (randInt true f t rnd).returns = true :=
  randInt_fixed_returns f t rnd

/-- `cli.readConfig`: every shape of the `pools` value (missing, scalar, list with non-mapping items) -/
theorem C13_no_panic_readConfig (p : PoolsVal) : ∃ v, massagePools true p = .ok v := massagePools_fixed p

/-! ## terminates (measure: number of unread bytes; holds for the unrepaired code too) -/

theorem C13_terminates_uripost (fixed : Bool) (urlOk : Bytes → Bool) (s : Bytes) :
    (uripostRun fixed urlOk s).end_ ≠ .fuel :=
  runSteps_no_fuel _ (uripostStep_decreases fixed urlOk) (uripostStep_fail_bad fixed urlOk) _ s (by omega)

theorem C13_terminates_raw (fixed : Bool) (s : Bytes) : (rawRun fixed s).end_ ≠ .fuel :=
  runSteps_no_fuel _ (rawStep_decreases fixed) (rawStep_fail_bad fixed) _ s (by omega)

/-- every decoding step that does not stop consumes at least one byte -/
theorem C13_terminates_step (fixed : Bool) (urlOk : Bytes → Bool) (s : Bytes) :
    Step.decreases s (uripostStep fixed urlOk s) ∧ Step.decreases s (rawStep fixed s) :=
  ⟨uripostStep_decreases fixed urlOk s, rawStep_decreases fixed s⟩

/-! ## prefix preserved -/

/-- uripost: whatever follows a well-formed piece of file - garbage, a negative size, a truncated entry, nothing -
the entries of the well-formed piece are delivered unchanged and first; the rest is decoded as if it stood alone -/
theorem C13_prefix_preserved_uripost (fixed : Bool) (urlOk : Bytes → Bool) (good junk : Bytes)
    (h : WellFormedU (uripostRun fixed urlOk) good) :
    (uripostRun fixed urlOk (good ++ junk)).entries =
      (uripostRun fixed urlOk good).entries ++ (uripostRun fixed urlOk junk).entries := by
  rw [uripostRun_append fixed urlOk good junk h.1 h.2]; rfl

theorem C13_prefix_preserved_raw (fixed : Bool) (good junk : Bytes) (h : WellFormed (rawRun fixed) good) :
    (rawRun fixed (good ++ junk)).entries = (rawRun fixed good).entries ++ (rawRun fixed junk).entries := by
  rw [rawRun_append fixed good junk h.1 h.2]; rfl

/-- uri: `good` is a block of complete lines (the `\n` after it is written explicitly) that decodes cleanly -/
theorem C13_prefix_preserved_uri (urlOk : Bytes → Bool) (good junk : Bytes) (h : (uriRun urlOk good).end_ = .ok) :
    uriRun urlOk (good ++ 10 :: junk) = (uriRun urlOk junk).prepend (uriRun urlOk good).entries := by
  unfold uriRun at h ⊢
  have hne := split_ne_nil good 10
  have hsplit : split good 10 = (split good 10).dropLast ++ [(split good 10).getLast hne] :=
    (List.dropLast_concat_getLast hne).symm
  rw [split_append_sep good junk 10 _ _ hsplit]
  have e : (split good 10).dropLast ++ (split good 10).getLast hne :: split junk 10 = split good 10 ++ split junk 10 := by
    conv => rhs; rw [hsplit]
    simp
  rw [e]
  exact uriLines_append urlOk _ _ h

/-! ## rejected -/

/-- a negative announced size is an error (uripost and raw share the reader) -/
theorem C13_rejected_negative_size (size : Int) (rest : Bytes) (h : size < 0) :
    readBody true size rest = .err "size" := by
  rcases readBody_fixed size rest with ⟨_, h'⟩ | ⟨h0, _, _⟩ | ⟨h0, _, _⟩
  · exact h'
  · omega
  · omega

/-- an announced size beyond what the file holds (truncated body, absurdly large size) is an error,
whatever the size: nothing is allocated from the announced number -/
theorem C13_rejected_oversize (size : Int) (rest : Bytes) (h : size > rest.length) :
    readBody true size rest = .err "trunc" ∨ readBody true size rest = .err "size" := by
  rcases readBody_fixed size rest with ⟨_, h'⟩ | ⟨_, _, h'⟩ | ⟨_, h1, _⟩
  · right; exact h'
  · left; exact h'
  · omega

/-- uripost: if the first thing after a well-formed piece is something the decoder refuses, the run delivers exactly
the well-formed entries and ends with that refusal, which is an error value -/
theorem C13_rejected_uripost (urlOk : Bytes → Bool) (good junk : Bytes) (e : End)
    (h : WellFormedU (uripostRun true urlOk) good) (hj : uripostStep true urlOk junk = .fail e) :
    uripostRun true urlOk (good ++ junk) = ⟨(uripostRun true urlOk good).entries, e, junk⟩ ∧ ∃ c, e = .err c := by
  constructor
  · have hjr : uripostRun true urlOk junk = ⟨[], e, junk⟩ := by
      unfold uripostRun; rw [runSteps]; simp [hj]
    rw [uripostRun_append true urlOk good junk h.1 h.2, hjr]
    simp [Run.prepend]
  · have := uripostStep_clean urlOk junk
    rw [hj] at this
    cases e <;> simp [Step.clean, End.isErr] at this
    exact ⟨_, rfl⟩

theorem C13_rejected_raw (good junk : Bytes) (e : End)
    (h : WellFormed (rawRun true) good) (hj : rawStep true junk = .fail e) :
    rawRun true (good ++ junk) = ⟨(rawRun true good).entries, e, junk⟩ ∧ ∃ c, e = .err c := by
  constructor
  · have hjr : rawRun true junk = ⟨[], e, junk⟩ := by
      unfold rawRun; rw [runSteps]; simp [hj]
    rw [rawRun_append true good junk h.1 h.2, hjr]
    simp [Run.prepend]
  · have := rawStep_clean junk
    rw [hj] at this
    cases e <;> simp [Step.clean, End.isErr] at this
    exact ⟨_, rfl⟩

/-- raw, since dbbf16d: a LAST size line that lacks its newline and announces a request (`size ≠ 0`) is refused - nothing
follows it, so what it announces is not there - after exactly the entries of the well-formed piece in front of it
(before dbbf16d the line was dropped and the truncated file accepted: `C13_unrepaired_raw_drops_last_size_line`) -/
theorem C13_rejected_raw_unterminated_size_line (good line : Bytes) (size : Int) (tag : Bytes)
    (h : WellFormed (rawRun true) good) (hnl : cut line 10 = none) (hne : ¬ (trimSpace line).isEmpty)
    (hd : decodeRawHeader (trimSpace line) = .ok (size, tag)) (hs : size ≠ 0) :
    (rawRun true (good ++ line)).entries = (rawRun true good).entries ∧
    ((rawRun true (good ++ line)).end_ = .err "trunc" ∨ (rawRun true (good ++ line)).end_ = .err "size") := by
  have hl : line ≠ [] := by
    intro hl; subst hl; exact hne (by decide)
  have hr : readLineU line = some (line, []) := by
    unfold readLineU; rw [hnl]; cases line with
    | nil => exact absurd rfl hl
    | cons _ _ => simp
  have hstep : ∃ e, rawStep true line = .fail e ∧ (e = .err "trunc" ∨ e = .err "size") := by
    unfold rawStep; rw [hr]; simp only
    unfold rawLine; simp only [hne, if_false, hd, hs]
    rcases readBody_fixed size [] with ⟨_, h'⟩ | ⟨_, _, h'⟩ | ⟨h0, h1, _⟩
    · exact ⟨_, by rw [h']; simp [endOfRes], .inr rfl⟩
    · exact ⟨_, by rw [h']; simp [endOfRes], .inl rfl⟩
    · simp at h1; omega
  obtain ⟨e, he, hcls⟩ := hstep
  have := (C13_rejected_raw good line e h he).1
  rw [this]
  exact ⟨rfl, hcls⟩

/-- a size line with a negative size is refused by the uripost step, whatever follows -/
theorem C13_rejected_uripost_negative_line (urlOk : Bytes → Bool) (line rest : Bytes) (size : Int) (uri tag : Bytes) (b : UInt8)
    (hne : ¬ (trimSpace line).isEmpty) (hb : indexC (trimSpace line) 0 = .ok b) (hb' : b ≠ 91)
    (hd : decodeURI (trimSpace line) = .ok (size, uri, tag)) (hu : urlOk uri = true) (hneg : size < 0) :
    uripostLine true urlOk line rest = .fail (.err "size") := by
  unfold uripostLine
  simp only [hne, Bool.false_eq_true, if_false, hb]
  -- (`simp only` has already chosen the `.ok _` arm: the literal arm `.ok 91` is excluded by `hb'`)
  split
  · rename_i sz u t heq
    rw [hd] at heq
    simp only [Res.ok.injEq, Prod.mk.injEq] at heq
    obtain ⟨rfl, rfl, rfl⟩ := heq
    simp [hu, C13_rejected_negative_size size rest hneg, endOfRes]
  · rename_i h2; exact absurd hd (h2 size uri tag)

/-- a header line that does not end with `]` is an error -/
theorem C13_rejected_header_no_bracket (h : Bytes) (hl : 3 ≤ h.length)
    (hlast : indexC h ((h.length : Int) - 1) = .ok b) (hb : b ≠ 93) : decodeHeader h = .err "hdr" := by
  unfold decodeHeader
  have : ¬ h.length < 3 := by omega
  simp only [this, if_false]
  obtain ⟨a, ha⟩ := indexC_ok h 0 (by omega) (by omega)
  rw [ha]; simp only
  split
  · rfl
  · rw [hlast]; simp [hb]

/-- a scenario whose request list starts with `sleep(…)` is an error at provider construction -/
theorem C13_rejected_leading_sleep (known : Bytes → Bool) (sh : Bytes) (rest : List Bytes) (cnt sl : Int)
    (h : parseShootName sh = .ok ⟨sleepName, cnt, sl⟩) :
    expand true known (sh :: rest) = .err "leading-sleep" := by
  unfold expand expandGo
  simp [h, addSleep]

/-- a request name that is not defined makes the scenario an error, wherever it stands in the list -/
theorem C13_rejected_unknown_request (known : Bytes → Bool) (pre : List Bytes) (sh : Bytes) (rest : List Bytes)
    (name : Bytes) (cnt sl : Int) (h : parseShootName sh = .ok ⟨name, cnt, sl⟩)
    (hn : name ≠ sleepName) (hk : known name = false) :
    (expand true known (pre ++ sh :: rest)).isOk = false ∧ (expand true known (pre ++ sh :: rest)).returns = true := by
  refine ⟨expandGo_rejects true known pre sh rest ?_ [], expandGo_fixed_returns known _ []⟩
  intro acc
  unfold expandGo
  simp [h, hn, hk, Res.isOk]

/-- `name(n)` with a count that is not an integer (or any other string `ParseShootName` refuses) -/
theorem C13_rejected_bad_shoot (known : Bytes → Bool) (pre : List Bytes) (sh : Bytes) (rest : List Bytes) (c : String)
    (h : parseShootName sh = .err c) :
    (expand true known (pre ++ sh :: rest)).isOk = false ∧ (expand true known (pre ++ sh :: rest)).returns = true := by
  refine ⟨expandGo_rejects true known pre sh rest ?_ [], expandGo_fixed_returns known _ []⟩
  intro acc
  unfold expandGo
  simp [h, Res.isOk]

/-- `[next]`, `[rand]`, `[last]`, `[0]`, `[-1]`, … on an empty source -/
theorem C13_rejected_empty_source (indexStr : Bytes) (next : Int) (rnd : Nat) :
    ∃ c, calcIndex true indexStr 0 next rnd = .err c := calcIndex_fixed_empty indexStr next rnd

/-- `${property:file}` without `#` -/
theorem C13_rejected_property_no_hash (fileOf : Bytes → Option (List Bytes)) (inp : Bytes)
    (h : cut inp 35 = none) : propertyResolve true fileOf inp = .err "format" :=
  propertyResolve_fixed_no_hash fileOf inp h

/-- `randInt(f, f)` for an in-range `f`: a value in `[f, f+10)` -/
theorem C13_randInt_equal_bounds (f : Int) (rnd : Nat) (h0 : minInt64 ≤ f) (h1 : f + 10 ≤ maxInt64) (hf : f ≠ 0) :
    ∃ v, randInt true f f rnd = .ok v ∧ f ≤ v ∧ v < f + 10 := by
  unfold randInt randIntBounds
  have e1 : wrap64 (f + 10) = f + 10 := wrap64_id _ (by unfold minInt64 at *; omega) h1
  have e2 : wrap64 (f + 10 - f) = 10 := by
    have : f + 10 - f = 10 := by omega
    rw [this]; unfold wrap64; omega
  simp [hf, e1, e2]
  rw [intnC_ok 10 rnd (by omega)]
  simp only
  have hm0 : 0 ≤ Int.ofNat rnd % 10 := Int.emod_nonneg _ (by omega)
  have hm1 : Int.ofNat rnd % 10 < 10 := Int.emod_lt_of_pos _ (by omega)
  refine ⟨_, rfl, ?_, ?_⟩
  · rw [wrap64_id _ (by unfold minInt64 at *; omega) (by unfold maxInt64 at *; omega)]; omega
  · rw [wrap64_id _ (by unfold minInt64 at *; omega) (by unfold maxInt64 at *; omega)]; omega

/-- after the massage of `readConfig` every pool that is a mapping carries `discard_overflow`, and nothing else changed shape -/
theorem C13_readConfig_massage (items : List PoolItem) :
    ∃ l, massagePools true (.list items) = .ok (.list l) ∧ l.length = items.length ∧
      ∀ i ∈ l, i = .mapping true ∨ i = .other := by
  induction items with
  | nil => exact ⟨[], by simp [massagePools, massageItems], rfl, by simp⟩
  | cons i rest ih =>
    obtain ⟨l, hl, hlen, hall⟩ := ih
    have hl' : massageItems true rest = .ok l := by
      unfold massagePools at hl
      cases hm : massageItems true rest with
      | ok l' => simp [hm] at hl; rw [hl]
      | err c => simp [hm, Res.castFail] at hl
      | panic w => simp [hm, Res.castFail] at hl
      | fatal w => simp [hm, Res.castFail] at hl
    cases i with
    | mapping d =>
      refine ⟨.mapping true :: l, by simp [massagePools, massageItems, hl'], by simp [hlen], ?_⟩
      intro x hx; simp at hx; rcases hx with rfl | hx
      · left; rfl
      · exact hall x hx
    | other =>
      refine ⟨.other :: l, by simp [massagePools, massageItems, hl'], by simp [hlen], ?_⟩
      intro x hx; simp at hx; rcases hx with rfl | hx
      · right; rfl
      · exact hall x hx

/-! ## concrete witnesses: non-vacuity of the hypotheses above, and the defects of the unrepaired tree -/

namespace Ex
def anyUrl : Bytes → Bool := fun _ => true
/-- `5 /a t\nhello\n` -/
def good1 : Bytes := [53, 32, 47, 97, 32, 116, 10, 104, 101, 108, 108, 111, 10]
/-- `-1 /b t2\n` -/
def junkNeg : Bytes := [45, 49, 32, 47, 98, 32, 116, 50, 10]
/-- `9 /b t2\nshort\n` -/
def junkTrunc : Bytes := [57, 32, 47, 98, 32, 116, 50, 10, 115, 104, 111, 114, 116, 10]
/-- `[Host example.com\n0 /b\n` -/
def junkHdr : Bytes := [91, 72, 111, 115, 116, 32, 101, 120, 97, 109, 112, 108, 101, 46, 99, 111, 109, 10, 48, 32, 47, 98, 10]
/-- `-5 /a\n` -/
def negOnly : Bytes := [45, 53, 32, 47, 97, 10]
/-- `99999999999999 /a t\n` -/
def huge : Bytes := [57, 57, 57, 57, 57, 57, 57, 57, 57, 57, 57, 57, 57, 57, 32, 47, 97, 32, 116, 10]
/-- `16 t1\nGET / HTTP/1.0\n\n\n` -/
def rawGood : Bytes := [49, 54, 32, 116, 49, 10, 71, 69, 84, 32, 47, 32, 72, 84, 84, 80, 47, 49, 46, 48, 10, 10, 10]
/-- `16 t1` (a size line cut before its newline) -/
def rawCutLine : Bytes := [49, 54, 32, 116, 49]
/-- `r1(1048575)` -/
def r1Huge : Bytes := [114, 49, 40, 49, 48, 52, 56, 53, 55, 53, 41]
/-- `-5 t\n` -/
def rawNeg : Bytes := [45, 53, 32, 116, 10]
/-- `[A: b]\n/a t` -/
def uriGood : Bytes := [91, 65, 58, 32, 98, 93, 10, 47, 97, 32, 116]
/-- `[broken\n/b\n` -/
def uriJunk : Bytes := [91, 98, 114, 111, 107, 101, 110, 10, 47, 98, 10]
def sleep10 : Bytes := [115, 108, 101, 101, 112, 40, 49, 48, 41]
def r1 : Bytes := [114, 49]
/-- `r1(2, 50)` -/
def r1x2 : Bytes := [114, 49, 40, 50, 44, 32, 53, 48, 41]
def nosuch : Bytes := [110, 111, 115, 117, 99, 104, 40, 49, 41]
/-- `r1(x)` -/
def r1bad : Bytes := [114, 49, 40, 120, 41]
/-- `[Host: example.com` -/
def hdrNoClose : Bytes := [91, 72, 111, 115, 116, 58, 32, 101, 120, 97, 109, 112, 108, 101, 46, 99, 111, 109]
/-- `/tmp/x` -/
def propNoHash : Bytes := [47, 116, 109, 112, 47, 120]
/-- `source.users[next]` -/
def pathNext : Bytes := [115, 111, 117, 114, 99, 101, 46, 117, 115, 101, 114, 115, 91, 110, 101, 120, 116, 93]
def source : Bytes := [115, 111, 117, 114, 99, 101]
def users : Bytes := [117, 115, 101, 114, 115]
/-- `${property:/tmp/x}` -/
def tagProp : Bytes := [36, 123, 112, 114, 111, 112, 101, 114, 116, 121, 58, 47, 116, 109, 112, 47, 120, 125]
def emptySource : List (Bytes × Val) := [(source, .map [(users, .arr true [])])]
def knownR1 : Bytes → Bool := fun n => n = r1
end Ex

open Ex

/- the well-formed piece is well-formed, and each kind of junk is refused: the hypotheses of
`C13_rejected_uripost` / `C13_prefix_preserved_uripost` are met by real files -/
example : WellFormedU (uripostRun true anyUrl) good1 := ⟨by decide, .inr (by decide)⟩
example : uripostStep true anyUrl junkNeg = .fail (.err "size") := by decide
example : uripostStep true anyUrl junkTrunc = .fail (.err "trunc") := by decide
example : uripostStep true anyUrl junkHdr = .fail (.err "hdr") := by decide
example : uripostRun true anyUrl (good1 ++ junkNeg) = ⟨[⟨[116], [47, 97], [104, 101, 108, 108, 111]⟩], .err "size", junkNeg⟩ := by decide
example : uripostRun true anyUrl huge = ⟨[], .err "trunc", huge⟩ := by decide
example : WellFormed (rawRun true) rawGood := ⟨by decide, .inr (by decide)⟩
example : rawStep true rawNeg = .fail (.err "size") := by decide
example : (uriRun anyUrl uriGood).end_ = .ok ∧ (uriRun anyUrl uriGood).entries.length = 1 := by decide
example : (uriRun anyUrl (uriGood ++ 10 :: uriJunk)).end_ = .err "hdr" ∧ (uriRun anyUrl (uriGood ++ 10 :: uriJunk)).entries.length = 1 := by decide
example : decodeHeader hdrNoClose = .err "hdr" := by decide
example : parseShootName sleep10 = .ok ⟨sleepName, 10, 0⟩ := by decide
example : expand true knownR1 [r1x2, sleep10, r1] = .ok [(r1, 50), (r1, 60), (r1, 0)] := by decide
example : expand true knownR1 [sleep10, r1] = .err "leading-sleep" := by decide
example : expand true knownR1 [r1, nosuch] = .err "unknown-request" := by decide
example : ∃ c, parseShootName r1bad = .err c := ⟨"count", by decide⟩
example : cut propNoHash 35 = none := by decide
example : resolveTags true (fun _ => none) (fun _ => none) tagProp = .err "format" := by decide
example : (getMapValue true emptySource pathNext [] 0).1.isErr = true := by decide

/- a last size line without newline after a well-formed piece: the hypotheses of `C13_rejected_raw_unterminated_size_line` -/
example : cut rawCutLine 10 = none ∧ ¬ (trimSpace rawCutLine).isEmpty ∧ decodeRawHeader (trimSpace rawCutLine) = .ok (16, [116, 49]) := by decide
example : rawRun true (rawGood ++ rawCutLine) = ⟨(rawRun true rawGood).entries, .err "trunc", rawCutLine⟩ := by decide

/-- the raw decoder before dbbf16d: the truncated last entry is dropped and the file accepted -/
theorem C13_unrepaired_raw_drops_last_size_line :
    rawRunDrop true (rawGood ++ rawCutLine) = ⟨(rawRun true rawGood).entries, .ok, rawCutLine⟩ := by decide

/-- the tree as found: a negative size panics in `make([]byte, size)` -/
theorem C13_unrepaired_negative_size_panics :
    (uripostRun false anyUrl negOnly).end_ = .panic ∧ (rawRun false rawNeg).end_ = .panic := by decide

/-- the tree as found: a huge size is a fatal out-of-memory (not even recoverable) -/
theorem C13_unrepaired_huge_size_fatal : (uripostRun false anyUrl huge).end_ = .fatal := by decide

/-- the tree as found: a well-formed entry followed by the negative size - the run panics -/
theorem C13_unrepaired_prefix_then_panic :
    uripostRun false anyUrl (good1 ++ junkNeg) = ⟨[⟨[116], [47, 97], [104, 101, 108, 108, 111]⟩], .panic, junkNeg⟩ := by decide

/-- the tree as found: `requests: [sleep(10), r1]` indexes `Requests[-1]` -/
theorem C13_unrepaired_leading_sleep_panics : (expand false knownR1 [sleep10, r1]).isPanic = true := by decide

/-- the tree as found: `[next]` on an empty source divides by zero; `[last]` indexes -1; `[rand]` calls Intn(0) -/
theorem C13_unrepaired_empty_source_panics :
    (calcIndex false kwNext 0 0 0).isPanic = true ∧ (calcIndex false kwRand 0 0 0).isPanic = true ∧
    (calcIndex false [48] 0 0 0).isPanic = true ∧
    (getMapValue false emptySource pathNext [] 0).1.isPanic = true := by decide

/-- the tree as found: `${property:/tmp/x}` indexes `split[1]` of a one-element slice -/
theorem C13_unrepaired_property_no_hash_panics :
    (resolveTags false (fun _ => none) (fun _ => none) tagProp).isPanic = true := by decide

/-- the tree as found: `randInt(5,5)` calls `rand.Int63n(-10)` -/
theorem C13_unrepaired_randInt_equal_panics : (randInt false 5 5 0).isPanic = true := by decide

/-- the tree as found: a config without `pools`, or with a scalar among the pools, panics in a type assertion -/
theorem C13_unrepaired_readConfig_panics :
    (massagePools false .absent).isPanic = true ∧ (massagePools false (.list [.mapping false, .other])).isPanic = true := by decide

/-! ## grpc/json lines, scenario weights, randString -/

/-- grpc/json files: every byte string, every jsoniter oracle, with and without `continue_on_error` -/
theorem C13_no_panic_grpcjson (coe : Bool) (json : Bytes → Option Bytes) (s : Bytes) : GReturned (grpcRun coe json s) := by
  have h := grpcLines_end_clean coe json (rawLines s)
  unfold GReturned grpcRun
  cases he : (grpcLines coe json (rawLines s)).end_ with
  | ok => left; rfl
  | err c => right; exact ⟨c, rfl⟩
  | panic => rw [he] at h; exact absurd h (by simp [End.clean])
  | fatal => rw [he] at h; exact absurd h (by simp [End.clean])
  | fuel => rw [he] at h; exact absurd h (by simp [End.clean])

/-- grpc/json: lines the loop got through, then a line jsoniter refuses. Without `continue_on_error` the run delivers the
entries of the lines before it and ends with an error; with it the line is delivered as an invalidated ammo (which the
gun skips) and the following lines are decoded as if the bad line were not there -/
theorem C13_rejected_or_skipped_grpcjson (json : Bytes → Option Bytes) (pre : List Bytes) (bad : Bytes) (post : List Bytes)
    (hshort : bad.length < maxToken) (hbad : json (dropCR bad) = none) :
    ((grpcLines false json pre).end_ = .ok →
      grpcLines false json (pre ++ bad :: post) = ⟨(grpcLines false json pre).entries, .err "other"⟩) ∧
    ((grpcLines true json pre).end_ = .ok →
      grpcLines true json (pre ++ bad :: post) =
        (grpcLines true json post).prepend ((grpcLines true json pre).entries ++ [.invalid])) := by
  have hns : ¬ bad.length ≥ maxToken := by omega
  constructor
  · intro h
    rw [grpcLines_append false json pre _ h, grpcLines]
    simp [hns, hbad, GRun.prepend]
  · intro h
    rw [grpcLines_append true json pre _ h, grpcLines]
    simp [hns, hbad, GRun.prepend, GRun.cons]

/-- grpc/json: a line that does not fit the scanner's buffer ends the run with an error after the lines before it -/
theorem C13_rejected_grpcjson_token_too_long (coe : Bool) (json : Bytes → Option Bytes) (pre : List Bytes) (bad : Bytes)
    (post : List Bytes) (hlong : bad.length ≥ maxToken) (h : (grpcLines coe json pre).end_ = .ok) :
    grpcLines coe json (pre ++ bad :: post) = ⟨(grpcLines coe json pre).entries, .err "toolong"⟩ := by
  rw [grpcLines_append coe json pre _ h, grpcLines]
  simp [hlong, GRun.prepend]

/-- uri files: a block of lines that decodes cleanly, then a refused line (broken header, url.Parse error): the block's
entries are delivered and the run ends with that refusal, which is an error value -/
theorem C13_rejected_uri (urlOk : Bytes → Bool) (pre : List Bytes) (bad : Bytes) (post : List Bytes) (e : End)
    (hpre : (uriLines urlOk pre).end_ = .ok) (hbad : uriLine urlOk bad = .fail e) :
    uriLines urlOk (pre ++ bad :: post) = ⟨(uriLines urlOk pre).entries, e, []⟩ ∧ ∃ c, e = .err c := by
  obtain ⟨h1, h2⟩ := uriLines_reject urlOk pre bad post e hpre hbad
  refine ⟨h1, ?_⟩
  cases e <;> simp [End.isErr] at h2
  exact ⟨_, rfl⟩

/-- scenario weights (`SpreadNames` + `CheckSpread` + `decodeAmmo`, http and grpc; since 4cfc662 with NO assumption about memory):
EVERY list of weights gives an error or one count per scenario; no division by zero, no negative or absurd `make` -/
theorem C13_no_panic_spread (ws : List Int) : (spread true ws).returns = true := by
  rcases spread_fixed ws with ⟨c, h⟩ | ⟨cs, h, _⟩ <;> rw [h] <;> simp [Res.returns, Res.isPanic, Res.isFatal]

/-- what is allocated from the weights is bounded by `MaxSpreadSize`, whatever the weights announce: every count lies in
`[0, MaxSpreadSize]`, and (with fewer than 2^39 scenarios, so that a Go int cannot wrap) so does their sum = the capacity of
the slice and the number of ammo appended -/
theorem C13_spread_bounded (ws cs : List Int) (h : spread true ws = .ok cs) :
    cs.length = ws.length ∧ (∀ c ∈ cs, 0 ≤ c ∧ c ≤ maxSpreadSize) ∧
    (ws.length < 549755813888 → sumInt cs ≤ maxSpreadSize) := by
  refine ⟨?_, ?_, spread_fixed_total ws cs h⟩
  all_goals
    rcases spread_fixed ws with ⟨c, hc⟩ | ⟨cs', h', hl, hb, _⟩
    · rw [hc] at h; cases h
    · rw [h'] at h; cases h; first | exact hl | exact hb

theorem C13_rejected_negative_weight (ws : List Int) (w : Int) (hw : w ∈ ws) (hneg : w < 0) :
    spread true ws = .err "weight" := spread_fixed_neg ws ⟨w, hw, hneg⟩

/-- weights that are not negative: one count per scenario, none negative, together at most the announced total -/
theorem C13_spread_counts (ws : List Int) (h : ∀ w ∈ ws, ¬ w < 0) :
    ∃ cs, spreadCounts ws = .ok cs ∧ cs.length = ws.length ∧ (∀ c ∈ cs, 0 ≤ c) ∧ sumInt cs ≤ sumInt (ws.map normWeight) :=
  spreadCounts_nonneg ws h

/-- `randString(n, letters)` (since 28b7d1e with NO assumption about memory): EVERY announced length gives an error or
that many letters -/
theorem C13_no_panic_randString (n : Int) : (randStringLen true n).returns = true := by
  rcases randStringLen_fixed n with ⟨_, h⟩ | ⟨_, h⟩ | ⟨_, _, h⟩ | ⟨_, h⟩ <;> rw [h] <;> simp [Res.returns, Res.isPanic, Res.isFatal]

/-- what `randString` allocates is bounded by `maxRandStringLength`, whatever length is announced; a longer one is refused -/
theorem C13_randString_bounded (n : Int) :
    (∀ k, randStringLen true n = .ok k → (k : Int) ≤ maxRandStringLength) ∧
    (maxRandStringLength < n → randStringLen true n = .err "length") := by
  rcases randStringLen_fixed n with ⟨h0, h⟩ | ⟨h0, h⟩ | ⟨h0, h1, h⟩ | ⟨h0, h⟩
  · exact ⟨fun k hk => (by rw [h] at hk; cases hk), fun _ => h⟩
  · refine ⟨fun k hk => ?_, fun hb => ?_⟩
    · rw [h] at hk; cases hk; decide
    · subst h0; revert hb; decide
  · refine ⟨fun k hk => ?_, fun hb => ?_⟩
    · rw [h] at hk; cases hk; omega
    · omega
  · exact ⟨fun k hk => (by rw [h] at hk; cases hk), fun _ => h⟩

theorem C13_rejected_negative_length (n : Int) (h : n < 0) : randStringLen true n = .err "length" := by
  unfold randStringLen
  have : n ≠ 0 := by omega
  simp [this, h]

/-- every letter of the result is taken from inside the letter set (`Intn` of a positive number, index in range) -/
theorem C13_no_panic_pickLetter (nLetters rnd : Nat) : ∃ i, pickLetter nLetters rnd = .ok i := pickLetter_returns nLetters rnd

/-- an empty list item in a scenario file, wherever it stands: provider construction returns (an error where a plugin was
expected), and no nil plugin is left behind for the provider or the gun to call -/
theorem C13_no_panic_nullItem (site : NullSite) : (nullItem true site).returns = true ∧ nilPluginLeft true site = false := by
  cases site <;> decide

theorem C13_rejected_empty_plugin_item :
    nullItem true .variableSource = .err "empty-item" ∧ nullItem true .postprocessor = .err "empty-item" ∧
    nullItem true .grpcPreprocessor = .err "empty-item" := by decide

/-- the loop of `math.GCD` ends: `a + b` steps are enough whatever the weights -/
theorem C13_terminates_gcd (a b : Int) (k : Nat) : gcdGo (a.toNat + b.toNat + 1 + k) a b = gcd64 a b := by
  induction k with
  | zero => rfl
  | succ k ih => rw [← Nat.add_assoc, gcdGo_fuel _ a b (by omega), ih]

/-- grpc/json provider, end of a pass: the repaired loop goes round again only when the pass has delivered something,
so every pass of an endless run makes progress through the sink (where cancellation is observed) -/
theorem C13_terminates_grpcjson_pass (limit passes passNum ammoNum : Nat) (scanErr : Bool)
    (h : grpcPassEnd true limit passes passNum ammoNum scanErr = .again) : 0 < ammoNum := by
  unfold grpcPassEnd at h
  split at h
  · simp at h
  · split at h
    · simp at h
    · split at h
      · simp at h
      · split at h
        · simp at h
        · rename_i hz
          simp at hz
          omega

/-! ## reading a source more than once -/

/-- a `sleep(…)` that is not the first item of the list but still follows no request - the items before it are repeated
zero (or a negative number of) times - is rejected like a leading one -/
theorem C13_rejected_sleep_without_request (known : Bytes → Bool) (pre : List Bytes) (sh : Bytes) (rest : List Bytes)
    (cnt sl : Int) (hpre : expand true known pre = .ok []) (h : parseShootName sh = .ok ⟨sleepName, cnt, sl⟩) :
    expand true known (pre ++ sh :: rest) = .err "leading-sleep" := by
  unfold expand at hpre ⊢
  rw [expandGo_append true known pre (sh :: rest) [] [] hpre]
  unfold expandGo
  simp [h, addSleep]

/-- the http decoders (uripost, raw, uri, jsonline `Scan`) at the end of the file: the file is read again only when it
has given an entry, and only while the pass limit allows -/
theorem C13_terminates_http_pass (passes passNum ammoNum : Nat) (h : httpPassEnd passes passNum ammoNum = .again) :
    0 < ammoNum ∧ (passes = 0 ∨ passNum < passes) := httpPassEnd_again passes passNum ammoNum h

/-- the http provider over any file (`one` = what a single pass over it does, whatever that is), with a limit or a pass
limit: the run ends - with the limit reached, the passes done, the file's error, or "no ammo" -/
theorem C13_terminates_http_passes (one : Run) (passes limit : Nat) (hone : one.end_ ≠ .fuel)
    (h : limit ≠ 0 ∨ passes ≠ 0) : (multiRunAll one passes limit).end_ ≠ .fuel := by
  unfold multiRunAll
  by_cases hl : limit ≠ 0
  · rw [if_pos hl]
    exact multiRun_no_fuel_limit one passes limit hone hl _ 0 0 (by simp) (by omega)
  · have hl0 : limit = 0 := by omega
    have hp : passes ≠ 0 := by rcases h with h | h; exact absurd hl0 h; exact h
    rw [if_neg hl]
    exact multiRun_no_fuel_passes one passes limit hone hp _ 0 0 (by omega)

/-- a file without a single entry (empty, blank lines, header lines only) is never read twice: "no ammo in file",
whatever the limit, also without a pass limit -/
theorem C13_rejected_http_no_ammo (one : Run) (limit : Nat) (he : one.entries = []) (hok : one.end_ = .ok) :
    multiRunAll one 0 limit = ⟨[], .err "noammo", []⟩ := by
  unfold multiRunAll
  have : ¬ (limit ≠ 0 ∧ 0 + one.entries.length ≥ limit) := by rw [he]; simp
  rw [multiRun]
  simp only [this, if_false, hok, ne_eq, not_true_eq_false, if_false]
  simp [httpPassEnd, he]

/-- `MultiPassReader.Read` keeps its state well-formed -/
theorem C13_multipass_wf (fixed : Bool) (data : Bytes) (passes : Nat) (s : MPR) (h : MPR.WF data s) :
    MPR.WF data MPR.init ∧ MPR.WF data (mprReadByte fixed data passes s).2 :=
  ⟨MPR.init_WF data, mprReadByte_WF fixed data passes s h⟩

/-- `MultiPassReader` under jsoniter's `loadMore` loop (`for { n, err := Read(buf); if n == 0 { if err != nil { return } } else { return } }`):
over the repaired reader, from every reachable state, for every source and pass limit, the loop is left after at most
two `Read` calls - a `(0, nil)` answer is always followed by data -/
theorem C13_terminates_multipass (data : Bytes) (passes : Nat) (s : MPR) (h : MPR.WF data s) (k : Nat) :
    (loadByte true data passes (k + 2) s).1 ≠ .again := loadByte_fixed data passes s h k

/-- the generic JSON provider over a source without ammo - empty, or nothing but white space - ends well at once,
whatever `passes` and `limit` (before 9d5241f it read the source again for ever with `passes: 0`) -/
theorem C13_rejected_genjson_no_ammo (data : Bytes) (hws : ∀ b ∈ data, isJsonWs b = true) (passes limit : Nat) :
    genjsonRun true data passes limit = ⟨[], "ok"⟩ := by
  unfold genjsonRun
  simp only
  rw [show (if limit ≠ 0 then limit else data.length * passes) + 2 = ((if limit ≠ 0 then limit else data.length * passes) + 1) + 1 by omega]
  unfold genjsonLoop
  have hlim : ¬ (limit ≠ 0 ∧ MPR.init.ammoNum ≥ limit) := by simp [MPR.init]
  rw [if_neg hlim]
  have hs := skipWs_fixed_ws data passes hws data.length MPR.init (by simp [MPR.init]) (by simp [MPR.init]) (data.length + 3)
  have hdec : (decodeOne true data passes MPR.init).1 = .eof := by
    unfold decodeOne
    rw [show 2 * data.length + 4 = data.length + 1 + (data.length + 3) by omega]
    cases hr : skipWs true data passes (data.length + 1 + (data.length + 3)) MPR.init with
    | mk r s' =>
      rw [hr] at hs
      simp only at hs
      subst hs
      rfl
  cases hd : decodeOne true data passes MPR.init with
  | mk r s' =>
    rw [hd] at hdec
    simp only at hdec
    subst hdec
    rfl

/-! ## the same statements about the definitions regenerated from the current source (`Pandora.Gen.C13Src`) -/

open Pandora.Bridge.C13 in
/-- `mp.calcIndex` as it stands in lib/mp/map.go now: for every index string (`index`, `atoiErr` = what Atoi says about it),
length and iterator value the result is an error or an index inside `[0, length)` -/
theorem C13_no_panic_calcIndex_source (indexStr : Bytes) (length next : Int) (rnd : Nat) (hnext : 0 ≤ next) :
    (∃ c, Gen.C13Src.calcIndex indexStr ((atoi indexStr).getD 0) (atoi indexStr).isNone length next rnd = .err c) ∨
    (∃ i, Gen.C13Src.calcIndex indexStr ((atoi indexStr).getD 0) (atoi indexStr).isNone length next rnd = .ok i ∧ 0 ≤ i ∧ i < length) := by
  rw [calcIndex_bridge]
  rcases C13_no_panic_calcIndex indexStr length next rnd hnext with ⟨c, h⟩ | ⟨i, h, h0, h1⟩
  · exact .inl ⟨"e", eraseErr_err _ c h⟩
  · exact .inr ⟨i, eraseErr_ok _ i h, h0, h1⟩

open Pandora.Bridge.C13 in
/-- `templater.randInt` as it stands now: all pairs of int64 bounds -/
theorem C13_no_panic_randInt_source (f t : Int) (rnd : Nat) : (Gen.C13Src.randInt f t rnd).returns = true := by
  rw [randInt_bridge, eraseErr_returns]
  exact C13_no_panic_randInt f t rnd

open Pandora.Bridge.C13 in
/-- `readSized` as it stands now: its first test, before anything is allocated, refuses exactly the negative sizes, and it
never allocates more than one chunk (which fits the memory) ahead of the data it has read -/
theorem C13_rejected_negative_size_source (size : Int) :
    Gen.C13Src.readSizedTestFirst = true ∧ (Gen.C13Src.readSizedRefuses size ↔ size < 0) ∧
    0 < Gen.C13Src.readChunkSize ∧ Gen.C13Src.readChunkSize ≤ memCap := by
  obtain ⟨h1, h2⟩ := readSized_bridge size []
  refine ⟨h1, ?_, readChunkSize_bridge⟩
  rw [h2]
  constructor
  · intro h
    rcases Int.lt_or_le size 0 with hs | hs
    · exact hs
    · unfold readBody at h
      have h' : ¬ size < 0 := by omega
      simp only [if_true, h', if_false] at h
      split at h <;> simp at h
  · intro h; exact C13_rejected_negative_size size [] h

open Pandora.Bridge.C13 in
/-- the four `Scan` loops as they stand now (the statements between the end of the file and the next read, executed in
source order): the file is read again only when it has given at least one entry and the pass limit allows another pass,
and then it was sought to its start -/
theorem C13_terminates_http_pass_source (passes passNum ammoNum : Nat) :
    ((Gen.C13Src.uripostPassEnd passes passNum ammoNum).1 = 0 →
      0 < ammoNum ∧ (passes = 0 ∨ passNum + 1 < passes) ∧ (Gen.C13Src.uripostPassEnd passes passNum ammoNum).2.2 = true) ∧
    ((Gen.C13Src.rawPassEnd passes passNum ammoNum).1 = 0 →
      0 < ammoNum ∧ (passes = 0 ∨ passNum + 1 < passes) ∧ (Gen.C13Src.rawPassEnd passes passNum ammoNum).2.2 = true) ∧
    ((Gen.C13Src.uriPassEnd passes passNum ammoNum).1 = 0 →
      0 < ammoNum ∧ (passes = 0 ∨ passNum + 1 < passes) ∧ (Gen.C13Src.uriPassEnd passes passNum ammoNum).2.2 = true) ∧
    ((Gen.C13Src.jsonlinePassEnd passes passNum ammoNum).1 = 0 →
      0 < ammoNum ∧ (passes = 0 ∨ passNum + 1 < passes) ∧ (Gen.C13Src.jsonlinePassEnd passes passNum ammoNum).2.2 = true) := by
  have code0 : ∀ p : PassEnd, passEndCode p = 0 → p = .again := by
    intro p h
    cases p with
    | again => rfl
    | stop e => cases e <;> simp [passEndCode] at h
  have key : ∀ (g : Int × Int × Bool), g.1 = passEndCode (httpPassEnd passes (passNum + 1) ammoNum) →
      (g.1 = 0 → g.2.1 = ((passNum + 1 : Nat) : Int) ∧ g.2.2 = true) → g.1 = 0 →
      0 < ammoNum ∧ (passes = 0 ∨ passNum + 1 < passes) ∧ g.2.2 = true := by
    intro g h1 h2 h0
    obtain ⟨ha, hp⟩ := httpPassEnd_again passes (passNum + 1) ammoNum (code0 _ (by rw [← h1]; exact h0))
    exact ⟨ha, hp, (h2 h0).2⟩
  refine ⟨?_, ?_, ?_, ?_⟩
  · exact key _ (uripostPassEnd_bridge passes passNum ammoNum).1 (uripostPassEnd_bridge passes passNum ammoNum).2
  · exact key _ (rawPassEnd_bridge passes passNum ammoNum).1 (rawPassEnd_bridge passes passNum ammoNum).2
  · exact key _ (uriPassEnd_bridge passes passNum ammoNum).1 (uriPassEnd_bridge passes passNum ammoNum).2
  · intro h0
    obtain ⟨h1, h2⟩ := jsonlinePassEnd_bridge passes passNum ammoNum
    have hag : jlPassEnd passes passNum ammoNum = .again := code0 _ (by rw [← h1]; exact h0)
    rcases jlPassEnd_http passes passNum ammoNum with h | ⟨_, h, _⟩
    · obtain ⟨ha, hp⟩ := httpPassEnd_again passes (passNum + 1) ammoNum (by rw [← h]; exact hag)
      exact ⟨ha, hp, (h2 h0).2⟩
    · rw [hag] at h; cases h

open Pandora.Bridge.C13 in
/-- `scanAmmos` as it stands in decoders/jsonline.go now: for every array length, pass limit and pair of counters the
remainder does not divide by zero and the index is inside the slice - the function returns an element or an error -/
theorem C13_no_panic_jsonline_scanAmmos_source (elems : List Bytes) (passes : Nat) (s : JlArr) :
    (Gen.C13Src.scanAmmos elems.length passes s.passNum s.ammoNum).returns = true := by
  have h := scanAmmos_bridge elems passes s
  cases hg : Gen.C13Src.scanAmmos elems.length passes s.passNum s.ammoNum with
  | ok v => rfl
  | err c => rfl
  | panic w => rw [hg] at h; simp at h
  | fatal w => rw [hg] at h; simp at h

open Pandora.Bridge.C13 in
/-- the EOF block of `MultiPassReader.Read` as it stands now, executed in source order from any well-formed state at the
end of the source: when it seeks the source to its start (no early return), the source holds data - the next `Read`
delivers a byte, the `(0, nil)` answer is not repeated -/
theorem C13_terminates_multipass_source (data : Bytes) (passes : Nat) (s : MPR) (h : MPR.WF data s)
    (hend : data[s.pos]? = none) (hres : s.resets = decide ((Gen.C13Src.mprEof 1 0 0 false false).2.2.1 = 0))
    (hnoret : (Gen.C13Src.mprEof s.passBytes s.passesCount passes true (decide (Gen.C13Src.dpProgress s.ammoNum s.passStart))).1 = false)
    (hseek : (Gen.C13Src.mprEof s.passBytes s.passesCount passes true (decide (Gen.C13Src.dpProgress s.ammoNum s.passStart))).2.1 = true) :
    0 < data.length ∧ ∃ b s'', mprReadByte true data passes (mprReadByte true data passes s).2 = (.byte b, s'') := by
  have hb := mprRead_bridge data passes s hend hres
  simp only [hnoret, hseek, Bool.false_eq_true, if_false, if_true] at hb
  obtain ⟨hp, hl, _⟩ := mprReadByte_fixed_again data passes s _ h hb
  refine ⟨hl, ?_⟩
  rw [hb]
  exact mprReadByte_fixed_after_again data passes _ hp hl

namespace Ex
/-- `r1(0)` -/
def r1x0 : Bytes := [114, 49, 40, 48, 41]
/-- `{"tag":"t"}\n` -/
def jt : Bytes := [123, 34, 116, 97, 103, 34, 58, 34, 116, 34, 125, 10]
/-- `{"tag":"a` -/
def jtrunc : Bytes := [123, 34, 116, 97, 103, 34, 58, 34, 97]
end Ex

example : expand true knownR1 [r1x0] = .ok [] := by decide
/-- the regenerated pass-end paths on concrete counters: read again after a pass with entries, "no ammo" after one without,
the pass limit; the regenerated `scanAmmos` at the last element of a two-element array; the regenerated EOF block of
`MultiPassReader.Read` in a state that meets the hypotheses of `C13_terminates_multipass_source` -/
example : Gen.C13Src.uriPassEnd 0 0 2 = (0, 1, true) ∧ (Gen.C13Src.rawPassEnd 0 0 0).1 = 2 ∧
    (Gen.C13Src.uripostPassEnd 2 1 5).1 = 1 ∧ (Gen.C13Src.jsonlinePassEnd 0 0 0).1 = 2 ∧
    (Gen.C13Src.jsonlinePassEnd 2 1 5).1 = 1 ∧ Gen.C13Src.jsonlinePassEnd 3 1 5 = (0, 2, true) := by decide
example : Gen.C13Src.scanAmmos 2 0 1 3 = .ok (1, 2, 4) ∧ Gen.C13Src.scanAmmos 0 0 0 0 = .err "noammo" ∧
    Gen.C13Src.scanAmmos 2 1 1 2 = .err "passlimit" := by decide
example : (Gen.C13Src.mprEof 12 0 0 true (decide (Gen.C13Src.dpProgress 1 0))).1 = false ∧
    (Gen.C13Src.mprEof 12 0 0 true (decide (Gen.C13Src.dpProgress 1 0))).2.1 = true ∧
    jt[12]? = none ∧ ((12 : Nat) ≠ 0 → 0 < jt.length) := by decide
example : expand true knownR1 [r1x0, sleep10, r1] = .err "leading-sleep" := by decide
/-- the tree as found guarded only against a sleep at the head of the list … and not even that: `[r1(0), sleep(10)]` -/
example : (expand false knownR1 [r1x0, sleep10, r1]).isPanic = true := by decide
example : httpPassEnd 0 1 2 = .again ∧ httpPassEnd 0 1 0 = .stop (.err "noammo") ∧ httpPassEnd 2 2 5 = .stop .ok := by decide
example : (multiRunAll (uripostRun true anyUrl good1) 0 3).entries.length = 3 := by decide
example : MPR.WF jt MPR.init := MPR.init_WF jt
example : genjsonRun true (jt ++ jt) 0 3 = ⟨[[116], [116], [116]], "ok"⟩ := by decide
example : genjsonRun true (jt ++ jtrunc) 1 0 = ⟨[[116]], "err"⟩ := by decide
example : genjsonRun true [32, 10] 0 3 = ⟨[], "ok"⟩ := by decide

/-- the reader as found, over an empty source with `passes: 0`: `Read` answers `(0, nil)` for ever - jsoniter's loop never ends -/
theorem C13_unrepaired_multipass_spins (fuel : Nat) : (loadByte false [] 0 fuel MPR.init).1 = .again :=
  loadByte_unfixed_empty fuel MPR.init rfl

theorem C13_unrepaired_genjson_hangs : (genjsonRun false [] 0 3).end_ = "hang" ∧ (genjsonRun false [32, 10] 0 3).end_ = "hang" := by
  decide

/-! ## jsonline (`encoding/json` is a parameter: every reading `JSrc` of the file) -/

/-- `scanAmmos` (a jsonline file that is one JSON array): for every array - the empty one too -, every pass limit and every
value of the two counters, `int(d.ammoNum) % length` does not divide by zero and `d.ammos[i]` is inside the slice -/
theorem C13_no_panic_jsonline_scanAmmos (elems : List Bytes) (passes : Nat) (s : JlArr) :
    (scanAmmos elems passes s).1 ≠ .panic := scanAmmos_no_panic elems passes s

/-- the http provider over a jsonline file, whatever the library makes of it, with and without preload, every passes and
limit, both code variants: it never ends in a panic or a fatal error -/
theorem C13_no_panic_jsonline (fixed : Bool) (src : JSrc) (pre : Bool) (passes limit : Nat) :
    (jsonlineRun fixed src pre passes limit).end_ ≠ .panic ∧ (jsonlineRun fixed src pre passes limit).end_ ≠ .fatal := by
  cases src with
  | refused => simp [jsonlineRun, ctorErr]
  | array elems tr =>
    cases elems with
    | none => simp [jsonlineRun, ctorErr]
    | some es =>
      simp only [jsonlineRun]
      split
      · simp [ctorErr]
      · exact jlArrayLoop_no_panic es passes limit _ _ _ _
  | stream items =>
    simp only [jsonlineRun]
    have hc := jsonlineRun_stream_one_clean items pre
    generalize (if pre = true ∧ (jlItems items).end_ ≠ .ok then { jlItems items with entries := [] } else jlItems items) = one at hc
    unfold multiRunAll
    rcases multiRun_end_cases one passes limit ((if limit ≠ 0 then limit else passes) + 1) 0 0 with h | h | h | h
    · rw [h]; simp
    · rw [h]; cases he : one.end_ <;> rw [he] at hc <;> simp [End.clean] at hc ⊢
    · rw [h]; simp
    · rw [h]; simp

/-- … and with a limit or a pass limit it ends (an array is handed out `passes` times, element by element; a stream is
read again only after a pass that gave an entry) -/
theorem C13_terminates_jsonline (fixed : Bool) (src : JSrc) (pre : Bool) (passes limit : Nat) (h : limit ≠ 0 ∨ passes ≠ 0) :
    (jsonlineRun fixed src pre passes limit).end_ ≠ .fuel := by
  cases src with
  | refused => simp [jsonlineRun, ctorErr]
  | array elems tr =>
    cases elems with
    | none => simp [jsonlineRun, ctorErr]
    | some es =>
      simp only [jsonlineRun]
      split
      · simp [ctorErr]
      · rcases Nat.eq_zero_or_pos es.length with h0 | hpos
        · have : es = [] := List.eq_nil_of_length_eq_zero h0
          subst this
          rw [jlArrayRun_nil]; simp
        · unfold jlArrayRun
          by_cases hl : limit ≠ 0
          · rw [if_pos hl]
            exact jlArrayLoop_no_fuel_limit es passes limit hl _ _ _ _ (by omega)
          · have hp : passes ≠ 0 := by rcases h with h | h; exact absurd h hl; exact h
            rw [if_neg hl]
            exact jlArrayLoop_no_fuel_passes es passes limit hp _ _ _ _ (JlArr.init_Inv _ hpos) (by simp)
  | stream items =>
    simp only [jsonlineRun]
    have hc := jsonlineRun_stream_one_clean items pre
    generalize (if pre = true ∧ (jlItems items).end_ ≠ .ok then { jlItems items with entries := [] } else jlItems items) = one at hc
    refine C13_terminates_http_passes one passes limit ?_ h
    intro he; rw [he] at hc; simp [End.clean] at hc

/-- a file the constructor refuses (nothing but white space, a first token that is not `{` / `[`), an array that does not
decode (truncated, a wrong type), an array followed by something that is not white space, an empty array: an error,
nothing is delivered -/
theorem C13_rejected_jsonline_ctor (pre : Bool) (passes limit : Nat) (es : Option (List Bytes)) (tr : Bool) :
    jsonlineRun true .refused pre passes limit = ctorErr ∧ jsonlineRun true (.array none tr) pre passes limit = ctorErr ∧
    jsonlineRun true (.array es true) pre passes limit = ctorErr ∧
    jsonlineRun true (.array (some []) false) pre passes limit = ⟨[], .err "noammo", []⟩ := by
  refine ⟨rfl, rfl, ?_, ?_⟩
  · cases es <;> simp [jsonlineRun]
  · simp [jsonlineRun, jlArrayRun_nil]

/-- objects the decoder gets through, then a value it refuses (not JSON, a wrong type, cut by the end of the file): the
run delivers the entries of the objects - none with preload - and ends with an error, whatever follows, whatever `passes`;
`limit` is not reached by the objects -/
theorem C13_rejected_jsonline (fixed : Bool) (tags : List Bytes) (post : List JItem) (pre : Bool) (passes limit : Nat)
    (hl : limit = 0 ∨ tags.length < limit) :
    jsonlineRun fixed (.stream (tags.map .good ++ .bad :: post)) pre passes limit =
      ⟨if pre then [] else tags.map fun t => ⟨t, [], []⟩, .err "other", []⟩ := by
  have hone : jlItems (tags.map .good ++ .bad :: post) = ⟨tags.map fun t => ⟨t, [], []⟩, .err "other", []⟩ := by
    rw [jlItems_reject _ _ (by rw [jlItems_goods])]
    rw [jlItems_goods]
  simp only [jsonlineRun, hone]
  cases pre with
  | false =>
    simp only [Bool.false_eq_true, false_and, if_false]
    unfold multiRunAll
    rw [multiRun]
    have : ¬ (limit ≠ 0 ∧ 0 + (tags.map fun t => (⟨t, [], []⟩ : Entry)).length ≥ limit) := by
      simp only [List.length_map]; omega
    rw [if_neg this]
    simp
  | true =>
    simp only [true_and, ne_eq, reduceCtorEq, not_false_eq_true, if_true]
    unfold multiRunAll
    rw [multiRun]
    have : ¬ (limit ≠ 0 ∧ 0 + ([] : List Entry).length ≥ limit) := by
      simp only [List.length_nil]; omega
    rw [if_neg this]
    simp

/-- whatever follows well-formed objects, their entries come first and unchanged; the rest is decoded as if it stood alone -/
theorem C13_prefix_preserved_jsonline (tags : List Bytes) (junk : List JItem) :
    jlItems (tags.map .good ++ junk) = (jlItems junk).prepend (tags.map fun t => ⟨t, [], []⟩) := by
  rw [jlItems_append _ _ (by rw [jlItems_goods]), jlItems_goods]

/-- array mode: whatever is delivered is an element of the array (nothing is made up when the index wraps around) -/
theorem C13_jsonline_array_entries (elems : List Bytes) (passes limit : Nat) :
    ∀ e ∈ (jlArrayRun elems passes limit).entries, e.tag ∈ elems := by
  rcases Nat.eq_zero_or_pos elems.length with h0 | hpos
  · have : elems = [] := List.eq_nil_of_length_eq_zero h0
    subst this
    rw [jlArrayRun_nil]; simp
  · exact jlArrayLoop_entries elems passes limit _ _ _ _ (JlArr.init_Inv _ hpos) (by simp)

namespace Ex
def tA : Bytes := [97]
def tB : Bytes := [98]
end Ex

example : jsonlineRun true (.stream [.good tA, .good tB, .bad, .good tA]) false 0 5 = ⟨[⟨tA, [], []⟩, ⟨tB, [], []⟩], .err "other", []⟩ := by decide
example : jsonlineRun true (.stream [.good tA, .good tB]) false 0 5 =
    ⟨[⟨tA, [], []⟩, ⟨tB, [], []⟩, ⟨tA, [], []⟩, ⟨tB, [], []⟩, ⟨tA, [], []⟩], .ok, []⟩ := by decide
example : jsonlineRun true (.array (some [tA, tB]) false) false 2 0 = ⟨[⟨tA, [], []⟩, ⟨tB, [], []⟩, ⟨tA, [], []⟩, ⟨tB, [], []⟩], .ok, []⟩ := by decide
example : jsonlineRun true (.array (some [tA]) false) true 0 3 = ⟨[⟨tA, [], []⟩, ⟨tA, [], []⟩, ⟨tA, [], []⟩], .ok, []⟩ := by decide
example : jsonlineRun true (.array (some [tA]) true) false 1 0 = ctorErr := by decide

/-- the tree as found: a JSON array followed by anything - the beginning of another entry, garbage - is accepted, what
follows the array is never read -/
theorem C13_unrepaired_jsonline_trailing_accepted :
    jsonlineRun false (.array (some [tA]) true) false 1 0 = ⟨[⟨tA, [], []⟩], .ok, []⟩ := by decide

theorem C13_rejected_jsonline_trailing_counterexample :
    ¬ ∀ (es : Option (List Bytes)) (pre : Bool) (passes limit : Nat), jsonlineRun false (.array es true) pre passes limit = ctorErr := by
  intro h
  have := h (some [tA]) false 1 0
  rw [C13_unrepaired_jsonline_trailing_accepted] at this
  revert this
  decide

example : (scanAmmos [] 0 ⟨0, 0⟩).1 = .noAmmo ∧ (scanAmmos [tA, tB] 1 ⟨2, 1⟩).1 = .passLimit ∧ (scanAmmos [tA, tB] 0 ⟨3, 1⟩).1 = .ammo tB := by decide

/-! ## the property, component by component

`C13_no_panic_statement fixed` etc. collect the universally quantified statements for the code variant `fixed`;
they hold for the repaired code and are refuted for the tree as found. -/

/-- nothing panics or dies, on any input -/
def C13_no_panic_statement (fixed : Bool) : Prop :=
  (∀ (urlOk : Bytes → Bool) (s : Bytes), Returned (uripostRun fixed urlOk s)) ∧
  (∀ s : Bytes, Returned (rawRun fixed s)) ∧
  (∀ (known : Bytes → Bool) (reqs : List Bytes), (expand fixed known reqs).returns = true) ∧
  (∀ (cur : List (Bytes × Val)) (path : Bytes) (st : IterState) (rnd : Nat), (getMapValue fixed cur path st rnd).1.returns = true) ∧
  (∀ (env : Bytes → Option Bytes) (fileOf : Bytes → Option (List Bytes)) (s : Bytes), (resolveTags fixed env fileOf s).returns = true) ∧
  (∀ (f t : Int) (rnd : Nat), (randInt fixed f t rnd).returns = true) ∧
  (∀ p : PoolsVal, (massagePools fixed p).returns = true) ∧
  (∀ ws : List Int, (spread fixed ws).returns = true) ∧
  (∀ n : Int, (randStringLen fixed n).returns = true) ∧
  (∀ site : NullSite, (nullItem fixed site).returns = true ∧ nilPluginLeft fixed site = false)

/-- the parts of the code that needed no repair -/
def C13_no_panic_unchanged_statement : Prop :=
  (∀ (urlOk : Bytes → Bool) (s : Bytes), Returned (uriRun urlOk s)) ∧
  (∀ (coe : Bool) (json : Bytes → Option Bytes) (s : Bytes), GReturned (grpcRun coe json s)) ∧
  (∀ h : Bytes, (decodeHeader h).returns = true) ∧
  (∀ shoot : Bytes, (parseStringFunc shoot).returns = true) ∧
  (∀ shoot : Bytes, (parseShootName shoot).returns = true) ∧
  (∀ nLetters rnd : Nat, ∃ i, pickLetter nLetters rnd = .ok i) ∧
  (∀ (fixed : Bool) (src : JSrc) (pre : Bool) (passes limit : Nat),
    (jsonlineRun fixed src pre passes limit).end_ ≠ .panic ∧ (jsonlineRun fixed src pre passes limit).end_ ≠ .fatal)

/-- C13, "never crashes the process with a panic": all byte strings as uripost / raw / uri / grpc-json files, all request
lists, variable paths, placeholder strings, randInt / randString arguments, pools shapes and scenario weights, all readings of a jsonline file -/
theorem C13_no_panic : C13_no_panic_statement true ∧ C13_no_panic_unchanged_statement :=
  ⟨⟨C13_no_panic_uripost, C13_no_panic_raw, C13_no_panic_expand, C13_no_panic_getMapValue, C13_no_panic_resolveTags,
    C13_no_panic_randInt,
    fun p => by obtain ⟨v, h⟩ := C13_no_panic_readConfig p; rw [h]; simp [Res.returns, Res.isPanic, Res.isFatal],
    C13_no_panic_spread, C13_no_panic_randString, C13_no_panic_nullItem⟩,
   ⟨C13_no_panic_uri, C13_no_panic_grpcjson, C13_no_panic_decodeHeader, C13_no_panic_parseStringFunc,
    C13_no_panic_parseShootName, C13_no_panic_pickLetter, C13_no_panic_jsonline⟩⟩

/-- C13, "is rejected with an error, or skipped where continue-on-error is requested" -/
def C13_rejected_or_skipped_statement : Prop :=
  -- size-prefixed files: the refusal of what follows a well-formed piece ends the run with that error
  (∀ (urlOk : Bytes → Bool) (good junk : Bytes) (e : End), WellFormedU (uripostRun true urlOk) good →
    uripostStep true urlOk junk = .fail e →
    uripostRun true urlOk (good ++ junk) = ⟨(uripostRun true urlOk good).entries, e, junk⟩ ∧ ∃ c, e = .err c) ∧
  (∀ (good junk : Bytes) (e : End), WellFormed (rawRun true) good → rawStep true junk = .fail e →
    rawRun true (good ++ junk) = ⟨(rawRun true good).entries, e, junk⟩ ∧ ∃ c, e = .err c) ∧
  (∀ (urlOk : Bytes → Bool) (pre : List Bytes) (bad : Bytes) (post : List Bytes) (e : End),
    (uriLines urlOk pre).end_ = .ok → uriLine urlOk bad = .fail e →
    uriLines urlOk (pre ++ bad :: post) = ⟨(uriLines urlOk pre).entries, e, []⟩ ∧ ∃ c, e = .err c) ∧
  -- negative and oversized announced sizes
  (∀ (size : Int) (rest : Bytes), size < 0 → readBody true size rest = .err "size") ∧
  (∀ (size : Int) (rest : Bytes), size > rest.length →
    readBody true size rest = .err "trunc" ∨ readBody true size rest = .err "size") ∧
  -- grpc/json: error, or skipped with continue_on_error
  (∀ (json : Bytes → Option Bytes) (pre : List Bytes) (bad : Bytes) (post : List Bytes),
    bad.length < maxToken → json (dropCR bad) = none →
    ((grpcLines false json pre).end_ = .ok →
      grpcLines false json (pre ++ bad :: post) = ⟨(grpcLines false json pre).entries, .err "other"⟩) ∧
    ((grpcLines true json pre).end_ = .ok →
      grpcLines true json (pre ++ bad :: post) =
        (grpcLines true json post).prepend ((grpcLines true json pre).entries ++ [.invalid]))) ∧
  -- scenario request lists
  (∀ (known : Bytes → Bool) (sh : Bytes) (rest : List Bytes) (cnt sl : Int),
    parseShootName sh = .ok ⟨sleepName, cnt, sl⟩ → expand true known (sh :: rest) = .err "leading-sleep") ∧
  (∀ (known : Bytes → Bool) (pre : List Bytes) (sh : Bytes) (rest : List Bytes) (name : Bytes) (cnt sl : Int),
    parseShootName sh = .ok ⟨name, cnt, sl⟩ → name ≠ sleepName → known name = false →
    (expand true known (pre ++ sh :: rest)).isOk = false ∧ (expand true known (pre ++ sh :: rest)).returns = true) ∧
  (∀ (known : Bytes → Bool) (pre : List Bytes) (sh : Bytes) (rest : List Bytes) (c : String),
    parseShootName sh = .err c →
    (expand true known (pre ++ sh :: rest)).isOk = false ∧ (expand true known (pre ++ sh :: rest)).returns = true) ∧
  -- empty data source, placeholder without key, negative weight, negative length
  (∀ (indexStr : Bytes) (next : Int) (rnd : Nat), ∃ c, calcIndex true indexStr 0 next rnd = .err c) ∧
  (∀ (fileOf : Bytes → Option (List Bytes)) (inp : Bytes), cut inp 35 = none → propertyResolve true fileOf inp = .err "format") ∧
  (∀ (ws : List Int) (w : Int), w ∈ ws → w < 0 → spread true ws = .err "weight") ∧
  (∀ n : Int, n < 0 → randStringLen true n = .err "length") ∧
  -- a sleep after items that expand to nothing; files and sources without a single entry
  (∀ (known : Bytes → Bool) (pre : List Bytes) (sh : Bytes) (rest : List Bytes) (cnt sl : Int),
    expand true known pre = .ok [] → parseShootName sh = .ok ⟨sleepName, cnt, sl⟩ →
    expand true known (pre ++ sh :: rest) = .err "leading-sleep") ∧
  (∀ (one : Run) (limit : Nat), one.entries = [] → one.end_ = .ok → multiRunAll one 0 limit = ⟨[], .err "noammo", []⟩) ∧
  (∀ (data : Bytes), (∀ b ∈ data, isJsonWs b = true) → ∀ passes limit : Nat, genjsonRun true data passes limit = ⟨[], "ok"⟩) ∧
  -- jsonline: a refused file / array, an empty array; a refused value after objects
  (∀ (pre : Bool) (passes limit : Nat) (es : Option (List Bytes)) (tr : Bool),
    jsonlineRun true .refused pre passes limit = ctorErr ∧ jsonlineRun true (.array none tr) pre passes limit = ctorErr ∧
    jsonlineRun true (.array es true) pre passes limit = ctorErr ∧
    jsonlineRun true (.array (some []) false) pre passes limit = ⟨[], .err "noammo", []⟩) ∧
  (∀ (fixed : Bool) (tags : List Bytes) (post : List JItem) (pre : Bool) (passes limit : Nat), limit = 0 ∨ tags.length < limit →
    jsonlineRun fixed (.stream (tags.map .good ++ .bad :: post)) pre passes limit =
      ⟨if pre then [] else tags.map fun t => ⟨t, [], []⟩, .err "other", []⟩)

theorem C13_rejected_or_skipped : C13_rejected_or_skipped_statement :=
  ⟨C13_rejected_uripost, C13_rejected_raw, C13_rejected_uri, C13_rejected_negative_size, C13_rejected_oversize,
   C13_rejected_or_skipped_grpcjson, C13_rejected_leading_sleep, C13_rejected_unknown_request, C13_rejected_bad_shoot,
   C13_rejected_empty_source, C13_rejected_property_no_hash, C13_rejected_negative_weight, C13_rejected_negative_length,
   C13_rejected_sleep_without_request, C13_rejected_http_no_ammo, C13_rejected_genjson_no_ammo,
   C13_rejected_jsonline_ctor, C13_rejected_jsonline⟩

/-- C13, "never alters how well-formed entries before it are delivered" (both code variants of the size-prefixed decoders) -/
def C13_prefix_preserved_statement (fixed : Bool) : Prop :=
  (∀ (urlOk : Bytes → Bool) (good junk : Bytes), WellFormedU (uripostRun fixed urlOk) good →
    (uripostRun fixed urlOk (good ++ junk)).entries =
      (uripostRun fixed urlOk good).entries ++ (uripostRun fixed urlOk junk).entries) ∧
  (∀ (good junk : Bytes), WellFormed (rawRun fixed) good →
    (rawRun fixed (good ++ junk)).entries = (rawRun fixed good).entries ++ (rawRun fixed junk).entries) ∧
  (∀ (urlOk : Bytes → Bool) (good junk : Bytes), (uriRun urlOk good).end_ = .ok →
    uriRun urlOk (good ++ 10 :: junk) = (uriRun urlOk junk).prepend (uriRun urlOk good).entries) ∧
  (∀ (coe : Bool) (json : Bytes → Option Bytes) (l1 l2 : List Bytes), (grpcLines coe json l1).end_ = .ok →
    grpcLines coe json (l1 ++ l2) = (grpcLines coe json l2).prepend (grpcLines coe json l1).entries) ∧
  (∀ (tags : List Bytes) (junk : List JItem),
    jlItems (tags.map .good ++ junk) = (jlItems junk).prepend (tags.map fun t => ⟨t, [], []⟩))

theorem C13_prefix_preserved (fixed : Bool) : C13_prefix_preserved_statement fixed :=
  ⟨C13_prefix_preserved_uripost fixed, C13_prefix_preserved_raw fixed, C13_prefix_preserved_uri, grpcLines_append,
   C13_prefix_preserved_jsonline⟩

/-- C13, "never makes a provider loop or block forever": the decoding loops stop on every input (measure: unread bytes),
the GCD loop stops, and a grpc/json pass that delivered nothing is not repeated -/
def C13_terminates_statement (fixed : Bool) : Prop :=
  (∀ (urlOk : Bytes → Bool) (s : Bytes), (uripostRun fixed urlOk s).end_ ≠ .fuel) ∧
  (∀ s : Bytes, (rawRun fixed s).end_ ≠ .fuel) ∧
  (∀ (urlOk : Bytes → Bool) (s : Bytes), Step.decreases s (uripostStep fixed urlOk s) ∧ Step.decreases s (rawStep fixed s)) ∧
  (∀ (a b : Int) (k : Nat), gcdGo (a.toNat + b.toNat + 1 + k) a b = gcd64 a b) ∧
  (∀ (limit passes passNum ammoNum : Nat) (scanErr : Bool),
    grpcPassEnd fixed limit passes passNum ammoNum scanErr = .again → 0 < ammoNum) ∧
  -- the http decoders over any file, read again and again: with a limit or a pass limit the run ends
  (∀ (one : Run) (passes limit : Nat), one.end_ ≠ .fuel → limit ≠ 0 ∨ passes ≠ 0 → (multiRunAll one passes limit).end_ ≠ .fuel) ∧
  -- MultiPassReader under jsoniter's loadMore loop: never more than two Read calls
  (∀ (data : Bytes) (passes : Nat) (s : MPR), MPR.WF data s → ∀ k : Nat, (loadByte fixed data passes (k + 2) s).1 ≠ .again) ∧
  -- jsonline, every reading of the file: with a limit or a pass limit the run ends
  (∀ (fx : Bool) (src : JSrc) (pre : Bool) (passes limit : Nat), limit ≠ 0 ∨ passes ≠ 0 → (jsonlineRun fx src pre passes limit).end_ ≠ .fuel)

theorem C13_terminates : C13_terminates_statement true :=
  ⟨C13_terminates_uripost true, C13_terminates_raw true, C13_terminates_step true, C13_terminates_gcd,
   C13_terminates_grpcjson_pass, C13_terminates_http_passes, C13_terminates_multipass, C13_terminates_jsonline⟩

/-! ## the tree as found: each repaired statement is refuted for the variant `fixed := false` -/

namespace Ex
/-- `{"tag":"t"}`-like lines are whatever the oracle says; here: lines starting with `{` are accepted -/
def jsonBrace : Bytes → Option Bytes := fun l => match l with | 123 :: _ => some [116] | _ => none
/-- `{}` -/
def jl : Bytes := [123, 125]
/-- `oops` -/
def jbad : Bytes := [111, 111, 112, 115]
end Ex

example : grpcRun false jsonBrace (jl ++ 10 :: jbad ++ 10 :: jl) = ⟨[.valid [116]], .err "other"⟩ := by decide
example : grpcRun true jsonBrace (jl ++ 10 :: jbad ++ 10 :: jl ++ [13, 10]) = ⟨[.valid [116], .invalid, .valid [116]], .ok⟩ := by decide
example : spread true [6, 9, 0] = .ok [6, 9, 1] := by decide
example : spread true [4, 6, 10, 8] = .ok [2, 3, 5, 4] := by decide
example : spread true [-5, 1] = .err "weight" := by decide
example : randStringLen true (-1) = .err "length" ∧ randStringLen true 0 = .ok 1 ∧ randStringLen true 12 = .ok 12 := by decide
example : sumInt ([6, 9, 0].map normWeight) * 8 ≤ memCap := by decide
example : uriLine anyUrl [91, 98, 114, 111, 107, 101, 110] = .fail (.err "hdr") := by decide
example : grpcPassEnd true 0 0 1 3 false = .again := by decide
/-- an unterminated last line of a uripost file is decoded: `0 /b t2` -/
example : uripostRun true anyUrl [48, 32, 47, 98, 32, 116, 50] = ⟨[⟨[116, 50], [47, 98], []⟩], .ok, []⟩ := by decide

theorem C13_no_panic_uripost_counterexample : ¬ ∀ (urlOk : Bytes → Bool) (s : Bytes), Returned (uripostRun false urlOk s) := by
  intro h
  have hp : (uripostRun false anyUrl negOnly).end_ = .panic := by decide
  rcases h anyUrl negOnly with h | ⟨c, h⟩ <;> rw [hp] at h <;> cases h

theorem C13_no_panic_raw_counterexample : ¬ ∀ s : Bytes, Returned (rawRun false s) := by
  intro h
  have hp : (rawRun false rawNeg).end_ = .panic := by decide
  rcases h rawNeg with h | ⟨c, h⟩ <;> rw [hp] at h <;> cases h

theorem C13_no_panic_expand_counterexample :
    ¬ ∀ (known : Bytes → Bool) (reqs : List Bytes), (expand false known reqs).returns = true := by
  intro h; have := h knownR1 [sleep10, r1]; revert this; decide

theorem C13_no_panic_getMapValue_counterexample :
    ¬ ∀ (cur : List (Bytes × Val)) (path : Bytes) (st : IterState) (rnd : Nat), (getMapValue false cur path st rnd).1.returns = true := by
  intro h; have := h emptySource pathNext [] 0; revert this; decide

theorem C13_no_panic_resolveTags_counterexample :
    ¬ ∀ (env : Bytes → Option Bytes) (fileOf : Bytes → Option (List Bytes)) (s : Bytes), (resolveTags false env fileOf s).returns = true := by
  intro h; have := h (fun _ => none) (fun _ => none) tagProp; revert this; decide

theorem C13_no_panic_randInt_counterexample : ¬ ∀ (f t : Int) (rnd : Nat), (randInt false f t rnd).returns = true := by
  intro h; have := h 5 5 0; revert this; decide

theorem C13_no_panic_readConfig_counterexample : ¬ ∀ p : PoolsVal, (massagePools false p).returns = true := by
  intro h; have := h .absent; revert this; decide

/-- two scenarios with weights -5 and 1: `make([]*Scenario, 0, -4)` -/
theorem C13_no_panic_spread_counterexample :
    ¬ ∀ ws : List Int, (spread false ws).returns = true := by
  intro h; have := h [-5, 1]; revert this; decide

/-- `randString(-1)`: `make([]rune, -1)` -/
theorem C13_no_panic_randString_counterexample : ¬ ∀ n : Int, (randStringLen false n).returns = true := by
  intro h; have := h (-1); revert this; decide

/-- `variable_sources: [null]`: `source.Init()` on a nil interface; `postprocessors: [null]`: a nil plugin is left for the gun -/
theorem C13_no_panic_nullItem_counterexample :
    ¬ ∀ site : NullSite, (nullItem false site).returns = true ∧ nilPluginLeft false site = false := by
  intro h; have := h .variableSource; revert this; decide

theorem C13_nil_plugin_left_counterexample : nilPluginLeft false .postprocessor = true ∧ nilPluginLeft false .grpcPreprocessor = true := by
  decide

theorem C13_no_panic_counterexample : ¬ C13_no_panic_statement false :=
  fun h => C13_no_panic_uripost_counterexample h.1

/-- the tree as found: a pass over an empty grpc/json file with `passes: 0` is repeated without having delivered anything -/
theorem C13_terminates_counterexample : ¬ C13_terminates_statement false := by
  intro h
  have := h.2.2.2.2.1 0 0 1 0 false (by decide)
  omega

/-- … and so does `MultiPassReader` as found, over an empty source -/
theorem C13_terminates_multipass_counterexample :
    ¬ ∀ (data : Bytes) (passes : Nat) (s : MPR), MPR.WF data s → ∀ k : Nat, (loadByte false data passes (k + 2) s).1 ≠ .again :=
  fun h => h [] 0 MPR.init (MPR.init_WF []) 0 (C13_unrepaired_multipass_spins 2)

/-! ## grpc/json as the engine uses it: pooled ammo objects, passes, limit, chosen cases (round 3)

The provider takes every ammo object from a `sync.Pool` into which the engine's instances release the objects they have
shot. The pool of the model is adversarial: the k-th `Pool.Get()` answers `pool k`, any object in any state - fresh, or
still carrying an earlier entry (tag, call, metadata, payload), its id and its invalid flag. -/

/-- what `Provider.start` sends to the sink does not depend on what the pool hands out -/
def C13_grpc_pool_invisible_statement (fixed : Bool) : Prop :=
  ∀ (coe : Bool) (json : Bytes → Option GFields) (chosen : Bytes → Bool) (limit passes : Nat) (p q : Nat → GObj)
    (lines : List Bytes) (fuel : Nat),
    gStart fixed coe json chosen limit passes p lines fuel 0 0 0 = gStart fixed coe json chosen limit passes q lines fuel 0 0 0

/-- every file (list of scanner tokens), every jsoniter oracle, every option, every two pools: the same run -/
theorem C13_grpc_pool_invisible : C13_grpc_pool_invisible_statement true := by
  intro coe json chosen limit passes p q lines fuel
  rw [gStart_pure, gStart_pure]

/-- "never alters how well-formed entries are delivered", "skipped where continue-on-error is requested": every object
sent to the sink is what its OWN line says - a line jsoniter decodes arrives with exactly its fields and VALID, whatever
the pooled object held; a line it refuses arrives (continue_on_error) EMPTY and invalidated, never with an earlier entry's
call and payload - in every pass, under every limit and chosen-cases filter. -/
theorem C13_grpc_delivered_as_line (coe : Bool) (json : Bytes → Option GFields) (chosen : Bytes → Bool) (limit passes : Nat)
    (pool : Nat → GObj) (lines : List Bytes) (fuel : Nat) (o : GObj)
    (h : o ∈ (gStart true coe json chosen limit passes pool lines fuel 0 0 0).out) :
    ∃ l ∈ lines, chosen o.f.tag = true ∧
      ((∃ f, json (dropCR l) = some f ∧ o = ⟨f, 0, false⟩) ∨
       (coe = true ∧ json (dropCR l) = none ∧ o = ⟨GFields.zero, 0, true⟩)) := by
  rw [gStart_pure] at h
  obtain ⟨l, hl, ho, hc⟩ := gStartPure_mem coe json chosen limit passes lines fuel 0 0 0 o h
  refine ⟨l, hl, hc, ?_⟩
  unfold gLineObj at ho
  cases hj : json (dropCR l) with
  | some f =>
    left
    simp only [hj, Option.some.injEq] at ho
    exact ⟨f, rfl, ho.symm⟩
  | none =>
    right
    simp only [hj] at ho
    cases coe with
    | true => simp only [if_true, Option.some.injEq] at ho; exact ⟨rfl, rfl, ho.symm⟩
    | false => simp at ho

/-- one pass without limit and chosen cases: the pooled provider IS the line model of `C13_rejected_or_skipped_grpcjson`,
`C13_prefix_preserved` and `C13_no_panic_grpcjson` (so those theorems speak about the pooled provider too) -/
theorem C13_grpc_pooled_is_grpcLines (coe : Bool) (json : Bytes → Option GFields) (pool : Nat → GObj) (lines : List Bytes) :
    grpcLines coe (fun l => (json l).map (·.tag)) lines =
      ⟨(gScan true coe json (fun _ => true) 0 pool lines 0 0).out.map gView,
       gEndOf (gScan true coe json (fun _ => true) 0 pool lines 0 0).end_⟩ := by
  rw [gScan_pure]
  exact gScanPure_grpcLines coe json lines 0 0

/-- "never makes a provider loop": with a pass limit `Provider.start` ends after `passes` passes, with an ammo limit after
at most `limit + 1` (a pass that reaches an entry it delivers once reaches it every time; a first pass that delivers
nothing is "no ammo in file") - every file, oracle, pool, filter -/
theorem C13_terminates_grpc_start (coe : Bool) (json : Bytes → Option GFields) (chosen : Bytes → Bool) (limit passes : Nat)
    (pool : Nat → GObj) (lines : List Bytes) (h : limit ≠ 0 ∨ passes ≠ 0) :
    (gStart true coe json chosen limit passes pool lines (gFuel limit passes) 0 0 0).end_ ≠ .fuel := by
  rw [gStart_pure]
  exact gStartPure_terminates coe json chosen limit passes lines 0 h

/-- … and it ends with the end of the data or an error value -/
theorem C13_no_panic_grpc_start (coe : Bool) (json : Bytes → Option GFields) (chosen : Bytes → Bool) (limit passes : Nat)
    (pool : Nat → GObj) (lines : List Bytes) (h : limit ≠ 0 ∨ passes ≠ 0) :
    let e := (gStart true coe json chosen limit passes pool lines (gFuel limit passes) 0 0 0).end_
    e = .ok ∨ ∃ c, e = .err c := by
  have ht := C13_terminates_grpc_start coe json chosen limit passes pool lines h
  rw [gStart_pure] at ht ⊢
  have := gStartPure_end coe json chosen limit passes lines (gFuel limit passes) 0 0 0
  simp only at this ⊢
  rcases this with h1 | h1
  · exact absurd h1 ht
  · exact h1

/-! the same facts about the definitions regenerated from the current source (`Gen.C13Src`, area `c13src`) -/

/-- `decodeAmmo` as it stands hands back the same object whatever it took from the pool -/
theorem C13_grpc_pool_invisible_source (parsed : Option GFields) (a b : GObj) :
    Gen.C13Src.decodeAmmo parsed a = Gen.C13Src.decodeAmmo parsed b := by
  rw [Bridge.C13.decodeAmmo_bridge, Bridge.C13.decodeAmmo_bridge, gDecodeAmmo_fixed, gDecodeAmmo_fixed]

/-- `(*Ammo).Reset` as it stands clears the invalid flag and the id of a recycled object, and the two accessors agree -/
theorem C13_grpc_reset_clears_source (a : GObj) (tag call metadata payload : Bytes) :
    Gen.C13Src.ammoIsInvalid (Gen.C13Src.ammoReset a tag call metadata payload) = false ∧
    Gen.C13Src.ammoIsValid (Gen.C13Src.ammoReset a tag call metadata payload) = true ∧
    (Gen.C13Src.ammoReset a tag call metadata payload).id = 0 := by
  rw [Bridge.C13.ammoIsValid_bridge, Bridge.C13.ammoIsInvalid_bridge, Bridge.C13.ammoReset_bridge]
  simp [gReset]

/-- the body of the scan loop as it stands: what goes to the sink for a line is what the line says -/
theorem C13_grpc_delivered_as_line_source (coe : Bool) (chosen : Bytes → Bool) (parsed : Option GFields) (pooled : GObj)
    (ammoNum : Nat) (o : GObj) (n' : Int)
    (h : Gen.C13Src.startBody coe chosen parsed pooled ammoNum = some (some o, n')) :
    n' = ammoNum + 1 ∧ chosen o.f.tag = true ∧
      ((∃ f, parsed = some f ∧ o = ⟨f, 0, false⟩) ∨ (coe = true ∧ parsed = none ∧ o = ⟨GFields.zero, 0, true⟩)) := by
  rw [Bridge.C13.startBody_bridge] at h
  unfold gBody at h
  rw [gDecodeAmmo_fixed] at h
  cases parsed with
  | some f =>
    simp only [Bool.false_and, Bool.false_eq_true, if_false] at h
    split at h
    · simp at h
    · rename_i hc
      simp only [Option.map_some, Option.some.injEq, Prod.mk.injEq] at h
      obtain ⟨h1, h2⟩ := h
      subst h1
      exact ⟨by omega, by simpa using hc, .inl ⟨f, rfl, rfl⟩⟩
  | none =>
    cases coe with
    | false => simp at h
    | true =>
      simp only [Bool.not_true, Bool.and_false, Bool.false_eq_true, if_false, if_true, gInvalidate] at h
      split at h
      · simp at h
      · rename_i hc
        simp only [Option.map_some, Option.some.injEq, Prod.mk.injEq] at h
        obtain ⟨h1, h2⟩ := h
        subst h1
        exact ⟨by omega, by simpa using hc, .inr ⟨rfl, rfl, rfl⟩⟩

/-- a round of the outer loop as it stands: the file is scanned again only after a seek to its start, and only when the
passes so far have delivered something -/
theorem C13_terminates_grpcjson_pass_source (limit passes passNum ammoNum : Nat) (scanErr : Bool) :
    Gen.C13Src.grpcPassEnd limit passes passNum ammoNum scanErr ≠ 4 ∧
    (Gen.C13Src.grpcPassEnd limit passes passNum ammoNum scanErr = 0 → 0 < ammoNum) := by
  rw [Bridge.C13.grpcPassEnd_bridge]
  cases hp : grpcPassEnd true limit passes (passNum + 1) ammoNum scanErr with
  | again =>
    have := C13_terminates_grpcjson_pass limit passes (passNum + 1) ammoNum scanErr hp
    simp [Bridge.C13.grpcEndCode, this]
  | stop e =>
    cases e <;> simp [Bridge.C13.grpcEndCode]
    split <;> simp

/-- the statement for the tree before 9da7ed8 (`decodeAmmo` left the pooled object alone when the line could not be
decoded) is false: with `continue_on_error` the refused line `x` is delivered with whatever the recycled object held -/
theorem C13_grpc_pool_invisible_counterexample : ¬ C13_grpc_pool_invisible_statement false := by
  intro h
  have := h true (fun _ => none) (fun _ => true) 0 1 (fun _ => ⟨GFields.zero, 0, false⟩)
    (fun _ => ⟨⟨[116], [99], [], [112]⟩, 7, false⟩) [[120]] 1
  revert this
  decide

/-- non-vacuity: a file of three lines (`good`, `bad`, `good`) read twice with continue_on_error from a pool of dirty
objects - six entries, the well-formed ones valid with their own fields, the refused ones empty and invalidated -/
example :
    (gStart true true (fun l => if l = [103] then some ⟨[116], [99], [], []⟩ else none) (fun _ => true) 0 2
      (fun k => ⟨⟨[115], [115], [115], [115]⟩, k, true⟩) [[103], [98, 13], [103]] (gFuel 0 2) 0 0 0) =
    ⟨[⟨⟨[116], [99], [], []⟩, 0, false⟩, ⟨GFields.zero, 0, true⟩, ⟨⟨[116], [99], [], []⟩, 0, false⟩,
      ⟨⟨[116], [99], [], []⟩, 0, false⟩, ⟨GFields.zero, 0, true⟩, ⟨⟨[116], [99], [], []⟩, 0, false⟩], .ok⟩ := by decide

/-- non-vacuity: limit 4 without a pass limit over a two-line file with a chosen-cases filter that keeps one line -/
example :
    (gStart true true (fun l => if l = [103] then some ⟨[116], [], [], []⟩ else some ⟨[117], [], [], []⟩) (fun t => t == [116]) 4 0
      (fun _ => ⟨GFields.zero, 0, true⟩) [[103], [104]] (gFuel 4 0) 0 0 0).out.length = 4 := by decide

example : Gen.C13Src.startBody true (fun _ => true) none ⟨⟨[115], [115], [115], [115]⟩, 9, true⟩ (3 : Nat) =
    some (some ⟨GFields.zero, 0, true⟩, 4) := by decide

example : Gen.C13Src.grpcPassEnd 0 0 0 3 false = 0 := by decide

/-! ## round 4: the `chosen_cases` filter of the http provider, the `type` of a plugin, the separator of a csv source -/

/-- "never makes a provider loop forever / empty data sources are rejected", for the provider variant `guarded`
(`true`: `runFullScan` tests `ammoNum == 0 && passes.PassNum() > 0` in front of `Scan` and the decoder answers the
`passCounter` assertion): a filter that lets no entry of the file through - wrong tags, a typo - ends the run after ONE pass
with "no ammo" (or with the file's own error), whatever `passes` and `limit` are, zero included, with and without preload -/
def C13_terminates_http_chosen_nothing_statement (guarded : Bool) : Prop :=
  ∀ (one : Run) (chosen : Bytes → Bool) (pre : Bool) (passes limit : Nat),
    (∀ e ∈ one.entries, chosen e.tag = false) →
      ccRunAll guarded one chosen pre passes limit =
        if one.end_ ≠ .ok then ⟨[], one.end_, one.rest⟩ else ⟨[], .err "noammo", []⟩

theorem C13_terminates_http_chosen_nothing : C13_terminates_http_chosen_nothing_statement true := by
  intro one chosen pre passes limit hnone
  have hsel : selOf chosen one.entries = [] := by
    unfold selOf
    rw [List.filter_eq_nil_iff]
    intro e he
    simp [hnone e he]
  unfold ccRunAll
  simp only [hsel, List.length_nil]
  cases pre with
  | true =>
    simp only [if_true]
  | false =>
    simp only [Bool.false_eq_true, if_false]
    unfold ccFuel
    exact ccMulti_nothing one passes limit _ 0 0

/-- without the test (or with a decoder that no longer answers the assertion, which still compiles) the statement is false:
a one-entry file, a filter that refuses its tag, no limits - every amount of fuel runs out -/
theorem C13_terminates_http_chosen_nothing_counterexample : ¬ C13_terminates_http_chosen_nothing_statement false := by
  intro h
  have h1 := h ⟨[⟨[116], [47], []⟩], .ok, []⟩ (fun _ => false) false 0 0 (by simp)
  have h2 := ccMulti_unguarded_spins ⟨[116], [47], []⟩ [] 0 (ccFuel 0 0) 0 0
  have h3 : (ccRunAll false ⟨[⟨[116], [47], []⟩], .ok, []⟩ (fun _ => false) false 0 0).end_ = .fuel := by
    unfold ccRunAll
    simpa [selOf] using h2
  rw [h1] at h3
  simp at h3

/-- … and the same spin with an ammo limit: the limit counts DELIVERED ammo, so it is never reached -/
theorem C13_unrepaired_http_chosen_spins (limit fuel : Nat) :
    (ccMulti false ⟨[⟨[116], [47], []⟩], .ok, []⟩ [] 0 limit fuel 0 0 0).end_ = .fuel :=
  ccMulti_unguarded_spins _ _ limit fuel 0 0

/-- with a limit or a pass limit the provider with a filter ends, whatever the filter lets through -/
theorem C13_terminates_http_chosen (one : Run) (chosen : Bytes → Bool) (pre : Bool) (passes limit : Nat)
    (hone : one.end_ ≠ .fuel) (h : limit ≠ 0 ∨ passes ≠ 0) : (ccRunAll true one chosen pre passes limit).end_ ≠ .fuel := by
  unfold ccRunAll
  cases pre with
  | true =>
    simp only [if_true]
    split
    · exact hone
    · split
      · simp
      · exact C13_terminates_http_passes ⟨selOf chosen one.entries, .ok, []⟩ passes limit (by simp) h
  | false =>
    simp only [Bool.false_eq_true, if_false]
    unfold ccFuel
    by_cases hl : limit ≠ 0
    · rw [if_pos hl]
      exact ccMulti_no_fuel_limit one _ passes limit hone hl _ 0 0 0 (by simp) (by omega)
    · have hl0 : limit = 0 := by omega
      have hp : passes ≠ 0 := by rcases h with h | h; exact absurd hl0 h; exact h
      rw [if_neg hl]
      exact ccMulti_no_fuel_passes true one _ passes limit hone hp _ 0 0 0 (by omega)

/-- it never ends in a panic or a fatal error when a single pass does not -/
theorem C13_no_panic_http_chosen (guarded : Bool) (one : Run) (chosen : Bytes → Bool) (pre : Bool) (passes limit : Nat)
    (hone : End.clean one.end_) :
    (ccRunAll guarded one chosen pre passes limit).end_ ≠ .panic ∧ (ccRunAll guarded one chosen pre passes limit).end_ ≠ .fatal := by
  have hclean : ∀ e : End, (e = .ok ∨ e = one.end_ ∨ e = .fuel ∨ e = .err "noammo") → e ≠ .panic ∧ e ≠ .fatal := by
    intro e he
    rcases he with h | h | h | h
    · rw [h]; simp
    · rw [h]; cases he : one.end_ <;> rw [he] at hone <;> simp [End.clean] at hone ⊢
    · rw [h]; simp
    · rw [h]; simp
  unfold ccRunAll
  cases pre with
  | true =>
    simp only [if_true]
    split
    · exact hclean _ (.inr (.inl rfl))
    · split
      · simp
      · unfold multiRunAll
        rcases multiRun_end_cases ⟨selOf chosen one.entries, .ok, []⟩ passes limit ((if limit ≠ 0 then limit else passes) + 1) 0 0
          with h | h | h | h <;> rw [h] <;> simp
  | false =>
    simp only [Bool.false_eq_true, if_false]
    exact hclean _ (ccMulti_end_cases guarded one _ passes limit _ 0 0 0)

/-- "never alters how well-formed entries are delivered": with a filter the provider hands out entries of the file that
pass the filter, and nothing else -/
theorem C13_http_chosen_delivers_chosen (guarded : Bool) (one : Run) (chosen : Bytes → Bool) (pre : Bool) (passes limit : Nat) :
    ∀ e ∈ (ccRunAll guarded one chosen pre passes limit).entries, e ∈ one.entries ∧ chosen e.tag = true := by
  intro e he
  have hsel : ∀ e ∈ selOf chosen one.entries, e ∈ one.entries ∧ chosen e.tag = true := by
    intro e he
    unfold selOf at he
    simpa [List.mem_filter] using he
  unfold ccRunAll at he
  cases pre with
  | true =>
    simp only [if_true] at he
    split at he
    · simp at he
    · split at he
      · simp at he
      · exact hsel e (multiRun_mem ⟨selOf chosen one.entries, .ok, []⟩ passes limit _ 0 0 e he)
  | false =>
    simp only [Bool.false_eq_true, if_false] at he
    exact hsel e (ccMulti_mem guarded one _ passes limit _ 0 0 0 e he)

/-- a filter that lets everything through is the provider of the earlier theorems (`multiRun`), entry by entry: what was
proved about it (`C13_prefix_preserved`, `C13_rejected_http_no_ammo`, …) is about the provider with its filter too -/
theorem C13_http_chosen_all (one : Run) (passes limit fuel : Nat) :
    (ccMulti true one one.entries passes limit fuel 0 0 0).entries = (multiRun one passes limit fuel 0 0).entries :=
  (ccMulti_all one passes limit fuel 0 0).1

/-- a jsonline file that is one JSON array none of whose elements passes the filter: "no ammo" after one pass over the
array, whatever `passes` and `limit` are; `scanAmmos` never panics under the filter -/
theorem C13_terminates_jsonline_array_chosen_nothing (chosen : Bytes → Bool) (elems : List Bytes) (pre : Bool) (passes limit : Nat)
    (hnone : ∀ t ∈ elems, chosen t = false) :
    jlArrayRunCC true chosen elems pre passes limit = ⟨[], .err "noammo", []⟩ := by
  unfold jlArrayRunCC
  cases pre with
  | true =>
    have : elems.filter chosen = [] := by
      rw [List.filter_eq_nil_iff]
      intro t ht
      simp [hnone t ht]
    simp [this]
  | false =>
    simp only [Bool.false_eq_true, if_false]
    rcases Nat.eq_zero_or_pos elems.length with h0 | hpos
    · have : elems = [] := List.eq_nil_of_length_eq_zero h0
      subst this
      unfold jlArrayFuelCC jlArrayLoopCC
      simp [scanAmmos]
    · have := jlArrayLoopCC_nothing chosen elems passes limit hnone (jlArrayFuelCC elems.length passes limit) ⟨0, 0⟩ []
        (JlArr.init_Inv _ hpos) (by unfold jlArrayFuelCC; omega) (by intro _; unfold jlArrayFuelCC; simp; omega)
      simpa using this

theorem C13_no_panic_jsonline_chosen (guarded : Bool) (src : JSrc) (chosen : Bytes → Bool) (pre : Bool) (passes limit : Nat) :
    (jsonlineRunCC guarded src chosen pre passes limit).end_ ≠ .panic ∧
    (jsonlineRunCC guarded src chosen pre passes limit).end_ ≠ .fatal := by
  cases src with
  | refused => simp [jsonlineRunCC, ctorErr]
  | array elems tr =>
    cases elems with
    | none => simp [jsonlineRunCC, ctorErr]
    | some es =>
      simp only [jsonlineRunCC]
      split
      · simp [ctorErr]
      · unfold jlArrayRunCC
        cases pre with
        | true =>
          simp only [if_true]
          split
          · simp
          · unfold multiRunAll
            rcases multiRun_end_cases ⟨(es.filter chosen).map fun t => (⟨t, [], []⟩ : Entry), .ok, []⟩ passes limit
              ((if limit ≠ 0 then limit else passes) + 1) 0 0 with h | h | h | h <;> rw [h] <;> simp
        | false =>
          simp only [Bool.false_eq_true, if_false]
          exact jlArrayLoopCC_no_panic guarded chosen es passes limit _ _ _ _
  | stream items =>
    simp only [jsonlineRunCC]
    exact C13_no_panic_http_chosen guarded (jlItems items) chosen pre passes limit (jlItems_end_clean items)

/-- the array loop with a filter that refuses nothing is the loop of `C13_no_panic_jsonline` / `C13_terminates_jsonline` -/
theorem C13_jsonline_array_chosen_all (elems : List Bytes) (passes limit fuel : Nat) (s : JlArr) (n : Nat) (acc : List Entry) :
    jlArrayLoopCC true (fun _ => true) elems passes limit fuel s n acc = jlArrayLoop elems passes limit fuel s n acc :=
  jlArrayLoopCC_all elems passes limit fuel s n acc

/-- about the regenerated code: in front of every `Scan`, after a complete pass (`PassNum() ≥ 1`) that delivered nothing,
`runFullScan` as it stands returns `ErrNoAmmo` - for every file decoder (each answers the `passCounter` assertion, from the
types), every limit; the limit counts delivered ammo only; and a pass limit reached with nothing delivered is "no ammo" -/
theorem C13_terminates_http_chosen_source (limit passNum : Nat) (hp : 1 ≤ passNum) :
    (∀ d ∈ Gen.C13Src.passCounterDecoders, Gen.C13Src.fullScanHead limit 0 d.2 passNum = 2) ∧
    Gen.C13Src.fullScanCountsDelivered = true ∧
    (∀ isAmmoLimit, Gen.C13Src.fullScanAfterErr (0 : Nat) true isAmmoLimit = 2) := by
  refine ⟨?_, Bridge.C13.fullScanCounts_bridge, ?_⟩
  · intro d hd
    have hall := Bridge.C13.passCounter_bridge.1
    rw [List.all_eq_true] at hall
    have hd2 : d.2 = true := hall d hd
    rw [hd2]
    have hb := Bridge.C13.fullScanHead_bridge limit 0 passNum true
    simp only [Int.natCast_zero] at hb
    rw [hb]
    unfold Bridge.C13.fullScanHeadModel
    have h1 : ¬ (limit ≠ 0 ∧ 0 ≥ limit) := by omega
    rw [if_neg h1, if_pos ⟨rfl, rfl, by omega⟩]
  · intro b
    rw [Bridge.C13.fullScanAfterErr_bridge]
    simp

/-- "a malformed configuration value is rejected with an error, never a panic": decoding a plugin config, for EVERY shape
of its `type` key(s) (absent, twice, not a string, any string - empty, blank, huge) and every registry, gives a value or an
error, as long as the string `parseConf` tests for emptiness is empty whenever the name it hands on is -/
def C13_no_panic_plugin_type_statement (tested returned : Bytes → Bytes) : Prop :=
  ∀ (registered : Bytes → Bool) (vals : List TypeVal), (pluginFromConf tested returned registered vals).returns = true

theorem C13_no_panic_plugin_type (tested returned : Bytes → Bytes) (h : ∀ s, returned s = [] → tested s = []) :
    C13_no_panic_plugin_type_statement tested returned :=
  fun registered vals => pluginFromConf_returns tested returned registered vals h

/-- a name trimmed AFTER the emptiness test: the statement is false - a `type` of one space passes the test, becomes the
empty name and reaches the registry's `expect(name != "")` -/
theorem C13_no_panic_plugin_type_counterexample : ¬ C13_no_panic_plugin_type_statement id trimSpace := by
  intro h
  have := h (fun _ => true) [.str [32]]
  revert this
  decide

/-- a `type` that is empty or nothing but white space is an error (no plugin has a blank name) -/
theorem C13_rejected_blank_plugin_type (registered : Bytes → Bool) (s : Bytes) (hs : trimSpace s = [])
    (hreg : ∀ n, registered n = true → trimSpace n ≠ []) : ∃ c, pluginFromConf id id registered [.str s] = .err c :=
  pluginFromConf_blank registered s hs hreg

/-- … about `parseConf` as it stands (regenerated: which function of the raw value is tested, which one is handed on) -/
theorem C13_no_panic_plugin_type_source :
    C13_no_panic_plugin_type_statement Gen.C13Src.pcTested Gen.C13Src.pcReturned :=
  C13_no_panic_plugin_type _ _ Bridge.C13.parseConf_bridge

/-- "scenario descriptions … never crash the process": the separator a csv variable source gives its reader is a value for
EVERY `delimiter` string, the empty one included (`guarded`: `delimiter[0]` stands behind the test `delimiter != ""`) -/
def C13_no_panic_csv_delimiter_statement (guarded : Bool) : Prop :=
  ∀ delimiter : Bytes, (csvOpen guarded delimiter).returns = true

theorem C13_no_panic_csv_delimiter : C13_no_panic_csv_delimiter_statement true := csvOpen_returns

theorem C13_no_panic_csv_delimiter_counterexample : ¬ C13_no_panic_csv_delimiter_statement false := by
  intro h
  have := h []
  revert this
  decide

/-- … about `readCsv` as it stands: wherever `delimiter[i]` is evaluated, `i` is inside the string -/
theorem C13_no_panic_csv_delimiter_source (delimiter : Bytes) (h : Gen.C13Src.csvCommaGuard delimiter) :
    boundC Gen.C13Src.csvCommaIndex delimiter.length = .ok () ∧
    (∃ c, (if Gen.C13Src.csvCommaGuard delimiter then indexC delimiter Gen.C13Src.csvCommaIndex else .ok 44) = .ok c) := by
  refine ⟨(Bridge.C13.csvComma_bridge delimiter).1 h, ?_⟩
  rw [(Bridge.C13.csvComma_bridge delimiter).2]
  exact csvComma_guarded delimiter

/-- non-vacuity: a three-entry file, a filter that keeps the tag `u`, limit 5 without a pass limit: `u u u u u` -/
example : (ccRunAll true ⟨[⟨[116], [47], []⟩, ⟨[117], [47], []⟩, ⟨[116], [47], []⟩], .ok, []⟩ (fun t => t == [117]) false 0 5).entries.length = 5 ∧
    (ccRunAll true ⟨[⟨[116], [47], []⟩, ⟨[117], [47], []⟩, ⟨[116], [47], []⟩], .ok, []⟩ (fun t => t == [117]) false 0 5).end_ = .ok := by decide
/-- … the same file with a filter that matches nothing, no limits at all, and with two passes -/
example : ccRunAll true ⟨[⟨[116], [47], []⟩, ⟨[117], [47], []⟩], .ok, []⟩ (fun t => t == [120]) false 0 0 = ⟨[], .err "noammo", []⟩ ∧
    ccRunAll true ⟨[⟨[116], [47], []⟩, ⟨[117], [47], []⟩], .ok, []⟩ (fun t => t == [120]) false 2 0 = ⟨[], .err "noammo", []⟩ := by decide
example : jlArrayRunCC true (fun t => t == [120]) [[116], [117]] false 0 0 = ⟨[], .err "noammo", []⟩ ∧
    (jlArrayRunCC true (fun t => t == [117]) [[116], [117]] false 0 3).entries.length = 3 := by decide
example : Gen.C13Src.fullScanHead 0 0 true 1 = 2 ∧ Gen.C13Src.fullScanHead 3 0 true 0 = 0 ∧ Gen.C13Src.fullScanHead 3 3 true 1 = 1 := by decide
example : pluginFromConf id id (fun n => n == [104]) [.str [104]] = .ok () ∧
    pluginFromConf id id (fun n => n == [104]) [.str [32]] = .err "noplugin" ∧
    pluginFromConf id id (fun n => n == [104]) [.str []] = .err "empty" ∧
    pluginFromConf id id (fun n => n == [104]) [.str [104], .str [104]] = .err "toomany" := by decide
example : csvOpen true [] = .ok 44 ∧ csvOpen true [59, 59] = .ok 59 ∧ csvOpen true [10] = .err "delim" := by decide
example : Gen.C13Src.csvCommaGuard [59] := by decide

/-! ## round 4 (second part): the rows a csv variable source makes of its file (`vs.readCsv`) -/

/-- "a malformed data source never crashes the process": `readCsv`, for EVERY file (every answer `parse` of `csv.Reader`,
for every separator), every `fields` list, `ignore_first_line` and `delimiter`; `guarded` = the test in front of `record[i]` -/
def C13_no_panic_csv_rows_statement (guarded : Bool) : Prop :=
  ∀ (parse : UInt8 → Option (List (List Bytes))) (ign : Bool) (delimiter : Bytes) (fields : List Bytes),
    (readCsvModel true guarded parse ign delimiter fields).returns = true

theorem C13_no_panic_csv_rows : C13_no_panic_csv_rows_statement true := by
  intro parse ign delimiter fields
  unfold readCsvModel
  have hopen := csvOpen_returns delimiter
  cases hc : csvOpen true delimiter with
  | ok c =>
    simp only [Res.bind]
    cases hp : parse c with
    | none => simp [Res.returns, Res.isPanic, Res.isFatal]
    | some records =>
      obtain ⟨rows, h, _⟩ := csvRows_guarded records (fields.map underscored) ign
      simp [h, Res.returns, Res.isPanic, Res.isFatal]
  | err e => simp [Res.bind, Res.returns, Res.isPanic, Res.isFatal]
  | panic w => rw [hc] at hopen; simp [Res.returns, Res.isPanic] at hopen
  | fatal w => rw [hc] at hopen; simp [Res.returns, Res.isPanic, Res.isFatal] at hopen

/-- without the test the statement is false: a file with one column under a configuration that names two -/
theorem C13_no_panic_csv_rows_counterexample : ¬ C13_no_panic_csv_rows_statement false := by
  intro h
  have := h (fun _ => some [[[97]]]) false [] [[120], [121]]
  revert this
  decide

/-- … and so for every record shorter than the list of configured columns -/
theorem C13_unrepaired_csv_short_record (record fields : List Bytes) (h : record.length < fields.length) :
    ∃ i, i < fields.length ∧ (csvRowFrom false record (fields.drop i) i).isPanic = true :=
  ⟨record.length, h, csvRowFrom_unguarded_short record _ _ (by
    intro hd
    have := congrArg List.length hd
    simp at this
    omega) (Nat.le_refl _)⟩

/-- nothing is dropped and nothing invented: one row per record the reader hands out, but for an ignored first one -/
theorem C13_csv_rows_complete (records : List (List Bytes)) (fields : List Bytes) (ign : Bool) :
    ∃ rows, csvRows true records fields ign = .ok rows ∧ rows.length = csvRowCount records.length ign :=
  csvRows_guarded records fields ign

/-- every row names every configured column (a column the file does not have is the empty string) -/
theorem C13_csv_rows_columns (records : List (List Bytes)) (fields : List Bytes) (ign : Bool) (hf : fields.length ≠ 0)
    (rows : List (List (Bytes × Bytes))) (h : csvRows true records fields ign = .ok rows) :
    ∀ row ∈ rows, row.length = fields.length :=
  csvRows_row_length records fields ign hf rows h

/-- "never alters how well-formed entries before it are delivered": the rows of the records read first do not depend on
what follows them -/
theorem C13_prefix_preserved_csv (good more : List (List Bytes)) (fields : List Bytes) (ign : Bool) :
    ∃ rows tail, csvRows true good fields ign = .ok rows ∧ csvRows true (good ++ more) fields ign = .ok (rows ++ tail) :=
  csvRows_append good more fields ign

/-- "is rejected with an error": a file the reader refuses (a quote that is not closed, a record with another number of
columns, …) makes `readCsv` return that error, whatever was read before; so does a separator the reader refuses -/
theorem C13_rejected_csv_reader_error (guardedR : Bool) (parse : UInt8 → Option (List (List Bytes))) (ign : Bool)
    (delimiter : Bytes) (fields : List Bytes) :
    (∀ c, csvOpen true delimiter = .ok c → parse c = none →
      readCsvModel true guardedR parse ign delimiter fields = .err "csv") ∧
    (∀ e, csvOpen true delimiter = .err e → readCsvModel true guardedR parse ign delimiter fields = .err e) := by
  constructor
  · intro c hc hp
    simp [readCsvModel, hc, Res.bind, hp]
  · intro e he
    simp [readCsvModel, he, Res.bind]

/-- … about `readCsv` as it stands (regenerated: the conditions under which `record[…]` is evaluated inside the loop over
the column names, and the index): the index is inside the record, and the cell is read exactly when the record has it -/
theorem C13_no_panic_csv_rows_source (i recLen : Int) (hi : 0 ≤ i) :
    (Gen.C13Src.csvRecordGuard i recLen → boundC (Gen.C13Src.csvRecordIndex i recLen) recLen = .ok ()) ∧
    (Gen.C13Src.csvRecordGuard i recLen ↔ ¬ i ≥ recLen) :=
  Bridge.C13.csvRecord_bridge i recLen hi

/-- non-vacuity: a header, two records (one column more than configured, one less), `ignore_first_line`, a column without
a name and one named twice -/
example : csvRows true [[[104]], [[97], [98], [99]], [[100]]] [[120], [], [120]] true =
    .ok [[([120], [97]), ([49], [98]), ([120], [99])], [([120], [100]), ([49], []), ([120], [])]] := by decide
example : csvRows true [[[97, 32, 98], [99]], [[49], [50]]] [] true = .ok [[([97, 95, 98], [49]), ([99], [50])]] := by decide
example : readCsvModel true true (fun c => if c == 59 then some [[[97], [98]]] else none) false [59] [[120]] = .ok [[([120], [97])]] := by decide
example : readCsvModel true true (fun _ => none) false [] [[120]] = .err "csv" := by decide
example : readCsvModel true true (fun _ => some []) true [10] [] = .err "delim" := by decide
example : Gen.C13Src.csvRecordGuard 0 1 ∧ ¬ Gen.C13Src.csvRecordGuard 1 1 := by decide

/-! ## round 6

### nothing is allocated in proportion to an announced repeat count (1eaf10a, 4cfc662, 28b7d1e)

Until round 5 "memory proportional to an announced repeat count" was an assumption of this check; the code now bounds all
three (`name(n)` in a request list, scenario weights, `randString(n)`) and the assumption is gone: `C13_no_panic_spread` and
`C13_no_panic_randString` above hold for EVERY input, `C13_spread_bounded` / `C13_randString_bounded` give the bounds, and: -/

/-- EVERY request list, every registry: `convertScenarioToAmmo` returns an error or at most `MaxScenarioRequests` requests -
`r1(99999999999)` is an error value, not an append loop that exhausts the memory -/
theorem C13_expand_bounded (known : Bytes → Bool) (reqs : List Bytes) (steps : List ScnStep)
    (h : expand true known reqs = .ok steps) : (steps.length : Int) ≤ maxScenarioRequests :=
  expandGo_bounded known reqs [] steps (by decide) h

/-- "absurdly large sizes … rejected with an error": a repeat count above what is left of the bound ends the conversion with an
error, wherever the item stands in the list and whatever follows it -/
theorem C13_rejected_too_many_requests (known : Bytes → Bool) (pre : List Bytes) (sh : Bytes) (rest : List Bytes)
    (out : List ScnStep) (name : Bytes) (cnt sl : Int)
    (hpre : expand true known pre = .ok out) (h : parseShootName sh = .ok ⟨name, cnt, sl⟩)
    (hn : name ≠ sleepName) (hk : known name = true) (hbig : cnt > maxScenarioRequests - (out.length : Int)) :
    expand true known (pre ++ sh :: rest) = .err "too-many-requests" := by
  unfold expand at hpre ⊢
  rw [expandGo_append true known pre (sh :: rest) [] out hpre]
  unfold expandGo
  simp [h, hn, hk, hbig]

/-- the unrepaired conversion (before 1eaf10a) builds whatever is announced: no bound holds -/
theorem C13_expand_bounded_counterexample :
    ¬ ∀ (known : Bytes → Bool) (reqs : List Bytes) (steps : List ScnStep),
      expand false known reqs = .ok steps → (steps.length : Int) ≤ 3 := by
  intro h; have := h Ex.knownR1 [Ex.r1x2, Ex.r1x2] _ rfl; revert this; decide

/-- … about the code as it stands: the regenerated tests in front of the append loops (http and grpc) refuse exactly the
counts `expandGo` refuses, the regenerated `CheckSpread` is `checkSpread` and both `decodeAmmo` call it before their `make`,
the regenerated `randString` is `randStringLen`, and the three constants are the model's -/
theorem C13_bounded_allocation_source (cnt built : Int) (counts : List Int) (total n : Int) :
    (Gen.C13Src.httpRepeatRefused cnt built ↔ cnt > maxScenarioRequests - built) ∧
    (Gen.C13Src.grpcRepeatRefused cnt built ↔ cnt > maxScenarioRequests - built) ∧
    Gen.C13Src.httpDecodeAmmoChecksSpread = true ∧ Gen.C13Src.grpcDecodeAmmoChecksSpread = true ∧
    (checkSpread counts total = true ↔ (Gen.C13Src.checkSpreadTotal total ∨ ∃ c ∈ counts, Gen.C13Src.checkSpreadCount c)) ∧
    (∀ k, Gen.C13Src.randStringLen n = .ok k → 0 < k ∧ k ≤ Gen.C13Src.maxRandStringLength) ∧
    (Gen.C13Src.randStringLen n).returns = true := by
  have hr := Bridge.C13.repeatRefused_bridge cnt built
  have hc := Bridge.C13.checkSpread_bridge counts total
  refine ⟨hr.1, hr.2, hc.1, hc.2.1, hc.2.2, ?_, ?_⟩
  · intro k hk
    rw [Bridge.C13.randStringLen_bridge] at hk
    rcases randStringLen_fixed n with ⟨_, h⟩ | ⟨h0, h⟩ | ⟨h0, h1, h⟩ | ⟨_, h⟩ <;> rw [h] at hk <;>
      simp [Bridge.C13.eraseErr, Res.bind] at hk
    · subst hk; decide
    · subst hk; rw [Bridge.C13.maxRandStringLength_bridge]; omega
  · rw [Bridge.C13.randStringLen_bridge, Bridge.C13.eraseErr_returns]
    rcases randStringLen_fixed n with ⟨_, h⟩ | ⟨_, h⟩ | ⟨_, _, h⟩ | ⟨_, h⟩ <;> rw [h] <;>
      simp [Res.bind, Res.returns, Res.isPanic, Res.isFatal]

/- non-vacuity: a list that expands, one whose second item exceeds what is left, weights and lengths around the bounds -/
example : expand true Ex.knownR1 [Ex.r1x2, Ex.r1] = .ok [(Ex.r1, 50), (Ex.r1, 50), (Ex.r1, 0)] := by decide
example : parseShootName Ex.r1Huge = .ok ⟨Ex.r1, 1048575, 0⟩ ∧ Ex.knownR1 Ex.r1 = true ∧ Ex.r1 ≠ sleepName ∧
    (1048575 : Int) > maxScenarioRequests - (([(Ex.r1, 50), (Ex.r1, 50)] : List ScnStep).length : Int) := by decide
example : spread true [16777217, 1] = .err "spread" ∧ spread true [16777215, 1] = .ok [16777215, 1] ∧
    spread true [9223372036854775807, 9223372036854775807, 2] = .err "spread" := by decide
example : randStringLen true 16777216 = .ok 16777216 ∧ randStringLen true 16777217 = .err "length" := by decide

/-! ### the end of `Run`: "never makes a provider … block forever", seen from the instances

An instance waits in `Acquire` (`<-sink`, no context) and is released by an entry or by the close of the sink; `Run` closes the
sink in a `defer`, which covers the return paths AFTER the `defer` statement only. -/

/-- a `Run` whose closing defer stands in front of every statement that may return: at EVERY return (every fault point `k`:
the file cannot be opened, a read fails, the context is cancelled, the regular end) the sink is closed, and an instance that
acquires afterwards - whatever is still buffered - is told "no more ammo" after exactly the buffered entries, never blocked -/
theorem C13_acquire_returns_after_run (l : List RunStmt) (h : closesOnEveryReturn l = true) (k : Nat) (closed : Bool)
    (hk : closedAtReturn l k false = some closed) (buffered : Nat) :
    drainAfterRun (buffered + 1) ⟨buffered, closed⟩ = some buffered := by
  have := closesOnEveryReturn_sound l h k false closed hk
  subst this
  exact drain_closed buffered (buffered + 1) (by omega)

/-- the full statement for an arbitrary `Run` is false: one `return` in front of the defer (the seeded change C13-r6-3: the
open of the ammo file moved above `defer close(p.Sink)`) and every instance blocks for ever, with any fuel -/
def C13_acquire_returns_after_run_statement : Prop :=
  ∀ (l : List RunStmt) (k : Nat) (closed : Bool), closedAtReturn l k false = some closed →
    ∀ buffered, ∃ fuel, drainAfterRun fuel ⟨buffered, closed⟩ ≠ none

theorem C13_acquire_returns_after_run_counterexample : ¬ C13_acquire_returns_after_run_statement := by
  intro h
  obtain ⟨fuel, hf⟩ := h [.other, .mayReturn, .deferClose, .other, .mayReturn] 0 false rfl 0
  exact hf (drain_open 0 fuel)

/-- exactly the lists accepted by `closesOnEveryReturn` are safe: any other has a return that leaves the sink open -/
theorem C13_run_close_complete (l : List RunStmt) (h : closesOnEveryReturn l = false) (buffered fuel : Nat) :
    closedAtReturn l 0 false = some false ∧ drainAfterRun fuel ⟨buffered, false⟩ = none :=
  ⟨closesOnEveryReturn_complete l h, drain_open buffered fuel⟩

/-- … about the code as it stands (regenerated statement lists of `Run` of the grpc provider base, the http provider,
`DecodeProvider` and the scenario provider): whichever return is taken, `Acquire` returns afterwards -/
theorem C13_acquire_returns_after_run_source (k : Nat) (closed : Bool) (buffered : Nat) :
    (closedAtReturn Gen.C13Src.grpcRunStmts k false = some closed → drainAfterRun (buffered + 1) ⟨buffered, closed⟩ = some buffered) ∧
    (closedAtReturn Gen.C13Src.httpRunStmts k false = some closed → drainAfterRun (buffered + 1) ⟨buffered, closed⟩ = some buffered) ∧
    (closedAtReturn Gen.C13Src.decodeRunStmts k false = some closed → drainAfterRun (buffered + 1) ⟨buffered, closed⟩ = some buffered) ∧
    (closedAtReturn Gen.C13Src.scenarioRunStmts k false = some closed → drainAfterRun (buffered + 1) ⟨buffered, closed⟩ = some buffered) := by
  obtain ⟨h1, h2, h3, h4⟩ := Bridge.C13.runClosesSink_bridge
  exact ⟨fun hk => C13_acquire_returns_after_run _ h1 k closed hk buffered,
    fun hk => C13_acquire_returns_after_run _ h2 k closed hk buffered,
    fun hk => C13_acquire_returns_after_run _ h3 k closed hk buffered,
    fun hk => C13_acquire_returns_after_run _ h4 k closed hk buffered⟩

/- non-vacuity: the grpc `Run` has two returns (the failed open, the end of `start`), both after the defer; three entries buffered -/
example : closedAtReturn Gen.C13Src.grpcRunStmts 0 false = some true ∧ closedAtReturn Gen.C13Src.grpcRunStmts 1 false = some true ∧
    closedAtReturn Gen.C13Src.grpcRunStmts 3 false = none := by decide
example : drainAfterRun 4 ⟨3, true⟩ = some 3 ∧ drainAfterRun 100 ⟨3, false⟩ = none := by decide

end Pandora.Props.C13
