/-
C12 — Instance startup profile: how many instances start, when, and with which ids.

The theorems are about the transition system `Pandora.Model.C12` (`startInstances` around the startup `Waiter` of C04, the
cancel sources of the start context, run cancel, creation failure, instances finishing), for ALL startup token sequences
`all : List Int`, BOTH variants of the Waiter (`v`) and ALL finite interleavings of events `evs : List Event` — events that
are not enabled in a state are no-ops, so every list is an interleaving.  `C12_instance_step_shape` is about the
REGENERATED `schedule.NewInstanceStep` (`Pandora.Gen.Schedule`).  The model is tied to the engine by the real-time
correspondence run (harness/cmd/c12).
-/
import Pandora.Proofs.C12
import Pandora.Proofs.C12Shape

namespace Pandora.Props.C12
open Pandora.Model.C04 Pandora.Model.C12 Pandora.Proofs.C04 Pandora.Proofs.C12

/-- Ids: in every reachable state the instances created so far carry the ids 0, 1, …, k−1 in creation order (distinct,
consecutive from 0), and k is the `started` counter the loop reports. -/
theorem C12_ids (v : Variant) (all : List Int) (evs : List Event) :
    let s := run v (St.init all) evs
    s.created.map (·.id) = List.range s.created.length ∧ s.started = s.created.length ∧
      (s.created.map (·.id)).Nodup := by
  have h := run_inv v all (St.init all) evs (Inv.init all)
  refine ⟨h.ids, h.started, ?_⟩
  rw [h.ids]
  exact List.nodup_range

/-- Never ahead of the profile: under the clock hypotheses of C04 for the `Wait` calls of the startup waiter, the
instance with id j is created at an instant ≥ the release time of token j (`all[j]`, = schedule start + t_j); in
particular at any instant no more instances exist than the profile has released. -/
theorem C12_not_ahead (v : Variant) (all : List Int) (evs : List Event)
    (hclk : EventsClockOK (St.init all).waiter evs) :
    ∀ c ∈ (run v (St.init all) evs).created, ∃ t, all[c.id]? = some t ∧ t ≤ c.instant :=
  run_notAhead v all (St.init all) evs (Inv.init all) (by intro c hc; simp [St.init] at hc) hclk

/-- The startup profile never reduces the number of running instances: no event other than an instance's own `Run`
returning removes an instance from the running set — neither a step of the start loop (whatever its `Wait` returns) nor
the cancellation of the START context by ammo exhaustion or by the end of the shared RPS profile; and an instance returns
with a context error only when the RUN context is done. -/
theorem C12_never_reduced (v : Variant) (s : St) (ev : Event) :
    ((∀ id r, ev ≠ .instanceExit id r) → ∀ id ∈ s.running, id ∈ (step v s ev).running) ∧
    (∀ id, s.runCtxDone = false → (step v s (.instanceExit id .cancelled)).running = s.running) := by
  constructor
  · intro hne id hid
    cases ev with
    | wait env createOk delay =>
      show id ∈ (stepWait v s env createOk delay).running
      unfold stepWait
      dsimp only
      (repeat' split) <;> simp [hid]
    | outOfAmmoResult => exact hid
    | rpsFinished => exact hid
    | runCancel => exact hid
    | instanceExit i r => exact absurd rfl (hne i r)
  · intro id hrun
    show (stepExit s id .cancelled).running = s.running
    simp [stepExit, hrun]

/-- All tokens of the profile result in instances unless instance start was cut short: when `startInstances` has
returned with fewer instances than the profile has tokens, then ammo ran out, or the shared RPS profile finished, or an
instance could not be created, or the run was cancelled. -/
theorem C12_all_tokens_unless (v : Variant) (all : List Int) (evs : List Event) (s : St)
    (hs : s = run v (St.init all) evs) :
    s.phase = .done → s.started < all.length →
      s.sawOutOfAmmo = true ∨ s.sawRpsFinished = true ∨ s.sawCreateFailed = true ∨ s.sawRunCancelled = true := by
  intro hd hlt
  have h := run_inv v all (St.init all) evs (Inv.init all)
  rw [← hs] at h
  rcases h.done hd with hnil | hc
  · rcases h.consumed with hcons | ⟨_, hf⟩
    · have : all.drop s.consumed = [] := by rw [← h.toks]; exact hnil
      rw [List.drop_eq_nil_iff] at this
      omega
    · exact Or.inr (Or.inr (Or.inl hf))
  · exact hc

/-- `instance_step`: the REGENERATED `NewInstanceStep(from, to, step, d)`, started at 0, emits `from` tokens at 0 and then
`step` tokens at m·d for m = 1, 2, … as long as `from + m·step ≤ to` (so never more than `to` in total when from ≤ to),
and finishes at (number of steps)·d. -/
theorem C12_instance_step_shape (f t s d : ℤ) :
    Proofs.C12Shape.toks (Gen.Schedule.NewInstanceStep f t s d) 0 =
      (List.replicate f.toNat 0 ++
        (List.range (stepCount f t s)).flatMap (fun (m : ℕ) => List.replicate s.toNat (((m : ℤ) + 1) * d)),
       (stepCount f t s : ℤ) * d) ∧
    (1 ≤ s → f ≤ t → 0 ≤ f → f + (stepCount f t s : ℤ) * s ≤ t ∧ t < f + ((stepCount f t s : ℤ) + 1) * s) := by
  refine ⟨Proofs.C12Shape.instanceStep_toks f t s d, ?_⟩
  intro hs hft hf
  unfold stepCount
  split
  · rename_i h
    have h0 : 0 ≤ (t - (f + s)) / s := Int.ediv_nonneg (by omega) (by omega)
    have hm := Int.emod_add_mul_ediv (t - (f + s)) s
    have hr := Int.emod_nonneg (t - (f + s)) (by omega : s ≠ 0)
    have hr2 := Int.emod_lt_of_pos (t - (f + s)) (by omega : 0 < s)
    have hc : ((((t - (f + s)) / s).toNat + 1 : ℕ) : ℤ) = (t - (f + s)) / s + 1 := by
      push_cast; rw [Int.toNat_of_nonneg h0]
    rw [hc]
    constructor <;> nlinarith
  · constructor <;> (push_cast; omega)

/-! ### non-vacuity -/

/-- startup tokens at 0, 1 s, 2 s; the loop starts two instances, ammo runs out, the third `Wait` sees the cancelled
start context -/
def demoToks : List Int := [0, 1000000000, 2000000000]
def demoEvents : List Event :=
  [ .wait { tok := some 0, pick := 10, now := 20, arm := 20, ret := 30 } true 5,
    .wait { tok := some 1000000000, pick := 100, now := 110, arm := 120, ret := 1000000400 } true 7,
    .instanceExit 0 .ammoEnd,
    .outOfAmmoResult,
    .wait { ctxDone := true, tok := some 2000000000, pick := 1000000500, now := 1000000600, arm := 1000000600, ret := 1000000700 } true 0 ]

example : EventsClockOK (St.init demoToks).waiter demoEvents := by decide
example : (run .fresh (St.init demoToks) demoEvents).created =
    [⟨0, 35, true⟩, ⟨1, 1000000407, true⟩] := by decide
example : (run .fresh (St.init demoToks) demoEvents).phase = .done ∧
    (run .fresh (St.init demoToks) demoEvents).started = 2 ∧
    (run .fresh (St.init demoToks) demoEvents).sawOutOfAmmo = true ∧
    (run .fresh (St.init demoToks) demoEvents).running = [1] := by decide
/-- without any cause every token gets its instance -/
example : (run .fresh (St.init [0, 5]) [ .wait { tok := some 0, now := 1, arm := 1, ret := 1 } true 0,
    .wait { tok := some 5, now := 2, arm := 2, ret := 6 } true 0, .wait { tok := none, now := 7, arm := 7, ret := 7 } true 0 ]).started = 2 := by decide
/-- instance_step 10 → 100 step 10 of docs/eng/startup.md: 10 at once, 9 more steps -/
example : stepCount 10 100 10 = 9 := by decide
example : (instanceStepToks 2 5 3 500).length = 5 ∧ instanceStepToks 2 5 3 500 = [0, 0, 500, 500, 500] := by decide

end Pandora.Props.C12
