/-
C12 — Instance startup profile: how many instances start, when, and with which ids.

The theorems are about the transition system `Pandora.Model.C12` (`startInstances` around the startup `Waiter` of C04, the
cancel sources of the start context, run cancel, creation failure, instances finishing), for ALL startup token sequences
`all : List Int`, ALL configurations `c : Cfg` (both variants of the Waiter, shared and per-instance RPS schedule) and ALL
finite interleavings of events `evs : List Event` — events that are not enabled in a state are no-ops, so every list is an
interleaving; a `Wait` call that sleeps is two events (`wait`, then `timerFire` or `wakeCancelled`) with anything in
between, so a cancellation may arrive before, during and after every call.

Tie to the source (checked on every run):
* `C12_refines_source`, `C12_wiring_is_source`, `C12_instance_loop_is_source`, `C12_wait_is_source`: the sequential
  program the transition system refines, the cancel wiring, the loop of `instance.Run` and `Waiter.Wait` are the
  definitions REGENERATED from /repo (`Pandora.Gen.Startup`, `Pandora.Gen.Waiter`);
* `C12_instance_step_shape`, `C12_composite_example` are about the REGENERATED `schedule.NewInstanceStep` / `NewOnce` /
  `NewConst` (`Pandora.Gen.Schedule`);
* the real-time correspondence run (harness/cmd/c12) replays what the real engine did through `Model.C12.run`.

The POOL layer (`Model/C12Pool`): the abstract events "`Run` of an instance returns for reason r", "an out-of-ammo result
is awaited", "the shared RPS schedule reports its end" are refined to what the code does — single passes of the loop of
`instance.Run` (which run the finish callback themselves and send a result), the await loop receiving run results and the
start result, `checkAllInstancesAreFinished`.  `C12_pool_refines` / `C12_pool_inherits`: every theorem above holds for that
layer; `C12_exit_reason_is_source`: the returns of the REGENERATED `instance.Run` are the exit reasons, each an enabled
abstract exit; `C12_pool_cancels_run_only_when_all_finished` + `C12_pool_await_is_source`: the pool itself cancels the run
context only when no instance runs and no result is in flight, with the regenerated counters.
-/
import Pandora.Proofs.C12
import Pandora.Proofs.C12Pool
import Pandora.Proofs.C12Engine
import Pandora.Proofs.C12Fine
import Pandora.Proofs.C12Shape
import Pandora.Bridge.C12Startup
import Pandora.Bridge.Waiter
import Pandora.Bridge.C12Left
import Pandora.Bridge.C12Wait
import Pandora.Proofs.C12Wait
import Pandora.Props.C02
import Pandora.Proofs.C12R6
import Pandora.Bridge.C12Close

namespace Pandora.Props.C12
open Pandora.Model.C04 Pandora.Model.C12 Pandora.Proofs.C04 Pandora.Proofs.C12 Pandora.Go.C12

/-! ### clause 2 — ids -/

/-- Ids: in every reachable state the instances the loop has tried to create so far carry the ids 0, 1, …, k−1 in
creation order (distinct, consecutive from 0), k is the `started` counter the loop reports, and it never exceeds the
number of tokens of the profile.  (A creation that fails in its goroutine has consumed its id; see `C12_ids_started`.) -/
theorem C12_ids (c : Cfg) (all : List Int) (evs : List Event) :
    let s := run c (St.init all) evs
    s.created.map (·.id) = List.range s.created.length ∧ s.started = s.created.length ∧
      (s.created.map (·.id)).Nodup ∧ s.started ≤ all.length := by
  have h := run_inv c all (St.init all) evs (Inv.init c all)
  refine ⟨h.ids, h.started, ?_, ?_⟩
  · rw [h.ids]
    exact List.nodup_range
  · rcases h.cons with hc | ⟨_, hc⟩ <;> have := h.bound <;> omega

/-- …and as long as no creation has failed, every one of them is a started instance: the ids of the STARTED instances
are exactly 0, …, k−1, and the running instances are among them. -/
theorem C12_ids_started (c : Cfg) (all : List Int) (evs : List Event) :
    let s := run c (St.init all) evs
    (s.sawCreateFailed = false → ∀ cr ∈ s.created, cr.ok = true) ∧
      (∀ id ∈ s.running, ∃ cr ∈ s.created, cr.id = id ∧ cr.ok = true) := by
  have h := run_inv c all (St.init all) evs (Inv.init c all)
  exact ⟨h.failed, h.running⟩

/-! ### clause 1 — never ahead of the profile -/

/-- Never ahead of the profile: under the clock hypotheses of C04 for the `Wait` calls of the startup waiter, the
instance with id j is created at an instant ≥ the release time of token j (`all[j]`, = schedule start + t_j). -/
theorem C12_not_ahead (c : Cfg) (all : List Int) (evs : List Event)
    (hclk : EventsClockOK (St.init all).waiter evs) :
    ∀ cr ∈ (run c (St.init all) evs).created, ∃ t, all[cr.id]? = some t ∧ t ≤ cr.instant :=
  run_notAhead c all (St.init all) evs (Inv.init c all) (by intro cr hc; simp [St.init] at hc)
    (ClockInv.init all evs hclk)

/-- …so at EVERY instant `T` at most as many instances exist as the profile has released tokens by `T`. -/
theorem C12_count_not_ahead (c : Cfg) (all : List Int) (evs : List Event)
    (hclk : EventsClockOK (St.init all).waiter evs) (T : Int) :
    (((run c (St.init all) evs).created.filter (fun cr => decide (cr.instant ≤ T))).length ≤
      (all.filter (fun t => decide (t ≤ T))).length) :=
  count_le_of_notAhead all _ (C12_ids c all evs).1 (C12_not_ahead c all evs hclk) T

/-! ### clause 3 — an instance, once started, is never stopped by the startup profile -/

/-- The number of running instances is never reduced by the startup profile: an instance leaves the running set only
by an event that is its OWN `Run` returning, and `Run` returns only because
* its RPS profile is exhausted (`scheduleEnd`: with a shared profile only after that profile has reported its end),
* the provider has no more ammo (`ammoEnd`),
* `gun.Shoot` panicked (`error`), or
* with a context error — and then the RUN context is done (`cancelled`).
No step of the start loop (whatever its `Wait` answers, whenever it is woken) and no cancellation of the START context
(out of ammo, shared RPS profile finished) removes an instance. -/
theorem C12_never_reduced (c : Cfg) (s : St) (ev : Event) (id : Nat)
    (hin : id ∈ s.running) (hout : id ∉ (step c s ev).running) :
    ∃ r, ev = .instanceExit id r ∧ exitEnabled c s r = true ∧
      (r = .cancelled → s.runCtxDone = true) ∧
      (r = .scheduleEnd → c.perInstance = true ∨ s.sharedRpsDone = true) := by
  cases ev with
  | wait env createOk delay =>
    exfalso; apply hout
    show id ∈ (stepWait c s env createOk delay).running
    unfold stepWait complete
    dsimp only
    (repeat' split) <;> simp [hin]
  | timerFire =>
    exfalso; apply hout
    show id ∈ (stepFire c s).running
    unfold stepFire complete
    dsimp only
    (repeat' split) <;> simp [hin]
  | wakeCancelled =>
    exfalso; apply hout
    show id ∈ (stepWake c s).running
    unfold stepWake complete
    dsimp only
    (repeat' split) <;> simp [hin]
  | outOfAmmoResult =>
    exfalso; apply hout
    show id ∈ (if !s.ammoOut then s else _).running
    split <;> exact hin
  | rpsFinished =>
    exfalso; apply hout
    show id ∈ (if c.perInstance || !anyInstance s then s else _).running
    split <;> exact hin
  | runCancel => exact absurd hin hout
  | instanceExit i r =>
    have hstep : (step c s (.instanceExit i r)).running = (stepExit c s i r).running := rfl
    rw [hstep] at hout
    unfold stepExit at hout
    by_cases hg : (!s.running.contains i || !exitEnabled c s r) = true
    · rw [if_pos hg] at hout; exact absurd hin hout
    · rw [if_neg hg] at hout
      simp only [Bool.or_eq_true, Bool.not_eq_true', not_or, Bool.not_eq_false] at hg
      have hi : i = id := by
        by_cases hi : i = id
        · exact hi
        · exact absurd ((List.mem_erase_of_ne (Ne.symm hi)).mpr hin) hout
      subst hi
      refine ⟨r, rfl, hg.2, ?_, ?_⟩
      · intro hr; subst hr; simpa [exitEnabled] using hg.2
      · intro hr; subst hr; simpa [exitEnabled] using hg.2

/-- …and in every reachable state the run context is done only if the RUN was cancelled (caller or pool failure) — never
by ammo exhaustion or by the end of the RPS profile, which cancel the start context only; the shared RPS profile counts
as finished only after its callback has run, which needs a shared profile and an instance that drew from it. -/
theorem C12_run_ctx_only_by_run_cancel (c : Cfg) (all : List Int) (evs : List Event) :
    let s := run c (St.init all) evs
    (s.runCtxDone = true ↔ s.sawRunCancelled = true) ∧
      (s.sharedRpsDone = true → c.perInstance = false ∧ anyInstance s = true) := by
  have h := run_inv c all (St.init all) evs (Inv.init c all)
  exact ⟨h.runCtx, h.rpsShared⟩

/-! ### clause 4 — all tokens result in instances unless one of the four causes cut instance start short -/

/-- All tokens of the profile result in instances unless instance start was cut short: when `startInstances` has
returned with fewer instances than the profile has tokens, then ammo ran out, or the shared RPS profile finished, or an
instance could not be created, or the run was cancelled — and the cause is real: "out of ammo" only after the provider
refused an instance, "RPS profile finished" only for a shared profile. -/
theorem C12_all_tokens_unless (c : Cfg) (all : List Int) (evs : List Event) (s : St)
    (hs : s = run c (St.init all) evs) :
    (s.phase = .done → s.started < all.length →
      s.sawOutOfAmmo = true ∨ s.sawRpsFinished = true ∨ s.sawCreateFailed = true ∨ s.sawRunCancelled = true) ∧
    (s.sawOutOfAmmo = true → s.ammoOut = true) ∧
    (s.sawRpsFinished = true → c.perInstance = false) := by
  have h := run_inv c all (St.init all) evs (Inv.init c all)
  rw [← hs] at h
  refine ⟨?_, h.ammo, fun hr => (h.rpsShared (h.rps.mp hr)).1⟩
  intro hd hlt
  rcases h.done hd with ⟨hnil, hcons⟩ | hc
  · have : all.drop s.consumed = [] := by rw [← h.toks]; exact hnil
    rw [List.drop_eq_nil_iff] at this
    omega
  · exact hc

/-- Conversely nothing but those causes ends the loop early: while no cause has occurred, a `startInstances` that has
returned has started exactly as many instances as the profile has tokens. -/
theorem C12_all_tokens (c : Cfg) (all : List Int) (evs : List Event) :
    let s := run c (St.init all) evs
    s.phase = .done → s.sawOutOfAmmo = false → s.sawRpsFinished = false → s.sawCreateFailed = false →
      s.sawRunCancelled = false → s.started = all.length ∧ ∀ cr ∈ s.created, cr.ok = true := by
  intro s hd h1 h2 h3 h4
  have hle := (C12_ids c all evs).2.2.2
  have hu := (C12_all_tokens_unless c all evs s rfl).1 hd
  have h := run_inv c all (St.init all) evs (Inv.init c all)
  refine ⟨?_, h.failed h3⟩
  by_cases hlt : s.started < all.length
  · rcases hu hlt with a | a | a | a
    · rw [h1] at a; cases a
    · rw [h2] at a; cases a
    · rw [h3] at a; cases a
    · rw [h4] at a; cases a
  · have : s.started ≤ all.length := hle
    omega

/-! ### the model is the source -/

/-- The start loop of the transition system IS the regenerated `startInstances`: in every reachable state, what the loop
has done (`newInstance` / `go …Run` actions with their contexts and ids, in order), its `started` counter, its `err`
result and whether it has returned are what `Gen.Startup.startInstances` computes from the result of the synchronous
`newInstance` and the answers of the `Wait` calls completed so far. -/
theorem C12_refines_source (c : Cfg) (all : List Int) (evs : List Event) :
    let s := run c (St.init all) evs
    Gen.Startup.startInstances s.firstOk (s.waitLog.map K) =
      ⟨s.acts, (s.started : Int), s.ret, s.phase == .done⟩ := by
  have h := run_inv c all (St.init all) evs (Inv.init c all)
  intro s
  rw [Bridge.C12Startup.startInstances_eq]
  exact h.seq

/-- The cancel wiring of the model is the regenerated one: the start context is a child of the run context and
`startInstances` is given (start, run); an out-of-ammo result cancels the START context and nothing else, any other result cancels no context (it is ignored or reported); the finish callback exists
for a shared RPS schedule only, fires when `Next()` has no token or `Left()` is 0, and cancels the START context only;
the pool cancels the run context itself only when all instances have finished; `runNewInstance` / `newInstance` hand
context and id on unchanged (the id is what the gun's `Bind` sees as `GunDeps.InstanceID`). -/
theorem C12_wiring_is_source :
    Gen.Startup.startCtxParent = Ctx.run ∧ Gen.Startup.startInstancesCtxArgs = [Ctx.start, Ctx.run] ∧
    Gen.Startup.waiterSchedule = "p.StartupSchedule" ∧
    (∀ ce, Gen.Startup.onInstanceResult true false ce = [PoolAct.cancel Ctx.start]) ∧
    (∀ sf ce, ∀ a ∈ Gen.Startup.onInstanceResult true sf ce, a = PoolAct.cancel Ctx.start) ∧
    (∀ sf ce, ∀ a ∈ Gen.Startup.onInstanceResult false sf ce, a = PoolAct.reportErr) ∧
    (∀ pi, Gen.Startup.callbackInstalled pi = !pi) ∧
    (∀ cd, Gen.Startup.onSharedRpsFinish cd = if cd Ctx.start then [] else [PoolAct.cancel Ctx.start]) ∧
    (∀ ok, Gen.Startup.callbackOnNext ok = !ok) ∧ (∀ l, Gen.Startup.callbackOnLeft l = (l == 0)) ∧
    Gen.Startup.runCancelCallers = ["checkAllInstancesAreFinished"] ∧
    (∀ cx id, Gen.Startup.runNewInstance cx id = (cx, id, cx)) ∧
    (∀ cx id, Gen.Startup.newInstance cx id = (cx, id, id)) := by
  exact ⟨rfl, rfl, rfl, fun ce => (Bridge.C12Startup.onInstanceResult_spec false ce).1,
    fun sf ce => (Bridge.C12Startup.onInstanceResult_spec sf ce).2.1,
    fun sf ce => (Bridge.C12Startup.onInstanceResult_spec sf ce).2.2.1,
    Bridge.C12Startup.callbackInstalled_eq, Bridge.C12Startup.onSharedRpsFinish_eq,
    fun _ => rfl, fun _ => rfl, rfl, fun _ _ => rfl, fun _ _ => rfl⟩

/-- The exits of the regenerated `instance.Run` are the four `ExitReason`s: it returns the error of its loop body only as
"out of ammo" after the provider refused it; it returns `ctx.Err()` only after a loop head at which its context (the
run context, by `C12_refines_source` / `C12_wiring_is_source`) was done or its schedule had no token left; and while the
context is not done, tokens are left and there is ammo, it keeps looping.  (`gun.Shoot` panicking is recovered into an
error result.) -/
theorem C12_instance_loop_is_source (its : List RunIter) :
    (∀ e, Gen.Startup.instanceRun its = .body e → e = .outOfAmmo ∧ ∃ it ∈ its, it.ammoOk = false) ∧
    (Gen.Startup.instanceRun its = .ctxErr → ∃ it ∈ its, it.ctxDone = true ∨ it.left = 0) ∧
    ((∀ it ∈ its, it.ctxDone = false ∧ it.left ≠ 0 ∧ it.ammoOk = true) → Gen.Startup.instanceRun its = .running) ∧
    Gen.Startup.recoversShootPanic = true := by
  rw [Bridge.C12Startup.instanceRun_eq]
  exact ⟨instRun_body its, instRun_ctxErr its, instRun_running its, rfl⟩

/-- The `Wait` of the start loop (`Cfg.v = .fresh`, the current code) is the regenerated `(*Waiter).Wait`. -/
theorem C12_wait_is_source (w : Waiter) (e : Env) :
    Gen.Waiter.Wait w e = ((waitV .fresh w e).w, (waitV .fresh w e).ok) :=
  Bridge.Waiter.Wait_eq w e

/-! ### the pool layer: passes of `instance.Run`, the await loop, `checkAllInstancesAreFinished` -/

/-- The pool layer refines the abstract transition system: whatever the instances' passes, the await loop and the start
loop do, in any interleaving, its effect on the abstract state is a run of abstract events. -/
theorem C12_pool_refines (c : Cfg) (all : List Int) (pevs : List PEvent) :
    ∃ evs, (poolRun c (PSt.init all) pevs).base = run c (St.init all) evs :=
  poolRun_refines c all (PSt.init all) pevs (PInv.init c all)

/-- …hence every statement proved for all interleavings of the abstract events (`C12_ids`, `C12_ids_started`,
`C12_all_tokens_unless`, `C12_all_tokens`, `C12_run_ctx_only_by_run_cancel`, `C12_refines_source`, …) holds in every
reachable state of the pool layer. -/
theorem C12_pool_inherits (c : Cfg) (all : List Int) (P : St → Prop) (h : ∀ evs, P (run c (St.init all) evs))
    (pevs : List PEvent) : P (poolRun c (PSt.init all) pevs).base := by
  obtain ⟨evs, he⟩ := C12_pool_refines c all pevs
  rw [he]
  exact h evs

/-- The link between the returns of `instance.Run` and the exit reasons (formerly only documented): (1) one pass of the
pool layer is one pass of the REGENERATED `instance.Run`, whose result is read as: error of the body = "out of ammo",
`ctx.Err()` non-nil = "cancelled", `ctx.Err()` nil = "RPS profile exhausted"; (2) the regenerated loop is the iteration
of single passes; (3) in every reachable state, a pass of a running instance that sees what the state allows (its
context is the RUN context, possibly read stale at the loop head) and ends the instance does so with a reason that is
an ENABLED exit of the abstract system after the finish callback this very pass may have run — "cancelled" only with
the run context done, "RPS profile exhausted" only for a per-instance profile or once the shared one has reported its
end, "out of ammo" only when the provider refused this pass; a pass never produces `error` (that is a `Shoot` panic). -/
theorem C12_exit_reason_is_source :
    (∀ it e, iterOutcome it e = exitReasonOf (Gen.Startup.instanceRun [it]) e) ∧
    (∀ it rest, Gen.Startup.instanceRun (it :: rest) =
      if Gen.Startup.instanceRun [it] = .running then Gen.Startup.instanceRun rest else Gen.Startup.instanceRun [it]) ∧
    (∀ (c : Cfg) (all : List Int) (pevs : List PEvent) (id : Nat) (it : RunIter) (e ne : Bool) (r : ExitReason),
      id ∈ (poolRun c (PSt.init all) pevs).base.running →
      iterMatches (poolRun c (PSt.init all) pevs).base it e ne = true → iterOutcome it e = some r →
        exitEnabled c (afterCallback c (poolRun c (PSt.init all) pevs).base it ne) r = true ∧
        (r = .ammoEnd → it.ammoOk = false) ∧
        (r = .cancelled → (poolRun c (PSt.init all) pevs).base.runCtxDone = true) ∧ r ≠ .error) := by
  refine ⟨fun it e => ?_, fun it rest => ?_, ?_⟩
  · unfold iterOutcome
    rw [Bridge.C12Startup.instanceRun_eq]
  · simp only [Bridge.C12Startup.instanceRun_eq]
    exact instRun_cons it rest
  · intro c all pevs id it e ne r hid hm hr
    exact iter_exit_enabled c all _ (poolRun_inv c all _ pevs (PInv.init c all)).inv id hid it e ne hm r hr

/-- The pool cancels the run context BY ITSELF (`checkAllInstancesAreFinished`) only when no instance is running and no
result is in flight, instance start having finished — so that cancellation never reduces the number of running
instances; and in every reachable state: goroutines launched by `startInstances` (= its `started`) = results awaited +
results in flight + instances running. -/
theorem C12_pool_cancels_run_only_when_all_finished (c : Cfg) (all : List Int) (pevs : List PEvent) :
    let p := poolRun c (PSt.init all) pevs
    (p.poolCancelled = true → p.base.running = [] ∧ p.pending = [] ∧ p.base.phase = .done) ∧
      p.aw.awaited + (p.pending.length : Int) + (p.base.running.length : Int) = (p.base.started : Int) := by
  have h := poolRun_inv c all _ pevs (PInv.init c all)
  refine ⟨fun hc => ?_, h.count⟩
  obtain ⟨hr, hp, hsf⟩ := h.cancelled hc
  exact ⟨hr, hp, (h.startFin hsf).1⟩

/-- The counters and decisions of the await loop used by the pool layer are the regenerated ones: the "all finished"
condition, the run context as the only context cancelled then, the updates of the counters by the two cases, the check
being repeated by both of them, what is done with the start error and with a run result (up to the redundant
`isStartFinished` guard). -/
theorem C12_pool_await_is_source :
    (∀ a, Gen.Startup.allFinished a = allFinished a) ∧ Gen.Startup.onAllFinished = [PoolAct.cancel Ctx.run] ∧
    (∀ a n, Gen.Startup.onStartResAwait a n = onStartResAwait a n) ∧
    (∀ a, Gen.Startup.onRunResAwait a = onRunResAwait a) ∧
    Gen.Startup.startResChecksAll = true ∧ Gen.Startup.runResChecksAll = true ∧
    (∀ ce, Gen.Startup.onStartResult ce = onStartResult ce) ∧
    (∀ a sf ce, Gen.Startup.onInstanceResult a sf ce = onRunResult a sf ce ∨
      (a = true ∧ sf = true ∧ Gen.Startup.onInstanceResult a sf ce = [PoolAct.cancel Ctx.start])) :=
  ⟨Bridge.C12Startup.allFinished_eq, Bridge.C12Startup.onAllFinished_eq, Bridge.C12Startup.onStartResAwait_eq,
    Bridge.C12Startup.onRunResAwait_eq, Bridge.C12Startup.checksAll_eq.1, Bridge.C12Startup.checksAll_eq.2,
    Bridge.C12Startup.onStartResult_eq, Bridge.C12Startup.onInstanceResult_model⟩

/-- Several pools in one engine: the REGENERATED await loop of `Engine.Run` returns — which cancels the context of every
pool — without error only after ALL `nPools` pools have returned without error (the first `nPools` things it received
are error-free pool results); otherwise only because a pool failed or because the engine's context (the caller's) is
done.  So no pool's run is cancelled by the engine merely because another pool ran out of ammo, finished its profiles or
finished altogether (each pool has its own start loop, ids, contexts: the theorems above are per pool). -/
theorem C12_engine_returns_only_when_all_pools_done (nPools : Int) (h0 : 0 ≤ nPools) (evs : List EngEv) (k : Int)
    (r : EngRet) (h : Gen.Startup.engineRun nPools 0 evs = { awaited := k, ret := some r }) :
    (r = .ok → k = nPools ∧ ∃ pre, pre.length = nPools.toNat ∧ pre <+: evs ∧ ∀ e ∈ pre, e = EngEv.result true) ∧
    (r = .failed → EngEv.result false ∈ evs) ∧ (r = .cancelled → EngEv.ctxDone ∈ evs) := by
  rw [Bridge.C12Startup.engineRun_eq] at h
  have := engSeq_spec nPools evs 0 k r h0 h
  simpa using this

/-! ### the statement layer: a pass of `instance.Run` is three separately interleaved statements (round 3) -/

/-- The granularity assumption of the pool layer ("one pass of `instance.Run` is one event") is sound: when the loop head,
`Acquire` and `Wait` of every instance are SEPARATE events, interleaved in any way with each other, with the start loop,
the await loop and cancellations, the pool state reached is one the pool layer reaches with atomic passes (each statement
being the atomic pass that saw what this statement saw — the pool layer allows the stale readings) — hence it is a run of
the abstract system too, and every theorem above holds at statement granularity. -/
theorem C12_statement_interleaving_adds_nothing (c : Cfg) (all : List Int) (fevs : List FEvent) :
    (∃ pevs, pevs.length ≤ fevs.length ∧ (fineRun c (FSt.init all) fevs).p = poolRun c (PSt.init all) pevs) ∧
      ∃ evs, (fineRun c (FSt.init all) fevs).p.base = run c (St.init all) evs := by
  obtain ⟨pevs, hl, hp⟩ := fineRun_refines c (FSt.init all) fevs
  refine ⟨⟨pevs, hl, hp⟩, ?_⟩
  rw [hp]
  exact C12_pool_refines c all pevs

/-- …and nothing is lost: the three statements of a pass of a running instance at its loop head, executed back to back with
the readings of a pool-layer pass the state allows, do exactly what that atomic pass does (so the two layers reach the same
pool states); the statements are those of the REGENERATED `instance.Run`: each ends the instance as the regenerated loop
does on what it saw. -/
theorem C12_pass_is_three_statements (c : Cfg) (f : FSt) (id : Nat) (it : RunIter) (e ne : Bool)
    (hid : f.p.base.running.contains id = true) (hpc : f.pc id = .head)
    (hm : iterMatches f.p.base it e ne = true) :
    (fineRun c f (passEvents id it e ne)).p = poolStep c f.p (.iter id it e ne) ∧
      (∀ cd left e', iterOutcome (headPass cd left) e' = exitReasonOf (Gen.Startup.instanceRun [headPass cd left]) e') ∧
      iterOutcome acquirePass false = exitReasonOf (Gen.Startup.instanceRun [acquirePass]) false ∧
      iterOutcome waitPass false = exitReasonOf (Gen.Startup.instanceRun [waitPass]) false :=
  ⟨pass_back_to_back c f id it e ne hid hpc hm, fun _ _ _ => C12_exit_reason_is_source.1 _ _,
    C12_exit_reason_is_source.1 _ _, C12_exit_reason_is_source.1 _ _⟩

/-! ### the engine layer: n pools and the await loop of `Engine.Run` as ONE transition system (round 3) -/

/-- Inside an engine of `n` pools, for ALL interleavings of the events of all pools, of the caller's cancel, of pools
returning and of the engine's await loop: every pool stays a reachable state of the single-pool layer — so every per-pool
theorem above (ids from 0 per pool, not ahead of ITS profile, never reduced, all tokens unless …) holds for every pool of
an engine (`C12_pool_inherits`) —, and the state of the engine's await loop is what the REGENERATED loop of `Engine.Run`
computes from what it has received. -/
theorem C12_engine_pools_are_pools (c : Nat → Cfg) (toks : Nat → List Int) (n : Nat) (evs : List EEvent) :
    let e := erun c (ESt.init n toks) evs
    (∀ j, ∃ pevs, (e.pool j).p = poolRun (c j) (PSt.init (toks j)) pevs) ∧
      e.eng = Gen.Startup.engineRun (n : Int) 0 e.recvd := by
  have h := erun_inv c toks _ evs (EInv.init c toks n)
  refine ⟨h.reach, ?_⟩
  rw [Bridge.C12Startup.engineRun_eq, h.src, erun_n]
  rfl

/-- …and the run of a pool is cancelled ONLY for a cause: in every reachable state of the engine, if the run context of pool
`j` is done then the caller has cancelled, or some pool has FAILED (reported an error: an instance could not be created, a
gun panicked), or EVERY pool — `j` included — had returned without error, which a pool does only after all its instances
have finished and all their results were awaited.  So a pool that runs out of ammo, whose RPS profile ends, or that finishes
altogether never stops an instance of another pool (the engine-level form of "the number of running instances is never
reduced …", formerly only exercised by the 2–3-pool correspondence runs). -/
theorem C12_engine_cancels_pool_only_for_cause (c : Nat → Cfg) (toks : Nat → List Int) (n : Nat) (evs : List EEvent)
    (j : Nat) (hj : j < n) :
    let e := erun c (ESt.init n toks) evs
    (e.pool j).p.base.runCtxDone = true →
      e.callerCancelled = true ∨ (∃ k, k < n ∧ (e.pool k).failed = true) ∨
        (∀ k, k < n → (e.pool k).ret = some true ∧ (e.pool k).p.poolCancelled = true ∧
          (e.pool k).p.base.running = [] ∧ (e.pool k).p.pending = []) := by
  intro e hrun
  have h := erun_inv c toks _ evs (EInv.init c toks n)
  have hn : e.n = n := erun_n c _ evs
  have pinv : ∀ k, PInv (c k) (toks k) (e.pool k).p := by
    intro k
    obtain ⟨pevs, hp⟩ := h.reach k
    rw [hp]
    exact poolRun_inv (c k) (toks k) _ pevs (PInv.init (c k) (toks k))
  have hs : (e.pool j).p.base.sawRunCancelled = true := (pinv j).inv.runCtx.mp hrun
  rcases cancel_cause c toks e h j (by omega) hs with hc | ⟨k, hk, hf⟩ | hall
  · exact Or.inl hc
  · exact Or.inr (Or.inl ⟨k, by omega, hf⟩)
  · refine Or.inr (Or.inr fun k hk => ?_)
    obtain ⟨hr, hpc⟩ := hall k (by omega)
    obtain ⟨h1, h2, _⟩ := (pinv k).cancelled hpc
    exact ⟨hr, hpc, h1, h2⟩

/-- How a pool FAILS and how its `Run` returns is the source (regenerated): besides a run result that is a real error and a start
result with a creation error (`C12_pool_await_is_source`), only a result of `Provider.Run` / `Aggregator.Run` that is a real
error is reported — a provider or aggregator that merely returns stops nothing (`recvOther` of the pool layer) —; a reported
error is sent to the pool's `Run` unless the pool context is already done; `Run` returns nil only when the await loop has
closed its channel (everything awaited: the `poolReturn … true` rule of the engine layer needs `poolCancelled`), the reported
error when one was sent, `ctx.Err()` when its context is done; returning cancels the pool context, which is the parent of the
run context (hence "a reported error is the abstract run cancel"), and `Engine.Run` returning cancels every pool. -/
theorem C12_pool_failure_is_source :
    (∀ ce, Gen.Startup.onProviderResult ce = onOtherResult ce ∧ Gen.Startup.onAggregatorResult ce = onOtherResult ce) ∧
    (∀ ce, ce Ctx.run = true → onOtherResult ce = []) ∧
    Gen.Startup.poolRunSelect .ctxDone = .ctxErr ∧
    (∀ ok, Gen.Startup.poolRunSelect (.awaitErr ok) = if ok then .reported else .nil) ∧
    Gen.Startup.poolRunCancelsOnReturn = true ∧ Gen.Startup.runCtxIsChildOfPoolCtx = true ∧
    Gen.Startup.engineReturnCancelsPools = true ∧
    (∀ x, x ∈ Gen.Startup.onErrAwaitedCases ↔ (x = ErrCase.send ∨ x = ErrCase.poolCtxDone)) ∧
    (∀ (c : Cfg) (p : PSt), (poolStep c p (.recvOther true)).base = p.base) := by
  refine ⟨Bridge.C12Startup.onOtherResult_eq, ?_, Bridge.C12Startup.poolRunSelect_eq.1,
    Bridge.C12Startup.poolRunSelect_eq.2, Bridge.C12Startup.returnCancels_eq.1, Bridge.C12Startup.returnCancels_eq.2.1,
    Bridge.C12Startup.returnCancels_eq.2.2, Bridge.C12Startup.onErrAwaitedCases_eq, fun _ _ => rfl⟩
  intro ce h
  simp [onOtherResult, h]

/-! ### the profiles -/

/-- `instance_step`: the REGENERATED `NewInstanceStep(from, to, step, d)`, started at 0, emits `from` tokens at 0 and then
`step` tokens at m·d for m = 1, 2, … as long as `from + m·step ≤ to` (so never more than `to` in total when from ≤ to),
and finishes at (number of steps)·d. -/
theorem C12_instance_step_shape (f t s d : ℤ) :
    Proofs.C12Shape.toks (Gen.Schedule.NewInstanceStep f t s d) 0 =
      (List.replicate f.toNat 0 ++
        (List.range (stepCount f t s)).flatMap (fun (m : ℕ) => List.replicate s.toNat (((m : ℤ) + 1) * d)),
       (stepCount f t s : ℤ) * d) ∧
    (1 ≤ s → f ≤ t → 0 ≤ f → f + (stepCount f t s : ℤ) * s ≤ t ∧ t < f + ((stepCount f t s : ℤ) + 1) * s) := by
  refine ⟨Proofs.C12Shape.instanceStep_toks f t s d, ?_⟩
  intro hs hft hf
  unfold stepCount
  split
  · rename_i h
    have h0 : 0 ≤ (t - (f + s)) / s := Int.ediv_nonneg (by omega) (by omega)
    have hm := Int.emod_add_mul_ediv (t - (f + s)) s
    have hr := Int.emod_nonneg (t - (f + s)) (by omega : s ≠ 0)
    have hr2 := Int.emod_lt_of_pos (t - (f + s)) (by omega : 0 < s)
    have hc : ((((t - (f + s)) / s).toNat + 1 : ℕ) : ℤ) = (t - (f + s)) / s + 1 := by
      push_cast; rw [Int.toNat_of_nonneg h0]
    rw [hc]
    constructor <;> nlinarith
  · constructor <;> (push_cast; omega)

/-- composite of the documentation (docs/eng/startup.md): `once a`, then `const 0 ops` for d, then `once b` — `a` tokens
at the start, `b` tokens exactly d later, nothing in between (regenerated `NewOnce` / `NewConst`). -/
theorem C12_composite_example (a b d : ℤ) :
    Proofs.C12Shape.toks (.composite [Gen.Schedule.NewOnce a, Gen.Schedule.NewConst 0 d, Gen.Schedule.NewOnce b]) 0 =
      (List.replicate a.toNat 0 ++ List.replicate b.toNat d, d) := by
  simp [Proofs.C12Shape.toks, Proofs.C12Shape.toksList, Proofs.C12Shape.toks_once, Proofs.C12Shape.toks_const0]

/-- `const` where float64 is exact (a whole number `k` of instances per second dividing 10⁹, a whole number `S` of seconds):
the REGENERATED `NewConst` emits k·S tokens, token i at i·(10⁹/k), and finishes after S seconds. -/
theorem C12_const_shape (k q S s0 : ℤ) (hk : 0 < k) (hq : k * q = 1000000000) :
    Proofs.C12Shape.toks (Gen.Schedule.NewConst (k : ℝ) (S * 1000000000)) s0 =
      ((List.range (k * S).toNat).map (fun (i : ℕ) => s0 + (i : ℤ) * q), s0 + S * 1000000000) :=
  Proofs.C12Shape.toks_const_exact k q S s0 hk hq

/-- `const` with a FRACTIONAL rate of m/1000 instances per second (m > 0) for `ms` milliseconds (float64 read as exact reals;
the Spec uses this only where float64 IS exact: rate and seconds are eighths and 10⁹/rate is whole): the REGENERATED
`NewConst` emits ⌊m·ms/10⁶⌋ tokens — a started fraction of an instance is NOT rounded up —, token i at ⌊i·10¹²/m⌋ ns, and
finishes after the duration. -/
theorem C12_const_fractional_shape (m ms s0 : ℤ) (hm : 0 < m) (hms : 0 ≤ ms) :
    Proofs.C12Shape.toks (Gen.Schedule.NewConst ((m : ℝ) / 1000) (ms * 1000000)) s0 =
      ((List.range ((m * ms) / 1000000).toNat).map (fun (i : ℕ) => s0 + ((i : ℤ) * 1000000000000) / m),
        s0 + ms * 1000000) :=
  Proofs.C12Shape.toks_const_frac m ms s0 hm hms

/-- The token times the executable Spec computes for a startup profile — the ones every correspondence case compares
with what the REAL schedule hands out (`fail:step-shape`) — are those of the composite of the regenerated
`NewOnce` / `NewConst` / `NewInstanceStep`, for every composite — flat or NESTED — of once / const / instance_step parts for which the
Spec computes them at all. -/
theorem C12_profile_tokens (ps : List Spec.C12.Part) (s0 : ℤ) (l : List ℤ)
    (h : Spec.C12.partsToks ps s0 = some l) :
    l = (Proofs.C12Shape.toksList (Proofs.C12Shape.schedsOf ps) s0).1 :=
  Proofs.C12Shape.partsToks_eq ps s0 l h

/-- Nested composites: a composite used as a part of a composite contributes exactly the tokens of its own parts, in
place, and the part after it starts at ITS finish time — the profile is that of the flat sequence, whatever the
bracketing (denotation of `Sched.composite`; compared with the real `compositeSchedule` on every correspondence case,
which include randomly bracketed profiles). -/
theorem C12_nested_composite_flat (a b : List Pandora.Sched) (s0 : ℤ) :
    Proofs.C12Shape.toksList (.composite a :: b) s0 = Proofs.C12Shape.toksList (a ++ b) s0 :=
  Proofs.C12Shape.toks_nested a b s0

/-! ### non-vacuity -/

/-- hypotheses of `C12_profile_tokens` / `C12_const_shape`: a composite the Spec computes -/
example : Spec.C12.partsToks [.once 2, .const 0 500, .step 1 3 1 1000, .const 2 1000] 0 =
    some [0, 0, 500000000, 1500000000, 2500000000, 2500000000, 3000000000] := by decide
example : (0 : ℤ) < 4 ∧ (4 : ℤ) * 250000000 = 1000000000 := by decide
/-- …fractional rates: 2.5/s for 1 s is 2 instances (at 0 and 0.4 s), then 0.625/s for 3.25 s is 2 instances (1.6 s apart) -/
example : Spec.C12.partsToks [.constm 2500 1000, .constm 625 3250] 0 =
    some [0, 400000000, 1000000000, 2600000000] := by decide
example : (0 : ℤ) < 2500 ∧ (0 : ℤ) ≤ 1000 := by decide
/-- …and a nested one: the same tokens as the flat sequence once:1, pause 500 ms, once:1, pause 500 ms, once:2 -/
example : Spec.C12.partsToks [.comp [.once 1, .const 0 500], .comp [.once 1, .comp [.const 0 500, .once 2]]] 0 =
    some [0, 500000000, 1000000000, 1000000000] := by decide


/-- startup tokens at 0, 1 s, 2 s; the loop starts two instances (the second after sleeping on its timer), ammo runs out
while the third `Wait` is asleep, and that call is woken by the cancelled start context -/
def demoToks : List Int := [0, 1000000000, 2000000000]
def demoEvents : List Event :=
  [ .wait { tok := some 0, pick := 10, now := 20, arm := 20, ret := 30 } true 5,
    .wait { tok := some 1000000000, pick := 100, now := 110, arm := 120, ret := 1000000400 } true 7,
    .timerFire,
    .wait { tok := some 2000000000, pick := 1000000500, now := 1000000600, arm := 1000000600, ret := 2000000700 } true 0,
    .instanceExit 0 .ammoEnd,
    .outOfAmmoResult,
    .wakeCancelled ]

example : EventsClockOK (St.init demoToks).waiter demoEvents := by decide
example : (run {} (St.init demoToks) demoEvents).created =
    [⟨0, 35, true⟩, ⟨1, 1000000407, true⟩] := by decide
example : (run {} (St.init demoToks) demoEvents).phase = .done ∧
    (run {} (St.init demoToks) demoEvents).started = 2 ∧
    (run {} (St.init demoToks) demoEvents).sawOutOfAmmo = true ∧
    (run {} (St.init demoToks) demoEvents).running = [1] ∧
    (run {} (St.init demoToks) demoEvents).consumed = 3 ∧
    (run {} (St.init demoToks) demoEvents).waitLog = [true, true, false] := by decide
/-- the same history against the regenerated source -/
example : Gen.Startup.startInstances true ([true, true, false].map K) =
    ⟨[.newInstance .run 0, .goRunFirst .run 0, .goRunNew .run 1], 2, .ofCtx .start, true⟩ := by decide
/-- the timer may still win the final `select` after the start context is cancelled (both ready) -/
example : (run {} (St.init demoToks) (demoEvents.dropLast ++ [.timerFire])).started = 3 := by decide
/-- without any cause every token gets its instance -/
example : (run {} (St.init [0, 5]) [ .wait { tok := some 0, now := 1, arm := 1, ret := 1 } true 0,
    .wait { tok := some 5, now := 2, arm := 2, ret := 6 } true 0, .timerFire,
    .wait { tok := none, now := 7, arm := 7, ret := 7 } true 0 ]).started = 2 := by decide
/-- an instance leaves the running set (hypotheses of `C12_never_reduced`) -/
example : (0 : Nat) ∈ (run {} (St.init demoToks) (demoEvents.take 4)).running ∧
    (0 : Nat) ∉ (step {} (run {} (St.init demoToks) (demoEvents.take 4)) (.instanceExit 0 .ammoEnd)).running := by decide
/-- an exit with a context error is refused while the run context is alive, even after the start context is cancelled -/
example : (step {} (run {} (St.init demoToks) demoEvents) (.instanceExit 1 .cancelled)).running = [1] ∧
    (step {} (step {} (run {} (St.init demoToks) demoEvents) .runCancel) (.instanceExit 1 .cancelled)).running = [] := by
  decide
/-- the synchronous creation fails: nothing started, one token drawn, the loop is over -/
example : (run {} (St.init demoToks) [ .wait { tok := some 0, now := 20, arm := 20, ret := 30 } false 0 ]).phase = .done ∧
    (run {} (St.init demoToks) [ .wait { tok := some 0, now := 20, arm := 20, ret := 30 } false 0 ]).sawCreateFailed = true := by
  decide
/-- the shared RPS profile ends: start cancelled; with per-instance schedules the same event is not enabled -/
example : (run {} (St.init demoToks) (demoEvents.take 1 ++ [.rpsFinished])).startCtxDone = true ∧
    (run { perInstance := true } (St.init demoToks) (demoEvents.take 1 ++ [.rpsFinished])).startCtxDone = false := by decide
/-- hypotheses of `C12_all_tokens`: a finished loop without any cause -/
example : (run {} (St.init [0]) [ .wait { tok := some 0, now := 1, arm := 1, ret := 1 } true 0,
    .wait { tok := none, now := 7, arm := 7, ret := 7 } true 0 ]).phase = .done := by decide
/-- hypotheses of `C12_instance_loop_is_source`: out of ammo in the third pass; schedule drained; still running -/
example : Gen.Startup.instanceRun [{}, {}, { ammoOk := false }] = .body .outOfAmmo := by decide
example : Gen.Startup.instanceRun [{}, { left := 0 }] = .ctxErr := by decide
example : Gen.Startup.instanceRun [{}, { waitOk := false }] = .running := by decide
/-- the pool layer on the demo profile: instance 0 starts, a pass of its loop is refused ammo (exit "out of ammo", the
result is in flight), the await loop receives it and cancels instance start, the start loop returns, its result is
received — and only then the pool cancels the run, nothing running, nothing in flight -/
def demoPool : List PEvent :=
  [ .loop (.wait { tok := some 0, pick := 10, now := 20, arm := 20, ret := 30 } true 5),
    .iter 0 {} false false,
    .iter 0 { ammoOk := false } false false,
    .recvRun 0,
    .loop (.wait { ctxDone := true, tok := some 1000000000 } true 0),
    .recvStart ]
example : (poolRun {} (PSt.init demoToks) (demoPool.take 3)).pending = [(0, .exit .ammoEnd)] ∧
    (poolRun {} (PSt.init demoToks) (demoPool.take 3)).base.running = [] ∧
    (poolRun {} (PSt.init demoToks) (demoPool.take 4)).base.startCtxDone = true ∧
    (poolRun {} (PSt.init demoToks) (demoPool.take 5)).poolCancelled = false ∧
    (poolRun {} (PSt.init demoToks) demoPool).poolCancelled = true ∧
    (poolRun {} (PSt.init demoToks) demoPool).aw = { startFinished := true, started := 1, awaited := 1 } := by decide
/-- hypotheses of `C12_exit_reason_is_source` (3): a running instance, a pass that sees `Left() == 0` on the SHARED
schedule with the run alive: it runs the finish callback itself and leaves with "RPS profile exhausted" -/
example : (0 : Nat) ∈ (poolRun {} (PSt.init demoToks) (demoPool.take 2)).base.running ∧
    iterMatches (poolRun {} (PSt.init demoToks) (demoPool.take 2)).base { left := 0 } false false = true ∧
    iterOutcome { left := 0 } false = some .scheduleEnd ∧
    (poolRun {} (PSt.init demoToks) (demoPool.take 2 ++ [.iter 0 { left := 0 } false false])).base.sharedRpsDone = true ∧
    (poolRun {} (PSt.init demoToks) (demoPool.take 2 ++ [.iter 0 { left := 0 } false false])).base.startCtxDone = true := by
  decide
/-- a pass that claims a done context while the run is alive is not an event of the layer (the instance is given the RUN
context): nothing happens -/
example : (poolRun {} (PSt.init demoToks) (demoPool.take 2 ++ [.iter 0 { ctxDone := true } true false])).base.running = [0] := by
  decide
/-- a later instance whose `newInstance` fails in its goroutine sends an error result: the pool fails (run cancelled) -/
example : (poolRun {} (PSt.init [0, 0]) [ .loop (.wait { tok := some 0, now := 1, arm := 1, ret := 1 } true 0),
    .loop (.wait { tok := some 0, now := 2, arm := 2, ret := 2 } false 0) ]).pending = [(1, .createErr)] ∧
    (poolRun {} (PSt.init [0, 0]) [ .loop (.wait { tok := some 0, now := 1, arm := 1, ret := 1 } true 0),
    .loop (.wait { tok := some 0, now := 2, arm := 2, ret := 2 } false 0), .recvRun 0 ]).base.runCtxDone = true := by decide
/-- hypotheses of `C12_engine_returns_only_when_all_pools_done`: two pools; the first finishes, the engine goes on waiting;
both finished: it returns; a failing pool: it returns at once -/
example : Gen.Startup.engineRun 2 0 [.result true] = { awaited := 1, ret := none } ∧
    Gen.Startup.engineRun 2 0 [.result true, .result true] = { awaited := 2, ret := some .ok } ∧
    Gen.Startup.engineRun 2 0 [.result true, .result false] = { awaited := 1, ret := some .failed } ∧
    Gen.Startup.engineRun 2 0 [.ctxDone] = { awaited := 0, ret := some .cancelled } := by decide
/-- the statement layer: instance 0 passes its loop head and gets ammo, THEN the caller cancels the run; its `Wait` sees the
done context, the next loop head ends the instance as "cancelled" — an interleaving inside a pass -/
def demoFine : List FEvent :=
  [ .pool (.loop (.wait { tok := some 0, pick := 10, now := 20, arm := 20, ret := 30 } true 5)),
    .head 0 false 7 false, .acquire 0 true, .pool (.loop .runCancel), .waitNext 0 true false, .head 0 true 7 true ]
example : (fineRun {} (FSt.init demoToks) (demoFine.take 5)).p.base.running = [0] ∧
    (fineRun {} (FSt.init demoToks) (demoFine.take 5)).pc 0 = .head ∧
    (fineRun {} (FSt.init demoToks) demoFine).p.base.running = [] ∧
    (fineRun {} (FSt.init demoToks) demoFine).p.pending = [(0, .exit .cancelled)] := by decide
/-- hypotheses of `C12_pass_is_three_statements`: a running instance at its loop head, a pass that finds the shared schedule
drained inside `Wait` -/
example : (fineRun {} (FSt.init demoToks) (demoFine.take 1)).p.base.running.contains 0 = true ∧
    (fineRun {} (FSt.init demoToks) (demoFine.take 1)).pc 0 = .head ∧
    iterMatches (fineRun {} (FSt.init demoToks) (demoFine.take 1)).p.base { waitOk := false } false true = true := by decide

/-- the engine layer, two pools with the demo profile: pool 0 runs out of ammo, finishes altogether, returns and is awaited
by the engine — pool 1, whose first instance is running, is not touched; when pool 1 has finished too the engine returns
(and only then the run contexts are cancelled) -/
def demoEngine : List EEvent :=
  demoPool.map (.pool 0) ++ [.poolReturn 0 true, .engineRecv 0] ++ (demoPool.take 2).map (.pool 1)
example : ((erun (fun _ => {}) (ESt.init 2 (fun _ => demoToks)) demoEngine).pool 0).ret = some true ∧
    (erun (fun _ => {}) (ESt.init 2 (fun _ => demoToks)) demoEngine).eng = { awaited := 1, ret := none } ∧
    ((erun (fun _ => {}) (ESt.init 2 (fun _ => demoToks)) demoEngine).pool 1).p.base.running = [0] ∧
    ((erun (fun _ => {}) (ESt.init 2 (fun _ => demoToks)) demoEngine).pool 1).p.base.runCtxDone = false := by decide
example : (erun (fun _ => {}) (ESt.init 2 (fun _ => demoToks))
      (demoEngine ++ (demoPool.drop 2).map (.pool 1) ++ [.poolReturn 1 true, .engineRecv 1])).eng =
        { awaited := 2, ret := some .ok } ∧
    ((erun (fun _ => {}) (ESt.init 2 (fun _ => demoToks))
      (demoEngine ++ (demoPool.drop 2).map (.pool 1) ++ [.poolReturn 1 true, .engineRecv 1])).pool 1).p.base.runCtxDone = true := by
  decide
/-- …a pool that FAILS (its second instance cannot be created; the error result is received) returns an error: the engine
returns "failed" and the run of the other pool is cancelled — hypotheses of `C12_engine_cancels_pool_only_for_cause` with
the second cause -/
def demoEngineFail : List EEvent :=
  [ .pool 1 (.loop (.wait { tok := some 0, pick := 10, now := 20, arm := 20, ret := 30 } true 5)),
    .pool 0 (.loop (.wait { tok := some 0, now := 1, arm := 1, ret := 1 } true 0)),
    .pool 0 (.loop (.wait { tok := some 0, now := 2, arm := 2, ret := 2 } false 0)),
    .pool 0 (.recvRun 0), .poolReturn 0 false, .engineRecv 0 ]
example : ((erun (fun _ => {}) (ESt.init 2 (fun j => if j = 0 then [0, 0] else demoToks)) demoEngineFail).pool 0).failed = true ∧
    (erun (fun _ => {}) (ESt.init 2 (fun j => if j = 0 then [0, 0] else demoToks)) demoEngineFail).eng =
      { awaited := 0, ret := some .failed } ∧
    ((erun (fun _ => {}) (ESt.init 2 (fun j => if j = 0 then [0, 0] else demoToks)) demoEngineFail).pool 1).p.base.runCtxDone = true ∧
    ((erun (fun _ => {}) (ESt.init 2 (fun j => if j = 0 then [0, 0] else demoToks)) (demoEngineFail.take 4)).pool 1).p.base.runCtxDone = false := by
  decide

/-- the provider returns without error while an instance runs: nothing changes; the aggregator FAILS: the run is cancelled -/
example : (poolRun {} (PSt.init demoToks) (demoPool.take 2 ++ [.recvOther true])).base.running = [0] ∧
    (poolRun {} (PSt.init demoToks) (demoPool.take 2 ++ [.recvOther true])).base.runCtxDone = false ∧
    (poolRun {} (PSt.init demoToks) (demoPool.take 2 ++ [.recvOther false])).base.runCtxDone = true := by decide

/-- hypotheses of `C12_pool_await_is_source`: the regenerated condition on concrete counters -/
example : Gen.Startup.allFinished { startFinished := true, started := 3, awaited := 3 } = true ∧
    Gen.Startup.allFinished { startFinished := true, started := 3, awaited := 2 } = false ∧
    Gen.Startup.allFinished { startFinished := false, started := -1, awaited := 0 } = false := by decide

/-- instance_step 10 → 100 step 10 of docs/eng/startup.md: 10 at once, 9 more steps -/
example : stepCount 10 100 10 = 9 := by decide
example : (instanceStepToks 2 5 3 500).length = 5 ∧ instanceStepToks 2 5 3 500 = [0, 0, 500, 500, 500] := by decide

/-! ### round 4 — "the RPS profile is exhausted" is real for composite profiles (`Left()` of core/schedule/composite.go)

The loop of `instance.Run` and the finish callback of the shared RPS schedule learn "exhausted" from `Left() == 0`.  For a
composite profile that answer is computed from `leftAfter`, which `NewComposite` precomputes with a loop; both are
REGENERATED (`Pandora.Gen.C12Left`).  `cs` = what the parts answered to `Left()` when the composite was built (negative =
unknown length, an `unlimited` part); the composite stands at part `i` (it has shifted `i` times), which now answers `cur`. -/

section Left
open Pandora.Go.C12Left Pandora.Model.C12Left Pandora.Proofs.C12Left Pandora.Bridge.C12Left

/-- `leftAfter` as the regenerated loop of `NewComposite` computes it -/
def genLeftAfter (cs : List Int) : List Int := (genLoop cs).1

/-- The regenerated loop of `NewComposite` computes, for EVERY list of parts and every position, the meaning of the parts
behind that position: unknown (−1) as soon as one of them has unknown length, else the exact sum of their tokens. -/
theorem C12_composite_left_after_is_source (cs : List Int) (i : Nat) (h : i < cs.length) :
    Gen.C12Left.NewComposite_loopOrder = "lastToFirst" ∧
    (genLeftAfter cs)[i]? = some (seqLeft (cs.drop (i + 1))) ∧
    (seqLeft (cs.drop (i + 1)) < 0 ↔ ∃ c ∈ cs.drop (i + 1), c < 0) ∧
    ((∀ c ∈ cs.drop (i + 1), 0 ≤ c) → seqLeft (cs.drop (i + 1)) = (cs.drop (i + 1)).foldr (· + ·) 0) := by
  refine ⟨loopOrder_eq, ?_, seqLeft_neg_iff _, seqLeft_known _⟩
  simp only [genLeftAfter, genLoop_eq]
  exact leftAfterOf_get cs i h

/-- "The RPS profile is exhausted" is REAL: the regenerated `(*compositeSchedule).Left`, standing at part `i` of a composite
built by the regenerated `NewComposite`, answers 0 only if the current part has exactly nothing left AND every part behind
it has a known length of exactly no token — never while a part of unknown length (or any token) is still to come,
whatever the parts in front of it were (no token, one token, many), started or not. -/
theorem C12_rps_end_is_real (cs : List Int) (i : Nat) (h : i < cs.length) (cur : Int) (started : Bool)
    (h0 : Gen.C12Left.compositeSchedule_Left_decide ((cs.length : Int) - i) ((genLeftAfter cs)[i]?.getD 0) cur started = .ret 0) :
    cur = 0 ∧ ∀ c ∈ cs.drop (i + 1), c = 0 := by
  rw [leftDecide_eq, (C12_composite_left_after_is_source cs i h).2.1] at h0
  obtain ⟨hc, hrest⟩ := leftDecide_zero h0
  refine ⟨hc, ?_⟩
  rcases hrest with hn | hla
  · -- the last part: nothing behind it
    have : cs.drop (i + 1) = [] := by
      apply List.drop_eq_nil_of_le; omega
    simp [this]
  · exact seqLeft_eq_zero _ (by simpa using hla)

/-- End to end with the REGENERATED users of `Left()`: the finish callback of the shared RPS schedule fires on a `Left()` call
(`callbackOnLeft`, which cancels instance start) and the loop of `instance.Run` ends for "profile exhausted" (`IsFinished` with
its context alive) on a composite profile only when that profile is really exhausted in the sense of `C12_rps_end_is_real`. -/
theorem C12_start_cut_by_rps_end_is_real (cs : List Int) (i : Nat) (h : i < cs.length) (cur v : Int) (started : Bool)
    (hd : Gen.C12Left.compositeSchedule_Left_decide ((cs.length : Int) - i) ((genLeftAfter cs)[i]?.getD 0) cur started = .ret v)
    (hcb : Gen.Startup.callbackOnLeft v = true ∨ Gen.Startup.IsFinished false v = true) :
    cur = 0 ∧ ∀ c ∈ cs.drop (i + 1), c = 0 := by
  have hv : v = 0 := by
    rcases hcb with hcb | hcb <;> simpa [Gen.Startup.callbackOnLeft, Gen.Startup.IsFinished] using hcb
  subst hv
  exact C12_rps_end_is_real cs i h cur started hd

/-- …and when every part behind is known and the current one still has tokens the answer is the exact number of tokens
still to come (so instance start is not cut and no instance stops while a token is left). -/
theorem C12_rps_left_exact (cs : List Int) (i : Nat) (h : i + 1 < cs.length) (cur : Int) (started : Bool)
    (hk : ∀ c ∈ cs.drop (i + 1), 0 ≤ c) (hcur : 0 < cur) :
    Gen.C12Left.compositeSchedule_Left_decide ((cs.length : Int) - i) ((genLeftAfter cs)[i]?.getD 0) cur started =
      .ret (cur + (cs.drop (i + 1)).foldr (· + ·) 0) := by
  have hs := C12_composite_left_after_is_source cs i (by omega)
  rw [leftDecide_eq, hs.2.1]
  have hsum := hs.2.2.2 hk
  have hge : 0 ≤ seqLeft (cs.drop (i + 1)) := by
    rcases seqLeft_range (cs.drop (i + 1)) with h1 | h1
    · have := (seqLeft_neg_iff (cs.drop (i + 1))).mp (by omega)
      obtain ⟨c, hc, hc'⟩ := this
      have := hk c hc; omega
    · exact h1
  simp only [Option.getD_some]
  rw [leftDecide_known (by omega) hcur hge, hsum]

/-- The same FOLLOWED THROUGH THE SHIFTS (`return s.Left()` after the writer section; regenerated decision and regenerated
`startNext`): for a composite built over parts that answered `cs`, whose remaining parts answer `curs` when they are asked
(the current one now, a part behind once a shift has started it), any recursion depth: `Left()` answers 0 only if every
part it passed and the part it stopped at answered 0 AND every part behind that one has a known length of no token.  So
"exhausted" is never said while a part that still has a token, or whose time is not over, lies ahead. -/
theorem C12_rps_end_is_real_through_shifts (cs curs : List Int) (hlen : curs.length = cs.length) (started : Bool) (fuel : Nat)
    (h0 : genFullLeft started fuel curs (genLeftAfter cs) = some 0) :
    ∃ k, k < curs.length ∧ (∀ j, j ≤ k → curs[j]? = some 0) ∧ ∀ c ∈ cs.drop (k + 1), c = 0 := by
  rw [genFullLeft_eq] at h0
  simp only [genLeftAfter, genLoop_eq] at h0
  exact fullLeft_zero started fuel curs cs hlen h0

/-- pause, one probe shot, unlimited part (the seeded profile), all three asked after their time: drained, drained, over —
two shifts, then 0 (hypotheses of the theorem above); while the unlimited part's time is not over: unknown; while the probe
shot has not been taken: unknown -/
example : genFullLeft true 3 [0, 0, 0] (genLeftAfter [0, 1, -1]) = some 0 ∧
    genFullLeft true 3 [0, 0, -1] (genLeftAfter [0, 1, -1]) = some (-1) ∧
    genFullLeft true 3 [0, 1, -1] (genLeftAfter [0, 1, -1]) = some (-1) := by decide

/-- The PARTS answer truthfully (regenerated `Left()` of `doAtSchedule` — `once`, `const` — and of `unlimitedSchedule`): a part
of n tokens of which i were asked for answers max 0 (n − i) — 0 exactly when every token was taken, n when fresh —, an
unlimited part answers "unknown" (negative) until it was started AND its time is over, and only then 0.  These are the
`cs` (fresh parts) and `cur` (the current part) of `C12_rps_end_is_real`. -/
theorem C12_parts_answer_truthfully (n i : Int) (hi : 0 ≤ i) (started nowBeforeFinish : Bool) :
    (Gen.C12Left.doAtSchedule_Left n i = 0 ↔ n ≤ i) ∧ 0 ≤ Gen.C12Left.doAtSchedule_Left n i ∧
    (0 ≤ n → Gen.C12Left.doAtSchedule_Left n 0 = n) ∧
    (Gen.C12Left.unlimitedSchedule_Left started nowBeforeFinish = 0 ↔ (started = true ∧ nowBeforeFinish = false)) ∧
    (Gen.C12Left.unlimitedSchedule_Left started nowBeforeFinish ≠ 0 → Gen.C12Left.unlimitedSchedule_Left started nowBeforeFinish < 0) ∧
    Gen.C12Left.unlimitedSchedule_Left false nowBeforeFinish < 0 := by
  rw [doAtLeft_eq, doAtLeft_eq, unlimitedLeft_eq, unlimitedLeft_eq]
  refine ⟨by omega, by omega, by intro h; omega, ?_, ?_, by simp⟩
  · cases started <;> cases nowBeforeFinish <;> simp
  · cases started <;> cases nowBeforeFinish <;> simp

/-- the profile of the round-4 seeded change — a pause, ONE probe shot, then an unlimited part: `leftAfter` is
[unknown, unknown, 0]; before the first token the answer is "unknown", after it the composite shifts on — never 0
(hypotheses of `C12_rps_end_is_real` are met by the drained last part only) -/
example : genLeftAfter [0, 1, -1] = [-1, -1, 0] ∧
    Gen.C12Left.compositeSchedule_Left_decide 3 ((genLeftAfter [0, 1, -1])[0]?.getD 0) 0 false = .ret (-1) ∧
    Gen.C12Left.compositeSchedule_Left_decide 3 ((genLeftAfter [0, 1, -1])[0]?.getD 0) 0 true = .shift ∧
    Gen.C12Left.compositeSchedule_Left_decide 2 ((genLeftAfter [0, 1, -1])[1]?.getD 0) 1 true = .ret (-1) ∧
    Gen.C12Left.compositeSchedule_Left_decide 1 ((genLeftAfter [0, 1, -1])[2]?.getD 0) 0 true = .ret 0 := by decide
/-- all parts known: `const 5` then a pause then `once 3` — 8, then 3 (hypotheses of `C12_rps_left_exact`); two parts
behind an exhausted one, both empty: 0 (hypotheses of `C12_rps_end_is_real` with `i = 0`) -/
example : genLeftAfter [5, 0, 3] = [3, 3, 0] ∧
    Gen.C12Left.compositeSchedule_Left_decide 3 ((genLeftAfter [5, 0, 3])[0]?.getD 0) 5 true = .ret 8 ∧
    Gen.C12Left.compositeSchedule_Left_decide 3 ((genLeftAfter [2, 0, 0])[0]?.getD 0) 0 true = .ret 0 ∧
    freshLeft [0, 1, -1] = some (-1) ∧ freshLeft [5, 0, 3] = some 8 := by decide

end Left

/-! ### round 4 — when the await loop of a pool ends (`toWait`) -/

section Wait
open Pandora.Model.C12Wait Pandora.Proofs.C12Wait Pandora.Bridge.C12Wait

/-- The await loop of a pool (`awaitRun`, with the REGENERATED bookkeeping: initial `toWait`, loop condition, what every case
and `checkAllInstancesAreFinished` do to it) has ended — only then is `awaitErr` closed and can `pool.Run` return without
error, which lets `Engine.Run` return and cancel everything — exactly when the provider's result, the aggregator's result
and the result of `startInstances` have been received AND "all instance runs awaited" went through; for all orders and
repetitions of these four events.  The counter never goes below 0 (the loop cannot miss its end). -/
theorem C12_pool_returns_ok_only_after_everything_awaited (evs : List WEv) :
    let s := wrun genTab (WSt.init genTab) evs
    (Gen.Startup.awaitLoopGoesOn s.toWait = false ↔
      (s.prov = true ∧ s.aggr = true ∧ s.start = true ∧ s.runs = true)) ∧ 0 ≤ s.toWait ∧
    (s.runs = true → s.start = true) := by
  intro s
  have hinv : WInv s := by
    simp only [s, genTab_eq]
    exact winv_run _ evs winv_init
  rw [goesOn_eq]
  exact ⟨(ended_iff s hinv).1, (ended_iff s hinv).2, hinv.2⟩

/-- the usual order — start result, all runs awaited (which cancels the run), then provider and aggregator answer the
cancelled run — ends the loop; without the aggregator's answer it goes on; "all finished" before the start result is not
possible (hypotheses of the theorem above on concrete runs) -/
example : Gen.Startup.awaitLoopGoesOn (wrun genTab (WSt.init genTab) [.start, .allFinished, .provider, .aggregator]).toWait = false ∧
    Gen.Startup.awaitLoopGoesOn (wrun genTab (WSt.init genTab) [.start, .allFinished, .provider, .provider]).toWait = true ∧
    (wrun genTab (WSt.init genTab) [.allFinished, .provider]).runs = false := by decide

end Wait

/-! ## Round 6 — compositions with the neighbouring properties' models (C04: the Waiter of an instance; C02: the shared RPS profile
under concurrent callers).  Nothing of those models is copied or assumed: their definitions (and C02's theorems) are imported — three short facts about C04's
`runLoop` are proved in `Proofs/C12R6.lean` over C04's definitions and lemmas rather than imported from the module `Props.C04` —, their
regenerated sources (`Gen.Waiter`, `Gen.C02Src`, `Gen.C02Cb` …) are regenerated by C12's own check too (props/C12.json). -/

section round6

/-- the history of a hiccup of the target, `discard_overflow` on: the first shot hangs 2.5 s, so the second token (due at 0) is 2.5 s
overdue when it is drawn — it is discarded; the third token (due at 3 s) is drawn at 2.6 s, waited for on the timer and FIRED -/
def hiccup : List Pandora.Model.C04.Iter :=
  [{ env := { tok := some 0, pick := 0, now := 0, arm := 0, ret := 0 } },
   { env := { tok := some 0, pick := 2500000000, now := 2500000000, arm := 2500000000, ret := 2500000000 } },
   { env := { tok := some 3000000000, pick := 2600000000, now := 2600000000, arm := 2600000000, ret := 3000000000 } }]

open Pandora.Model.C04 in
/-- **(composition with C04) A started instance KEEPS FIRING, whatever happened to it before.**  The loop of `instance.Run` is C04's
`runLoop` (= the REGENERATED pass `Gen.Waiter.iteration`, last conjunct), started in ANY state `w` of its Waiter — a stale cached
clock reading, a lateness recorded for a token long ago (a hiccup of the target), anything — with `discard_overflow` on or off, over
ANY history of passes `h` (tokens, clock readings, who wins the final `select`) that meets C04's clock hypotheses: every token the
instance has drawn and waited for (`drawn`) that was less than `MaxOverdueDuration` late when `Wait` returned IS FIRED (`Shoot` is
called for it) and is never reported as discarded.  So between its start and its end (RPS profile / ammo exhausted, run cancelled:
`C12_never_reduced`, `C12_exit_reason_is_source`) an instance does not silently stop firing: the only tokens it does not fire are
those `discard_overflow` drops for being 2 s or more overdue.  (A `Wait` that forgets to reset the recorded lateness on the timer
path — seeded change C12-r5-3 — breaks `Bridge.Waiter.Wait_eq`, on which this rests.) -/
theorem C12_keeps_firing_tokens_waited_in_time (d : Bool) (w : Pandora.Model.C04.Waiter) (h : List Pandora.Model.C04.Iter)
    (hc : Pandora.Proofs.C04.ClockOK w h) (it : Pandora.Model.C04.Iter) (hit : it ∈ drawn .fresh w h) (next : Int)
    (htok : it.env.tok = some next) (hlate : it.env.ret - next < maxOverdue) :
    Ev.shoot it ∈ (runLoop .fresh d w h).1 ∧
    (∀ s, Ev.discard it s ∉ (runLoop .fresh d w h).1) ∧
    (∀ w' it', Gen.Waiter.iteration d w' it' = iteration .fresh d w' it') := by
  have hnd : ∀ s, Ev.discard it s ∉ (runLoop .fresh d w h).1 := by
    intro s hs
    cases d with
    | false =>
      rw [Pandora.Proofs.C12R6.off_all_fired] at hs
      simp at hs
    | true =>
      obtain ⟨n', h1, h2⟩ := Pandora.Proofs.C12R6.not_discarded_if_fresh .fresh w h hc it s hs
      rw [htok] at h1; cases h1; omega
  refine ⟨?_, hnd, fun w' it' => Pandora.Bridge.Waiter.iteration_eq d w' it'⟩
  have hm := Pandora.Proofs.C12R6.every_drawn_token_acted .fresh d w h
  rw [← hm] at hit
  obtain ⟨ev, hev, hiter⟩ := List.mem_map.mp hit
  cases ev with
  | shoot it' => simp [Ev.iter] at hiter; subst hiter; exact hev
  | discard it' s => simp [Ev.iter] at hiter; subst hiter; exact absurd hev (hnd s)

/-- non-vacuity: the hiccup history meets the clock hypotheses, all three tokens are drawn and waited for, the second (2.5 s late)
is discarded, the third (in time) is fired although the Waiter still remembers … nothing: the lateness is reset on the timer path -/
example : Pandora.Proofs.C04.ClockOK { lastNow := -5 } hiccup ∧
    (∀ it ∈ hiccup, it ∈ Pandora.Model.C04.drawn .fresh { lastNow := -5 } hiccup) ∧
    (Pandora.Model.C04.runLoop .fresh true { lastNow := -5 } hiccup).1.map Pandora.Model.C04.Ev.isShoot = [true, false, true] ∧
    (Pandora.Model.C04.runLoop .fresh true { lastNow := -5, overdue := 2500000000 } (hiccup.drop 2)).1.map Pandora.Model.C04.Ev.isShoot = [true] := by
  decide

open Pandora.Model.C02.CbW Pandora.Proofs.C02Cb Pandora.Model.C02.Par Pandora.Model.C02 in
/-- **(composition with C02) Instance start is cut short by "the shared RPS profile finished" only when that profile IS finished.**
Any number of instances (`progs`: the `Next` / `Left` calls each of them makes), ANY interleaving of their steps through the
callback wrapper `coreutil.callbackOnFinishSchedule` (`sched`, clock not going back) around a shared profile that is linearizable
to the flat succession of its parts (`Abs.running segs0` — what C02 proves of every composite, `C02_conc_linearizable`, about the
REGENERATED `compositeSchedule.Next`: last conjunct): when the finish callback is entered (`cbBegin`) — and the callback is
installed on the SHARED schedule only, runs on a `Next` without token / a `Left()` of 0, and all it does is cancel the START
context (regenerated, first four conjuncts) — then (a) the caller that runs it has just got a finishing answer, (b) it was not
entered before, and (c) from then on NO caller of the profile ever gets a token again: every token of the RPS profile had been
handed out.  So the cause "shared RPS profile finished" of `C12_all_tokens_unless` is real in the sense of the property: tokens
of the startup profile are left without instances only when there is nothing left to fire.  (Seeded change C12-r5-1 — `Next`
returning `!ok` at a token-less part in the "somebody shifted before us" branch — breaks `C02_next_is_source`.) -/
theorem C12_start_cut_by_shared_rps_end_is_final {σ : Type} (ops : Ops σ)
    (segs0 : List Pandora.Spec.C02.Seg) (progs : List (List Op)) (sched : List (Nat × Int)) (clk0 : Int)
    (hclk : Pandora.Proofs.C02Par.ClockOK clk0 sched) (newer older : WLog) (e : Nat × Int × WEv)
    (hl : (wrun absInner (winit (Pandora.Spec.C02.Abs.running segs0) progs) sched).log = newer ++ e :: older)
    (he : e.2.2 = .cbBegin) :
    (∀ pi, Gen.Startup.callbackInstalled pi = !pi) ∧
    (∀ cd, Gen.Startup.onSharedRpsFinish cd = if cd Ctx.start then [] else [PoolAct.cancel Ctx.start]) ∧
    (∀ ok, Gen.Startup.callbackOnNext ok = !ok) ∧ (∀ l, Gen.Startup.callbackOnLeft l = (l == 0)) ∧
    (∃ r, lastGot e.1 older = some r ∧ finishing r = true) ∧
    (∀ y ∈ older, y.2.2 ≠ .cbBegin) ∧
    (∀ y ∈ newer, ∀ tx, y.2.2 ≠ .got (.tok tx true)) ∧
    (∀ (s : Sh σ) (tx : Int) (seen : Nat) (now : Int),
      Pandora.Gen.C02Src.compositeSchedule_Next_writer ops s tx seen now = nextWriter ops s tx seen now) := by
  obtain ⟨h1, h2⟩ := Pandora.Props.C02.C02_cb_only_when_finished absInner _ progs sched newer older e hl he
  exact ⟨Bridge.C12Startup.callbackInstalled_eq, Bridge.C12Startup.onSharedRpsFinish_eq,
    Bridge.C12Startup.callbackOnNext_eq, Bridge.C12Startup.callbackOnLeft_eq, h1, h2,
    Pandora.Props.C02.C02_cb_sound segs0 progs sched clk0 hclk newer older e hl he,
    (Pandora.Props.C02.C02_next_is_source ops).2.2⟩

/-- non-vacuity: two instances on a shared profile of one token; both learn that it is exhausted, the second one enters the
callback (the 4th event of the log), after which nobody gets a token -/
example : ((Pandora.Model.C02.CbW.wrun Pandora.Proofs.C02Cb.absInner
      (Pandora.Model.C02.CbW.winit (.running [.fin [5] 5]) [[.next, .next], [.next]])
      [(0, 9), (0, 9), (1, 9), (1, 9), (0, 9), (0, 9), (0, 9), (1, 9), (0, 9)]).log.reverse.map (·.2.2)) =
    [.got (.tok 5 true), .ret (.tok 5 true), .got (.tok 5 false), .cbBegin, .got (.tok 5 false), .blocked, .blocked,
     .cbEnd, .ret (.tok 5 false), .ret (.tok 5 false)] ∧
    Pandora.Proofs.C02Par.ClockOK 0 [(0, 9), (0, 9), (1, 9), (1, 9), (0, 9), (0, 9), (0, 9), (1, 9), (0, 9)] := by
  refine ⟨by decide, by simp [Pandora.Proofs.C02Par.ClockOK]⟩

/-- **(round 6, tie) An instance is closed and counted on every path, by the source.**  What the pool layer takes for granted when
it turns the end of `instance.Run` — by return, by error, by a recovered panic (`recoversShootPanic`) — into exactly one result,
one closed gun and one `InstanceFinish`: in EVERY function body of core/engine that calls `Run` on an instance, `Close()` of that
instance is deferred before the call; `InstanceStart` is counted unconditionally and `InstanceFinish` inside a deferred function
that is registered before the start is counted, and nowhere else; `newInstance` closes a gun whose `Bind` failed.  Regenerated
(`gen -area c12close`), so an edit of that cleanup code re-opens this obligation even when no generated input has a panicking gun. -/
theorem C12_instance_cleanup_is_source :
    (Gen.C12Close.runCallers ≠ [] ∧ ∀ r ∈ Gen.C12Close.runCallers, r.2 = true) ∧
    Gen.C12Close.startCountedUnconditionally = true ∧ Gen.C12Close.finishCountedInDefer = true ∧
    Gen.C12Close.finishDeferBeforeStartCount = true ∧ Gen.C12Close.finishCountedElsewhere = 0 ∧
    Gen.C12Close.closesGunWhenBindFails = true ∧ Gen.Startup.recoversShootPanic = true :=
  ⟨Bridge.C12Close.runCallers_defer_close, Bridge.C12Close.counting_and_bind_cleanup.1, Bridge.C12Close.counting_and_bind_cleanup.2.1,
   Bridge.C12Close.counting_and_bind_cleanup.2.2.1, Bridge.C12Close.counting_and_bind_cleanup.2.2.2.1,
   Bridge.C12Close.counting_and_bind_cleanup.2.2.2.2, rfl⟩

/-- what the regenerated `instance.Run` of C12's area (`Gen.Startup.instanceRun`) returns for the outcome C04's area reads off the
same pass: the loop ended at its head ⇒ `ctx.Err()`; ammo refused ⇒ the body's error; skip / shoot / discard ⇒ still looping -/
def runRetOf : Pandora.Model.C04.Outcome → RunRet
  | .loopEnd => .ctxErr
  | .outOfAmmo => .body .outOfAmmo
  | _ => .running

/-- **(round 6, composition with C04) The two regenerated readings of the loop of `instance.Run` agree, pass by pass.**  C12's
area `startup` reads the loop as "when does `Run` RETURN, and what" (`instanceRun`, the exits of the pool layer:
`C12_exit_reason_is_source`); C04's area `waiter` reads it as "what is DONE in a pass" (`iteration`: skip / shoot / discard, with
the Waiter's state).  For every waiter state, every pass, `discard_overflow` on or off: fed with the same answers (`IsFinished` of
the loop head, `Acquire`, the result of the regenerated `Wait`), `instanceRun` returns exactly when `iteration` ends the loop, with
the matching result, and otherwise the instance is still running — so a pool-layer pass that does not end the instance is one of
C04's skip / shoot / discard passes, of which `C12_keeps_firing_tokens_waited_in_time` says which; and both areas read the same
`IsFinished`. -/
theorem C12_two_readings_of_instance_loop_agree (d : Bool) (w : Pandora.Model.C04.Waiter) (it : Pandora.Model.C04.Iter)
    (ctxDone : Bool) (left : Int) (hfin : it.finished = Gen.Startup.IsFinished ctxDone left) :
    Gen.Startup.instanceRun [{ ctxDone := ctxDone, left := left, ammoOk := it.ammoOk, waitOk := (Gen.Waiter.Wait w it.env).2 }] =
      runRetOf (Gen.Waiter.iteration d w it).2 ∧
    Gen.Startup.IsFinished ctxDone left = Gen.Waiter.IsFinished ctxDone left := by
  refine ⟨?_, ?_⟩
  · unfold Gen.Startup.instanceRun Gen.Waiter.iteration Gen.Startup.runBody
    rw [← hfin]
    by_cases hf : it.finished = true
    · simp [hf, runRetOf]
    · by_cases ha : it.ammoOk = true
      · by_cases hk : (Gen.Waiter.Wait w it.env).2 = true
        · simp only [hf, ha, hk]
          by_cases hs : ((!d) || (!(Gen.Waiter.IsSlowDown (Gen.Waiter.Wait w it.env).1 it.ctxDoneSlow))) = true
          · simp [hs, runRetOf, Gen.Startup.instanceRun]
          · simp [hs, runRetOf, Gen.Startup.instanceRun]
        · simp [hf, ha, hk, runRetOf, Gen.Startup.instanceRun]
      · simp [hf, ha, runRetOf]
  · unfold Gen.Startup.IsFinished Gen.Waiter.IsFinished
    cases ctxDone
    · by_cases h : left = 0 <;> simp [h]
    · simp

/-- non-vacuity: the second pass of the hiccup history (a discarded token: the instance keeps running), and a pass that finds the
profile exhausted (`Left() == 0`) -/
example : (hiccup[1]!).finished = Gen.Startup.IsFinished false 3 ∧
    ({ finished := true } : Pandora.Model.C04.Iter).finished = Gen.Startup.IsFinished false 0 ∧
    (Gen.Waiter.iteration true { lastNow := 0 } (hiccup[1]!)).2 = .discard Pandora.Model.C04.discardedShootSample := by decide

end round6



end Pandora.Props.C12
