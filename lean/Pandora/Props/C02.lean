/-
C02 — Schedule token contract.

What the statement means is fixed once, by the FLAT SPEC (`Spec/C02Flat.lean`): a schedule tree is the flat
succession of its leaf parts (`flat`), each part starting exactly at the finish time of the part before it
(`inst`); `Next` hands out the first token still available (`segNext`), `Left` is the exact count or -1
(`segLeft`).  The theorems are of two kinds.

A. REFINEMENT — the code (model `Model/C02Sched.lean`, `Model/C02Par.lean`) behaves like the flat spec:
   * `C02_tree_refines`, `C02_seq_refines`: every tree of once/const/line/unlimited parts, any nesting depth,
     0/1/n-child composites, one caller, any sequence of Start/Next/Left with non-decreasing clock readings;
   * `C02_conc_linearizable`: a composite whose children are ANY objects that refine the flat spec (leaves or
     composites of any depth, finite or unlimited) is linearizable to the flat spec of all parts, for every number
     of callers, all their programs of Next/Left calls, every interleaving of the atomic actions and every
     non-decreasing clock; `C02_tree_conc(_started)` instantiate it for every composite node of every tree.
     Nesting follows by structural induction because `C02_tree_refines` makes every subtree such a child.
B. CONTRACT — the clauses of the property, for every run of the atomic flat spec (`Reach`), hence for every
   concurrent run of the code: `C02_exactly_once(_finite)`, `C02_times_monotone`, `C02_per_caller_monotone`,
   `C02_chain`, `C02_finish_stable`, `C02_left_*`, `C02_no_panic`, `C02_autostart`, `C02_double_start`,
   `C02_onFinish_*`, `C02_instance_step`.
-/
import Pandora.Proofs.C02Reach
import Pandora.Bridge.C02Locks
import Pandora.Bridge.C02DoAt
import Pandora.Proofs.C02Cb
import Pandora.Bridge.C02Cb
import Pandora.Bridge.C02Src
import Pandora.Bridge.C02IStep
import Pandora.Proofs.C02Huge
import Pandora.Proofs.C02LeafPar
import Pandora.Proofs.C02Width
import Pandora.Bridge.C02Leaf
import Pandora.Proofs.C02Big
import Pandora.Bridge.C02Const
import Pandora.Proofs.C02R6Compose
import Pandora.Proofs.C02R6Solo
import Pandora.Proofs.C02R6Pub

set_option linter.unusedVariables false

namespace Pandora.Props.C02
open Pandora.Model.C02 Pandora.Model.C02.Par Pandora.Spec.C02
open Pandora.Proofs.C02Flat Pandora.Proofs.C02Sem Pandora.Proofs.C02Par Pandora.Proofs.C02Reach

/-- callers with their programs, nothing done yet -/
def initSt {σ : Type} (sh : Sh σ) (progs : List (List Op)) : St σ :=
  ⟨sh, progs.map (fun p => { todo := p }), []⟩

/-! ## A. Refinement -/

/-- **Every schedule tree is the flat succession of its leaf parts.**  Whatever `NewComposite` & co. build for a
tree of once/const/line (`fin`), unlimited and composite nodes — any depth, empty composites, single-child
composites, zero-token parts, unlimited parts anywhere — exists (no panic while building, whatever the clock) and
refines the unstarted flat spec `flat t`. -/
theorem C02_tree_refines (now0 : Int) (t : Tree) (d : Nat) (hd : t.depth ≤ d) :
    ∃ s, build now0 d t = .ok s ∧ (lvlSem d).U s (flat t) :=
  build_ok now0 d t hd

/-- **One caller**: any sequence of `Start`/`Next`/`Left` calls on any tree returns exactly what the flat spec
returns — tokens, finish time, `Left` values and the double-start panic — as long as the clock does not go back. -/
theorem C02_seq_refines (now0 : Int) (t : Tree) (d : Nat) (hd : t.depth ≤ d) (s : Lvl d) (hb : build now0 d t = .ok s)
    (calls : List (SOp × Int)) (clk0 : Int) (hclk : ClockSeq clk0 calls) :
    seqRun (lvlOps d) s calls = absRun (.unstarted (flat t)) calls :=
  seq_refines (lvlSem d) calls s (.unstarted (flat t)) clk0 (build_U now0 d t s hd hb) hclk

/-- **Composition, any interleaving.**  Let the children of a composite be ANY schedule objects that refine the
flat spec (`sem : Sem ops`) — leaves or composites of any depth taken as linearizable objects — and let the shared
state stand for the abstract schedule `A0` (`ShRel`: unstarted, or started earlier).  Then for every number of
callers, all their programs, every schedule of atomic actions and every non-decreasing sequence of clock readings
the log of the run is a run of the ATOMIC flat spec (`Reach`): each returned `Next`/`Left` value is what the flat
spec returns at the clock reading of the returning action (which lies inside the call), in that order; the shared
state again stands for the abstract state reached, so the composite can itself be used as such a child; and as long as
the schedule is not started but its `started` flag is set, some caller is inside `Next` (just past `started.Store`):
so the implicit start that `Reach` allows an internal action to perform (a `Left` that shifts a token-less head)
only ever happens on behalf of a `Next` in progress — `Left` alone never starts a schedule (fix 77f2646). -/
theorem C02_conc_linearizable {σ : Type} (ops : Ops σ) (sem : Sem ops) (sh : Sh σ) (A0 : Abs) (clk0 : Int)
    (h0 : ShRel sem sh A0 clk0) (hfresh : ∀ parts, A0 = .unstarted parts → sh.started = false)
    (progs : List (List Op)) (sched : List (Nat × Int)) (hclk : ClockOK clk0 sched) :
    ∃ A, Reach A0 (run ops (initSt sh progs) sched).log A ∧
      ShRel sem (run ops (initSt sh progs) sched).sh A (lastClk clk0 sched) ∧
      (∀ parts, A = .unstarted parts → (run ops (initSt sh progs) sched).sh.started = true →
        ∃ (i : Nat) (th : Thread), (run ops (initSt sh progs) sched).thr[i]? = some th ∧ th.pc = Pc.nextB) := by
  have hinv : Inv sem A0 (initSt sh progs) clk0 := by
    refine ⟨A0, rfl, h0, fun th hth => ?_, fun parts hA hs => ?_⟩
    · simp only [initSt, List.mem_map] at hth
      obtain ⟨p, _, rfl⟩ := hth
      trivial
    · have := hfresh parts hA
      simp only [initSt] at hs
      rw [this] at hs; cases hs
  obtain ⟨A, h1, h2, _, h4⟩ := run_inv sem (ops := ops) sched _ clk0 hclk hinv
  exact ⟨A, h1, h2, h4⟩

/-- **Every composite node of every tree, not started (the engine never calls `Start`: the first `Next` starts the
schedule), any number of concurrent callers.**  The children are the subtrees, of any depth. -/
theorem C02_tree_conc (now0 : Int) (t : Tree) (d : Nat) (hd : t.depth ≤ d + 1) (c : Comp (Lvl d))
    (hb : build now0 (d + 1) t = .ok (.inr c)) (progs : List (List Op)) (sched : List (Nat × Int)) (clk0 : Int)
    (hclk : ClockOK clk0 sched) :
    ∃ A, Reach (.unstarted (flat t)) (run (lvlOps d) (initSt ⟨c.cs, c.la, c.started⟩ progs) sched).log A :=
  let ⟨A, h, _⟩ := C02_conc_linearizable (lvlOps d) (lvlSem d) _ _ clk0 (built_shRel now0 t d hd c hb clk0)
    (fun _ _ => built_unstarted now0 t d hd c hb) progs sched hclk
  ⟨A, h⟩

/-- the same after `Start(t0)` -/
theorem C02_tree_conc_started (now0 : Int) (t : Tree) (d : Nat) (hd : t.depth ≤ d + 1) (c c1 : Comp (Lvl d))
    (hb : build now0 (d + 1) t = .ok (.inr c)) (t0 : Int) (hs : compStart (lvlOps d) c t0 = .ok c1)
    (progs : List (List Op)) (sched : List (Nat × Int)) (clk0 : Int) (hclk : ClockOK clk0 sched) :
    ∃ A, Reach (.running (inst (flat t) t0)) (run (lvlOps d) (initSt ⟨c1.cs, c1.la, c1.started⟩ progs) sched).log A := by
  have hU := build_U now0 (d + 1) t (.inr c) hd hb
  obtain ⟨s', hs', hR⟩ := (lvlSem (d + 1)).start_U hU t0
  have he : s' = .inr c1 := by
    have : (lvlOps (d + 1)).start (.inr c) t0 = Except.ok (Sum.inr c1) := by
      show (compStart (lvlOps d) c t0).map Sum.inr = _
      rw [hs]; rfl
    rw [this] at hs'; cases hs'; rfl
  subst he
  obtain ⟨c0, rest, dead, segsH, ps, rfl, hR0, hU0, hD, hseg⟩ := (show compR (lvlSem d) c1 (inst (flat t) t0) clk0 from hR clk0)
  have h0 : ShRel (lvlSem d) ⟨c0 :: rest, sufsP ps, true⟩ (.running (inst (flat t) t0)) clk0 :=
    ⟨c0, rest, dead, segsH, ps, rfl, rfl, rfl, hR0, hU0, hD, hseg⟩
  obtain ⟨A, h, _⟩ := C02_conc_linearizable (lvlOps d) (lvlSem d) _ _ clk0 h0 (fun _ h => by cases h) progs sched hclk
  exact ⟨A, h⟩

/-! ## B. The contract, for every run of the atomic flat spec -/

/-- **A schedule that is not started** (no `Start` call: the engine's case) stays as it is while only `Left` calls
return; the first `Next` — or an internal action on behalf of a `Next` in progress — starts it at ONE clock reading
`t`, and from there on the log is a run of the running schedule `inst parts t`. -/
theorem C02_autostart (parts : List Part) (log : Log) (A : Abs) (h : Reach (.unstarted parts) log A) :
    (A = .unstarted parts ∧ ∀ e ∈ log, noTok e) ∨
    ∃ t l2 l1, log = l2 ++ l1 ∧ Reach (.running (inst parts t)) l2 A ∧ (∀ e ∈ l1, noTok e) :=
  reach_unstarted log A h

/-- **Exactly once.**  At every moment of every run: the tokens of the finite parts handed out so far (`drawn`, in
hand-out order), followed by those still held, are exactly the tokens of the flat succession of the parts — nothing
twice, nothing skipped, nothing lost when a part is shifted out; `drawn` is a subsequence of the ok results in
return order, every other ok result being a clock token of a live unlimited part. -/
theorem C02_exactly_once (segs0 : List Seg) (log : Log) (A : Abs) (h : Reach (.running segs0) log A) :
    ∃ segs, A = .running segs ∧ ∃ drawn, drawn ++ finToks segs = finToks segs0 ∧ drawn.Sublist (okToks log) := by
  obtain ⟨segs, hA, drawn, h1, h2, _⟩ := exactly_once log A h
  exact ⟨segs, hA, drawn, h1, h2⟩

/-- … and when no part is unlimited, the ok results in return order ARE the tokens, in order, each once. -/
theorem C02_exactly_once_finite (segs0 : List Seg) (hfin : 0 ≤ pendSegs segs0) (log : Log) (A : Abs)
    (h : Reach (.running segs0) log A) :
    ∃ segs, A = .running segs ∧ okToks log ++ finToks segs = finToks segs0 := by
  obtain ⟨segs, hA, drawn, h1, _, h3⟩ := exactly_once log A h
  obtain ⟨_, rfl⟩ := h3 hfin
  exact ⟨segs, hA, h1⟩

/-- one ok result: it pops the first remaining finite token, or it is the clock reading (never before the part's
start) of the live unlimited part all of whose predecessors are exhausted -/
theorem C02_next_step (segs : List Seg) (now : Int) :
    ((segNext segs now).2.2 = true ∧ finToks segs = (segNext segs now).2.1 :: finToks (segNext segs now).1) ∨
    (finToks (segNext segs now).1 = finToks segs ∧ ((segNext segs now).2.2 = true → UnlTok segs now (segNext segs now).2.1)) :=
  segNextAux_finToks segs 0 now

/-- **Times never decrease** — all times returned by `Next` (tokens and finish times), taken in return order, over
ALL callers, are non-decreasing, provided the parts are well formed (`Chain`: offsets sorted inside [0, dur],
dur ≥ 0 — what once/const/line/unlimited produce, `C02_chain_wf`) and the clock does not go back. -/
theorem C02_times_monotone (segs0 : List Seg) (hne : segs0 ≠ []) (b : Int) (hc : Chain b segs0) (log : Log) (A : Abs)
    (hi : Int) (h : Reach (.running segs0) log A) (hm : LogMono hi log) : (times log).Pairwise (· ≤ ·) := by
  obtain ⟨_, _, _, hp, _⟩ := times_mono hc (Or.inr hne) log A hi h hm
  exact hp

/-- the times returned to ONE caller never decrease -/
theorem C02_per_caller_monotone (segs0 : List Seg) (hne : segs0 ≠ []) (b : Int) (hc : Chain b segs0) (log : Log)
    (A : Abs) (hi : Int) (h : Reach (.running segs0) log A) (hm : LogMono hi log) (i : Nat) :
    (times (log.filter (fun e => e.1 == i))).Pairwise (· ≤ ·) := by
  have hp := C02_times_monotone segs0 hne b hc log A hi h hm
  refine hp.sublist ?_
  unfold times
  exact (List.filter_sublist.reverse).filterMap _

/-- parts as once/const/line/unlimited produce them give a well-formed chain at every start time -/
theorem C02_chain_wf (parts : List Part) (t : Int) (hw : ∀ x ∈ parts, x.wf = true) : Chain t (inst parts t) :=
  chain_inst parts t hw

/-- the log of a run has non-decreasing clock readings when the schedule of actions has -/
theorem C02_log_clock {σ : Type} (ops : Ops σ) : ∀ (sched : List (Nat × Int)) (st : St σ) (clk : Int),
    ClockOK clk sched → LogMono clk st.log → LogMono (lastClk clk sched) (run ops st sched).log
  | [], _, _, _, h => h
  | e :: rest, st, clk, hc, h => by
      have hstep : LogMono e.2 (step ops st e).log := by
        have hw : LogMono e.2 st.log := by
          cases hl : st.log with
          | nil => trivial
          | cons x xs => rw [hl] at h; exact ⟨by have := h.1; have := hc.1; omega, h.2⟩
        unfold step
        cases st.thr[e.1]? with
        | none => exact hw
        | some th =>
          simp only
          cases th.todo with
          | nil => exact hw
          | cons op more =>
            simp only [applyOut]
            have hw' : ∀ out, LogMono e.2 ((e.1, e.2, out) :: st.log) := fun out => ⟨Int.le_refl _, hw⟩
            cases (runSection ops st.sh th.pc op e.2).2 <;> exact hw' _
      have := C02_log_clock ops rest (step ops st e) e.2 hc.2 hstep
      simpa [run, lastClk] using this

/-- **Each nested part starts exactly at the finish time of the part before it**: the parts of a composite are the
parts of its children one after the other, and a succession `a ++ b` started at `t` is `a` started at `t` followed by
`b` started at the finish time of `a`. -/
theorem C02_chain (a b : List Part) (t : Int) :
    inst (a ++ b) t = inst a t ++ inst b (endOf a t) ∧ finOf (inst a t) t = endOf a t :=
  ⟨inst_append a b t, finOf_inst a t⟩

theorem C02_flat_comp (c1 c2 : Tree) (cs : List Tree) :
    flat (.comp (c1 :: c2 :: cs)) = flat c1 ++ flat c2 ++ flatList cs := by
  have hne : flat c1 ++ (flat c2 ++ flatList cs) ≠ [] := by
    have := flat_ne c1
    simp [this]
  simp only [flat, flatList]
  rw [List.append_assoc]

/-- **After exhaustion every call keeps returning the same finish time**: every `!ok` result of every caller, at
any time, is the finish time of the last part; and nobody panics. -/
theorem C02_finish_stable (segs0 : List Seg) (hne : segs0 ≠ []) (log : Log) (A : Abs) (h : Reach (.running segs0) log A) :
    ∀ e ∈ log, ∀ tx, e.2.2 = .ret (.tok tx false) → tx = finOf segs0 0 := by
  obtain ⟨_, _, _, hall⟩ := finish_stable hne log A h
  exact hall

theorem C02_no_panic (A0 : Abs) (log : Log) (A : Abs) (h : Reach A0 log A) :
    ∀ e ∈ log, ∀ m, e.2.2 ≠ .ret (.panic m) :=
  no_panic log A h

/-- a `!ok` result means that nothing is left: every part is exhausted or finished at that clock reading -/
theorem C02_finished_is_dead (segs : List Seg) (now : Int) (h : (segNext segs now).2.2 = false) : Dead segs now :=
  (segNextAux_notok segs 0 now h).1

/-- … and from then on (clock not going back) every `Next` returns `!ok` and the same time -/
theorem C02_dead_stays (segs : List Seg) (clk now : Int) (hd : Dead segs clk) (hle : clk ≤ now) :
    segNext segs now = (segs, finOf segs 0, false) :=
  segNextAux_dead segs 0 clk now hd hle

/-- **Left is exact whenever it is non-negative**: zero only if no token remains (the next `Next`, at any later
clock reading, is `!ok`); positive ⇒ the next `Next` is ok and `Left` drops by exactly one; and it does not move
while nobody draws. -/
theorem C02_left_exact (segs : List Seg) (now now' : Int) (hk : 0 ≤ segLeft segs now) (hle : now ≤ now') :
    segLeft segs now' = segLeft segs now ∧
    (segNext segs now').2.2 = decide (0 < segLeft segs now) ∧
    segLeft (segNext segs now').1 now' = segLeft segs now - (if 0 < segLeft segs now then 1 else 0) := by
  have hs := segLeft_known_stable segs now now' hk hle
  have := segLeft_step segs 0 now' (by rw [hs]; exact hk)
  rw [hs] at this
  exact ⟨hs, this.1, this.2⟩

theorem C02_left_zero (segs : List Seg) (now : Int) : segLeft segs now = 0 ↔ Dead segs now :=
  segLeft_zero_iff segs now

/-- a known `Left` is the number of finite tokens not yet handed out, all unlimited parts before them being finished -/
theorem C02_left_count (segs : List Seg) (now : Int) (hk : 0 ≤ segLeft segs now) :
    ∃ pre post, segs = pre ++ post ∧ Dead pre now ∧ 0 ≤ pendSegs post ∧ segLeft segs now = ((finToks post).length : Int) :=
  segLeft_exact segs now hk

/-- **Left is negative only while the total is genuinely unknown**: it is then exactly -1 and there is a
time-bounded unlimited part that has not finished yet: not reached yet, or current with the clock before its finish -/
theorem C02_left_negative (segs : List Seg) (now : Int) (h : segLeft segs now < 0) :
    segLeft segs now = -1 ∧ ∃ pre s f post, segs = pre ++ Seg.unl s f :: post ∧ (Dead pre now → now < f) :=
  ⟨by have := segLeft_ge segs now; omega, segLeft_neg segs now h⟩

/-- before the start: the exact total, or -1 iff some part is unlimited -/
theorem C02_left_unstarted (parts : List Part) : 0 ≤ partsLeft parts ∨
    (partsLeft parts = -1 ∧ ∃ pre d post, parts = pre ++ Part.unl d :: post) := by
  induction parts with
  | nil => exact Or.inl (by simp [partsLeft])
  | cons p r ih =>
    cases p with
    | unl d => exact Or.inr ⟨rfl, [], d, r, rfl⟩
    | fin offs dur =>
      rcases ih with h | ⟨h, pre, d, post, rfl⟩
      · left; simp only [partsLeft]; split <;> omega
      · right; exact ⟨by simp [partsLeft, h], .fin offs dur :: pre, d, post, rfl⟩

/-- **StartSync: a second `Start`, or a `Start` after the first `Next`, panics "schedule is already started"** —
for every tree. -/
theorem C02_double_start (now0 : Int) (t : Tree) (d : Nat) (hd : t.depth ≤ d) (s : Lvl d) (hb : build now0 d t = .ok s)
    (t0 t1 now : Int) :
    (∃ s1, (lvlOps d).start s t0 = .ok s1 ∧ (lvlOps d).start s1 t1 = .error alreadyStarted) ∧
    (∃ s1 tx ok, (lvlOps d).next s now = .ok (s1, tx, ok) ∧ (lvlOps d).start s1 t1 = .error alreadyStarted) := by
  have hU := build_U now0 d t s hd hb
  constructor
  · obtain ⟨s1, hs, hR⟩ := (lvlSem d).start_U hU t0
    exact ⟨s1, hs, (lvlSem d).start_R (hR 0) t1⟩
  · obtain ⟨s1, hs1, hn1⟩ := (lvlSem d).next_U hU now
    obtain ⟨s1', hs1', hR1⟩ := (lvlSem d).start_U hU now
    rw [hs1] at hs1'; cases hs1'
    obtain ⟨s2, hn, hR2⟩ := (lvlSem d).next_R (hR1 now) now (Int.le_refl _)
    exact ⟨s2, _, _, by rw [hn1]; exact hn, (lvlSem d).start_R hR2 t1⟩

/-! ### callbackOnFinishSchedule -/

def obsOf : Out → Option Obs
  | .ret (.tok tx ok) => some (.tok tx ok)
  | .ret (.cnt n) => some (.cnt n)
  | _ => none

/-- the callback state after a log (newest first): `onFinishOnce.Do(onFinish)` after each finishing result -/
def cbOfLog : Log → Cb
  | [] => {}
  | e :: older => match obsOf e.2.2 with
    | some o => (cbOfLog older).after o
    | none => cbOfLog older

def isFinishEv (e : Nat × Int × Out) : Prop := ∃ o, obsOf e.2.2 = some o ∧ finishObs o = true

/-- **onFinish runs at most once, and exactly once as soon as some `Next` returned `!ok` or some `Left` returned 0** -/
theorem C02_onFinish_once : ∀ (log : Log),
    (cbOfLog log).calls ≤ 1 ∧ ((cbOfLog log).fired = true ↔ (cbOfLog log).calls = 1) ∧
    ((cbOfLog log).calls = 1 ↔ ∃ e ∈ log, isFinishEv e)
  | [] => by simp [cbOfLog]
  | e :: older => by
      obtain ⟨h1, h2, h3⟩ := C02_onFinish_once older
      simp only [cbOfLog]
      cases ho : obsOf e.2.2 with
      | none =>
        refine ⟨h1, h2, h3.trans ⟨fun ⟨x, hx, hf⟩ => ⟨x, List.mem_cons_of_mem _ hx, hf⟩, fun ⟨x, hx, hf⟩ => ?_⟩⟩
        rcases List.mem_cons.mp hx with rfl | hx
        · obtain ⟨o, ho', _⟩ := hf; rw [ho] at ho'; cases ho'
        · exact ⟨x, hx, hf⟩
      | some o =>
        simp only [Cb.after]
        by_cases hf : finishObs o = true
        · cases hfired : (cbOfLog older).fired with
          | true =>
            have hc := h2.mp hfired
            have hcond : (finishObs o && !(cbOfLog older).fired) = false := by simp [hfired]
            simp only [Bool.not_true, Bool.and_false, Bool.false_eq_true, if_false]
            exact ⟨h1, h2, ⟨fun _ => ⟨e, List.mem_cons_self, o, ho, hf⟩, fun _ => hc⟩⟩
          | false =>
            have hc : (cbOfLog older).calls = 0 := by
              have : ¬ (cbOfLog older).calls = 1 := fun h => by rw [h2.mpr h] at hfired; cases hfired
              omega
            have hcond : (finishObs o && !(cbOfLog older).fired) = true := by simp [hf, hfired]
            simp only [hf, Bool.not_false, Bool.and_self, if_true]
            exact ⟨by omega, by simp [hc], ⟨fun _ => ⟨e, List.mem_cons_self, o, ho, hf⟩, fun _ => by omega⟩⟩
        · have hf' : finishObs o = false := by simpa using hf
          simp only [hf', Bool.false_and, Bool.false_eq_true, if_false]
          refine ⟨h1, h2, h3.trans ⟨fun ⟨x, hx, hfx⟩ => ⟨x, List.mem_cons_of_mem _ hx, hfx⟩, fun ⟨x, hx, hfx⟩ => ?_⟩⟩
          rcases List.mem_cons.mp hx with rfl | hx
          · obtain ⟨o', ho', hfo⟩ := hfx
            rw [ho] at ho'; cases ho'; rw [hf'] at hfo; cases hfo
          · exact ⟨x, hx, hfx⟩

/-- **onFinish never fires while a token is still to come**: after a `Next` that returned `!ok` or a `Left` that
returned 0, no caller ever gets a token again (clock not going back). -/
theorem C02_onFinish_sound (segs0 : List Seg) (newer older : Log) (e : Nat × Int × Out) (A : Abs) (hi : Int)
    (h : Reach (.running segs0) (newer ++ e :: older) A) (hm : LogMono hi (newer ++ e :: older)) (hf : isFinishEv e) :
    ∀ x ∈ newer, okTok x = none := by
  obtain ⟨A2, h2, hnew⟩ := reach_split newer (e :: older) A h
  obtain ⟨A1, h1, hs⟩ := h2
  obtain ⟨segs1, rfl, _⟩ := reach_induct (fun _ _ => True) trivial (fun _ _ _ _ _ _ => trivial) older A1 h1
  obtain ⟨segs2, rfl, hrs⟩ := absStep_running hs
  -- the state after the finishing result is dead at its clock reading
  have hdead : Dead segs2 e.2.1 := by
    obtain ⟨o, ho, hfo⟩ := hf
    obtain ⟨i, now, out⟩ := e
    cases out with
    | goto pc => cases ho
    | ret r =>
      cases r with
      | panic m => cases ho
      | cnt n =>
        simp only [obsOf, Option.some.injEq] at ho; subst ho
        simp only [finishObs, beq_iff_eq] at hfo
        simp only [RStep] at hrs
        obtain ⟨hl, rfl⟩ := hrs
        exact (segLeft_zero_iff _ now).mp (by rw [hl]; exact hfo)
      | tok tx ok =>
        simp only [obsOf, Option.some.injEq] at ho; subst ho
        cases ok with
        | true => simp [finishObs] at hfo
        | false =>
          simp only [RStep] at hrs
          have h3 : (segNextAux 0 segs1 now).2.2 = false := congrArg (fun x => x.2.2) hrs
          have h1' : (segNextAux 0 segs1 now).1 = segs2 := congrArg Prod.fst hrs
          obtain ⟨hd, hsame, _⟩ := segNextAux_notok segs1 0 now h3
          rw [← h1', hsame]; exact hd
  -- clock readings of the newer part are at least that of `e`
  have hclk : ∀ (l : Log) (hi : Int), LogMono hi (l ++ e :: older) → ∀ x ∈ l, e.2.1 ≤ x.2.1 := by
    intro l
    induction l with
    | nil => intro _ _ x hx; cases hx
    | cons y ys ih =>
      intro hi hm x hx
      have hy : e.2.1 ≤ y.2.1 := by
        cases ys with
        | nil => exact hm.2.1
        | cons z zs => have := ih y.2.1 hm.2 z List.mem_cons_self; have := hm.2.1; omega
      rcases List.mem_cons.mp hx with rfl | hx
      · exact hy
      · exact ih y.2.1 hm.2 x hx
  have hge := hclk newer hi hm
  -- a dead schedule stays dead and hands out nothing
  clear h hm hs h1 hrs hclk
  induction newer generalizing A with
  | nil => intro x hx; cases hx
  | cons y ys ih =>
    obtain ⟨A3, hr3, hs3⟩ := hnew
    have ih' := ih A3 hr3 (fun x hx => hge x (List.mem_cons_of_mem _ hx))
    intro x hx
    rcases List.mem_cons.mp hx with rfl | hx
    · obtain ⟨segs3, rfl, hd3⟩ : ∃ segs3, A3 = .running segs3 ∧ Dead segs3 e.2.1 := by
        clear ih ih' hs3 hx
        induction ys generalizing A3 with
        | nil => exact ⟨segs2, hr3, hdead⟩
        | cons z zs ihz =>
          obtain ⟨A4, hr4, hs4⟩ := hr3
          obtain ⟨segs4, rfl, hd4⟩ := ihz A4 hr4 (fun x hx => hge x (by
            rcases List.mem_cons.mp hx with rfl | hx
            · exact List.mem_cons_self
            · exact List.mem_cons_of_mem _ (List.mem_cons_of_mem _ hx)))
          obtain ⟨segs5, rfl, hrs5⟩ := absStep_running hs4
          refine ⟨segs5, rfl, ?_⟩
          obtain ⟨i, now, out⟩ := z
          cases out with
          | goto pc => simp only [RStep] at hrs5; rw [hrs5]; exact hd4
          | ret r =>
            cases r with
            | panic m => exact absurd hrs5 (by simp [RStep])
            | cnt n => simp only [RStep] at hrs5; rw [hrs5.2]; exact hd4
            | tok tx ok =>
              simp only [RStep] at hrs5
              have h1' : (segNextAux 0 segs4 now).1 = segs5 := congrArg Prod.fst hrs5
              rw [← h1']; exact dead_segNextAux segs4 0 now _ hd4
      obtain ⟨segs6, _, hrs6⟩ := absStep_running hs3
      obtain ⟨i, now, out⟩ := x
      cases out with
      | goto pc => rfl
      | ret r =>
        cases r with
        | panic m => rfl
        | cnt n => rfl
        | tok tx ok =>
          simp only [RStep] at hrs6
          have hle : e.2.1 ≤ now := hge _ List.mem_cons_self
          have hx := segNextAux_dead segs3 0 e.2.1 now hd3 hle
          have h3 : (segNextAux 0 segs3 now).2.2 = ok := congrArg (fun x => x.2.2) hrs6
          rw [hx] at h3
          simp only at h3; subst h3
          rfl
    · exact ih' x hx

/-! ### callbackOnFinishSchedule under CONCURRENT callers (`Model/C02Cb.lean`)

`sync.Once` is a lock with a done flag; entering and leaving `onFinish` are separate actions (the callback is the
user's code and may take arbitrarily long); NOTHING is assumed about the wrapped schedule (`Inner ι`: any state, any
results, calls that take any number of actions).  For every number of callers, all their programs and every
schedule of atomic actions: -/

section Callback
open Pandora.Model.C02.CbW Pandora.Proofs.C02Cb

/-- **onFinish runs at most once** — the number of times it was entered is the number of `cbBegin` events, at most
one, and one exactly when the Once is not fresh any more. -/
theorem C02_cb_once {ι : Type} (I : Inner ι) (x : ι) (progs : List (List Op)) (sched : List (Nat × Int)) :
    (wrun I (winit x progs) sched).calls ≤ 1 ∧
    begins (wrun I (winit x progs) sched).log = (wrun I (winit x progs) sched).calls ∧
    ((wrun I (winit x progs) sched).calls = 1 ↔ (wrun I (winit x progs) sched).once ≠ .fresh) := by
  have h := wrun_inv I sched _ (winit_inv x progs)
  refine ⟨?_, h.nbeg, ?_⟩
  · rw [h.calls]; split <;> omega
  · rw [h.calls]
    constructor
    · intro h1 h2; rw [h2] at h1; simp at h1
    · intro h1; simp [h1]

/-- **Nobody is told that the schedule is finished before onFinish has COMPLETED**: whenever a call of the wrapper
returns a finishing result (`Next` with `!ok`, `Left` with 0) — to the caller that ran the callback or to any other
caller, however their calls overlap — the callback has been entered exactly once and has already returned. -/
theorem C02_cb_completed_before_known {ι : Type} (I : Inner ι) (x : ι) (progs : List (List Op)) (sched : List (Nat × Int))
    (newer older : WLog) (e : Nat × Int × WEv) (hl : (wrun I (winit x progs) sched).log = newer ++ e :: older)
    (r : Ret) (he : e.2.2 = .ret r) (hf : finishing r = true) :
    (∃ c ∈ older, c.2.2 = .cbEnd) ∧ (wrun I (winit x progs) sched).calls = 1 := by
  have h := wrun_inv I sched _ (winit_inv x progs)
  have hlog := h.log
  rw [hl] at hlog
  have hev := logOK_suffix newer hlog
  unfold EvOK at hev
  rw [he] at hev
  obtain ⟨c, hc, hce⟩ := hev.2 hf
  refine ⟨⟨c, hc, hce⟩, ?_⟩
  obtain ⟨o1, o2, rfl⟩ := List.append_of_mem hc
  have hlog2 : LogOK ((newer ++ e :: o1) ++ c :: o2) := by simpa using hlog
  have hev2 := logOK_suffix (newer ++ e :: o1) hlog2
  unfold EvOK at hev2
  rw [hce] at hev2
  obtain ⟨b, hb, hbe⟩ := hev2
  have hpos : 0 < begins (wrun I (winit x progs) sched).log := by
    unfold begins
    rw [List.countP_pos_iff]
    exact ⟨b, by rw [hl]; simp [hb], by simp [isBegin, hbe]⟩
  have h1 := (C02_cb_once I x progs sched).1
  have h2 := h.nbeg
  omega

/-- **onFinish is entered only by a caller whose wrapped call returned a finishing result**, and nobody entered it before. -/
theorem C02_cb_only_when_finished {ι : Type} (I : Inner ι) (x : ι) (progs : List (List Op)) (sched : List (Nat × Int))
    (newer older : WLog) (e : Nat × Int × WEv) (hl : (wrun I (winit x progs) sched).log = newer ++ e :: older)
    (he : e.2.2 = .cbBegin) :
    (∃ r, lastGot e.1 older = some r ∧ finishing r = true) ∧ ∀ y ∈ older, y.2.2 ≠ .cbBegin := by
  have hlog := (wrun_inv I sched _ (winit_inv x progs)).log
  rw [hl] at hlog
  have hev := logOK_suffix newer hlog
  unfold EvOK at hev
  rw [he] at hev
  exact hev

/-- **The wrapper is transparent**: every call of it returns what the wrapped call it made returned. -/
theorem C02_cb_transparent {ι : Type} (I : Inner ι) (x : ι) (progs : List (List Op)) (sched : List (Nat × Int))
    (newer older : WLog) (e : Nat × Int × WEv) (hl : (wrun I (winit x progs) sched).log = newer ++ e :: older)
    (r : Ret) (he : e.2.2 = .ret r) : lastGot e.1 older = some r := by
  have hlog := (wrun_inv I sched _ (winit_inv x progs)).log
  rw [hl] at hlog
  have hev := logOK_suffix newer hlog
  unfold EvOK at hev
  rw [he] at hev
  exact hev.1

/-- **No deadlock**: as long as some caller has calls to make, some caller can make an action that is not "blocked in
`Do`" — a blocked caller waits for the one inside `onFinish`, who is never blocked by the wrapper. -/
theorem C02_cb_no_deadlock {ι : Type} (I : Inner ι) (x : ι) (progs : List (List Op)) (sched : List (Nat × Int))
    (hsome : ∃ (i : Nat) (th : WThread), (wrun I (winit x progs) sched).thr[i]? = some th ∧ th.todo ≠ []) :
    ∃ (i : Nat) (th : WThread), (wrun I (winit x progs) sched).thr[i]? = some th ∧ th.todo ≠ [] ∧
      ¬ (∃ r, th.pc = .wait r ∧ (wrun I (winit x progs) sched).once ≠ .done) := by
  have h := wrun_inv I sched _ (winit_inv x progs)
  obtain ⟨i, th, hth, htodo⟩ := hsome
  by_cases hb : ∃ r, th.pc = .wait r ∧ (wrun I (winit x progs) sched).once ≠ .done
  · obtain ⟨r, hpc, hnd⟩ := hb
    have hT := (h.thr i th hth).2
    rw [hpc] at hT
    obtain ⟨_, _, hnf⟩ := hT
    cases ho : (wrun I (winit x progs) sched).once with
    | fresh => exact absurd ho hnf
    | done => exact absurd ho hnd
    | running j =>
      obtain ⟨th2, r2, hth2, hpc2⟩ := h.owner j ho
      refine ⟨j, th2, hth2, (h.thr j th2 hth2).1 (by rw [hpc2]; intro hx; cases hx), ?_⟩
      rintro ⟨r3, hpc3, _⟩
      rw [hpc2] at hpc3; cases hpc3
  · exact ⟨i, th, hth, htodo, hb⟩

/-- **Over the flat spec**: when the wrapped schedule is (linearizable to) the atomic flat spec, the results of the
wrapped calls, in the order in which those calls returned, are a run of the flat spec — so everything in part B holds
for what the callers of the WRAPPER get (`C02_cb_transparent`). -/
theorem C02_cb_flat (A0 : Abs) (progs : List (List Op)) (sched : List (Nat × Int)) (clk0 : Int) (hclk : ClockOK clk0 sched) :
    Reach A0 (gotLog (wrun absInner (winit A0 progs) sched).log) (wrun absInner (winit A0 progs) sched).inner ∧
    LogMono (lastClk clk0 sched) (gotLog (wrun absInner (winit A0 progs) sched).log) :=
  abs_run sched (winit A0 progs) A0 clk0 hclk rfl trivial

/-- **onFinish never runs while a token is still to come**: once `onFinish` has been entered, no wrapped call of any
caller returns a token any more (clock not going back). -/
theorem C02_cb_sound (segs0 : List Seg) (progs : List (List Op)) (sched : List (Nat × Int)) (clk0 : Int)
    (hclk : ClockOK clk0 sched) (newer older : WLog) (e : Nat × Int × WEv)
    (hl : (wrun absInner (winit (Abs.running segs0) progs) sched).log = newer ++ e :: older) (he : e.2.2 = .cbBegin) :
    ∀ y ∈ newer, ∀ tx, y.2.2 ≠ .got (.tok tx true) := by
  obtain ⟨⟨r, hlast, hfin⟩, _⟩ := C02_cb_only_when_finished absInner _ progs sched newer older e hl he
  obtain ⟨o1, now', o2, rfl⟩ := lastGot_mem hlast
  obtain ⟨hreach, hmono⟩ := C02_cb_flat (.running segs0) progs sched clk0 hclk
  rw [hl] at hreach hmono
  have hsplit : gotLog (newer ++ e :: (o1 ++ (e.1, now', WEv.got r) :: o2)) =
      (gotLog newer ++ gotLog (e :: o1)) ++ (e.1, now', Out.ret r) :: gotLog o2 := by
    have h1 : newer ++ e :: (o1 ++ (e.1, now', WEv.got r) :: o2) = (newer ++ e :: o1) ++ ((e.1, now', WEv.got r) :: o2) := by simp
    rw [h1, gotLog_append, gotLog_append]
    rfl
  rw [hsplit] at hreach hmono
  have hfe : isFinishEv (e.1, now', Out.ret r) := by
    cases r with
    | tok tx ok =>
      cases ok with
      | true => simp [finishing] at hfin
      | false => exact ⟨.tok tx false, rfl, rfl⟩
    | cnt n =>
      refine ⟨.cnt n, rfl, ?_⟩
      simp only [finishing] at hfin
      simpa [finishObs] using hfin
    | panic m => simp [finishing] at hfin
  have hs := C02_onFinish_sound segs0 _ _ _ _ _ hreach hmono hfe
  intro y hy tx hyt
  have hmem : (y.1, y.2.1, Out.ret (.tok tx true)) ∈ gotLog newer ++ gotLog (e :: o1) := by
    apply List.mem_append_left
    unfold gotLog
    rw [List.mem_filterMap]
    exact ⟨y, hy, by simp [gotEv, hyt]⟩
  have := hs _ hmem
  simp [okTok] at this

end Callback

/-! ### instance_step -/

/-- **instance_step**: `NewInstanceStep(from, to, step, d)` is the flat succession once(from), then k times
(a token-less part of duration d, once(step)); so started at `t` it hands out `from` tokens at `t` and `step` tokens
at `t + j·d` for j = 1..k, each exactly once, and finishes at `t + k·d` — and, being a tree, everything above
applies to it. -/
theorem C02_instance_step (frm upto step : Nat) (dur : Int) :
    ∃ k, flat (instanceStepTree frm upto step dur) =
      Part.fin (List.replicate frm 0) 0 :: (List.replicate k [Part.fin [] dur, Part.fin (List.replicate step 0) 0]).flatten := by
  obtain ⟨k, hk⟩ := flatList_isLoop upto step dur (upto + 1) (frm + step)
  exact ⟨k, by simp [instanceStepTree, flat, flatList, hk]⟩

/-- tokens of `k` rounds of (wait `dur`, then `step` tokens at once) after time `t` -/
def stepToks (step : Nat) (dur : Int) : Nat → Int → List Int
  | 0, _ => []
  | k + 1, t => List.replicate step (t + dur) ++ stepToks step dur k (t + dur)

theorem C02_instance_step_tokens (step : Nat) (dur : Int) : ∀ (k : Nat) (t : Int),
    finToks (inst ((List.replicate k [Part.fin [] dur, Part.fin (List.replicate step 0) 0]).flatten) t) =
      stepToks step dur k t ∧
    endOf ((List.replicate k [Part.fin [] dur, Part.fin (List.replicate step 0) 0]).flatten) t = t + k * dur
  | 0, t => by simp [inst, finToks, endOf, stepToks]
  | k + 1, t => by
      obtain ⟨ih1, ih2⟩ := C02_instance_step_tokens step dur k (t + dur)
      constructor
      · simp only [List.replicate_succ, List.flatten_cons, List.cons_append, List.nil_append, inst, finToks,
          List.map_nil, Int.add_zero, stepToks]
        rw [ih1]
        simp
      · simp only [List.replicate_succ, List.flatten_cons, List.cons_append, List.nil_append, endOf, Part.dur, Int.add_zero]
        rw [ih2]
        have : ((k + 1 : Nat) : Int) * dur = (k : Int) * dur + dur := by
          rw [Int.natCast_add, Int.add_mul]; simp
        rw [this]; omega


/-! ## C. The atomicity assumption, re-read from the source on every check -/

/-- **Lock discipline of composite.go as it is now** (`Gen/C02Locks.lean` is regenerated from the source): every
child call and every read of `scheds` / `leftAfter` is made under the read or the write lock, every write and
`startNext` under the write lock, and with no lock held a caller only touches the atomic flag, passes one of the
two scheduling points before `Lock`, retries, or panics after `Unlock` — the sections of `Model/C02Par.lean`. -/
theorem C02_lock_discipline : ∀ r ∈ Pandora.Gen.C02Locks.rows, Pandora.Bridge.C02Locks.rowOK r = true := by
  rw [Pandora.Bridge.C02Locks.rows_eq]
  exact Pandora.Bridge.C02Locks.expected_ok

/-- **The finite leaf of the model is the leaf of the source** (`Gen/Schedule.lean` re-translates do_at.go and
start_sync.go on every check): read through `toLeaf`, the regenerated `doAtSchedule` starts as the unstarted model
leaf with offsets `doAt 0 … doAt (n-1)`, and its `Start`, `Next` (auto-start by the clock reading, overshooting
index) and `Left` (clamped at 0) do exactly what `Leaf.start/next/left` do, the double-start panic included. -/
theorem C02_leaf_is_source (duration n : Int) (doAt : Int → Int) (hn : 0 ≤ n) :
    let s0 := Pandora.Gen.Schedule.NewDoAtSchedule duration n doAt
    Pandora.Bridge.C02DoAt.WF s0 ∧
    leafU (Pandora.Bridge.C02DoAt.toLeaf s0) [Part.fin ((List.range n.toNat).map (fun (k : Nat) => doAt (Int.ofNat k))) duration] ∧
    (∀ s, Pandora.Bridge.C02DoAt.WF s → ∀ now t,
      (∃ s' tx ok, Pandora.Gen.Schedule.doAtSchedule_Next now s = .ok ((tx, ok), s') ∧
        Leaf.next (Pandora.Bridge.C02DoAt.toLeaf s) now = .ok (Pandora.Bridge.C02DoAt.toLeaf s', tx, ok) ∧
        Pandora.Bridge.C02DoAt.WF s') ∧
      (∃ l, Pandora.Gen.Schedule.doAtSchedule_Left s = .ok (l, s) ∧
        Leaf.left (Pandora.Bridge.C02DoAt.toLeaf s) now = .ok (Pandora.Bridge.C02DoAt.toLeaf s, l)) ∧
      ((∃ s', Pandora.Gen.Schedule.doAtSchedule_Start s t = .ok ((), s') ∧
          Leaf.start (Pandora.Bridge.C02DoAt.toLeaf s) t = .ok (Pandora.Bridge.C02DoAt.toLeaf s') ∧
          Pandora.Bridge.C02DoAt.WF s') ∨
        (Pandora.Gen.Schedule.doAtSchedule_Start s t = .error "schedule is already started" ∧
          Leaf.start (Pandora.Bridge.C02DoAt.toLeaf s) t = .error alreadyStarted))) := by
  refine ⟨Pandora.Bridge.C02DoAt.wf_new duration n doAt hn, ?_, fun s hs now t =>
    ⟨Pandora.Bridge.C02DoAt.next_bridge s hs now, Pandora.Bridge.C02DoAt.left_bridge s hs now,
     Pandora.Bridge.C02DoAt.start_bridge s hs t⟩⟩
  rw [Pandora.Bridge.C02DoAt.new_leaf]
  simp [leafU]

/-- **The wrapper of the model is the wrapper of the source** (`Gen/C02Cb.lean` is regenerated from
core/coreutil/schedule.go): `Next` / `Left` call the wrapped method of the same name and return its results, and the
only other thing they do is `Do(onFinish)` on a `sync.Once`, exactly when the result is a finishing one. -/
theorem C02_cb_is_source (op : Op) (r : Ret) (h : Pandora.Bridge.C02Cb.shaped op r) :
    Pandora.Bridge.C02Cb.innerOf Pandora.Gen.C02Cb.cbRows (Pandora.Bridge.C02Cb.opName op) = [Pandora.Bridge.C02Cb.opName op] ∧
    Pandora.Bridge.C02Cb.actsOf Pandora.Gen.C02Cb.cbRows (Pandora.Bridge.C02Cb.opName op) r =
      if Pandora.Model.C02.CbW.finishing r then [.guardedCall "sync.Once" "onFinish"] else [] :=
  Pandora.Bridge.C02Cb.source_is_model op r h

/-- **The unlimited leaf of the model is the `unlimitedSchedule` of the source** (`Gen/C02Src.lean` re-translates
unlilmited.go and start_sync.go on every check): read through `toLeaf`, `NewUnlimited` is the unstarted model leaf,
and `Start` (double-start panic), `Next` (auto-start at the clock reading, never a time before the part's start, the
finish time once the clock has reached it) and `Left` (-1 until started and finished, then 0) of the source do
exactly what `Leaf.start/next/left` do. -/
theorem C02_unlimited_is_source (duration now0 : Int) :
    Pandora.Bridge.C02Src.WF (Pandora.Gen.C02Src.NewUnlimited duration now0) ∧
    Pandora.Bridge.C02Src.toLeaf (Pandora.Gen.C02Src.NewUnlimited duration now0) = Leaf.unl duration none ∧
    (∀ s, Pandora.Bridge.C02Src.WF s → ∀ now t,
      (∃ s' tx ok, Pandora.Gen.C02Src.unlimitedSchedule_Next now s = .ok ((tx, ok), s') ∧
        Leaf.next (Pandora.Bridge.C02Src.toLeaf s) now = .ok (Pandora.Bridge.C02Src.toLeaf s', tx, ok) ∧
        Pandora.Bridge.C02Src.WF s') ∧
      (∃ l, Pandora.Gen.C02Src.unlimitedSchedule_Left now s = .ok (l, s) ∧
        Leaf.left (Pandora.Bridge.C02Src.toLeaf s) now = .ok (Pandora.Bridge.C02Src.toLeaf s, l)) ∧
      ((∃ s', Pandora.Gen.C02Src.unlimitedSchedule_Start s t = .ok ((), s') ∧
          Leaf.start (Pandora.Bridge.C02Src.toLeaf s) t = .ok (Pandora.Bridge.C02Src.toLeaf s') ∧
          Pandora.Bridge.C02Src.WF s') ∨
        (Pandora.Gen.C02Src.unlimitedSchedule_Start s t = .error "schedule is already started" ∧
          Leaf.start (Pandora.Bridge.C02Src.toLeaf s) t = .error alreadyStarted))) :=
  ⟨Pandora.Bridge.C02Src.wf_new duration now0, Pandora.Bridge.C02Src.new_leaf duration now0, fun s hs now t =>
    ⟨Pandora.Bridge.C02Src.next_bridge s hs now, Pandora.Bridge.C02Src.left_bridge s hs now,
     Pandora.Bridge.C02Src.start_bridge s hs t⟩⟩

/-- **`NewComposite` of the model is the source's**: no children → `NewOnce(0)`, one child → the child itself, and
otherwise the loop that fills `leftAfter` — last child first, `left[i]` = the accumulator before child i, the unknown
latch — is the regenerated loop body. -/
theorem C02_newComposite_is_source {σ : Type} (ops : Ops σ) (now : Int) (c : σ) (rest : List σ) :
    Pandora.Gen.C02Src.NewComposite_shortcuts = [(0, "NewOnce(0)"), (1, "scheds[0]")] ∧
    newComposite ops now [] = .ok (.inl ops.once0) ∧ newComposite ops now [c] = .ok (.inl c) ∧
    Pandora.Gen.C02Src.NewComposite_loopOrder = "lastToFirst" ∧
    mkLeftAfter ops now (c :: rest) = (do
      let (rest', laRest, acc, unknown) ← mkLeftAfter ops now rest
      let (c', l) ← ops.left c now
      let r := Pandora.Gen.C02Src.NewComposite_loopBody acc unknown l
      pure (c' :: rest', r.1 :: laRest, r.2.1, r.2.2)) :=
  ⟨Pandora.Bridge.C02Src.shortcuts_are_source, rfl, rfl, Pandora.Bridge.C02Src.mkLeftAfter_is_source ops now c rest⟩

/-- **`Left` of the model decides what `compositeSchedule.Left` of the source decides** after its reader section —
return the child's count, `leftAfter[0]`, -1, the sum, or shift and retry — in the concurrent model (`leftReader`)
and in the one-caller model (`compLeftAux`). -/
theorem C02_left_is_source {σ : Type} (ops : Ops σ) :
    (∀ (s : Sh σ) (now : Int) (c : σ) (rest : List σ), s.cs = c :: rest → ∀ (c' : σ) (left : Int),
      ops.left c now = .ok (c', left) →
      leftReader ops s now = ({ s with cs := c' :: rest }, Pandora.Bridge.C02Src.outOf (rest.length + 1)
        (Pandora.Gen.C02Src.compositeSchedule_Left_decide ((rest.length : Int) + 1) (s.la.headD 0) left s.started))) ∧
    (∀ (started : Bool) (c : σ) (rest : List σ) (la : List Int) (now : Int),
      compLeftAux ops started c rest la now = (do
        let (c', left) ← ops.left c now
        match Pandora.Gen.C02Src.compositeSchedule_Left_decide ((rest.length : Int) + 1) (la.headD 0) left started with
        | .ret n => pure (⟨c' :: rest, la, started⟩, n)
        | .shift => Pandora.Bridge.C02Src.seqShift ops started c' rest la now)) :=
  ⟨fun s now c rest hcs c' left hl => Pandora.Bridge.C02Src.leftReader_is_source ops s now c rest hcs c' left hl,
   fun started c rest la now => Pandora.Bridge.C02Src.compLeftAux_is_source ops started c rest la now⟩

/-- **`instance_step` of the model is `NewInstanceStep` of the source** (`Gen/Schedule.lean` re-translates
instance_step.go on every check): with a `doAt` leaf read as its enumerated offsets and a composite as its children,
the source builds exactly `instanceStepTree from to step stepDuration` — `once(from)`, then for every
i = from+step, from+2·step, … ≤ to a token-less part of `stepDuration` followed by `once(step)`. -/
theorem C02_instance_step_is_source (frm upto step : Nat) (hs : 1 ≤ step) (dur : Int) :
    Pandora.Bridge.C02IStep.toTree (Pandora.Gen.Schedule.NewInstanceStep (frm : Int) (upto : Int) (step : Int) dur) =
      instanceStepTree frm upto step dur :=
  Pandora.Bridge.C02IStep.instanceStep_bridge frm upto step hs dur

/-- **`step` of the source is a composite of const parts** (`Gen/Schedule.lean` re-translates step.go on every check):
one const part when from = to, otherwise `NewComposite` of the const parts with the rates from, from+step, … ≤ to (the
float loop of the source), each lasting `duration` — a tree of the kind `C02_tree_refines` is about. -/
theorem C02_step_is_source (rFrom rTo : ℝ) (step duration : ℤ) :
    Pandora.Bridge.C02IStep.toTree (Pandora.Gen.Schedule.NewStep rFrom rTo step duration) =
      if rFrom = rTo then Pandora.Bridge.C02IStep.toTree (Pandora.Gen.Schedule.NewConst rFrom duration)
      else Tree.comp ((Pandora.Go.loopLE rFrom rTo ((step : ℤ) : ℝ)).map
        (fun i => Pandora.Bridge.C02IStep.toTree (Pandora.Gen.Schedule.NewConst i duration))) :=
  Pandora.Bridge.C02IStep.step_bridge rFrom rTo step duration

/-! ## round 3: huge token counts, machine integers, the inside of a leaf -/

open Pandora.Proofs.C02Huge Pandora.Proofs.C02LeafPar Pandora.Proofs.C02Width Pandora.Model.C02.LeafPar in
/-- **Trees with parts of ANY size** (2^31, 2^32, 2^62 tokens in one part: a million operations per second for an hour,
`once(1<<32)`).  A run tree (`Model/C02Huge.lean`: the offsets of a leaf run-length encoded, the composite the same
generic `NewComposite` / `Next` / `Left`) is built without panic and returns, for every sequence of Start/Next/Left
calls with a non-decreasing clock, exactly what the flat spec returns for the EXPANDED tree — the tree with all
offsets written out, which `C02_tree_refines`, `C02_seq_refines` and all contract theorems talk about. -/
theorem C02_huge_refines (now0 : Int) (t : HTree) (d : Nat) (hd : t.depth ≤ d) :
    ∃ s, hbuild now0 d t = .ok s ∧ ∀ (calls : List (SOp × Int)) (clk0 : Int), ClockSeq clk0 calls →
      seqRun (hlvlOps d) s calls = absRun (.unstarted (flat t.expand)) calls := by
  obtain ⟨s, hs, hU⟩ := Pandora.Proofs.C02Huge.hbuild_ok now0 d t hd
  exact ⟨s, hs, fun calls clk0 hclk => seq_refines (Pandora.Proofs.C02Huge.hlvlSem d) calls s _ clk0 hU hclk⟩

/-- `instance_step` with steps of any size: the run tree the driver uses stands for `instanceStepTree` -/
theorem C02_huge_instance_step (frm upto step : Nat) (dur : Int) :
    (hinstanceStepTree frm upto step dur).expand = instanceStepTree frm upto step dur :=
  Pandora.Proofs.C02Huge.hinstanceStepTree_expand frm upto step dur

/-- **The counts do not overflow** (`Gen/C02Src.lean` re-translates the loop of `NewComposite` and the decision of
`compositeSchedule.Left` a second time, in MACHINE integers: every +, -, * wraps at the width of its Go type, every
conversion at the width of its target, the suffix sums are stored in elements of the width the source declares).
The elements are 64 bits wide; while the running sum stays below 2^63 the machine loop body and the machine decision
are the ones over the integers (which the model uses); and every `leftAfter` entry of every composite is the count of a
suffix of the parts (`sufsP`), between -1 and the number of finite tokens, so a schedule with fewer than 2^63 tokens
never leaves that range. -/
theorem C02_no_overflow :
    (Pandora.Gen.C02Src.NewComposite_leftElemBits = 64 ∧ Pandora.Gen.C02Src.compositeSchedule_leftAfter_elemBits = 64) ∧
    (∀ (acc : Int) (unknown : Bool) (l : Int), -1 ≤ acc → -9223372036854775808 ≤ l → acc + l < 9223372036854775808 →
      acc < 9223372036854775808 →
      Pandora.Gen.C02Src.NewComposite_loopBodyW acc unknown l = Pandora.Gen.C02Src.NewComposite_loopBody acc unknown l) ∧
    (∀ (n la left : Int) (started : Bool), -1 ≤ la → -1 ≤ left → left + la < 9223372036854775808 → la < 9223372036854775808 →
      left < 9223372036854775808 →
      Pandora.Gen.C02Src.compositeSchedule_Left_decideW n la left started =
        Pandora.Gen.C02Src.compositeSchedule_Left_decide n la left started) ∧
    (∀ (pss : List (List Part)), (Pandora.Proofs.C02Width.finTotal pss.flatten : Int) < 9223372036854775808 →
      ∀ x ∈ sufsP pss, (-1 ≤ x ∧ x ≤ (Pandora.Proofs.C02Width.finTotal pss.flatten : Int)) ∧ Pandora.Go.wrapInt 64 x = x) :=
  ⟨Pandora.Bridge.C02Src.elemBits_are_source,
   fun acc unknown l h1 h2 h3 h4 => Pandora.Bridge.C02Src.loopBodyW_eq acc unknown l h1 h2 h3 h4,
   fun n la left started h1 h2 h3 h4 h5 => Pandora.Bridge.C02Src.leftDecideW_eq n la left started h1 h2 h3 h4 h5,
   fun pss h x hx => ⟨Pandora.Proofs.C02Width.sufsP_bounds pss x hx, Pandora.Proofs.C02Width.sufsP_fits pss h x hx⟩⟩

/-- **`Next` of the concurrent model is `compositeSchedule.Next` of the source, section by section** (`Gen/C02Src.lean`
re-translates the method on every check, control flow and data flow as they are: Go variables are Lean variables of the
same scope): before `RLock` it only sets the started flag; from `RLock` to the return or to the point before `Lock` it
is `nextReader` (the child call, the token or — for the last part — the finish time returned as they are, otherwise
the finish time and `len(s.scheds)` carried over); from `Lock` on it is `nextWriter` (who shifted is re-checked; a token
of the new head, or the retry; `startNext` with the finish time carried over; the retry on a token-less part). -/
theorem C02_next_is_source {σ : Type} (ops : Ops σ) :
    Pandora.Gen.C02Src.compositeSchedule_Next_prologue = ["s.started.Store(true)"] ∧
    (∀ (s : Sh σ) (now : Int), Pandora.Gen.C02Src.compositeSchedule_Next_reader ops s now = nextReader ops s now) ∧
    (∀ (s : Sh σ) (tx : Int) (seen : Nat) (now : Int),
      Pandora.Gen.C02Src.compositeSchedule_Next_writer ops s tx seen now = nextWriter ops s tx seen now) :=
  ⟨Pandora.Bridge.C02Src.next_prologue_is_source, Pandora.Bridge.C02Src.nextReader_is_source ops,
   Pandora.Bridge.C02Src.nextWriter_is_source ops⟩

/-- **The writer section of `Left`, `startNext` and `Start` of the model are those of the source**: from `Lock` on,
`compositeSchedule.Left` is `leftWriter` (re-check of who shifted, the panic if the head still had a token, `startNext`
with the head's finish time, the retry); `startNext` drops the heads of `scheds` and `leftAfter` and then starts the new
head with the time it was given; `Start` sets the started flag and starts the head under the write lock. With
`C02_next_is_source`, `C02_left_is_source` and `C02_newComposite_is_source` every statement of composite.go is regenerated. -/
theorem C02_left_writer_is_source {σ : Type} (ops : Ops σ) :
    (∀ (s : Sh σ) (seen : Nat) (now : Int),
      Pandora.Gen.C02Src.compositeSchedule_Left_writer ops s seen now = leftWriter ops s seen now) ∧
    (∀ (s : Sh σ) (t : Int), s.la ≠ [] → Pandora.Gen.C02Src.compositeSchedule_startNext ops s t = startNext ops s t) ∧
    Pandora.Gen.C02Src.compositeSchedule_Start = ["defer s.rwMu.Unlock()", "s.rwMu.Lock()", "s.scheds[0].Start(t)", "s.started.Store(true)"] :=
  ⟨Pandora.Bridge.C02Src.leftWriter_is_source ops, Pandora.Bridge.C02Src.startNext_is_source ops, Pandora.Bridge.C02Src.start_is_source⟩

/-- **Inside a leaf, any interleaving.**  A leaf — ANY object that refines the flat spec: the `doAt` leaf, the
unlimited leaf, the run leaf — whose `Next` is the once (`startOnce.Do`: start at the clock reading if not started)
followed by ONE atomic operation and whose `Left` is one atomic operation is linearizable to the atomic flat spec: for
every number of callers, all their programs, every interleaving of the actions (enter the call / the once / the
operation) and every non-decreasing clock the log is a run of the atomic spec (`Reach`), from the unstarted object or
from one started earlier.  So all contract theorems of part B hold for a bare leaf under concurrent callers, and a
leaf may be used by `C02_conc_linearizable` as an atomic child (locality). -/
theorem C02_leaf_conc_linearizable {σ : Type} (ops : Ops σ) (sem : Sem ops) (s : σ) (A0 : Abs) (clk0 : Int)
    (h0 : (∃ parts, A0 = .unstarted parts ∧ sem.U s parts) ∨ (∃ segs, A0 = .running segs ∧ sem.R s segs clk0))
    (progs : List (List Op)) (sched : List (Nat × Int)) (hclk : ClockOK clk0 sched) :
    ∃ A, Reach A0 (Pandora.Model.C02.LeafPar.lrun ops (Pandora.Model.C02.LeafPar.linit s progs) sched).log A := by
  have hinv : Pandora.Proofs.C02LeafPar.LInv sem A0 (Pandora.Model.C02.LeafPar.linit s progs) clk0 := by
    refine ⟨A0, rfl, ?_⟩
    rcases h0 with ⟨parts, hA, hU⟩ | ⟨segs, hA, hR⟩
    · refine Or.inr ⟨parts, hA, hU, ?_⟩
      intro th hth
      simp only [Pandora.Model.C02.LeafPar.linit, List.mem_map] at hth
      obtain ⟨p, _, rfl⟩ := hth
      simp
    · exact Or.inl ⟨segs, hA, hR⟩
  obtain ⟨A, h, _⟩ := Pandora.Proofs.C02LeafPar.lrun_inv sem sched _ clk0 hclk hinv
  exact ⟨A, h⟩

/-- the `doAt` leaf (once / const / line), not started: the engine's case -/
theorem C02_doAt_conc (offs : List Int) (dur : Int) (progs : List (List Op)) (sched : List (Nat × Int)) (clk0 : Int)
    (hclk : ClockOK clk0 sched) :
    ∃ A, Reach (.unstarted [Part.fin offs dur])
      (Pandora.Model.C02.LeafPar.lrun leafOps (Pandora.Model.C02.LeafPar.linit (Leaf.fin offs dur 0 none) progs) sched).log A :=
  C02_leaf_conc_linearizable leafOps leafSem _ _ clk0 (Or.inl ⟨_, rfl, by simp [leafSem, leafU]⟩) progs sched hclk

/-- **The leaves of the model touch their shared state as the leaves of the source do** (`Gen/C02Leaf.lean` is
re-extracted from do_at.go / unlilmited.go on every check): per method the statements with accesses to atomics, the
once, methods of the receiver and plain fields are those of `Model/C02LeafPar.lean` — `Next`: the once, then one
statement (`i.Inc`: ONE fetch-and-increment / `finish.Load`); `Left`: one statement — and plain fields are written inside
the once only. -/
theorem C02_leaf_accesses_are_source :
    Pandora.Bridge.C02Leaf.flatAccesses Pandora.Gen.C02Leaf.leafAccesses =
      [("doAtSchedule", "Left", Pandora.Model.C02.LeafPar.doAtLeftAccesses.flatten),
       ("doAtSchedule", "Next", Pandora.Model.C02.LeafPar.doAtNextAccesses.flatten),
       ("unlimitedSchedule", "Left", Pandora.Model.C02.LeafPar.unlLeftAccesses.flatten),
       ("unlimitedSchedule", "Next", Pandora.Model.C02.LeafPar.unlNextAccesses.flatten)] ∧
    (Pandora.Bridge.C02Leaf.flatAccesses Pandora.Gen.C02Leaf.leafAccesses).filter (fun r => r.1 == "doAtSchedule") =
      [("doAtSchedule", "Left", ["i.Load"]), ("doAtSchedule", "Next", ["startOnce.Do", "i.Inc"])] ∧
    (∀ r ∈ Pandora.Gen.C02Leaf.leafPlainWrites, r.2.2.2 = true) :=
  ⟨Pandora.Bridge.C02Leaf.accesses_eq, Pandora.Bridge.C02Leaf.index_is_fetch_and_increment,
   Pandora.Bridge.C02Leaf.plain_writes_in_once⟩

/-! ## round 4: parts of realistic size that are described instead of written out; schedule factories -/

/-- **Trees whose parts are DESCRIBED** (`Model/C02Big.lean`: a finite part is a token count `n` and a function `off`
from the token index to its offset — for a const part `constCount` / `constOff`, the float64 operations of `NewConst` /
`constDoAt` carried out exactly; the composite is the same generic `NewComposite` / `Next` / `Left`): built without
panic, and for every sequence of Start/Next/Left calls with a non-decreasing clock they return exactly what the flat
spec returns for the EXPANDED tree (offsets `off 0, …, off (n-1)` written out), the tree `C02_tree_refines`,
`C02_seq_refines` and all contract theorems talk about.  The driver drains const parts of 10^4 … 3·10^5 tokens of the
real code against this model (`mode=seq big=1`). -/
theorem C02_big_refines (now0 : Int) (t : BTree) (d : Nat) (hd : t.depth ≤ d) :
    ∃ s, bbuild now0 d t = .ok s ∧ ∀ (calls : List (SOp × Int)) (clk0 : Int), ClockSeq clk0 calls →
      seqRun (blvlOps d) s calls = absRun (.unstarted (flat t.expand)) calls := by
  obtain ⟨s, hs, hU⟩ := Pandora.Proofs.C02Big.bbuild_ok now0 d t hd
  exact ⟨s, hs, fun calls clk0 hclk => seq_refines (Pandora.Proofs.C02Big.blvlSem d) calls s _ clk0 hU hclk⟩

/-- **The schedules a factory produces are schedules of their own** (any objects, any number of them): in a run of
calls `(j, op, clock)` spread in any order over the produced objects `ss` (no panic, i.e. no double `Start`), what
object `j` answered is what it answers to its own calls when it is used alone. -/
theorem C02_factory_objects {σ : Type} (ops : Ops σ) (ss : List σ) (calls : List (Nat × SOp × Int)) (j : Nat) (s : σ)
    (hs : ss[j]? = some s) (hne : noErr (facRun ops ss calls) = true) :
    projObs j (facRun ops ss calls) = seqRun ops s (projCalls j calls) :=
  Pandora.Proofs.C02Big.facRun_proj ops calls ss j s hs hne

/-- **A schedule factory** (`rps` of an instance pool is a `func() (core.Schedule, error)`; with `rps-per-instance`
every instance calls it): the factory builds the configured tree anew at every call, so k calls give k independent
objects (`List.replicate k s` — states are values, nothing is shared), and EACH of them, whatever is done with the
others in between and in whatever order, returns exactly what the flat spec of the configured tree returns for the
calls made to it: all its tokens, its own `Left`, its own part start times. -/
theorem C02_factory_independent (now0 : Int) (t : Tree) (d : Nat) (hd : t.depth ≤ d) (k : Nat)
    (calls : List (Nat × SOp × Int)) :
    ∃ s, build now0 d t = .ok s ∧
      (noErr (facRun (lvlOps d) (List.replicate k s) calls) = true → ∀ j, j < k → ∀ clk0,
        ClockSeq clk0 (projCalls j calls) →
        projObs j (facRun (lvlOps d) (List.replicate k s) calls) = absRun (.unstarted (flat t)) (projCalls j calls)) := by
  obtain ⟨s, hs, hU⟩ := build_ok now0 d t hd
  refine ⟨s, hs, fun hne j hj clk0 hclk => ?_⟩
  rw [Pandora.Proofs.C02Big.facRun_proj (lvlOps d) calls (List.replicate k s) j s (by simp [hj]) hne]
  exact seq_refines (lvlSem d) _ s (.unstarted (flat t)) clk0 (build_U now0 d t s hd hs) hclk

/-- **The arithmetic of a const part is the source's** (`Gen/Schedule.lean` re-translates const.go on every check, in
the float64 reading: the result of every float operation goes through a rounding function `fl`).  For any `fl` that
rounds the way `Model/C02Big.lean` computes (`FlIs`: integer → float64, product, quotient), `NewConst` of the source is
the doAt leaf with `constCount ops duration` tokens and `constDoAt(ops)(i)` of the source is `constOff ops i`: the
period `1e9 / ops` rounded once as a float64, multiplied by `float64(i)`, rounded, truncated once.  (That `FlIs`
describes the hardware is measured, not proved: the driver compares every token of every drained const part.) -/
theorem C02_const_is_source (fl : ℝ → ℝ) (h : Pandora.Bridge.C02Const.FlIs fl) (ops : F64) (hops : ops.m ≠ 0) (dur : Nat) :
    Pandora.Gen.Schedule.NewConst_fl fl (Pandora.Bridge.C02Const.val ops) (dur : ℤ) =
      Pandora.Sched.doAt (dur : ℤ) (constCount ops (dur : ℤ))
        (Pandora.Gen.Schedule.constDoAt_fl fl (Pandora.Bridge.C02Const.val ops)) ∧
    ∀ i : Nat, Pandora.Gen.Schedule.constDoAt_fl fl (Pandora.Bridge.C02Const.val ops) (i : ℤ) = constOff ops (i : ℤ) :=
  ⟨Pandora.Bridge.C02Const.constCount_is_source fl h ops dur,
   fun i => Pandora.Bridge.C02Const.constOff_is_source fl h ops hops i⟩

/-! ## non-vacuity -/

-- two schedules from one factory for [once(1), once(1)], used alternately: each hands out both of its tokens
example : (match newComposite leafOps 0 [Leaf.fin [0] 0 0 none, Leaf.fin [0] 0 0 none] with
    | .ok (.inr c) => facRun (compOps leafOps) [c, c]
        [(0, .next, 5), (1, .next, 6), (1, .left, 6), (0, .next, 7), (1, .next, 8), (0, .next, 9), (0, .left, 9)]
    | _ => []) =
    [(0, .tok 5 true), (1, .tok 6 true), (1, .cnt 1), (0, .tok 5 true), (1, .tok 6 true), (0, .tok 5 false), (0, .cnt 0)] := by
  decide

-- a described const part: 70000 ops/s for 1 s has 70000 tokens, the last one at 999985714 ns (< 10^9)
example : constCount (F64.ofNat 70000) 1000000000 = 70000 ∧ constOff (F64.ofNat 70000) 69999 = 999985714 ∧
    constOff (F64.ofNat 70000) 7 = 100000 := by decide

-- a run tree with 2 + 2^32 tokens: composite(once(2), const(0, 1 s), once(1<<32)); Left is exact all the way
example : (match newComposite hleafOps 0 [HLeaf.fin [⟨0, 0, 2⟩] 0 0 none, HLeaf.fin [] 1000000000 0 none,
      HLeaf.fin [⟨0, 0, 4294967296⟩] 0 0 none] with
    | .ok (.inr c) => seqRun (compOps hleafOps) c [(.start 0, 0), (.left, 0), (.next, 0), (.next, 0), (.left, 0), (.next, 0), (.left, 0)]
    | _ => []) =
    [.started, .cnt 4294967298, .tok 0 true, .tok 0 true, .cnt 4294967296, .tok 1000000000 true, .cnt 4294967295] := by decide

-- two callers race inside a once(1) leaf: both pass the once, one gets the token, `Left` is 0 afterwards
example : ((Pandora.Model.C02.LeafPar.lrun leafOps (Pandora.Model.C02.LeafPar.linit (Leaf.fin [0] 0 0 none) [[.next, .left], [.next]])
    [(0, 5), (1, 5), (0, 5), (1, 5), (1, 6), (0, 6), (0, 7), (0, 7)]).log.map (·.2.2)).reverse =
    [.goto .idle, .goto .idle, .goto .nextB, .goto .nextB, .ret (.tok 5 true), .ret (.tok 5 false), .goto .idle, .ret (.cnt 0)] := by decide

-- the machine-integer loop body with a 64-bit element: 2^32 is stored as it is
example : Pandora.Gen.C02Src.NewComposite_loopBodyW 4294967296 false 2 = (4294967296, 4294967298, false) := by decide


-- the flat spec on [once(1) with duration 5; unlimited(10); once(2)] started at 0, clock 7, 7, 20, 20, 20, 20
example : absRun (.unstarted [.fin [0] 5, .unl 10, .fin [0, 0] 0])
    [(.left, 0), (.start 0, 0), (.next, 7), (.left, 7), (.next, 7), (.next, 20), (.left, 20), (.next, 20), (.next, 20), (.left, 21)] =
    [.cnt (-1), .started, .tok 0 true, .cnt (-1), .tok 7 true, .tok 15 true, .cnt 1, .tok 15 true, .tok 15 false, .cnt 0] := by
  decide

-- an unlimited part started in advance hands out its start time, not the (earlier) clock reading
example : (segNext [.fin [] 100, .unl 100 110] 7).2 = (100, true) := by decide

-- the hypotheses of `C02_conc_linearizable` / `C02_tree_conc` are satisfiable: every composite with two or more
-- children is built as a composite node, e.g. composite[once(1), composite[once(0), once(2)], unlimited(3)]
example : ∃ c, build 0 2 (.comp [.fin [0] 0, .comp [.fin [] 0, .fin [0, 0] 0], .unl 3]) = .ok (.inr c) :=
  build_inr 0 _ _ _ 1 (by decide)
example : ShRel leafSem ⟨[Leaf.fin [0] 0 0 none, Leaf.unl 3 none], sufsP [[.unl 3]], false⟩
    (.unstarted [.fin [0] 0, .unl 3]) 0 :=
  ⟨_, _, [.fin [0] 0], [[.unl 3]], rfl, rfl, by simp [leafSem, leafU], ⟨by simp [leafSem, leafU], trivial⟩, rfl⟩

-- a clock that does not go back, and a well-formed chain
example : ClockOK 0 [(0, 1), (1, 1), (0, 5)] := by simp [ClockOK]
example : Chain 3 (inst [.fin [0, 1, 2] 2, .unl 4, .fin [] 0] 3) :=
  C02_chain_wf _ 3 (by decide)

-- Left: known and positive / zero / negative
example : segLeft [.fin [] 5, .unl 5 9, .fin [10, 10] 10] 9 = 2 ∧ segLeft [.fin [] 5, .unl 5 9, .fin [10, 10] 10] 8 = -1 ∧
    segLeft [.fin [] 5, .unl 5 9] 9 = 0 := by decide

-- the wrapper under overlap: callers 0 and 1 both learn that once(1) is exhausted; 1 runs onFinish, 0 reaches `Do`
-- meanwhile and is blocked until the callback has returned; onFinish ran once
example : ((Pandora.Model.C02.CbW.wrun Pandora.Proofs.C02Cb.absInner
      (Pandora.Model.C02.CbW.winit (.running [.fin [5] 5]) [[.next, .next], [.next]])
      [(0, 9), (0, 9), (1, 9), (1, 9), (0, 9), (0, 9), (0, 9), (1, 9), (0, 9)]).log.reverse.map (·.2.2)) =
    [.got (.tok 5 true), .ret (.tok 5 true), .got (.tok 5 false), .cbBegin, .got (.tok 5 false), .blocked, .blocked,
     .cbEnd, .ret (.tok 5 false), .ret (.tok 5 false)] := by decide

/-- **The config wrappers are pass-throughs** (round 6): `NewCompositeConf(conf)` = `NewComposite(conf.Nested...)`,
`NewInstanceStepConf(conf)` = `NewInstanceStep(conf.From, conf.To, conf.Step, conf.StepDuration)`, `NewUnlimitedConf(conf)` =
`NewUnlimited(conf.Duration)` — every field handed over unchanged and in order (re-extracted on every check, each argument
traced through local aliases; once/const/line/step: C01's `New…Conf` definitions).  A wrapper that drops token-less parts,
truncates a duration or swaps two fields changes this table. -/
theorem C02_conf_wrappers_forward : Pandora.Gen.C02Src.confForwards =
    [("NewCompositeConf", "NewComposite(Nested...)"),
     ("NewInstanceStepConf", "NewInstanceStep(From, To, Step, StepDuration)"),
     ("NewUnlimitedConf", "NewUnlimited(Duration)")] := Pandora.Bridge.C02Src.conf_forwards


/-! ## G. Composition with C01: accepted configurations → leaves → composites → concurrent callers (round 6) -/

section compose
open Pandora.Gen.Schedule Pandora.Bridge.C02IStep Pandora.Proofs.C02R6

/-- **Every schedule built from ACCEPTED configurations is a tree of well-formed parts.**  `Accepted`: once / const /
line / step with the `validate` tags C01's area regenerates from the config structs, and composites of such, any
nesting; `toTree` reads what the regenerated constructors build as a C02 tree.  Discharges the hypothesis `Part.wf`
of `C02_chain_wf` / `C02_times_monotone` from C01's theorems (`C01_const`, `C01_line`, `C01_step`) instead of assuming it. -/
theorem C02_accepted_parts_wf (s : Sched) (h : Accepted s) : ∀ p ∈ flat (toTree s), p.wf = true :=
  accepted_wf s h

/-- **Times never decrease, for every accepted schedule**: all times returned by `Next`, in return order over all
callers (hence per caller), in every concurrent run with a clock that does not go back — no hypothesis on the parts. -/
theorem C02_accepted_times_monotone (s : Sched) (h : Accepted s) (t0 : Int) (log : Log) (A : Abs) (hi : Int)
    (hr : Reach (.running (inst (flat (toTree s)) t0)) log A) (hm : LogMono hi log) :
    (times log).Pairwise (· ≤ ·) ∧ ∀ i : Nat, (times (log.filter (fun e => e.1 == i))).Pairwise (· ≤ ·) := by
  have hp := accepted_times_mono s h t0 log A hi hr hm
  refine ⟨hp, fun i => hp.sublist ?_⟩
  unfold times
  exact (List.filter_sublist.reverse).filterMap _

/-- **End to end: rate profile → leaf → concurrent callers.**  For every accepted const configuration and every
accepted line configuration, the started schedule hands out — to however many callers, in whatever interleaving — as
its k-th ok result in return order exactly `start + ⌊x_k · 10⁹⌋`, where `x_k` is the earliest instant at which the
integral of the configured rate reaches k (C01's `EarliestAt`); no more ok results than ⌊∫ rate⌋; each inside
[start, start + duration]. -/
theorem C02_profile_tokens :
    (∀ (ops : ℝ) (D : ℤ), ConstConfig_valid ops D → ∀ (t0 : Int) (log : Log) (A : Abs),
      Reach (.running (inst (flat (toTree (NewConstConf ops D))) t0)) log A →
      ((okToks log).length : ℤ) ≤ max ⌊Props.C01.constCum ops (Bridge.Schedule.secs D)⌋ 0 ∧
      ∀ (k : ℕ) (hk : k < (okToks log).length), ∃ x : ℝ, Props.C01.EarliestAt (Props.C01.constCum ops) D (k : ℝ) x ∧
        (okToks log)[k] = t0 + ⌊x * 1000000000⌋ ∧ t0 ≤ (okToks log)[k] ∧ (okToks log)[k] ≤ t0 + D) ∧
    (∀ (f t : ℝ) (D : ℤ), LineConfig_valid f t D → ∀ (t0 : Int) (log : Log) (A : Abs),
      Reach (.running (inst (flat (toTree (NewLineConf f t D))) t0)) log A →
      ((okToks log).length : ℤ) ≤ max ⌊Props.C01.lineCum f t D (Bridge.Schedule.secs D)⌋ 0 ∧
      ∀ (k : ℕ) (hk : k < (okToks log).length), ∃ x : ℝ, Props.C01.EarliestAt (Props.C01.lineCum f t D) D (k : ℝ) x ∧
        (okToks log)[k] = t0 + ⌊x * 1000000000⌋ ∧ t0 ≤ (okToks log)[k] ∧ (okToks log)[k] ≤ t0 + D) :=
  ⟨fun ops D h t0 log A hr => profile_tokens _ _ D (Props.C01.C01_const ops D h) t0 log A hr,
   fun f t D h t0 log A hr => profile_tokens _ _ D (Props.C01.C01_line f t D h).1 t0 log A hr⟩

-- non-vacuity: a nested accepted schedule …
example : Accepted (Sched.composite [NewOnceConf 3, NewConstConf 7.5 1000000,
    Sched.composite [NewLineConf 0 10 1500000000, NewStepConf 1 10 3 1500000000]]) := by
  refine .comp _ ?_
  intro s hs
  simp only [List.mem_cons, List.mem_nil_iff, or_false] at hs
  rcases hs with rfl | rfl | rfl
  · exact .once 3 (by unfold OnceConfig_valid; norm_num)
  · exact .const _ _ (by unfold ConstConfig_valid; schedule_timeval_unfold; norm_num)
  · refine .comp _ ?_
    intro s hs
    simp only [List.mem_cons, List.mem_nil_iff, or_false] at hs
    rcases hs with rfl | rfl
    · exact .line _ _ _ (by unfold LineConfig_valid; schedule_timeval_unfold; norm_num)
    · exact .step _ _ _ _ (by unfold StepConfig_valid; schedule_timeval_unfold; norm_num)

-- … and a run of an accepted schedule with results of two callers: once(3) started at 7, callers 0 and 1 draw
-- a token each, then caller 1 asks Left
example : Accepted (NewOnceConf 3) ∧ ∃ A, Reach (.running (inst (flat (toTree (NewOnceConf 3))) 7))
    [(1, 9, .ret (.cnt 1)), (1, 8, .ret (.tok 7 true)), (0, 8, .ret (.tok 7 true))] A ∧
    LogMono 9 [(1, 9, .ret (.cnt 1)), (1, 8, .ret (.tok 7 true)), (0, 8, .ret (.tok 7 true))] := by
  refine ⟨.once 3 (by unfold OnceConfig_valid; norm_num), ?_⟩
  have ht : toTree (NewOnceConf 3) = Tree.fin [0, 0, 0] 0 := by
    have := once_tree 3
    simpa [NewOnceConf, List.replicate] using this
  rw [ht]
  refine ⟨.running [.fin [7] 7], ⟨.running [.fin [7] 7], ⟨.running [.fin [7, 7] 7], ⟨_, rfl, ?_⟩, ?_⟩, ?_⟩, ?_⟩
  · show absNext _ 8 = _; decide
  · show absNext _ 8 = _; decide
  · exact ⟨by decide, rfl⟩
  · simp [LogMono]

end compose
/-! ## F. The one-caller model is the regenerated sections run by one caller (round 6) -/

section solo
open Pandora.Proofs.C02R6

/-- **The one-caller model of `Next` / `Left` (`compNext`, `compLeft` — what `C02_tree_refines`, `C02_seq_refines`,
`C02_double_start`, `C02_huge_refines`, `C02_big_refines`, `C02_factory_*` are about) is the concurrent model run by one
caller**, and every action of the concurrent model is a section regenerated from composite.go: a caller that performs
its atomic actions back to back (`soloCall`: follow `runSection` until the call returns) gets exactly the result and the
state of `compNext` / `compLeft` (a panic is a panic), for every composite over any children, any `leftAfter`, started
or not; and `runSection` dispatches to the prologue `started.Store(true)`, the regenerated reader / writer sections of
`Next`, the regenerated writer section of `Left` and `leftReader` (whose decision is the regenerated
`compositeSchedule_Left_decide`, `C02_left_is_source`).  So no hand-written reading of composite.go is left that is
tied by correspondence only. -/
theorem C02_seq_is_sections {σ : Type} (ops : Ops σ) :
    (∀ (s : Sh σ) (c : σ) (rest : List σ), s.cs = c :: rest → ∀ now : Int,
      soloCall ops .next (2 * rest.length + 2) s .idle now = nextRes (compNext ops ⟨s.cs, s.la, s.started⟩ now) ∧
      soloCall ops .left (2 * rest.length + 1) s .idle now = leftRes (compLeft ops ⟨s.cs, s.la, s.started⟩ now)) ∧
    (∀ (sh : Sh σ) (pc : Pc) (op : Op) (t : Int), runSection ops sh pc op t =
      match pc, op with
      | .idle, .next => ({ sh with started := true }, .goto .nextB)
      | .idle, .left => leftReader ops sh t
      | .nextB, _ => Pandora.Gen.C02Src.compositeSchedule_Next_reader ops sh t
      | .nextW tx seen, _ => Pandora.Gen.C02Src.compositeSchedule_Next_writer ops sh tx seen t
      | .leftW seen, _ => Pandora.Gen.C02Src.compositeSchedule_Left_writer ops sh seen t) := by
  refine ⟨fun s c rest hcs now => ⟨solo_next ops s c rest hcs now, solo_left ops s c rest hcs now⟩, ?_⟩
  intro sh pc op t
  cases pc with
  | idle => cases op <;> rfl
  | nextB => simp only [runSection]; exact (Pandora.Bridge.C02Src.nextReader_is_source ops sh t).symm
  | nextW tx seen => simp only [runSection]; exact (Pandora.Bridge.C02Src.nextWriter_is_source ops sh tx seen t).symm
  | leftW seen => simp only [runSection]; exact (Pandora.Bridge.C02Src.leftWriter_is_source ops sh seen t).symm

-- non-vacuity: composite[exhausted part of duration 5 started at 0; once(1)], one caller, clock 9: the solo run goes
-- through started.Store, the reader section, the writer section (shift, start at 5) and returns the token at 5;
-- then `Left` = 0
example : (soloCall leafOps .next 4 ⟨[Leaf.fin [] 5 0 (some 0), Leaf.fin [0] 0 0 none], [1, 0], false⟩ .idle 9).2 = .tok 5 true ∧
    (soloCall leafOps .left 3 ⟨[Leaf.fin [0] 0 1 (some 5)], [0], true⟩ .idle 9).2 = .cnt 0 := by decide

end solo
/-! ## H. A starting unlimited leaf and a concurrent `Left`: order of the stores and of the loads (round 6) -/

section publish
open Pandora.Model.C02.Pub Pandora.Proofs.C02R6 Pandora.Bridge.C02Leaf

/-- "a `Left` that runs while another caller starts the leaf — the starting caller performing the stores `w` one by one,
`Left` the loads `r` one by one, in any interleaving — answers what an ATOMIC `Left` answers either before the start
(flag down, finish = the construction time `f0`) or after it (flag up, finish = `v`)" -/
def C02_publish_statement (w : List WAcc) (r : List RAcc) : Prop :=
  ∀ (f0 v : Int) (sched : List Bool) (s : Bool) (f now : Int),
    (urun v (uinit f0 w r) sched).seenStarted = some s → (urun v (uinit f0 w r) sched).seenFinish = some f →
    (s = true → f = v) ∧ (leftOfView s f now = leftOfView false f0 now ∨ leftOfView s f now = leftOfView true v now)

/-- **With the orders of the SOURCE** (`Gen/C02Leaf.lean leafOrder`, re-extracted on every check: first `Next` and
`Start` store the finish time before they raise the started flag, `Left` loads the flag before the finish time) **a
`Left` concurrent with the start of an unlimited leaf is atomic**: it never reports 0 ("finished") from a raised flag and
the stale construction-time finish.  This is what lets `C02_leaf_conc_linearizable` treat the once body and `Left` as
single actions for the unlimited leaf (fix 4d9aa06). -/
theorem C02_unlimited_left_atomic :
    C02_publish_statement (wOrder (orderOf "unlimitedSchedule" "Next")) (rOrder (orderOf "unlimitedSchedule" "Left")) ∧
    C02_publish_statement (wOrder (orderOf "unlimitedSchedule" "Start")) (rOrder (orderOf "unlimitedSchedule" "Left")) := by
  obtain ⟨h1, h2, h3⟩ := unlimited_publish_order
  rw [h1, h2, h3]
  have h : C02_publish_statement [.storeFinish, .storeStarted] [.loadStarted, .loadFinish] :=
    fun f0 v sched s f now hs hf => ⟨publish_safe f0 v sched s f hs hf, left_atomic f0 v sched s f now hs hf⟩
  exact ⟨h, h⟩

/-- the order the code had before fix 4d9aa06 (flag first) is NOT safe: `Left` can see the raised flag with the
construction-time finish and report 0 while the part has 100 ns to go -/
theorem C02_publish_flag_first_counterexample :
    ¬ C02_publish_statement [.storeStarted, .storeFinish] [.loadStarted, .loadFinish] := by
  intro h
  have := (h 0 100 [true, false, false, true] true 0 50 (by decide) (by decide)).1 rfl
  exact absurd this (by decide)

/-- … nor is loading the finish time before the flag -/
theorem C02_publish_finish_read_first_counterexample :
    ¬ C02_publish_statement [.storeFinish, .storeStarted] [.loadFinish, .loadStarted] := by
  intro h
  have := (h 0 100 [false, true, true, false] true 0 50 (by decide) (by decide)).1 rfl
  exact absurd this (by decide)

-- non-vacuity: a `Left` that falls between the two stores sees the flag down (answers -1); one that comes after both
-- sees (up, 100)
example : (urun 100 (uinit 0 [.storeFinish, .storeStarted] [.loadStarted, .loadFinish]) [true, false, true, false]).seenStarted = some false ∧
    (urun 100 (uinit 0 [.storeFinish, .storeStarted] [.loadStarted, .loadFinish]) [true, false, true, false]).seenFinish = some 100 ∧
    (urun 100 (uinit 0 [.storeFinish, .storeStarted] [.loadStarted, .loadFinish]) [true, true, false, false]).seenStarted = some true ∧
    (urun 100 (uinit 0 [.storeFinish, .storeStarted] [.loadStarted, .loadFinish]) [true, true, false, false]).seenFinish = some 100 := by decide

end publish
end Pandora.Props.C02
