/-
C02 — Schedule token contract.

Concurrent part (this file, section Conc): the model is `Pandora.Model.C02.Conc` — the critical sections of
`compositeSchedule.Next/Left` as atomic steps over leaf children, ANY number of callers, ANY programs of
Next/Left calls, ANY interleaving (`sched : List Nat` is arbitrary). Tied to the real code by the
controlled-interleaving correspondence (harness/cmd/c02/conc.go through the `verif` yield points).
Sequential part (section Seq): nested composites of finite parts of any depth refine the flat succession
of their parts; `Left` is exact.
-/
import Pandora.Proofs.C02Conc

namespace Pandora.Props.C02
open Pandora.Model.C02 Pandora.Model.C02.Conc Pandora.Proofs.C02Conc

/-- a started composite over finite parts (head started at `s0`, the others untouched), callers with their programs -/
def initSt (offs : List Int) (dur s0 : Int) (rest : List Leaf) (la : List Int) (progs : List (List Op)) : St :=
  { cs := Leaf.fin offs dur 0 (some s0) :: rest, la := la, started := true,
    thr := progs.map (fun p => { todo := p }), log := [] }

/-- the tokens the flat succession of parts consists of: part j+1 starts at the finish time of part j -/
def allToks (offs : List Int) (dur s0 : Int) (rest : List Leaf) : List Int :=
  chainToks s0 (Leaf.fin offs dur 0 (some s0) :: rest)

def finishTime (offs : List Int) (dur s0 : Int) (rest : List Leaf) : Int :=
  chainFinish s0 (Leaf.fin offs dur 0 (some s0) :: rest)

/-- tokens the composite still holds in a state -/
def heldToks (st : St) : List Int :=
  match st.cs with
  | Leaf.fin _ _ _ (some s) :: _ => chainToks s st.cs
  | _ => []

theorem init_inv (offs : List Int) (dur s0 : Int) (rest : List Leaf) (la : List Int) (progs : List (List Op))
    (hrest : ∀ r ∈ rest, UnstartedFin r) :
    Inv (allToks offs dur s0 rest) (finishTime offs dur s0 rest) (initSt offs dur s0 rest la progs) := by
  refine ⟨⟨offs, dur, 0, s0, rest, rfl, hrest, ?_, rfl⟩, ?_, ?_⟩
  · simp [initSt, okToks, allToks]
  · intro th hth
    simp only [initSt, List.mem_map] at hth
    obtain ⟨p, _, rfl⟩ := hth
    trivial
  · intro e he; simp [initSt] at he

/-- **exactly once, in order, nothing dropped** — for every number of callers, all their Next/Left programs and
every interleaving: the tokens handed out so far (in hand-out order) followed by the tokens still held are
exactly the flat succession of the parts' tokens. In particular what was handed out is a prefix of it: no token
twice, none skipped, none lost when a part is shifted out. -/
theorem C02_conc_exactly_once (offs : List Int) (dur s0 : Int) (rest : List Leaf) (la : List Int)
    (progs : List (List Op)) (sched : List Nat) (now : Int) (hrest : ∀ r ∈ rest, UnstartedFin r) :
    let st := run now (initSt offs dur s0 rest la progs) sched
    okToks st.log ++ heldToks st = allToks offs dur s0 rest := by
  intro st
  have h := run_inv now sched _ (init_inv offs dur s0 rest la progs hrest)
  obtain ⟨⟨o, d, i, s, r, hcs, _, hE, _⟩, _, _⟩ := h
  show okToks st.log ++ heldToks st = _
  have : heldToks st = chainToks s st.cs := by
    unfold heldToks; rw [show st.cs = _ from hcs]
  rw [this]; exact hE

theorem C02_conc_prefix (offs : List Int) (dur s0 : Int) (rest : List Leaf) (la : List Int)
    (progs : List (List Op)) (sched : List Nat) (now : Int) (hrest : ∀ r ∈ rest, UnstartedFin r) :
    let st := run now (initSt offs dur s0 rest la progs) sched
    okToks st.log = (allToks offs dur s0 rest).take (okToks st.log).length := by
  intro st
  have h : okToks st.log ++ heldToks st = allToks offs dur s0 rest :=
    C02_conc_exactly_once offs dur s0 rest la progs sched now hrest
  rw [← h]; simp

/-- **no caller ever panics, and every "finished" answer carries the one finish time** (stable after exhaustion),
under every interleaving. -/
theorem C02_conc_finish_stable (offs : List Int) (dur s0 : Int) (rest : List Leaf) (la : List Int)
    (progs : List (List Op)) (sched : List Nat) (now : Int) (hrest : ∀ r ∈ rest, UnstartedFin r) :
    let st := run now (initSt offs dur s0 rest la progs) sched
    ∀ e ∈ st.log, (∀ m, e.2 ≠ Ret.panic m) ∧ (∀ tx, e.2 = Ret.tok tx false → tx = finishTime offs dur s0 rest) := by
  intro st e he
  have h := run_inv now sched _ (init_inv offs dur s0 rest la progs hrest)
  have hl := h.2.2 e he
  unfold LogOK at hl
  constructor
  · intro m hm; rw [hm] at hl; exact hl
  · intro tx htx; rw [htx] at hl; exact hl

/-- a caller parked before `Lock` never shifts out a part that still has tokens: when it gets the lock either
somebody else already shifted (the list is shorter than what it saw) or the head is the exhausted part it saw. -/
theorem C02_conc_shift_safe (offs : List Int) (dur s0 : Int) (rest : List Leaf) (la : List Int)
    (progs : List (List Op)) (sched : List Nat) (now : Int) (hrest : ∀ r ∈ rest, UnstartedFin r) :
    let st := run now (initSt offs dur s0 rest la progs) sched
    ∀ th ∈ st.thr, ∀ tx seen, th.pc = Pc.nextW tx seen →
      st.cs.length ≤ seen ∧ (st.cs.length = seen → HeadExhausted st.cs tx) := by
  intro st th hth tx seen hpc
  have h := (run_inv now sched _ (init_inv offs dur s0 rest la progs hrest)).2.1 th hth
  rw [hpc] at h
  exact ⟨h.2.1, h.2.2⟩

-- non-vacuity: [once(1), once(0), once(2)] started at 0, two callers, an interleaving in which both park
example : (∀ r ∈ [Leaf.fin [] 0 0 none, Leaf.fin [0, 0] 0 0 none], UnstartedFin r) := by
  intro r hr; simp at hr; rcases hr with rfl | rfl <;> trivial
example : okToks (run 5 (initSt [0] 0 0 [Leaf.fin [] 0 0 none, Leaf.fin [0, 0] 0 0 none] [2, 2, 0]
    [[.next, .next], [.next, .next]]) [0, 1, 0, 1, 1, 0, 0, 1]).log = [0, 0, 0] := by decide

end Pandora.Props.C02
