/-
C02 — Schedule token contract.

Concurrent part (this file, section Conc): the model is `Pandora.Model.C02.Conc` — the critical sections of
`compositeSchedule.Next/Left` as atomic steps over leaf children, ANY number of callers, ANY programs of
Next/Left calls, ANY interleaving (`sched : List Nat` is arbitrary). Tied to the real code by the
controlled-interleaving correspondence (harness/cmd/c02/conc.go through the `verif` yield points).
Sequential part (section Seq): nested composites of finite parts of any depth refine the flat succession
of their parts; `Left` is exact.
-/
import Pandora.Proofs.C02Conc
import Pandora.Proofs.C02Seq

namespace Pandora.Props.C02
open Pandora.Model.C02 Pandora.Model.C02.Conc Pandora.Proofs.C02Conc

/-- a started composite over finite parts (head started at `s0`, the others untouched), callers with their programs -/
def initSt (offs : List Int) (dur s0 : Int) (rest : List Leaf) (la : List Int) (progs : List (List Op)) : St :=
  { cs := Leaf.fin offs dur 0 (some s0) :: rest, la := la, started := true,
    thr := progs.map (fun p => { todo := p }), log := [] }

/-- the tokens the flat succession of parts consists of: part j+1 starts at the finish time of part j -/
def allToks (offs : List Int) (dur s0 : Int) (rest : List Leaf) : List Int :=
  chainToks s0 (Leaf.fin offs dur 0 (some s0) :: rest)

def finishTime (offs : List Int) (dur s0 : Int) (rest : List Leaf) : Int :=
  chainFinish s0 (Leaf.fin offs dur 0 (some s0) :: rest)

/-- tokens the composite still holds in a state -/
def heldToks (st : St) : List Int :=
  match st.cs with
  | Leaf.fin _ _ _ (some s) :: _ => chainToks s st.cs
  | _ => []

theorem init_inv (offs : List Int) (dur s0 : Int) (rest : List Leaf) (la : List Int) (progs : List (List Op))
    (hrest : ∀ r ∈ rest, UnstartedFin r) :
    Inv (allToks offs dur s0 rest) (finishTime offs dur s0 rest) (initSt offs dur s0 rest la progs) := by
  refine ⟨⟨offs, dur, 0, s0, rest, rfl, hrest, ?_, rfl⟩, ?_, ?_⟩
  · simp [initSt, okToks, allToks]
  · intro th hth
    simp only [initSt, List.mem_map] at hth
    obtain ⟨p, _, rfl⟩ := hth
    trivial
  · intro e he; simp [initSt] at he

/-- **exactly once, in order, nothing dropped** — for every number of callers, all their Next/Left programs and
every interleaving: the tokens handed out so far (in hand-out order) followed by the tokens still held are
exactly the flat succession of the parts' tokens. In particular what was handed out is a prefix of it: no token
twice, none skipped, none lost when a part is shifted out. -/
theorem C02_conc_exactly_once (offs : List Int) (dur s0 : Int) (rest : List Leaf) (la : List Int)
    (progs : List (List Op)) (sched : List Nat) (now : Int) (hrest : ∀ r ∈ rest, UnstartedFin r) :
    let st := run now (initSt offs dur s0 rest la progs) sched
    okToks st.log ++ heldToks st = allToks offs dur s0 rest := by
  intro st
  have h := run_inv now sched _ (init_inv offs dur s0 rest la progs hrest)
  obtain ⟨⟨o, d, i, s, r, hcs, _, hE, _⟩, _, _⟩ := h
  show okToks st.log ++ heldToks st = _
  have : heldToks st = chainToks s st.cs := by
    unfold heldToks; rw [show st.cs = _ from hcs]
  rw [this]; exact hE

theorem C02_conc_prefix (offs : List Int) (dur s0 : Int) (rest : List Leaf) (la : List Int)
    (progs : List (List Op)) (sched : List Nat) (now : Int) (hrest : ∀ r ∈ rest, UnstartedFin r) :
    let st := run now (initSt offs dur s0 rest la progs) sched
    okToks st.log = (allToks offs dur s0 rest).take (okToks st.log).length := by
  intro st
  have h : okToks st.log ++ heldToks st = allToks offs dur s0 rest :=
    C02_conc_exactly_once offs dur s0 rest la progs sched now hrest
  rw [← h]; simp

/-- **no caller ever panics, and every "finished" answer carries the one finish time** (stable after exhaustion),
under every interleaving. -/
theorem C02_conc_finish_stable (offs : List Int) (dur s0 : Int) (rest : List Leaf) (la : List Int)
    (progs : List (List Op)) (sched : List Nat) (now : Int) (hrest : ∀ r ∈ rest, UnstartedFin r) :
    let st := run now (initSt offs dur s0 rest la progs) sched
    ∀ e ∈ st.log, (∀ m, e.2 ≠ Ret.panic m) ∧ (∀ tx, e.2 = Ret.tok tx false → tx = finishTime offs dur s0 rest) := by
  intro st e he
  have h := run_inv now sched _ (init_inv offs dur s0 rest la progs hrest)
  have hl := h.2.2 e he
  unfold LogOK at hl
  constructor
  · intro m hm; rw [hm] at hl; exact hl
  · intro tx htx; rw [htx] at hl; exact hl

/-- a caller parked before `Lock` never shifts out a part that still has tokens: when it gets the lock either
somebody else already shifted (the list is shorter than what it saw) or the head is the exhausted part it saw. -/
theorem C02_conc_shift_safe (offs : List Int) (dur s0 : Int) (rest : List Leaf) (la : List Int)
    (progs : List (List Op)) (sched : List Nat) (now : Int) (hrest : ∀ r ∈ rest, UnstartedFin r) :
    let st := run now (initSt offs dur s0 rest la progs) sched
    ∀ th ∈ st.thr, ∀ tx seen, th.pc = Pc.nextW tx seen →
      st.cs.length ≤ seen ∧ (st.cs.length = seen → HeadExhausted st.cs tx) := by
  intro st th hth tx seen hpc
  have h := (run_inv now sched _ (init_inv offs dur s0 rest la progs hrest)).2.1 th hth
  rw [hpc] at h
  exact ⟨h.2.1, h.2.2⟩

-- non-vacuity: [once(1), once(0), once(2)] started at 0, two callers, an interleaving in which both park
example : (∀ r ∈ [Leaf.fin [] 0 0 none, Leaf.fin [0, 0] 0 0 none], UnstartedFin r) := by
  intro r hr; simp at hr; rcases hr with rfl | rfl <;> trivial
example : okToks (run 5 (initSt [0] 0 0 [Leaf.fin [] 0 0 none, Leaf.fin [0, 0] 0 0 none] [2, 2, 0]
    [[.next, .next], [.next, .next]]) [0, 1, 0, 1, 1, 0, 0, 1]).log = [0, 0, 0] := by decide

/-! ## Sequential part: nesting to any depth -/

section Seq
open Pandora.Proofs.C02Seq

mutual
/-- every schedule object that can be built from finite leaf profiles (once/const/line: a list of offsets and a
duration) by `NewComposite`, nested to any depth, with 0, 1 or more children, together with what it denotes:
started at `t` it hands out `den.1 t` and finishes at `den.2 t`. -/
inductive Built (now : Int) : (d : Nat) → Lvl d → Den → Prop
  | leaf (offs : List Int) (dur : Int) :
      Built now 0 (Leaf.fin offs dur 0 none) (fun t => offs.map (t + ·), fun t => t + dur)
  | lift {d : Nat} {x : Lvl d} {den : Den} : Built now d x den → Built now (d + 1) (.inl x) den
  | comp {d : Nat} {cs : List (Lvl d)} {dens : List Den} {s : Lvl (d + 1)} :
      BuiltList now d cs dens → newComposite (lvlOps d) now cs = .ok s →
      Built now (d + 1) s (chainTk dens, chainFn dens)
inductive BuiltList (now : Int) : (d : Nat) → List (Lvl d) → List Den → Prop
  | nil {d : Nat} : BuiltList now d [] []
  | cons {d : Nat} {c : Lvl d} {den : Den} {cs : List (Lvl d)} {dens : List Den} :
      Built now d c den → BuiltList now d cs dens → BuiltList now d (c :: cs) (den :: dens)
end

mutual
theorem built_U {now : Int} : ∀ {d : Nat} {s : Lvl d} {den : Den}, Built now d s den → (lvlSem d).U s den.1 den.2
  | _, _, _, .leaf offs dur => ⟨rfl, rfl⟩
  | _, _, _, .lift (d := d) (x := x) (den := den) h => by
      show (lvlSem d).U x den.1 den.2
      exact built_U h
  | _, _, _, .comp (d := d) (cs := cs) (dens := dens) hl hnew => by
      obtain ⟨s', hs', hU⟩ := newComposite_sem (lvlSem d) now cs dens (builtList_allU hl)
      rw [hnew] at hs'
      cases hs'
      exact hU
theorem builtList_allU {now : Int} : ∀ {d : Nat} {cs : List (Lvl d)} {dens : List Den},
    BuiltList now d cs dens → AllU (lvlSem d) cs dens
  | _, _, _, .nil => trivial
  | _, _, _, .cons h hl => ⟨built_U h, builtList_allU hl⟩
end

/-- successive `Next()` calls, one clock reading each -/
def nexts {σ : Type} (ops : Ops σ) : σ → List Int → Except String (σ × List (Int × Bool))
  | s, [] => .ok (s, [])
  | s, now :: nows =>
    match ops.next s now with
    | .error e => .error e
    | .ok (s', tx, ok) =>
      match nexts ops s' nows with
      | .error e => .error e
      | .ok (s'', rs) => .ok (s'', (tx, ok) :: rs)

/-- what `n` successive calls must return: the tokens in order, each once, then the finish time for ever -/
def expected (toks : List Int) (f : Int) : Nat → List (Int × Bool)
  | 0 => []
  | n + 1 => match toks with
    | t :: ts => (t, true) :: expected ts f n
    | [] => (f, false) :: expected [] f n

theorem nexts_running {σ : Type} {ops : Ops σ} (fs : FinSem ops) : ∀ (nows : List Int) (s : σ) (toks : List Int) (f : Int),
    fs.R s toks f → ∃ s', nexts ops s nows = .ok (s', expected toks f nows.length) ∧ fs.R s' (toks.drop nows.length) f
  | [], s, toks, f, h => ⟨s, rfl, by simpa using h⟩
  | now :: nows, s, [], f, h => by
      obtain ⟨s1, hn, h1⟩ := fs.next_nil h now
      obtain ⟨s2, hr, h2⟩ := nexts_running fs nows s1 [] f h1
      exact ⟨s2, by simp [nexts, hn, hr, expected], by simpa using h2⟩
  | now :: nows, s, t :: ts, f, h => by
      obtain ⟨s1, hn, h1⟩ := fs.next_cons h now
      obtain ⟨s2, hr, h2⟩ := nexts_running fs nows s1 ts f h1
      exact ⟨s2, by simp [nexts, hn, hr, expected], by simpa using h2⟩

/-- **Token contract of every finite schedule tree, any nesting depth** (sequential caller, any clock readings):
after `Start(t0)` the successive `Next()` results are exactly the tokens of the flat succession of the parts —
each part starting at the finish time of the part before it (`chainTk`) — in order, each once, and after
exhaustion the same finish time for ever; and at that point `Left()` is exactly the number of tokens not yet
handed out (hence ≥ 0, zero iff none remains, one less per token drawn) and does not disturb the schedule. -/
theorem C02_seq_contract (now0 : Int) (d : Nat) (s : Lvl d) (den : Den) (hb : Built now0 d s den)
    (t0 : Int) (nows : List Int) (nowL : Int) :
    ∃ s1 s2, (lvlOps d).start s t0 = .ok s1 ∧
      nexts (lvlOps d) s1 nows = .ok (s2, expected (den.1 t0) (den.2 t0) nows.length) ∧
      (lvlOps d).left s2 nowL = .ok (s2, (((den.1 t0).drop nows.length).length : Int)) := by
  obtain ⟨s1, hs, hR⟩ := (lvlSem d).start_U (built_U hb) t0
  obtain ⟨s2, hn, hR2⟩ := nexts_running (lvlSem d) nows s1 _ _ hR
  exact ⟨s1, s2, hs, hn, (lvlSem d).left_R hR2 nowL⟩

/-- an unstarted tree started implicitly by its first `Next()` behaves as if started at that clock reading -/
theorem C02_seq_autostart (now0 : Int) (d : Nat) (s : Lvl d) (den : Den) (hb : Built now0 d s den) (now : Int) :
    ∃ s1, (lvlOps d).start s now = .ok s1 ∧ (lvlOps d).next s now = (lvlOps d).next s1 now :=
  (lvlSem d).next_U (built_U hb) now

/-- before it is started, `Left()` of a finite tree is its total number of tokens, whatever the start time -/
theorem C02_seq_left_unstarted (now0 : Int) (d : Nat) (s : Lvl d) (den : Den) (hb : Built now0 d s den) (now t : Int) :
    (lvlOps d).left s now = .ok (s, ((den.1 t).length : Int)) := by
  rw [(lvlSem d).len_U (built_U hb) t]
  exact (lvlSem d).left_U (built_U hb) now

/-- the meaning of a composite: its parts in order, part j+1 starting exactly at the finish time of part j -/
theorem C02_seq_chain (d : Den) (ds : List Den) (t : Int) :
    chainTk (d :: ds) t = d.1 t ++ chainTk ds (d.2 t) ∧ chainFn (d :: ds) t = chainFn ds (d.2 t) := ⟨rfl, rfl⟩

-- non-vacuity: composite[once(1), composite[once(0), once(2)], composite[]] is `Built`, depth 2
example : ∃ s den, Built 0 2 s den ∧ den.1 7 = [7, 7, 7] := by
  have l1 : Built 0 0 (Leaf.fin [0] 0 0 none) _ := .leaf [0] 0
  have l0 : Built 0 0 (Leaf.fin [] 0 0 none) _ := .leaf [] 0
  have l2 : Built 0 0 (Leaf.fin [0, 0] 0 0 none) _ := .leaf [0, 0] 0
  have c1 : Built 0 1 _ _ := .comp (.cons l0 (.cons l2 .nil)) rfl
  have c0 : Built 0 1 _ _ := .comp (d := 0) .nil rfl
  have top : Built 0 2 _ _ := .comp (.cons (.lift l1) (.cons c1 (.cons c0 .nil))) rfl
  exact ⟨_, _, top, by simp [chainTk]⟩

end Seq

end Pandora.Props.C02
