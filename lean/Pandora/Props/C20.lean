/-
C20 — gRPC wire fidelity: method, message and metadata reach the server as written.

Clause → theorem (see notes/C20.md for the table):

* method / message / metadata / timeout of a grpc/json entry ............ `C20_method`, `C20_timeout`
* the same for a gRPC scenario call, after templating ..................... `C20_scenario_step` (part 2), `C20_timeout`
* metadata of a scenario call = the DEFINITION's templates rendered with that shot's variables, for any number of
  instances and EVERY interleaving of their map accesses ................... `C20_metadata`, `C20_definition_untouched`
  (the code before repair a3063a3 does not have it: `C20_metadata_inplace_counterexample`)
* unknown method / ill-typed payload ⇒ one failed sample, no call, other entries undisturbed
    grpc/json ........ `C20_errors_isolated`
    scenario ......... `C20_scenario_step` (part 1), `C20_scenario_shot_ends_at_failure`, `C20_scenario_refines`
* any number of instances, shared client on/off ............................ `C20_instances` (plain gun),
  `C20_scenario_refines` (scenario gun: any guns in any order), `C20_metadata` (concurrent map accesses)
* the model of the code equals the stateless specification for every configuration and schedule
  ........................................................................... `C20_scenario_refines`

* round 6: whatever `sync.Pool` hands out (objects with fields and the invalid flag, the pool as an oracle) ...... `C20_pool_oracle`
  a good entry makes exactly one call and one sample ....................... `C20_entry_delivered`
  file → reading loop → pool of instances; scenario provider → guns ........ `C20_json_end_to_end`, `C20_scenario_end_to_end`
  a scenario's request list → steps (counts, pauses, the rejected lists) ... `C20_expand`
  compositions with C10's / C14's regenerated definitions .................. `C20_status_documented`, `C20_chosen_cases`

The timeout selection, the per-call context chain, where method / message / metadata of the call come from, the
template cache key, the stub choice of `Bind`, the JSON / config tags and the example service's method table are
REGENERATED from /repo's source (`Gen/GrpcGun.lean`) and proved equal to the model's in `Bridge/C20.lean`, which this
file imports: a source change there breaks the build of this file.
-/
import Pandora.Model.C20
import Pandora.Model.C20Net
import Pandora.Model.C20Feed
import Pandora.Spec.C20
import Pandora.Proofs.C20Conc
import Pandora.Proofs.C20Scen
import Pandora.Proofs.C20Feed
import Pandora.Proofs.C20R4
import Pandora.Proofs.C20R6
import Pandora.Proofs.C20R6Expand
import Pandora.Bridge.C20
import Pandora.Gen.GrpcStatus
import Pandora.Gen.ChosenCases

namespace Pandora.Props.C20
open Pandora.Model.C20 Pandora.Model.C20Conc Pandora.Proofs.C20Conc Pandora.Proofs.C20Scen Pandora.Spec.C20

/-! ### metadata under interleaving -/

/-- statement shape shared by the theorem and the counterexample: in the state reached by `run` under `sched`,
every instance has sent, for a prefix of its shots, exactly the rendering of the step templates with that shot's
variables (and still has the remaining shots to do) -/
def MetadataAsWritten {κ : Type} (run : State κ → List Nat → State κ) : Prop :=
  ∀ (tmpls : List (Tmpl κ)) (shots : List (List (Vars κ))) (sched : List Nat) (i : Nat) (th : Thread κ),
    (run (init tmpls shots) sched).threads[i]? = some th →
      ∃ orig doneShots, shots[i]? = some orig ∧ orig = doneShots ++ th.shots ∧
        th.sent = doneShots.map (expected tmpls)

/-- **C20_metadata** (repaired code): for every interleaving of any number of instances, the metadata sent by a
shot is the step's templates rendered with that shot's variables. -/
theorem C20_metadata {κ : Type} : MetadataAsWritten (κ := κ) runCopy := by
  intro tmpls shots sched i th h
  obtain ⟨_, hth⟩ := runCopy_ok tmpls shots sched (init tmpls shots) (init_ok tmpls shots)
  obtain ⟨orig, ho, _, ⟨d, hd, hs⟩, _⟩ := hth i th h
  exact ⟨orig, d, ho, hd, hs⟩

/-- the shared map is never written by the repaired code -/
theorem C20_definition_untouched {κ : Type} (tmpls : List (Tmpl κ)) (shots : List (List (Vars κ))) (sched : List Nat) :
    (runCopy (init tmpls shots) sched).shared = tmpls :=
  (runCopy_ok tmpls shots sched (init tmpls shots) (init_ok tmpls shots)).1

/-- one key `x-user: u-{U}`, two instances with U = 1 and U = 2 -/
def cexTmpls : List (Tmpl Nat) := [[Piece.lit [100], Piece.var 0]]
def cexShots : List (List (Vars Nat)) := [[[(0, [1])]], [[(0, [2])]]]
/-- instance 0 renders (idle, cell 0, end of map), then instance 1 renders and sends, then instance 0 sends -/
def cexSched : List Nat := [0, 0, 0, 1, 1, 1, 1, 1, 0, 0]

/-- **counterexample for the code before the repair**: both instances send `u-1`: instance 1 parses the already
rendered value as its template. -/
theorem C20_metadata_inplace_counterexample : ¬ MetadataAsWritten (κ := Nat) runInPlace := by
  intro h
  have h1 := h cexTmpls cexShots cexSched 1
  simp only [cexTmpls, cexShots, cexSched] at h1
  obtain ⟨orig, d, ho, hd, hs⟩ := h1 _ rfl
  simp at ho
  subst ho
  revert hs hd
  cases d with
  | nil => simp
  | cons a d' =>
    cases d' with
    | nil =>
      simp [expected, render]
      intro hx hy
      subst hy
      simp [cellText, rendered, render, lookupVar] at hx
    | cons b d'' => simp

/-- non-vacuity of `C20_metadata`: under a schedule that lets both instances finish, both have sent their own value -/
example : ((runCopy (init cexTmpls cexShots) [0,0,0,0,1,1,1,1,1,1,1,0,0,0]).threads.map (·.sent))
    = [[[[100, 1]]], [[[100, 2]]]] := by decide

/-- the same schedule shape on the code before the repair: instance 1 sends instance 0's value -/
example : ((runInPlace (init cexTmpls cexShots) cexSched).threads.map (·.sent))
    = [[[[100, 1]]], [[[100, 1]]]] := by decide

/-! ### grpc/json entries -/

/-- the entry names no method of the table, or its payload does not fit the method's input type -/
def Failing (e : Entry) : Prop :=
  lookupMethod e.call = none ∨ ∃ m fs, lookupMethod e.call = some (m, fs) ∧ decodeFields fs e.payload = none

/-- **C20_errors_isolated**: whatever precedes and follows, a failing entry produces exactly one sample
(code 0 or 400) and no call, and all other entries produce what they produce on their own. -/
theorem C20_errors_isolated (tmo : Nat) (g : GunState) (es1 : List Entry) (e : Entry) (es2 : List Entry)
    (hf : Failing e) :
    (shootAll tmo g (es1 ++ e :: es2)).2
        = (shootAll tmo g es1).2 ++ shootEntry tmo e :: (shootAll tmo { shots := 0 } es2).2
      ∧ (shootEntry tmo e).calls = []
      ∧ ((shootEntry tmo e).samples = [sampleText e.tag 0] ∨ (shootEntry tmo e).samples = [sampleText e.tag 400]) := by
  refine ⟨by simp [shootAll_outcomes], ?_, ?_⟩
  · rcases hf with h | ⟨m, fs, h1, h2⟩
    · simp [shootEntry, h]
    · simp [shootEntry, h1, h2]
  · rcases hf with h | ⟨m, fs, h1, h2⟩
    · left; simp [shootEntry, h]
    · right; simp [shootEntry, h1, h2]

example : Failing { tag := "t", call := "target.TargetService.Nope", md := [], payload := [] } := by
  left; simp [lookupMethod, methodTable, svc]

example : Failing { tag := "t", call := "target.TargetService.Hello", md := [], payload := [("name", PVal.n "5")] } := by
  right
  refine ⟨"Hello", [⟨"name", "name", .str⟩], by simp [lookupMethod, methodTable, svc], ?_⟩
  simp [decodeFields, findField, convert]

/-- **C20_method**: a shot makes at most one call; if it makes one, the entry's `call` is `target.TargetService.M`
for a method `M` of the table, the payload fits `M`'s input type, and the call goes to `M` (its wire image starts
with `M|`, the recorder's short form of `/target.TargetService/M`) with the message the payload decodes to, the
entry's metadata and the configured timeout. -/
theorem C20_method (tmo : Nat) (e : Entry) :
    (shootEntry tmo e).calls.length ≤ 1 ∧
    ∀ call ∈ (shootEntry tmo e).calls,
      ∃ m fs vals, (m, fs) ∈ methodTable ∧ e.call = svc ++ "." ++ m ∧ decodeFields fs e.payload = some vals ∧
        call = callText m (canonMsg fs vals) (mdText e.md) tmo := by
  unfold shootEntry
  cases hl : lookupMethod e.call with
  | none => simp
  | some mf =>
    obtain ⟨m, fs⟩ := mf
    cases hd : decodeFields fs e.payload with
    | none => simp [hd]
    | some vals =>
      simp only [hd, List.length_singleton, Nat.le_refl, List.mem_singleton, true_and]
      intro call hc
      obtain ⟨h1, h2⟩ := lookupMethod_some e.call m fs hl
      exact ⟨m, fs, vals, h1, h2, hd, hc⟩

/-- non-vacuity: a well-formed entry does make a call -/
example : (shootEntry 0 { tag := "t", call := "target.TargetService.Hello", md := [("K", "v")], payload := [("name", PVal.z)] }).calls.length = 1 := by
  simp [shootEntry, lookupMethod, methodTable, svc, decodeFields, findField, convert]

/-- **C20_instances** (plain gun; shared_deps.go): a pool of any number `n` of instances, with a shared client pool of
any size `sc` or without one (`sc = 0`), firing the provider's entries in any assignment of entries to instances
(`sched`, any list of instance indices below `n`): entry `k` produces `shootEntry` of entry `k`, whichever instance
and connection carry it. -/
theorem C20_instances (tmo n sc : Nat) (sched : List Nat) (es : List Entry) (h : ∀ i ∈ sched, i < n) :
    ((runPool tmo (initPool n sc) sched es).2.map fun (i, _, o) => (i, o)) = expectedJsonSched tmo sched es := by
  have hlen : (initPool n sc).length = n := by simp [initPool]
  exact runPool_outcomes tmo (initPool n sc) sched es (by rw [hlen]; exact h)

/-- non-vacuity: three instances sharing two connections -/
example : ∀ i ∈ [2, 0, 1, 2], i < 3 := by decide
example : (initPool 3 2).map (·.stub) = [1, 0, 1] := by decide

/-! ### an entry is what its line says, whatever the pooled ammo object held before -/

/-- **C20_ammo_fresh**: the ammo handed to the gun for a line is the line decoded on its own — tag, call, metadata and
payload of the line, nothing for absent keys — for EVERY previous content of the pooled object it is delivered in
(`sync.Pool` recycling after more than 128 entries); that the code decodes into a fresh object and resets the pooled
one from all four of its fields is regenerated from the source (`Bridge.C20.ammoDecodeInto_eq`, `ammoResetCall_eq`,
`ammoResetBody_eq`). -/
theorem C20_ammo_fresh (pooled : Entry) (l : Line) :
    decodeAmmo pooled l = unmarshalInto zeroEntry l ∧
    (decodeAmmo pooled l).tag = l.tag.getD "" ∧ (decodeAmmo pooled l).call = l.call.getD "" ∧
    (decodeAmmo pooled l).md = l.md.getD [] ∧ (decodeAmmo pooled l).payload = l.payload.getD [] ∧
    Gen.GrpcGun.ammoDecodeInto = "&$fresh (a zero-valued local of type grpc.Ammo)" := by
  refine ⟨rfl, rfl, rfl, ?_, ?_, Bridge.C20.ammoDecodeInto_eq⟩
  · cases h : l.md <;> simp [decodeAmmo, resetAmmo, unmarshalInto, zeroEntry, mergeMap, h]
  · cases h : l.payload <;> simp [decodeAmmo, resetAmmo, unmarshalInto, zeroEntry, mergeMap, h]

/-- the statement the in-place variant would have to meet … -/
def C20_ammo_inplace_statement : Prop :=
  ∀ (pooled : Entry) (l : Line), (decodeAmmoInPlace pooled l).md = l.md.getD [] ∧ (decodeAmmoInPlace pooled l).payload = l.payload.getD []

/-- … and does not: a line without metadata delivered in an object that carried `authorization` before is shot with
that `authorization` -/
theorem C20_ammo_inplace_counterexample : ¬ C20_ammo_inplace_statement := by
  intro h
  have := (h { tag := "a", call := "c", md := [("authorization", "Bearer x")], payload := [] } { tag := some "b", call := some "c" }).1
  simp [decodeAmmoInPlace, resetAmmo, unmarshalInto] at this

/-- non-vacuity: a rich line after a sparse one and the other way round -/
example : (decodeAmmo { tag := "a", call := "c", md := [("k", "v")], payload := [("name", PVal.s "x")] }
    { tag := some "b", call := some "d" }).md = [] := rfl

/-! ### the calls go to the TARGET -/

/-- **C20_target**: for every target, every `reflect_port` (configured or not), every number of instances and every
shared-client pool size (0 = off): the stub of every instance is one of the connections the warm-up / `Bind` made, it
is dialled to the target itself — never to the reflection endpoint — and so no call of any pool trace goes anywhere
else; the reflection endpoint is `replacePort target reflect_port`, which is the target when no port is configured.
Which `make…Connect` each of `prepareMethodList`, `prepareClientPool` and `Bind` uses, and what the two dial, is
regenerated from the source (`Bridge.C20.reflectDial_eq`, `poolDial_eq`, `bindDial_eq`, `connectTarget_eq`,
`reflectionTarget_eq`). -/
theorem C20_target (c : Net) (n sc : Nat) :
    (∀ k, k < n → stubDial sc k ∈ dialPlan sc n ∧ stubAddr c sc k = c.target) ∧
    (∀ tr, strayCalls c sc tr = 0) ∧
    dialAddr c Dial.reflection = replacePort c.target c.reflectPort ∧
    replacePort c.target 0 = c.target ∧
    Gen.GrpcGun.poolDial = "result0($recv.makeConnect())" ∧ Gen.GrpcGun.bindDial = "result0($recv.makeConnect())" ∧
    Gen.GrpcGun.reflectDial = "result0($recv.makeReflectionConnect())" := by
  have haddr : ∀ k, stubAddr c sc k = c.target := by
    intro k
    unfold stubAddr stubDial
    by_cases h : (sc == 0) = true <;> simp [h, dialAddr]
  refine ⟨?_, ?_, rfl, by simp [replacePort], Bridge.C20.poolDial_eq, Bridge.C20.bindDial_eq, Bridge.C20.reflectDial_eq⟩
  · intro k hk
    refine ⟨?_, haddr k⟩
    unfold stubDial dialPlan
    by_cases h : (sc == 0) = true
    · simp [h]; exact hk
    · have hsc : sc ≠ 0 := by simpa using h
      have hpos : 0 < sc := Nat.pos_of_ne_zero hsc
      simp [h, stubOf]
      exact Nat.mod_lt _ hpos
  · intro tr
    unfold strayCalls
    have : (tr.filter fun (x : Nat × Nat × Outcome) => stubAddr c sc x.1 != c.target) = [] := by
      apply List.filter_eq_nil_iff.mpr
      intro x _
      simp [haddr]
    simp [this]

/-- non-vacuity / what `replacePort` does: a configured port replaces the target's, is appended to a bare host and to a
host whose last part is not a number -/
example : replacePort "127.0.0.1:8080" 9090 = "127.0.0.1:9090" ∧ replacePort "localhost" 9090 = "localhost:9090" ∧
    replacePort "[::1]" 9090 = "[::1]:9090" ∧ replacePort "[::1]:80" 9090 = "[::1]:9090" ∧
    replacePort "host:8080" 0 = "host:8080" := by decide
example : dialPlan 2 3 = [Dial.reflection, Dial.pool 0, Dial.pool 1] ∧
    dialPlan 0 2 = [Dial.reflection, Dial.own 0, Dial.own 1] ∧
    dialAddr { target := "t:1", reflectPort := 2 } Dial.reflection = "t:2" ∧ stubAddr { target := "t:1", reflectPort := 2 } 2 1 = "t:1" := by
  decide

/-! ### timeouts -/

/-- **C20_timeout**: every call of a grpc/json entry and every call the specification demands of a scenario step
carries the deadline of the configured timeout, 15 s when none is configured — and that selection is the one
regenerated from the source of `(*Gun).shoot` and `(*Gun).shootStep`, made per call. -/
theorem C20_timeout (tmoMs : Nat) :
    (∀ e call, call ∈ (shootEntry tmoMs e).calls → ∃ m msg md, call = m ++ "|" ++ msgText msg ++ "|" ++ md ++ "|" ++ dlText tmoMs) ∧
    (∀ (c : Cfg) scn cd vars call, c.tmo = tmoMs → call ∈ (specStep c scn cd vars).1.calls →
        ∃ m msg md, call = m ++ "|" ++ msgText msg ++ "|" ++ md ++ "|" ++ dlText tmoMs) ∧
    Gen.GrpcGun.gunTimeoutNs ((tmoMs : Int) * 1000000) = ((effTimeoutMs tmoMs : Nat) : Int) * 1000000 ∧
    Gen.GrpcGun.scenarioTimeoutNs ((tmoMs : Int) * 1000000) = ((effTimeoutMs tmoMs : Nat) : Int) * 1000000 ∧
    Gen.GrpcGun.gunContextChain = "WithTimeout>NewOutgoingContext>InvokeRpc" ∧
    Gen.GrpcGun.scenarioContextChain = "WithTimeout>NewOutgoingContext>InvokeRpc" := by
  refine ⟨?_, ?_, Bridge.C20.gunTimeout_eq tmoMs, Bridge.C20.scenarioTimeout_eq tmoMs,
    Bridge.C20.gunContextChain_eq, Bridge.C20.scenarioContextChain_eq⟩
  · intro e call hc
    obtain ⟨m, fs, vals, _, _, _, rfl⟩ := (C20_method tmoMs e).2 call hc
    exact ⟨m, canonMsg fs vals, mdText e.md, rfl⟩
  · intro c scn cd vars call ht hc
    subst ht
    by_cases hb : callBad cd = true
    · rw [specStep_bad c scn cd vars hb] at hc; simp at hc
    have hb' : callBad cd = false := by simpa using hb
    cases hl : lookupMethod cd.call with
    | none => rw [specStep_unknown c scn cd vars hl] at hc; simp at hc
    | some mf =>
      obtain ⟨m, fs⟩ := mf
      cases hd : decodeFields fs (renderedPayload cd vars) with
      | none => rw [specStep_illtyped c scn cd vars m fs hb' hl hd] at hc; simp at hc
      | some vals =>
        rw [(specStep_call c scn cd vars m fs vals hb' hl hd).1] at hc
        simp only [List.mem_singleton] at hc
        exact ⟨m, canonMsg fs vals, mdText (renderedMd cd vars), hc⟩

example : effTimeoutMs 0 = 15000 ∧ effTimeoutMs 40000 = 40000 ∧ dlText 0 = "dl15" := by decide

/-! ### scenario calls -/

/-- the invariant of the repaired scenario gun's world: every call definition's metadata map still holds the
definition's templates, and every gun's template cache holds templates of the definition -/
abbrev DefinitionsIntact (c : Cfg) (w : World) : Prop := WOk c w

/-- the step is inside the modelled fragment: a step with a `[next]` preprocessor has a user list to draw from (an empty
source is a configuration the provider rejects). Templates may refer to variables that do not exist — the token of an
`auth` step that has not run, failed, or is the step itself; the user of a step without preprocessor — they print
`<no value>` (`<nil>` through `print`), `mkVars`. -/
def Modelled (c : Cfg) (cd : CallDef) : Prop :=
  (cd.pre && c.users.isEmpty) = false

/-- one of the step's templates cannot be parsed or executed, or the step names no method of the table, or its rendered
payload does not fit the method's input type -/
def FailingStep (cd : CallDef) (vars : Vars Char) : Prop :=
  callBad cd = true ∨ lookupMethod cd.call = none ∨
    ∃ m fs, lookupMethod cd.call = some (m, fs) ∧ decodeFields fs (renderedPayload cd vars) = none

/-- the invariant holds initially (call names pairwise distinct, as the provider's registry requires) -/
theorem C20_scenario_init (c : Cfg) (hd : namesDistinct c.calls = true) : DefinitionsIntact c (initWorld c) :=
  initWorld_ok c hd

/-- **C20_scenario_step**: one step of the repaired scenario gun, by any gun, in any scenario, on any world satisfying
the invariant, with `vars` = the variables of THIS step (its own `[next]` user, its shot's auth results, globals):

1. a failing step (unknown method / rendered payload not fitting the input type) yields exactly one sample (code 0 or
   400) and no call, and leaves the invariant — hence every definition — intact;
2. any other step makes exactly one call: to the method `M` named by `call = target.TargetService.M`, with the message
   the RENDERED payload decodes to against `M`'s input fields, the metadata = the definition's templates rendered with
   `vars`, under the configured timeout; and re-establishes the invariant. The shot goes on after it unless the step has
   an `assert/response` postprocessor whose status code the reply does not meet: then (and only then) the shot ends
   after this call. -/
theorem C20_scenario_step (c : Cfg) (gun : Nat) (scn : String) (cd : CallDef) (w : World) (sv : ShotVars)
    (hd : namesDistinct c.calls = true) (hw : DefinitionsIntact c w) (hcd : cd ∈ c.calls) (hm : Modelled c cd) :
    (FailingStep cd (stepVars c cd w.iters sv).1 →
        ∃ (w' : World) (o : Outcome), shootStep .copy c gun scn cd w sv = .failed w' o ∧ o.calls = [] ∧
          (o.samples = [sampleText (scn ++ "." ++ cd.tag) 0] ∨ o.samples = [sampleText (scn ++ "." ++ cd.tag) 400]) ∧
          DefinitionsIntact c w') ∧
    (¬ FailingStep cd (stepVars c cd w.iters sv).1 →
        ∃ (w' : World) (sv' : ShotVars) (o : Outcome) (m : String) (fs : List Field) (vals : List (String × Option String)),
          (shootStep .copy c gun scn cd w sv =
            (if assertFails cd (serverCode m (canonMsg fs vals) (renderedMd cd (stepVars c cd w.iters sv).1))
              then .failed w' o else .ok w' sv' o)) ∧
          (m, fs) ∈ methodTable ∧ cd.call = svc ++ "." ++ m ∧
          decodeFields fs (renderedPayload cd (stepVars c cd w.iters sv).1) = some vals ∧
          o.calls = [callText m (canonMsg fs vals) (mdText (renderedMd cd (stepVars c cd w.iters sv).1)) c.tmo] ∧
          o.samples = [sampleText (scn ++ "." ++ cd.tag)
            (serverCode m (canonMsg fs vals) (renderedMd cd (stepVars c cd w.iters sv).1))] ∧ DefinitionsIntact c w') := by
  obtain ⟨w', hw', _, hstep⟩ := shootStep_copy c gun scn cd w sv hd hw hcd hm
  constructor
  · intro hf
    rcases hf with hb | h | ⟨m, fs, h1, h2⟩
    · rw [specStep_bad c scn cd _ hb] at hstep
      exact ⟨w', _, hstep, rfl, Or.inl rfl, hw'⟩
    · rw [specStep_unknown c scn cd _ h] at hstep
      exact ⟨w', _, hstep, rfl, Or.inl rfl, hw'⟩
    · by_cases hb : callBad cd = true
      · rw [specStep_bad c scn cd _ hb] at hstep
        exact ⟨w', _, hstep, rfl, Or.inl rfl, hw'⟩
      · rw [specStep_illtyped c scn cd _ m fs (by simpa using hb) h1 h2] at hstep
        exact ⟨w', _, hstep, rfl, Or.inr rfl, hw'⟩
  · intro hnf
    have hb : callBad cd = false := by
      cases h : callBad cd with
      | false => rfl
      | true => exact absurd (Or.inl h) hnf
    cases hl : lookupMethod cd.call with
    | none => exact absurd (Or.inr (Or.inl hl)) hnf
    | some mf =>
      obtain ⟨m, fs⟩ := mf
      cases hdec : decodeFields fs (renderedPayload cd (stepVars c cd w.iters sv).1) with
      | none => exact absurd (Or.inr (Or.inr ⟨m, fs, hl, hdec⟩)) hnf
      | some vals =>
        obtain ⟨h1, h2⟩ := specStep_call c scn cd _ m fs vals hb hl hdec
        obtain ⟨hmem, hcall⟩ := lookupMethod_some cd.call m fs hl
        rw [h2] at hstep
        refine ⟨w', svNext cd (specStep c scn cd (stepVars c cd w.iters sv).1).2.2 sv,
          (specStep c scn cd (stepVars c cd w.iters sv).1).1, m, fs, vals, ?_, hmem, hcall, hdec, ?_, ?_, hw'⟩
        · rw [hstep]
          cases assertFails cd (serverCode m (canonMsg fs vals) (renderedMd cd (stepVars c cd w.iters sv).1)) <;> simp
        · rw [h1]
        · rw [h1]

/-- **C20_scenario_shot_ends_at_failure**: a failing step ends ITS shot only: the shot's outcome is what the steps
before it produced plus the failed sample, whatever steps follow. -/
theorem C20_scenario_shot_ends_at_failure (c : Cfg) (gun : Nat) (scn : String) (cd : CallDef) (rest : List CallDef)
    (w : World) (sv : ShotVars) (acc : Outcome)
    (hd : namesDistinct c.calls = true) (hw : DefinitionsIntact c w) (hcd : cd ∈ c.calls) (hm : Modelled c cd)
    (hf : FailingStep cd (stepVars c cd w.iters sv).1) :
    ∃ (w' : World) (o : Outcome), shootSteps .copy c gun scn (cd :: rest) w sv acc =
        .done w' { calls := acc.calls, samples := acc.samples ++ o.samples } ∧
      o.samples.length = 1 ∧ DefinitionsIntact c w' := by
  obtain ⟨w', o, hstep, hcalls, hs, hw'⟩ := (C20_scenario_step c gun scn cd w sv hd hw hcd hm).1 hf
  refine ⟨w', o, ?_, ?_, hw'⟩
  · simp [shootSteps, hstep, hcalls]
  · rcases hs with h | h <;> simp [h]

/-- **C20_scenario_refines**: for every configuration (call names distinct), any guns firing any number of shots in
any order: whenever the stateless specification `expectedSched` (computed from the DEFINITION and the iterator draws
only) defines the expected trace, the model of the repaired code produces exactly that trace. In particular a failing
step or a failing shot changes nothing for the shots after it. -/
theorem C20_scenario_refines (c : Cfg) (hd : namesDistinct c.calls = true) (sched : List Nat) (tr : List (Nat × Outcome))
    (h : expectedSched c sched 0 [] [] = some tr) :
    runSched .copy c sched 0 (initWorld c) [] = .inl (some tr) :=
  runSched_copy c hd sched 0 (initWorld c) [] tr (initWorld_ok c hd) h

/-! non-vacuity of the scenario theorems: a two-step scenario (one good step with templated metadata, one step with an
unknown method), two users -/

def exGood : CallDef :=
  { name := "h", call := "target.TargetService.Hello", md := [("x-user", [Piece.lit ['u', '-'], Piece.var vU])],
    payload := [("name", "s", [Piece.var vU])], pre := true }
def exBad : CallDef :=
  { name := "bad", call := "target.TargetService.Nope", md := [], payload := [], pre := false }
def exCfg : Cfg :=
  { tmo := 0, users := ["1", "2"], g := "g", calls := [exGood, exBad],
    scns := [{ name := "s", weight := 1, reqs := ["h", "bad", "h"] }] }

example : namesDistinct exCfg.calls = true := by decide
example : exGood ∈ exCfg.calls ∧ exBad ∈ exCfg.calls := by simp [exCfg]
example : Modelled exCfg exGood ∧ Modelled exCfg exBad := by
  constructor <;> (unfold Modelled; decide)
example (vars : Vars Char) : FailingStep exBad vars := by
  right; left; simp [exBad, lookupMethod, methodTable, svc]
/-- a step whose metadata holds an action the template engine rejects fails whatever its variables are -/
example (vars : Vars Char) : FailingStep { exGood with md := [("x-e", [Piece.var vBad])] } vars := by
  left; decide
example : ¬ FailingStep exGood [(vU, ['1'])] := by
  intro h
  rcases h with hb | h | ⟨m, fs, h1, h2⟩
  · revert hb; decide
  · simp [exGood, lookupMethod, methodTable, svc] at h
  · simp [exGood, lookupMethod, methodTable, svc] at h1
    obtain ⟨rfl, rfl⟩ := h1
    simp [renderedPayload, exGood, decodeFields, findField, convert, pvalOf, render, lookupVar, vU] at h2
/-- the hypothesis of `C20_scenario_refines` is met: the specification defines the trace of three shots by two guns -/
example : (expectedSched exCfg [0, 1, 0] 0 [] []).isSome = true := by decide


/-! ### round 3: the provider's reading loop, undecodable lines, the call registry, statuses, pool size -/

open Pandora.Proofs.C20Feed in
/-- **C20_feed**: for every configuration of the grpc/json provider with a configured number of passes (any limit, any
chosen cases, continueonerror on or off) and every file — lines that decode, lines that do not, lines too long for the
scanner — the ammo the reading loop puts on its sink, in order, is: the lines of `passes` passes one after another, up
to the first line that stops the provider (too long; undecodable without continueonerror), each line contributing ITS
OWN ammo (`itemOf`: the line decoded on its own if its tag is chosen; the empty invalid ammo for an undecodable line;
nothing otherwise), cut at the limit. No line's ammo depends on its neighbours, on the pass, or on what the pooled
object held. The loop itself (condition, body, what follows a pass) is regenerated from the source
(`Bridge.C20.providerLoopCond_eq`, `providerLoopBody_eq`, `providerAfterPass_eq`, `providerPassPrologue_eq`). -/
theorem C20_feed (cfg : ProvCfg) (raws : List Raw) (hp : cfg.passes ≠ 0) :
    (feed cfg raws).1 =
      takeLim cfg.limit ((((List.replicate cfg.passes raws).flatten).takeWhile (rawOk cfg)).filterMap (itemOf cfg)) ∧
    Gen.GrpcGun.providerLoopCond = "$*bufio.Scanner0.Scan() && ($recv.Limit == 0 || $int0 < $recv.Limit)" := by
  refine ⟨?_, Bridge.C20.providerLoopCond_eq⟩
  have h := runPasses_spec cfg raws hp cfg.passes 0 zeroEntry 0 (by omega) hp
  have hf : feedFuel cfg = cfg.passes := by simp [feedFuel, hp]
  unfold feed
  rw [hf, h]
  simp [takeRem, takeLim, items, passesRaws]

/-- **C20_feed_isolated**: when no line stops the provider (every line decodes or continueonerror is on, none is too
long), the sink receives `passes` times the per-line ammo of the file, cut at the limit: in particular an undecodable
line costs exactly its own (invalid) ammo and changes nothing before or after it, in this pass or a later one. -/
theorem C20_feed_isolated (cfg : ProvCfg) (raws : List Raw) (hp : cfg.passes ≠ 0) (hok : raws.all (rawOk cfg) = true) :
    (feed cfg raws).1 = takeLim cfg.limit (passesItems cfg raws cfg.passes) := by
  rw [(C20_feed cfg raws hp).1]
  have hall : ∀ k, ((List.replicate k raws).flatten).all (rawOk cfg) = true := by
    intro k
    induction k with
    | zero => simp
    | succ k ih => simp [List.replicate_succ, hok, ih]
  rw [Proofs.C20Feed.takeWhile_all _ _ (hall cfg.passes)]
  congr 1
  simp [passesItems, List.filterMap_flatten]

/-- **C20_invalid_line**: the ammo an undecodable line is delivered as makes no call and yields exactly one failed sample
(code 0), whatever the timeout; that the provider resets the pooled object for such a line and that the gun returns
before the method lookup for an ammo marked invalid is regenerated (`Bridge.C20.ammoDecodeOnError_eq`, `gunInvalidAmmo_eq`). -/
theorem C20_invalid_line (tmo : Nat) :
    shootEntry tmo invalidEntry = { calls := [], samples := [sampleText "" 0] } ∧
    Gen.GrpcGun.ammoDecodeOnError = ["$1.Reset(\"\", \"\", nil, nil)", "return $1, errors.WithStack($error0)"] ∧
    Gen.GrpcGun.gunInvalidAmmo = "if $0.IsInvalid() { … return=true }; calls inside=0; before the method lookup=true" := by
  refine ⟨?_, Bridge.C20.ammoDecodeOnError_eq, Bridge.C20.gunInvalidAmmo_eq⟩
  simp [shootEntry, invalidEntry, zeroEntry, lookupMethod, methodTable, svc]

/-- non-vacuity: a file of a good line, an undecodable line and another good line, two passes, limit 5, continueonerror:
five ammo, the undecodable line's among them twice … -/
def exRaws : List Raw :=
  [.line { tag := some "a", call := some "target.TargetService.Hello" }, .bad, .line { tag := some "b", call := some "c" }]
example : ((feed { passes := 2, limit := 5, chosen := [], coe := true } exRaws).1.map (·.tag)) = ["a", "", "b", "a", ""] := by decide
example : exRaws.all (rawOk { passes := 2, limit := 5, chosen := [], coe := true }) = true := by decide
/-- … without continueonerror the provider stops at it (first pass only, one ammo) -/
example : ((feed { passes := 2, limit := 5, chosen := [], coe := false } exRaws).1.map (·.tag)) = ["a"] ∧
    (feed { passes := 2, limit := 5, chosen := [], coe := false } exRaws).2 = Stop.decode := by decide
/-- chosen cases: only tag b, three passes -/
example : ((feed { passes := 3, limit := 0, chosen := ["b"], coe := true } exRaws).1.map (·.tag)) = ["b", "b", "b"] := by decide

/-- **C20_registry**: the scenario provider's registry of calls holds every name once, with the LAST definition of
that name in the file; the scenario theorems (`C20_scenario_init`, `_step`, `_refines`), whose hypothesis is that call
names are distinct, therefore apply to every configuration after `registry`. -/
theorem C20_registry (l : List CallDef) :
    namesDistinct (registry l) = true ∧
    (∀ n, (registry l).find? (·.name == n) = l.reverse.find? (·.name == n)) ∧
    Gen.GrpcGun.scenarioCallRegistry =
      "for $int0, $config.CallConfig0 := range $0.Calls { $map[string]config.CallConfig0[$config.CallConfig0.Name] = $config.CallConfig0 }" :=
  ⟨Proofs.C20Feed.keepFirst_distinct _, fun n => Proofs.C20Feed.keepFirst_find _ n, Bridge.C20.scenarioCallRegistry_eq⟩

/-- the refinement theorem without any hypothesis on names -/
theorem C20_scenario_refines_registry (c : Cfg) (sched : List Nat) (tr : List (Nat × Outcome))
    (h : expectedSched { c with calls := registry c.calls } sched 0 [] [] = some tr) :
    runSched .copy { c with calls := registry c.calls } sched 0 (initWorld { c with calls := registry c.calls }) [] = .inl (some tr) :=
  C20_scenario_refines { c with calls := registry c.calls } (C20_registry c.calls).1 sched tr h

def exGoodR : CallDef := { name := "x", call := "c", md := [], payload := [], pre := false }
example : (registry [{ exGoodR with name := "h", call := "first" }, { exGoodR with name := "g" }, { exGoodR with name := "h", call := "last" }]).map
    (fun cd => (cd.name, cd.call)) = [("h", "last"), ("g", "c")] := by decide

/-- **C20_status**: the code reported for a call the server refused is `ConvertGrpcStatus` of its status — the table
regenerated from the source — and a refused call is still exactly one call and one sample: a grpc/json entry that
reaches the server with an injected fault `f` is reported with `convertStatus f`. -/
theorem C20_status (tmo : Nat) (e : Entry) (f : Nat) (m : String) (fs : List Field) (vals : List (String × Option String))
    (hl : lookupMethod e.call = some (m, fs)) (hd : decodeFields fs e.payload = some vals) (hf : faultOf e.md = some f) :
    shootEntry tmo e = { calls := [callText m (canonMsg fs vals) (mdText e.md) tmo], samples := [sampleText e.tag (convertStatus f)] } ∧
    convertStatus f = ((Gen.GrpcGun.statusTable.find? (·.1 == f)).map (·.2)).getD Gen.GrpcGun.statusDefault := by
  refine ⟨?_, by rw [Bridge.C20.statusTable_eq, Bridge.C20.statusDefault_eq]; rfl⟩
  simp [shootEntry, hl, hd, serverCode, hf]

example : faultOf [("k", "v"), ("X-Fault", "14")] = some 14 ∧ convertStatus 14 = 503 ∧ convertStatus 2 = 500 ∧
    convertStatus 99 = 500 ∧ faultOf [("x-fault", "014")] = none ∧ faultOf [("x-fault", "0")] = none := by decide

/-- **C20_clients**: the shared client pool has no clients when it is not enabled and at least one when it is, whatever
`client-number` says (0 and negative numbers mean 1); `C20_instances` and `C20_target` hold for every pool size. -/
theorem C20_clients (enabled : Bool) (cn : Int) :
    (enabled = false → effClients enabled cn = 0) ∧ (enabled = true → 1 ≤ effClients enabled cn) ∧
    (enabled = true → 1 ≤ cn → (effClients enabled cn : Int) = cn) ∧
    Gen.GrpcGun.poolGuards = ["if !$recv.Conf.SharedClient.Enabled { return nil, nil }",
      "if $recv.Conf.SharedClient.ClientNumber < 1 { $recv.Conf.SharedClient.ClientNumber = 1 }"] := by
  refine ⟨?_, ?_, ?_, Bridge.C20.poolGuards_eq⟩
  · intro h; simp [effClients, h]
  · intro h
    by_cases hc : cn < 1
    · simp [effClients, h, hc]
    · simp only [effClients, h, hc]; simp; omega
  · intro h hc
    have : ¬ cn < 1 := by omega
    simp only [effClients, h, this]; simp; omega

example : effClients true 0 = 1 ∧ effClients true (-3) = 1 ∧ effClients true 4 = 4 ∧ effClients false 4 = 0 := by decide

/-- non-vacuity of the assertion clause of `C20_scenario_step`: a step demanding status 200 whose reply is 403 -/
example : assertFails { exGood with assert := 200 } 403 = true ∧ assertFails { exGood with assert := 200 } 200 = false ∧
    assertFails exGood 403 = false := by decide

/-! ### round 4: the scenario provider's passes / limit, unlimited passes of grpc/json, the reflection endpoint for every
way of writing the target, the preprocessor's index forms -/

open Pandora.Proofs.C20R4 in
/-- **C20_scenario_provider**: the generic scenario provider (`components/providers/scenario/provider.go` `Run`) over a
list of `len > 0` ammo, for every `passes`, every `limit` (0 = not configured) and every number `asked` of ammo the
instances ask for: it delivers ammo number `i mod len` of the list for `i = 0, 1, …` — every scenario of the weighted
list in turn, pass after pass — exactly `min asked (passes × len cut at limit)` of them (all `asked` when neither is
configured). -/
theorem C20_scenario_provider (len passes limit asked : Nat) (hl : 0 < len) :
    scenRun len passes limit asked 0 =
      (List.range (match scenAvail len passes limit with | none => asked | some b => min asked b)).map (· % len) := by
  rw [scenRun_spec len passes limit hl asked 0, List.range_eq_range']
  unfold scenLeft
  cases scenAvail len passes limit <;> simp

example : scenRun 3 2 0 10 0 = [0, 1, 2, 0, 1, 2] ∧ scenRun 3 2 4 10 0 = [0, 1, 2, 0] ∧ scenRun 3 0 0 4 0 = [0, 1, 2, 0] ∧
    scenAvail 3 2 4 = some 4 ∧ scenAvail 3 0 0 = none := by decide

open Pandora.Proofs.C20Feed Pandora.Proofs.C20R4 in
/-- **C20_feed_unlimited**: the grpc/json provider with UNLIMITED passes (`passes: 0`, or `passes` not written: the
default) and a limit, for every file: the sink receives the per-line ammo of the file's lines, pass after pass, up to
the first line that stops the provider, cut at the limit (part 1: `limit + 1` passes are always enough); and when no
line stops the provider and the file delivers anything at all, that is exactly `limit` ammo — the first `limit` of the
endless repetition of the file's own ammo, whatever number `k ≥ limit` of passes one unrolls (part 2). -/
theorem C20_feed_unlimited (cfg : ProvCfg) (raws : List Raw) (hp : cfg.passes = 0) (hl : cfg.limit ≠ 0) :
    (feed cfg raws).1 =
      ((((List.replicate (cfg.limit + 1) raws).flatten).takeWhile (rawOk cfg)).filterMap (itemOf cfg)).take cfg.limit ∧
    (raws.all (rawOk cfg) = true → raws.filterMap (itemOf cfg) ≠ [] →
      (feed cfg raws).1.length = cfg.limit ∧
      ∀ k, cfg.limit ≤ k → (feed cfg raws).1 = (passesItems cfg raws k).take cfg.limit) := by
  have hf : feedFuel cfg = cfg.limit + 1 := by simp [feedFuel, hp]
  have h := runPasses_unlimited_spec cfg raws hp (cfg.limit + 1) 0 zeroEntry 0
  have h1 : (feed cfg raws).1 = (items cfg (passesRaws raws (cfg.limit + 1))).take cfg.limit := by
    unfold feed
    rw [hf, h]
    simp [takeRem, hl]
  refine ⟨by rw [h1]; rfl, ?_⟩
  intro hok hne
  rw [h1, items_passesRaws_all cfg raws hok]
  have hk := passesItems_take cfg raws cfg.limit (cfg.limit + 1) (by omega) hne
  refine ⟨?_, ?_⟩
  · rw [List.length_take, passesItems_length]
    have hpos : 0 < (raws.filterMap (itemOf cfg)).length := by
      cases hh : raws.filterMap (itemOf cfg) with
      | nil => exact absurd hh hne
      | cons _ _ => simp
    have : cfg.limit + 1 ≤ (cfg.limit + 1) * (raws.filterMap (itemOf cfg)).length := Nat.le_mul_of_pos_right _ hpos
    omega
  · intro k hkl
    rw [hk, passesItems_take cfg raws cfg.limit k hkl hne]

example : ((feed { passes := 0, limit := 5, chosen := [], coe := true } exRaws).1.map (·.tag)) = ["a", "", "b", "a", ""] ∧
    exRaws.all (rawOk { passes := 0, limit := 5, chosen := [], coe := true }) = true ∧
    exRaws.filterMap (itemOf { passes := 0, limit := 5, chosen := [], coe := true }) ≠ [] := by decide

open Pandora.Proofs.C20R4 in
/-- **C20_weights**: the divisor `SpreadNames` divides the scenario weights by. For EVERY list of two or more weights the
Go code's `GCDM` — `GCD(GCDM(all but the last), GCD(last two))` with Euclid's loop `GCD` — is the greatest common
divisor of ALL of them (what `Model.ammoList` divides by): not of the last two, not of all but one. So every scenario
enters the ammo list `weight / gcd` times, whatever the number of scenarios. Fewer than two weights: `GCDM` returns 0
and `SpreadNames` does not use it (a single scenario enters once). The bodies of `GCD`, `GCDM`, `SpreadNames` are
regenerated: `GCD` as Lean functions (`Bridge.C20.gcdLoop_step_eq`, `gcdLoop_base_eq`: `goGcdLoop` IS the source's loop), `GCDM` and
`SpreadNames` canonically (`gcdmBody_eq`, `spreadNamesBody_eq`, `spreadWeight_eq`, `spreadCount_eq`). -/
theorem C20_weights (ws : List Nat) (h : 2 ≤ ws.length) :
    goGcdm ws = ws.foldl Nat.gcd 0 ∧ (∀ w ∈ ws, goGcdm ws ∣ w) ∧ (∀ d, (∀ w ∈ ws, d ∣ w) → d ∣ goGcdm ws) ∧
    Gen.GrpcGun.gcdmBody = ["$int0 := len($0)", "if $int0 < 2 { return 0 }", "$int640 := GCD($0[$int0-2], $0[$int0-1])",
      "if $int0 == 2 { return $int640 }", "return GCD(GCDM($0[:$int0-1]...), $int640)"] := by
  have hfold : ∀ (l : List Nat) (a : Nat), (l.foldl Nat.gcd a ∣ a ∧ ∀ w ∈ l, l.foldl Nat.gcd a ∣ w) ∧
      ∀ d, d ∣ a → (∀ w ∈ l, d ∣ w) → d ∣ l.foldl Nat.gcd a := by
    intro l
    induction l with
    | nil => intro a; simp
    | cons x r ih =>
      intro a
      obtain ⟨⟨h1, h2⟩, h3⟩ := ih (Nat.gcd a x)
      refine ⟨⟨?_, ?_⟩, ?_⟩
      · exact Nat.dvd_trans h1 (Nat.gcd_dvd_left _ _)
      · intro w hw
        simp only [List.mem_cons] at hw
        rcases hw with rfl | hw
        · exact Nat.dvd_trans h1 (Nat.gcd_dvd_right _ _)
        · exact h2 w hw
      · intro d hda hd
        exact h3 d (Nat.dvd_gcd hda (hd x (by simp))) (fun w hw => hd w (by simp [hw]))
  rw [goGcdm_eq ws h]
  exact ⟨rfl, (hfold ws 0).1.2, fun d hd => (hfold ws 0).2 d (Nat.dvd_zero d) hd, Bridge.C20.gcdmBody_eq⟩

example : goGcdm [6, 9, 4] = 1 ∧ goGcdm [6, 4, 8] = 2 ∧ goGcdm [4, 6] = 2 ∧ goGcdm [5] = 0 ∧ goGcd 12 18 = 6 := by decide

open Pandora.Proofs.C20R4 in
/-- **C20_reflect_port**: where the warm-up looks for the reflection API, for EVERY way of writing the target. With a
configured `reflect_port` `p ≠ 0`: a target `<pre>:<q>` whose last `:`-separated part `q` is a number (whatever `pre` is:
`127.0.0.1`, `localhost`, `dns:///127.0.0.1`, `passthrough:///host`, `[::1]` …) gives `<pre>:<p>` — the same host,
scheme and all, only the port replaced; a target without any `:` and a target whose last part is not a number (`[::1]`,
`dns:///host`) get `:<p>` appended. (`C20_target` says no call ever goes there; `Bridge.C20.replacePortRows_eq` ties the
decision list to the source.) -/
theorem C20_reflect_port (p : Nat) (hp : p ≠ 0) :
    (∀ (pre q : String), (∀ c ∈ q.toList, c ≠ ':') → parsesInt64 q.toList = true →
      (replacePort (pre ++ ":" ++ q) p).toList = pre.toList ++ ':' :: (toString p).toList) ∧
    (∀ (host : String), (∀ c ∈ host.toList, c ≠ ':') → replacePort host p = host ++ ":" ++ toString p) ∧
    (∀ (pre q : String), (∀ c ∈ q.toList, c ≠ ':') → parsesInt64 q.toList = false →
      replacePort (pre ++ ":" ++ q) p = (pre ++ ":" ++ q) ++ ":" ++ toString p) := by
  have hp' : (p == 0) = false := by simpa using hp
  refine ⟨?_, ?_, ?_⟩
  · intro pre q hq hnum
    have hs : (pre ++ ":" ++ q).toList = pre.toList ++ ':' :: q.toList := by simp
    unfold replacePort
    simp only [hp', Bool.false_eq_true, if_false, hs, splitColon_append pre.toList q.toList hq]
    have hne := splitColon_ne_nil [] pre.toList
    have hlen : ((splitColon [] pre.toList ++ [q.toList]).length == 1) = false := by
      cases h : splitColon [] pre.toList with
      | nil => exact absurd h hne
      | cons x r => simp
    simp only [hlen, Bool.false_eq_true, if_false, List.getLastD_concat, hnum, Bool.not_true, List.dropLast_concat]
    rw [String.toList_ofList, joinColon_append _ hne, joinColon_splitColon]
  · intro host hh
    unfold replacePort
    simp [hp', splitColon_noColon host.toList hh]
  · intro pre q hq hnum
    have hs : (pre ++ ":" ++ q).toList = pre.toList ++ ':' :: q.toList := by simp
    unfold replacePort
    simp only [hp', Bool.false_eq_true, if_false, hs, splitColon_append pre.toList q.toList hq]
    have hne := splitColon_ne_nil [] pre.toList
    have hlen : ((splitColon [] pre.toList ++ [q.toList]).length == 1) = false := by
      cases h : splitColon [] pre.toList with
      | nil => exact absurd h hne
      | cons x r => simp
    simp [hlen, hnum]

/-- non-vacuity: the forms the harness writes the target in (`tf=`) -/
example : replacePort "dns:///127.0.0.1:1111" 2222 = "dns:///127.0.0.1:2222" ∧
    replacePort "passthrough:///127.0.0.1:1111" 2222 = "passthrough:///127.0.0.1:2222" ∧
    replacePort "localhost:1111" 2222 = "localhost:2222" ∧ replacePort "[::1]:1111" 2222 = "[::1]:2222" ∧
    replacePort "127.0.0.1" 2222 = "127.0.0.1:2222" ∧ replacePort "[::1]" 2222 = "[::1]:2222" ∧
    parsesInt64 "1111".toList = true ∧ parsesInt64 "1]".toList = false := by decide

/-- **C20_index**: the preprocessor's index forms other than `[next]` (`lib/mp` `calcIndex`): for every non-empty user
list, `[last]`, a written index (wrapping round the list) and a written negative index (counted from the end, wrapping)
yield an element OF the list — number `len - 1`, `i mod len`, and `0` or `len - (i mod len)` — and move no iterator: only
`[next]` draws. In Go's arithmetic (`%` truncates towards zero): `r := -i % len; if r < 0 { r += len }`. -/
theorem C20_index (c : Cfg) (cd : CallDef) (iters : List (String × Nat)) (hu : c.users ≠ []) (hp : cd.pre = true)
    (hn : cd.idx ≠ .next) :
    (drawUser c cd iters).2 = iters ∧
    fixedIndex c.users.length cd.idx < c.users.length ∧
    (drawUser c cd iters).1 = some (c.users.getD (fixedIndex c.users.length cd.idx) "") ∧
    (∀ i, cd.idx = .neg i →
      (fixedIndex c.users.length cd.idx : Int) =
        (let r := Int.tmod (-(i : Int)) c.users.length; if r < 0 then r + c.users.length else r)) := by
  have hlen : 0 < c.users.length := by
    cases h : c.users with
    | nil => exact absurd h hu
    | cons _ _ => simp
  refine ⟨?_, ?_, ?_, ?_⟩
  · unfold drawUser; cases h : cd.idx <;> simp_all
  · cases h : cd.idx with
    | next => exact absurd h hn
    | last => simp [fixedIndex]; omega
    | fixed i => simp [fixedIndex]; exact Nat.mod_lt _ hlen
    | neg i => simp [fixedIndex]; exact Nat.mod_lt _ hlen
  · unfold drawUser; cases h : cd.idx <;> simp_all
  · intro i hi
    rw [hi]
    simp only [fixedIndex]
    have hm : i % c.users.length < c.users.length := Nat.mod_lt _ hlen
    have ht : Int.tmod (-(i : Int)) (c.users.length : Int) = -((i % c.users.length : Nat) : Int) := by
      rw [Int.neg_tmod]; congr 1
    rw [ht]
    by_cases hz : i % c.users.length = 0
    · simp [hz]
    · have : (c.users.length - i % c.users.length) % c.users.length = c.users.length - i % c.users.length :=
        Nat.mod_eq_of_lt (by omega)
      rw [this]
      have hneg : -((i % c.users.length : Nat) : Int) < 0 := by omega
      simp only [hneg, if_true]
      omega

example : fixedIndex 3 .last = 2 ∧ fixedIndex 3 (.fixed 7) = 1 ∧ fixedIndex 3 (.neg 1) = 2 ∧ fixedIndex 3 (.neg 3) = 0 ∧
    fixedIndex 3 (.neg 7) = 2 := by decide

/-! ### round 6: whatever `sync.Pool` hands out; a good entry IS delivered; file → provider → pool of instances -/

open Pandora.Proofs.C20R6 in
/-- **C20_pool_oracle**: the grpc/json provider's reading loop over pooled ammo OBJECTS (four fields + the invalid flag;
`Reset` assigns the whole struct, `Invalidate` sets the flag), where the k-th `p.Pool.Get()` of the run returns `pool k`
— ANY object: a new one, or one released earlier by any instance after any entry, valid or flagged invalid. For every
configuration, every file and every such oracle: the fields of the objects put on the sink, and the way the provider
ends, are those of `feed` (hence of the stateless closed forms `C20_feed`, `C20_feed_isolated`, `C20_feed_unlimited`);
what the gun makes of each delivered object (its early return for a flagged one included) is what `shootEntry` makes of
the line's own fields; and an object delivered with the flag set holds nothing. Nothing an object carried before — fields
or flag — reaches the server or a sample. -/
theorem C20_pool_oracle (cfg : ProvCfg) (raws : List Raw) (pool : Nat → Obj) (tmo : Nat) :
    (feedO cfg pool raws).1.map (·.e) = (feed cfg raws).1 ∧ (feedO cfg pool raws).2 = (feed cfg raws).2 ∧
    (feedO cfg pool raws).1.map (shootObj tmo) = (feed cfg raws).1.map (shootEntry tmo) ∧
    (∀ o ∈ (feedO cfg pool raws).1, o.invalid = true → o.e = zeroEntry) := by
  have h1 : (feedO cfg pool raws).1.map (·.e) = (feed cfg raws).1 := (runPassesO_sim cfg pool raws (feedFuel cfg) 0 0 0 zeroEntry).1
  have h2 : (feedO cfg pool raws).2 = (feed cfg raws).2 := (runPassesO_sim cfg pool raws (feedFuel cfg) 0 0 0 zeroEntry).2
  have hinv : ∀ o ∈ (feedO cfg pool raws).1, o.invalid = true → o.e = zeroEntry := runPassesO_inv cfg pool raws (feedFuel cfg) 0 0 0
  refine ⟨h1, h2, ?_, hinv⟩
  have : (feed cfg raws).1.map (shootEntry tmo) = ((feedO cfg pool raws).1.map (·.e)).map (shootEntry tmo) := by
    rw [← h1]
  rw [this, List.map_map]
  apply List.map_congr_left
  intro o ho
  exact shootObj_eq tmo o (hinv o ho)

/-- non-vacuity: a pool that hands out rich objects, every other one flagged invalid (what the harness prepares with
`dirty=`): a sparse line, an undecodable line and a line without any key are delivered as themselves -/
example : ((feedO { passes := 1, limit := 0, chosen := [], coe := true } dirtyObj
      [.line { tag := some "a", call := some "target.TargetService.Hello" }, .bad, .line {}]).1.map
        fun o => (o.e.tag, o.e.md.length, o.e.payload.length, o.invalid))
    = [("a", 0, 0, false), ("", 0, 0, true), ("", 0, 0, false)] ∧
    (dirtyObj 1).invalid = true ∧ (dirtyObj 0).e.md.length = 2 := by decide

/-- **C20_entry_delivered** (the positive half of `C20_method` / `C20_errors_isolated`): an entry that names a method of
the table and whose payload fits the method's input type makes EXACTLY one call — to that method, with the decoded
message, the entry's metadata, the configured timeout — and exactly one sample carrying the server's answer. -/
theorem C20_entry_delivered (tmo : Nat) (e : Entry) (h : ¬ Failing e) :
    ∃ m fs vals, (m, fs) ∈ methodTable ∧ e.call = svc ++ "." ++ m ∧ decodeFields fs e.payload = some vals ∧
      shootEntry tmo e = { calls := [callText m (canonMsg fs vals) (mdText e.md) tmo],
                           samples := [sampleText e.tag (serverCode m (canonMsg fs vals) e.md)] } := by
  cases hl : lookupMethod e.call with
  | none => exact absurd (Or.inl hl) h
  | some mf =>
    obtain ⟨m, fs⟩ := mf
    cases hd : decodeFields fs e.payload with
    | none => exact absurd (Or.inr ⟨m, fs, hl, hd⟩) h
    | some vals =>
      obtain ⟨h1, h2⟩ := lookupMethod_some e.call m fs hl
      exact ⟨m, fs, vals, h1, h2, hd, by simp [shootEntry, hl, hd]⟩

example : ¬ Failing { tag := "t", call := "target.TargetService.Hello", md := [("K", "v")], payload := [("name", PVal.s "x")] } := by
  intro h
  rcases h with h | ⟨m, fs, h1, h2⟩
  · simp [lookupMethod, methodTable, svc] at h
  · simp [lookupMethod, methodTable, svc] at h1
    obtain ⟨rfl, rfl⟩ := h1
    simp [decodeFields, findField, convert] at h2

/-- **C20_json_end_to_end** (composition file → provider → pool of instances → server): for every provider configuration
with a configured number of passes, every file none of whose lines stops the provider, every `sync.Pool` oracle, every
number of instances, every shared-client pool size and every assignment of the delivered ammo to instances: shot `k` is
fired by instance `sched[k]` and produces what the k-th element of the STATELESS description — `passes` times the file's
per-line ammo, cut at the limit — produces on its own (`shootEntry`: `C20_method`, `C20_entry_delivered`,
`C20_errors_isolated` say what that is). -/
theorem C20_json_end_to_end (cfg : ProvCfg) (raws : List Raw) (pool : Nat → Obj) (tmo n sc : Nat) (sched : List Nat)
    (hp : cfg.passes ≠ 0) (hok : raws.all (rawOk cfg) = true) (h : ∀ i ∈ sched, i < n) :
    ((runPool tmo (initPool n sc) sched ((feedO cfg pool raws).1.map (·.e))).2.map fun (i, _, o) => (i, o))
      = expectedJsonSched tmo sched (takeLim cfg.limit (passesItems cfg raws cfg.passes)) := by
  rw [(C20_pool_oracle cfg raws pool tmo).1, C20_instances tmo n sc sched _ h, C20_feed_isolated cfg raws hp hok]

/-- non-vacuity: the hypotheses hold together for the example file of `C20_feed` (two passes, continueonerror), three
instances, a dirty pool -/
example : ({ passes := 2, limit := 5, chosen := [], coe := true } : ProvCfg).passes ≠ 0 ∧
    exRaws.all (rawOk { passes := 2, limit := 5, chosen := [], coe := true }) = true ∧ (∀ i ∈ [2, 0, 1, 2, 0], i < 3) ∧
    ((feedO { passes := 2, limit := 5, chosen := [], coe := true } dirtyObj exRaws).1.map (·.e.tag)) = ["a", "", "b", "a", ""] := by
  decide

/-! ### round 6: compositions with the neighbours' regenerated definitions (read-only imports of C10's and C14's gen areas) -/

/-- **C20_status_documented** (composition with C10's area `grpcstatus` and with the anchored documentation): the code a
refused call is reported with (`convertStatus`, `C20_status`) is, for EVERY status number, what C10's regenerated
`ConvertGrpcStatus` (`Gen.GrpcStatus.grpcToHttp`, a function extracted from `components/guns/grpc/core.go`) returns, and the
model's table is, row by row, the mapping table of `docs/eng/grpc-generator.md` (`Gen.GrpcStatus.docRows`, `docDefault`,
re-read from the document on every run): code, model and documentation say the same. -/
theorem C20_status_documented :
    (∀ f, convertStatus f = Gen.GrpcStatus.grpcToHttp f) ∧
    statusTable = Gen.GrpcStatus.docRows ∧ statusDefault = Gen.GrpcStatus.docDefault := by
  refine ⟨?_, rfl, rfl⟩
  intro f
  by_cases h : f < 17
  · revert f
    decide
  · unfold convertStatus Gen.GrpcStatus.grpcToHttp statusTable statusDefault
    have h0 : ∀ k, k < 17 → (k == f) = false := by intro k hk; simp; omega
    simp [List.find?, h0]
    repeat rw [if_neg (by omega)]

/-- **C20_chosen_cases** (composition with C14's area `chosencases`): the chosen-cases filter of the grpc/json reading
loop (`Model.isChosen`, used by `action`, `itemOf` and so by `C20_feed`, `C20_feed_isolated`, `C20_feed_unlimited`,
`C20_pool_oracle`) IS `confutil.IsChosenCase` as regenerated from `lib/confutil/chosen_cases_filter.go` by symbolic
execution (`Gen.ChosenCases.isChosenCase`), for every tag and every list: an edit of that helper (a prefix match, a
case-insensitive match …) re-opens this obligation here too. -/
theorem C20_chosen_cases (tag : String) (chosen : List String) :
    isChosen tag chosen = Gen.ChosenCases.isChosenCase tag chosen := by
  unfold isChosen Gen.ChosenCases.isChosenCase
  cases chosen with
  | nil => simp
  | cons c rest =>
    simp only [List.isEmpty_cons, Bool.false_or, List.length_cons, Nat.add_one_ne_zero, if_false]
    induction (c :: rest) with
    | nil => simp
    | cons x xs ih =>
      simp only [List.contains_cons, List.findSome?_cons, Gen.ChosenCases.isChosenCaseStep]
      by_cases hx : x = tag
      · subst hx; simp
      · have : (tag == x) = false := by simp; exact fun h => hx h.symm
        simp only [hx, this, if_false, Bool.false_or]
        exact ih

example : isChosen "b" ["a", "b"] = true ∧ isChosen "bb" ["a", "b"] = false ∧ isChosen "x" [] = true ∧
    Gen.ChosenCases.isChosenCase "bb" ["a", "b"] = false := by decide

/-! ### round 6: a scenario's request list -/

open Pandora.Proofs.C20R6Expand in
/-- **C20_expand**: how a scenario's `requests` list becomes the steps of a shot (`convertScenarioToAmmo`; until round 6
this expansion was done by the Lean driver, outside the model). For every list of entries `name`, `name(count)`,
`name(count, sleep)`, `sleep(ms)` and every call registry: WHENEVER the provider accepts the list, the steps are — in
order — every entry that is not a pause, `count` times (`expandSpec`: pauses and the sleep of the three-part form add
time only, a count of 0 or below adds nothing), at most `MaxScenarioRequests` of them, each naming a call of the
registry. The loop and the constant are regenerated (`Bridge.C20.scenarioExpandLoop_eq`, `maxScenarioRequests_eq`). -/
theorem C20_expand (known : String → Bool) (reqs : List Shoot) (out : List (String × Int))
    (h : expandReqs known reqs [] = .ok out) :
    out.map (·.1) = expandSpec reqs ∧ out.length ≤ maxScenarioRequests ∧ (∀ n ∈ expandSpec reqs, known n = true) ∧
    Gen.GrpcGun.maxScenarioRequests = maxScenarioRequests := by
  obtain ⟨h1, h2, h3⟩ := expandReqs_ok known reqs [] out h (by simp)
  exact ⟨by simpa using h1, h2, h3, Bridge.C20.maxScenarioRequests_eq⟩

/-- non-vacuity: an accepted list (count, three-part form, pauses, a count of 0) and the three ways a list is rejected -/
example : (match expandReqs (fun _ => true)
      [{ name := "h", cnt := 2 }, { name := "sleep", cnt := 5 }, { name := "g", cnt := 1, sleep := 7 }, { name := "h", cnt := 0 }] [] with
    | .ok out => out == [("h", 0), ("h", 5), ("g", 7)]
    | .error _ => false) = true := by decide
example : (match expandReqs (fun _ => true) [{ name := "sleep", cnt := 5 }, { name := "h" }] [] with
    | .error .leadingSleep => true | _ => false) = true := by decide
example : (match expandReqs (fun _ => true) [{ name := "h", cnt := 0 }, { name := "sleep", cnt := 5 }] [] with
    | .error .leadingSleep => true | _ => false) = true := by decide
example : (match expandReqs (fun _ => true) [{ name := "h", cnt := 2 }, { name := "g", cnt := 1048575 }] [] with
    | .error .tooMany => true | _ => false) = true := by decide
example : (match expandReqs (fun n => n == "h") [{ name := "h" }, { name := "nope" }] [] with
    | .error (.unknown "nope") => true | _ => false) = true := by decide

/-! ### round 6: scenario provider → guns -/

/-- the number of shots the scenario provider serves when `asked` are asked for -/
def servedShots (len passes limit asked : Nat) : Nat :=
  match scenAvail len passes limit with | none => asked | some b => min asked b

/-- **C20_scenario_end_to_end** (composition scenario provider → guns → server): for every configuration, every `passes` /
`limit` of the scenario provider and every order `sched` in which guns ask for ammo: the provider serves exactly
`servedShots` of them (all of them when nothing is configured, else `min asked (passes × len cut at limit)`), the k-th
served ammo is number `k mod len` of the weighted list — which is the ammo `runSched`'s k-th shot fires — and the guns
firing them produce exactly the stateless specification's trace (`C20_scenario_provider` + `C20_scenario_refines`; with
`registry` applied the hypothesis on names is `C20_registry`). -/
theorem C20_scenario_end_to_end (c : Cfg) (hd : namesDistinct c.calls = true) (passes limit : Nat) (sched : List Nat)
    (tr : List (Nat × Outcome)) (hl : 0 < (ammoList c).length)
    (h : expectedSched c (sched.take (servedShots (ammoList c).length passes limit sched.length)) 0 [] [] = some tr) :
    (scenRun (ammoList c).length passes limit sched.length 0).length = servedShots (ammoList c).length passes limit sched.length ∧
    (∀ k, k < servedShots (ammoList c).length passes limit sched.length →
      (scenRun (ammoList c).length passes limit sched.length 0)[k]? = some (k % (ammoList c).length)) ∧
    runSched .copy c (sched.take (servedShots (ammoList c).length passes limit sched.length)) 0 (initWorld c) [] = .inl (some tr) := by
  have hp := C20_scenario_provider (ammoList c).length passes limit sched.length hl
  have hs : scenRun (ammoList c).length passes limit sched.length 0 =
      (List.range (servedShots (ammoList c).length passes limit sched.length)).map (· % (ammoList c).length) := by
    rw [hp]; unfold servedShots; cases scenAvail (ammoList c).length passes limit <;> rfl
  refine ⟨?_, ?_, C20_scenario_refines c hd _ tr h⟩
  · rw [hs]; simp
  · intro k hk
    rw [hs]
    simp [List.getElem?_map, List.getElem?_range hk]

example : 0 < (ammoList exCfg).length ∧ servedShots (ammoList exCfg).length 0 2 3 = 2 ∧
    (expectedSched exCfg ([0, 1, 0].take (servedShots (ammoList exCfg).length 0 2 3)) 0 [] []).isSome = true := by decide

end Pandora.Props.C20
