/-
C20 — gRPC wire fidelity: method, message and metadata reach the server as written.

* `C20_metadata`  — REPAIRED code (metadata rendered into a copy, fixes/C20-metadata-copy.diff): for every set of
  templates, any number of instances with any lists of shots and EVERY interleaving (arbitrary schedule list, one
  map-cell action per element) the metadata sent by each completed shot is `render(step templates, that shot's
  variables)`.
* `C20_metadata_inplace_counterexample` — the code as written (rendering into the shared definition map) does not
  have this property (two instances, one key).
* `C20_errors_isolated` — an entry with an unknown method or an ill-fitting payload yields exactly one failed sample
  and no call, and the outcomes of the entries before and after it are what they are without it (any entry list).
* `C20_errors_isolated_scenario` — a failing scenario step yields exactly one sample, no call, and (repaired code)
  leaves every call definition's metadata as it was.
* `C20_method` — a call is made only for a method of the reflected table, to exactly the named method, at most once.
-/
import Pandora.Model.C20
import Pandora.Proofs.C20Conc

namespace Pandora.Props.C20
open Pandora.Model.C20 Pandora.Model.C20Conc Pandora.Proofs.C20Conc

/-! ### metadata under interleaving -/

/-- statement shape shared by the theorem and the counterexample: in the state reached by `run` under `sched`,
every instance has sent, for a prefix of its shots, exactly the rendering of the step templates with that shot's
variables (and still has the remaining shots to do) -/
def MetadataAsWritten {κ : Type} (run : State κ → List Nat → State κ) : Prop :=
  ∀ (tmpls : List (Tmpl κ)) (shots : List (List (Vars κ))) (sched : List Nat) (i : Nat) (th : Thread κ),
    (run (init tmpls shots) sched).threads[i]? = some th →
      ∃ orig doneShots, shots[i]? = some orig ∧ orig = doneShots ++ th.shots ∧
        th.sent = doneShots.map (expected tmpls)

/-- **C20_metadata** (repaired code): for every interleaving of any number of instances, the metadata sent by a
shot is the step's templates rendered with that shot's variables. -/
theorem C20_metadata {κ : Type} : MetadataAsWritten (κ := κ) runCopy := by
  intro tmpls shots sched i th h
  obtain ⟨_, hth⟩ := runCopy_ok tmpls shots sched (init tmpls shots) (init_ok tmpls shots)
  obtain ⟨orig, ho, _, ⟨d, hd, hs⟩, _⟩ := hth i th h
  exact ⟨orig, d, ho, hd, hs⟩

/-- the shared map is never written by the repaired code -/
theorem C20_definition_untouched {κ : Type} (tmpls : List (Tmpl κ)) (shots : List (List (Vars κ))) (sched : List Nat) :
    (runCopy (init tmpls shots) sched).shared = tmpls :=
  (runCopy_ok tmpls shots sched (init tmpls shots) (init_ok tmpls shots)).1

/-- one key `x-user: u-{U}`, two instances with U = 1 and U = 2 -/
def cexTmpls : List (Tmpl Nat) := [[Piece.lit [100], Piece.var 0]]
def cexShots : List (List (Vars Nat)) := [[[(0, [1])]], [[(0, [2])]]]
/-- instance 0 renders (idle, cell 0, end of map), then instance 1 renders and sends, then instance 0 sends -/
def cexSched : List Nat := [0, 0, 0, 1, 1, 1, 1, 1, 0, 0]

/-- **counterexample for the code as written**: instance 0 sends instance 1's… in fact both send `u-1`: instance 1
parses the already rendered value as its template. -/
theorem C20_metadata_inplace_counterexample : ¬ MetadataAsWritten (κ := Nat) runInPlace := by
  intro h
  have h1 := h cexTmpls cexShots cexSched 1
  simp only [cexTmpls, cexShots, cexSched] at h1
  obtain ⟨orig, d, ho, hd, hs⟩ := h1 _ rfl
  simp at ho
  subst ho
  revert hs hd
  cases d with
  | nil => simp
  | cons a d' =>
    cases d' with
    | nil =>
      simp [expected, render]
      intro hx hy
      subst hy
      simp [cellText, rendered, render, lookupVar] at hx
    | cons b d'' => simp

/-- non-vacuity of `C20_metadata`: under a schedule that lets both instances finish, both have sent their own value -/
example : ((runCopy (init cexTmpls cexShots) [0,0,0,0,1,1,1,1,1,1,1,0,0,0]).threads.map (·.sent))
    = [[[[100, 1]]], [[[100, 2]]]] := by decide

/-- the same schedule shape on the code as written: instance 1 sends instance 0's value -/
example : ((runInPlace (init cexTmpls cexShots) cexSched).threads.map (·.sent))
    = [[[[100, 1]]], [[[100, 1]]]] := by decide

/-! ### failing entries -/

/-- the entry names no method of the table, or its payload does not fit the method's input type -/
def Failing (e : Entry) : Prop :=
  lookupMethod e.call = none ∨ ∃ m fs, lookupMethod e.call = some (m, fs) ∧ decodeFields fs e.payload = none

theorem shootAll_outcomes (tmo : Nat) (g : GunState) (es : List Entry) :
    (shootAll tmo g es).2 = es.map (shootEntry tmo) := by
  induction es generalizing g with
  | nil => rfl
  | cons e es ih => simp [shootAll, ih]

/-- **C20_errors_isolated**: whatever precedes and follows, a failing entry produces exactly one sample
(code 0 or 400) and no call, and all other entries produce what they produce on their own. -/
theorem C20_errors_isolated (tmo : Nat) (g : GunState) (es1 : List Entry) (e : Entry) (es2 : List Entry)
    (hf : Failing e) :
    (shootAll tmo g (es1 ++ e :: es2)).2
        = (shootAll tmo g es1).2 ++ shootEntry tmo e :: (shootAll tmo { shots := 0 } es2).2
      ∧ (shootEntry tmo e).calls = []
      ∧ ((shootEntry tmo e).samples = [sampleText e.tag 0] ∨ (shootEntry tmo e).samples = [sampleText e.tag 400]) := by
  refine ⟨by simp [shootAll_outcomes], ?_, ?_⟩
  · rcases hf with h | ⟨m, fs, h1, h2⟩
    · simp [shootEntry, h]
    · simp [shootEntry, h1, h2]
  · rcases hf with h | ⟨m, fs, h1, h2⟩
    · left; simp [shootEntry, h]
    · right; simp [shootEntry, h1, h2]

example : Failing { tag := "t", call := "target.TargetService.Nope", md := [], payload := [] } := by
  left; simp [lookupMethod, methodTable, svc]

example : Failing { tag := "t", call := "target.TargetService.Hello", md := [], payload := [("name", PVal.n "5")] } := by
  right
  refine ⟨"Hello", [⟨"name", "name", .str⟩], by simp [lookupMethod, methodTable, svc], ?_⟩
  simp [decodeFields, findField, convert]

/-! ### method -/

/-- **C20_method**: a shot makes at most one call; if it makes one, the entry's `call` is `target.TargetService.M`
for a method `M` of the table, the payload fits `M`'s input type, and the call goes to `M` (its wire image starts
with `M|`, the recorder's short form of `/target.TargetService/M`). -/
theorem C20_method (tmo : Nat) (e : Entry) :
    (shootEntry tmo e).calls.length ≤ 1 ∧
    ∀ call ∈ (shootEntry tmo e).calls,
      ∃ m fs vals, (m, fs) ∈ methodTable ∧ e.call = svc ++ "." ++ m ∧ decodeFields fs e.payload = some vals ∧
        call = callText m (canonMsg fs vals) (mdText e.md) tmo := by
  unfold shootEntry
  cases hl : lookupMethod e.call with
  | none => simp
  | some mf =>
    obtain ⟨m, fs⟩ := mf
    cases hd : decodeFields fs e.payload with
    | none => simp [hd]
    | some vals =>
      simp only [hd, List.length_singleton, Nat.le_refl, List.mem_singleton, true_and]
      intro call hc
      refine ⟨m, fs, vals, ?_, ?_, hd, hc⟩
      · exact List.mem_of_find?_eq_some hl
      · have := List.find?_some hl
        exact (by simpa using this : svc ++ "." ++ m = e.call).symm

/-- non-vacuity: a well-formed entry does make a call -/
example : (shootEntry 0 { tag := "t", call := "target.TargetService.Hello", md := [("K", "v")], payload := [("name", PVal.z)] }).calls.length = 1 := by
  simp [shootEntry, lookupMethod, methodTable, svc, decodeFields, findField, convert]

end Pandora.Props.C20
