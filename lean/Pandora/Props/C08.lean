/-
C08 — limit/passes semantics and clean end-of-ammo on every provider.

Theorems are about `Pandora.Model.C08` (the providers' loops as executable machines, REPAIRED behaviour of
fixes/C08-*.diff and fixes/C14-limit-counts-delivered.diff), for ALL kinds × preload × limit × passes × n ≥ 1
and any cancellation point; no bound on n / limit / passes (induction over the loops, `Proofs/C08*.lean`).
The model's loops carry explicit fuel; that the run ENDS within the fuel `Model.C08.run` supplies is part of
every theorem (`run … = some o`), `C08_no_spin` gives the bound in closed form.
Tie: correspondence harness harness/cmd/c08 (real providers, public constructors) + `Pandora.Drv.C08`.
-/
import Pandora.Proofs.C08Run
import Pandora.Drv.C08

namespace Pandora.Props.C08
open Pandora.Model.C08 Pandora.Proofs.C08

/-- the first `m` entries of the file 0,1,…,n-1 read over and over -/
def cyc (n m : Nat) : List Nat := (List.range m).map (· % n)

theorem cycTake_range (n m : Nat) (hn : 0 < n) : cycTake (List.range n) m = cyc n m := by
  induction m with
  | zero => simp [cyc, cycTake_zero]
  | succ m ih =>
    have h : (List.range n)[m % (List.range n).length]? = some (m % n) := by
      simp [Nat.mod_lt _ hn]
    rw [cycTake_succ _ m _ h, ih]
    simp [cyc, List.range_succ]

theorem expected_eq_target (l p n : Nat) (hn : 0 < n) : Spec.C08.expected l p n = target l p n none := by
  unfold Spec.C08.expected target
  cases l with
  | zero =>
    cases p with
    | zero => simp
    | succ p => simp [minPlus]
  | succ l =>
    cases p with
    | zero => simp [minPlus]
    | succ p =>
      have : (p + 1) * n ≠ 0 := Nat.ne_of_gt (Nat.mul_pos (by omega) hn)
      simp [minPlus, this]

/-- **General form.**  Whatever stops the run first — limit, passes·n or the cancellation after `c` acquisitions —
at count `T`: the provider of every kind ends within the model's fuel, consumers have acquired exactly the first
`T` entries of the cyclic file, `Run` returns nil (context.Canceled only if the cancellation is what stopped it,
never an error), and the sink is closed, so the next `Acquire` returns `ok=false`. -/
theorem C08_run (inp : Input) (n T : Nat) (hn : 0 < n)
    (hT : target inp.b.limit inp.b.passes n inp.cancelAt = some T) :
    ∃ o, run inp n = some o ∧ o.delivered = cyc n T ∧ o.sinkClosed = true ∧
      (o.run = .nil ∨ (o.run = .canceled ∧ inp.cancelAt = some T)) := by
  have hlen : (List.range n).length = n := List.length_range
  have hf : 0 < ((List.range n).filter (fun _ => true)).length := by rw [filter_const_true, hlen]; exact hn
  have tg : Tgt inp.b.limit inp.b.passes ((List.range n).filter (fun _ => true)).length inp.cancelAt T := by
    rw [filter_const_true, hlen]; exact tgt_of_target _ _ _ _ _ hn hT
  have h := runFuel_spec inp (List.range n) (fun _ => true) T (by rw [hlen]; exact hn) hf (fun _ => rfl) tg
  rw [filter_const_true, hlen] at h
  refine ⟨⟨cycTake (List.range n) T, kindEnd inp.kind inp.cancelAt T, true⟩, ?_, ?_, rfl, ?_⟩
  · unfold run; rw [hT]; exact h
  · exact cycTake_range n T hn
  · simp only
    have hE : endRes inp.cancelAt T = .nil ∨ (endRes inp.cancelAt T = .canceled ∧ inp.cancelAt = some T) := by
      unfold endRes
      by_cases hc : cancelled inp.cancelAt T = true
      · right
        obtain ⟨c, hc1, hc2⟩ := (cancelled_true_iff _ _).mp hc
        have hle := (tgt_of_target _ _ _ _ _ hn hT).le_cancel c hc1
        have : c = T := by omega
        subst this
        exact ⟨by rw [if_pos hc], hc1⟩
      · left; rw [if_neg hc]
    cases hk : inp.kind <;> simp [kindEnd, hE]

/-- **count + clean end** (the property's first sentence): with a limit and/or passes and nobody cancelling,
exactly `min⁺(limit, passes·n)` ammo are delivered, `Run` returns nil and the sink is closed. -/
theorem C08_count (k : Kind) (preload : Bool) (b : Bounds) (n m : Nat) (hn : 0 < n)
    (hm : Spec.C08.expected b.limit b.passes n = some m) :
    ∃ o, run ⟨k, preload, b, none⟩ n = some o ∧ o.delivered = cyc n m ∧ o.run = .nil ∧ o.sinkClosed = true := by
  rw [expected_eq_target _ _ _ hn] at hm
  obtain ⟨o, h1, h2, h3, h4⟩ := C08_run ⟨k, preload, b, none⟩ n m hn hm
  refine ⟨o, h1, h2, ?_, h3⟩
  rcases h4 with h | ⟨_, h⟩
  · exact h
  · simp at h

/-- **unbounded** (limit = passes = 0): every finite prefix is delivered — cancelled after `c` acquisitions the
provider has delivered exactly the first `c` entries of the cyclic file, then ends cleanly. -/
theorem C08_unbounded_prefix (k : Kind) (preload : Bool) (n c : Nat) (hn : 0 < n) :
    ∃ o, run ⟨k, preload, ⟨0, 0⟩, some c⟩ n = some o ∧ o.delivered = cyc n c ∧
      (o.run = .nil ∨ o.run = .canceled) ∧ o.sinkClosed = true := by
  obtain ⟨o, h1, h2, h3, h4⟩ := C08_run ⟨k, preload, ⟨0, 0⟩, some c⟩ n c hn (by simp [target])
  exact ⟨o, h1, h2, h4.imp id (·.1), h3⟩

/-- **cancelled bounded run**: a cancellation after `c` acquisitions of a run bounded by `m` ends after
`min c m` deliveries, cleanly. -/
theorem C08_cancel (k : Kind) (preload : Bool) (b : Bounds) (n m c : Nat) (hn : 0 < n)
    (hm : Spec.C08.expected b.limit b.passes n = some m) :
    ∃ o, run ⟨k, preload, b, some c⟩ n = some o ∧ o.delivered = cyc n (min c m) ∧
      (o.run = .nil ∨ o.run = .canceled) ∧ o.sinkClosed = true := by
  have hT : target b.limit b.passes n (some c) = some (min c m) :=
    target_cancel _ _ _ _ _ (by rw [← expected_eq_target _ _ _ hn]; exact hm)
  obtain ⟨o, h1, h2, h3, h4⟩ := C08_run ⟨k, preload, b, some c⟩ n _ hn hT
  exact ⟨o, h1, h2, h4.imp id (·.1), h3⟩

/-- **no spin**: the run ends within `2·(T + n) + 3` loop iterations (scans, sends, end-of-file wraps), where `T`
is the number of ammo delivered — for every kind, preload setting, bounds and cancellation point. -/
theorem C08_no_spin (inp : Input) (n T : Nat) (hn : 0 < n)
    (hT : target inp.b.limit inp.b.passes n inp.cancelAt = some T) :
    ∃ fuel, fuel ≤ 2 * (T + n) + 3 ∧ ∃ o, runFuel inp (List.range n) (fun _ => true) fuel = some o := by
  refine ⟨fuelFor T n n, ?_, ?_⟩
  · unfold fuelFor
    have h1 := succ_mul' (T / n) (n + 1)
    have h2 : T / n * (n + 1) = T / n * n + T / n := by rw [Nat.mul_add, Nat.mul_one]
    have h3 : T / n * n ≤ T := Nat.div_mul_le_self T n
    have h4 : T / n ≤ T := Nat.div_le_self T n
    omega
  · obtain ⟨o, h1, _⟩ := C08_run inp n T hn hT
    unfold run at h1; rw [hT] at h1
    exact ⟨o, h1⟩

/-- **the run ends successfully**: core/engine awaitRun fails the pool on a provider error unless it is the
run context's own error; the provider's result never is such an error. -/
theorem C08_engine_success (inp : Input) (n T : Nat) (hn : 0 < n)
    (hT : target inp.b.limit inp.b.passes n inp.cancelAt = some T) :
    ∃ o, run inp n = some o ∧ poolFailsOnProvider o.run (cancelled inp.cancelAt o.delivered.length) = false := by
  obtain ⟨o, h1, h2, _, h4⟩ := C08_run inp n T hn hT
  refine ⟨o, h1, ?_⟩
  rcases h4 with h | ⟨h, hc⟩
  · simp [h, poolFailsOnProvider]
  · have : o.delivered.length = T := by rw [h2]; simp [cyc]
    simp [h, poolFailsOnProvider, this, hc, cancelled]

/-- **Spec holds of Model.run** for every cell shape the harness generates (cap > expected count of a bounded
cell; cap ≥ 1): the executable Spec that judges the real providers accepts the model's observation. -/
theorem C08_spec_holds (k : Kind) (preload : Bool) (limit passes n cap : Nat) (hn : 0 < n) (hcap : 0 < cap)
    (hbig : ∀ m, Spec.C08.expected limit passes n = some m → m < cap) :
    Spec.C08.holds ⟨limit, passes, n, cap⟩
      (Drv.C08.obsOf cap 0 (run ⟨k, preload, ⟨limit, passes⟩, some cap⟩ n)) = true := by
  cases hE : Spec.C08.expected limit passes n with
  | none =>
    have h00 : limit = 0 ∧ passes = 0 := by
      unfold Spec.C08.expected at hE
      cases limit <;> cases passes <;> simp_all
    obtain ⟨rfl, rfl⟩ := h00
    obtain ⟨o, h1, h2, h3, h4⟩ := C08_unbounded_prefix k preload n cap hn
    have hl : o.delivered.length = cap := by rw [h2]; simp [cyc]
    rw [h1]
    rcases h3 with h3 | h3 <;>
      simp [Drv.C08.obsOf, Spec.C08.holds, Spec.C08.countOk, Spec.C08.want, Spec.C08.bounded, hE, hl, hcap,
        Spec.C08.returnsOk, Spec.C08.runOk, Spec.C08.endOk, Spec.C08.spinOk, h3, h4, Drv.C08.classOf]
  | some m =>
    have hlt := hbig m hE
    obtain ⟨o, h1, h2, h3, h4⟩ := C08_cancel k preload ⟨limit, passes⟩ n m cap hn hE
    have hmin : min cap m = m := Nat.min_eq_right (by omega)
    have hl : o.delivered.length = m := by rw [h2]; simp [cyc, hmin]
    -- the run was not cancelled, so it did not return context.Canceled
    obtain ⟨o', h1', _, _, h4'⟩ := C08_run ⟨k, preload, ⟨limit, passes⟩, some cap⟩ n (min cap m) hn (target_cancel _ _ _ _ _ (by rw [← expected_eq_target _ _ _ hn]; exact hE))
    rw [h1] at h1'
    cases h1'
    have hnil : o.run = .nil := by
      rcases h4' with h | ⟨_, h⟩
      · exact h
      · simp [hmin] at h; omega
    rw [h1]
    have hnc : ¬ cap ≤ m := by omega
    simp [Drv.C08.obsOf, Spec.C08.holds, Spec.C08.countOk, Spec.C08.want, Spec.C08.bounded, hE, hl, hnc,
      Spec.C08.returnsOk, Spec.C08.runOk, Spec.C08.endOk, Spec.C08.spinOk, hnil, h4, Drv.C08.classOf,
      Spec.C08.opsBound]

/-! non-vacuity: concrete cells, evaluated by the kernel -/
example : (run ⟨.jsonArray, false, ⟨0, 1⟩, none⟩ 1).map (·.delivered) = some [0] := by decide
example : (run ⟨.uri, true, ⟨2, 0⟩, none⟩ 3).map (fun o => (o.delivered, o.run, o.sinkClosed)) = some ([0, 1], .nil, true) := by decide
example : (run ⟨.grpcJson, false, ⟨1, 0⟩, none⟩ 1).map (fun o => (o.delivered, o.run)) = some ([0], .nil) := by decide
example : (run ⟨.httpScenario, false, ⟨2, 0⟩, none⟩ 3).map (fun o => (o.delivered, o.run, o.sinkClosed)) = some ([0, 1], .nil, true) := by decide
example : (run ⟨.genericJson, false, ⟨5, 2⟩, none⟩ 2).map (·.delivered) = some [0, 1, 0, 1] := by decide
example : (run ⟨.raw, false, ⟨0, 0⟩, some 7⟩ 3).map (fun o => (o.delivered, o.run)) = some ([0, 1, 2, 0, 1, 2, 0], .canceled) := by decide
example : Spec.C08.expected 2 1 3 = some 2 ∧ target 2 1 3 none = some 2 := by decide

end Pandora.Props.C08
