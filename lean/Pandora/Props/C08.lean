/-
C08 — limit/passes semantics and clean end-of-ammo on every provider.

Theorems are about `Pandora.Model.C08` (the providers' loops as executable machines, REPAIRED behaviour of
fixes/C08-*.diff and fixes/C14-limit-counts-delivered.diff), for ALL kinds × preload × limit × passes × n ≥ 1
and any cancellation point; no bound on n / limit / passes (induction over the loops, `Proofs/C08*.lean`).
The model's loops carry explicit fuel; that the run ENDS within the fuel `Model.C08.run` supplies is part of
every theorem (`run … = some o`), `C08_no_spin` gives the bound in closed form.
Tie: correspondence harness harness/cmd/c08 (real providers, public constructors) + `Pandora.Drv.C08`.
-/
import Pandora.Proofs.C08Run
import Pandora.Proofs.C08Conc
import Pandora.Proofs.C08Agree
import Pandora.Proofs.C08Bound
import Pandora.Proofs.C08Scan
import Pandora.Proofs.C08Term
import Pandora.Proofs.C08Fault
import Pandora.Proofs.C08Bisim
import Pandora.Proofs.C08Coin
import Pandora.Proofs.C08Pick
import Pandora.Proofs.C08Size
import Pandora.Bridge.ProvLoops
import Pandora.Proofs.C08Comp
import Pandora.Proofs.C08Fair
import Pandora.Drv.C08

namespace Pandora.Props.C08
open Pandora.Model.C08 Pandora.Proofs.C08

/-- the first `m` entries of the file 0,1,…,n-1 read over and over -/
def cyc (n m : Nat) : List Nat := (List.range m).map (· % n)

/-- **General form.**  Whatever stops the run first — limit, passes·n or the cancellation after `c` acquisitions —
at count `T`: the provider of every kind ends within the model's fuel, consumers have acquired exactly the first
`T` entries of the cyclic file, `Run` returns nil (context.Canceled only if the cancellation is what stopped it,
never an error), and the sink is closed, so the next `Acquire` returns `ok=false`. -/
theorem C08_run (inp : Input) (n T : Nat) (hn : 0 < n)
    (hT : target inp.b.limit inp.b.passes n inp.cancelAt = some T) :
    ∃ o, run inp n = some o ∧ o.delivered = cyc n T ∧ o.sinkClosed = true ∧
      (o.run = .nil ∨ (o.run = .canceled ∧ inp.cancelAt = some T)) := by
  have hlen : (List.range n).length = n := List.length_range
  have hf : 0 < ((List.range n).filter (fun _ => true)).length := by rw [filter_const_true, hlen]; exact hn
  have tg : Tgt inp.b.limit inp.b.passes ((List.range n).filter (fun _ => true)).length inp.cancelAt T := by
    rw [filter_const_true, hlen]; exact tgt_of_target _ _ _ _ _ hn hT
  have h := runFuel_spec inp (List.range n) (fun _ => true) T (by rw [hlen]; exact hn) hf (fun _ => rfl) tg
  rw [filter_const_true, hlen] at h
  refine ⟨⟨cycTake (List.range n) T, kindEnd inp.kind inp.cancelAt T, true⟩, ?_, ?_, rfl, ?_⟩
  · unfold run; rw [hT]; exact h
  · exact cycTake_range n T hn
  · simp only
    have hE : endRes inp.cancelAt T = .nil ∨ (endRes inp.cancelAt T = .canceled ∧ inp.cancelAt = some T) := by
      unfold endRes
      by_cases hc : cancelled inp.cancelAt T = true
      · right
        obtain ⟨c, hc1, hc2⟩ := (cancelled_true_iff _ _).mp hc
        have hle := (tgt_of_target _ _ _ _ _ hn hT).le_cancel c hc1
        have : c = T := by omega
        subst this
        exact ⟨by rw [if_pos hc], hc1⟩
      · left; rw [if_neg hc]
    cases hk : inp.kind <;> simp [kindEnd, hE]

/-- **count + clean end** (the property's first sentence): with a limit and/or passes and nobody cancelling,
exactly `min⁺(limit, passes·n)` ammo are delivered, `Run` returns nil and the sink is closed. -/
theorem C08_count (k : Kind) (preload : Bool) (b : Bounds) (n m : Nat) (hn : 0 < n)
    (hm : Spec.C08.expected b.limit b.passes n = some m) :
    ∃ o, run ⟨k, preload, b, none⟩ n = some o ∧ o.delivered = cyc n m ∧ o.run = .nil ∧ o.sinkClosed = true := by
  rw [expected_eq_target _ _ _ hn] at hm
  obtain ⟨o, h1, h2, h3, h4⟩ := C08_run ⟨k, preload, b, none⟩ n m hn hm
  refine ⟨o, h1, h2, ?_, h3⟩
  rcases h4 with h | ⟨_, h⟩
  · exact h
  · simp at h

/-- **unbounded** (limit = passes = 0): every finite prefix is delivered — cancelled after `c` acquisitions the
provider has delivered exactly the first `c` entries of the cyclic file, then ends cleanly. -/
theorem C08_unbounded_prefix (k : Kind) (preload : Bool) (n c : Nat) (hn : 0 < n) :
    ∃ o, run ⟨k, preload, ⟨0, 0⟩, some c⟩ n = some o ∧ o.delivered = cyc n c ∧
      (o.run = .nil ∨ o.run = .canceled) ∧ o.sinkClosed = true := by
  obtain ⟨o, h1, h2, h3, h4⟩ := C08_run ⟨k, preload, ⟨0, 0⟩, some c⟩ n c hn (by simp [target])
  exact ⟨o, h1, h2, h4.imp id (·.1), h3⟩

/-- **cancelled bounded run**: a cancellation after `c` acquisitions of a run bounded by `m` ends after
`min c m` deliveries, cleanly. -/
theorem C08_cancel (k : Kind) (preload : Bool) (b : Bounds) (n m c : Nat) (hn : 0 < n)
    (hm : Spec.C08.expected b.limit b.passes n = some m) :
    ∃ o, run ⟨k, preload, b, some c⟩ n = some o ∧ o.delivered = cyc n (min c m) ∧
      (o.run = .nil ∨ o.run = .canceled) ∧ o.sinkClosed = true := by
  have hT : target b.limit b.passes n (some c) = some (min c m) :=
    target_cancel _ _ _ _ _ (by rw [← expected_eq_target _ _ _ hn]; exact hm)
  obtain ⟨o, h1, h2, h3, h4⟩ := C08_run ⟨k, preload, b, some c⟩ n _ hn hT
  exact ⟨o, h1, h2, h4.imp id (·.1), h3⟩

/-- **no spin**: the run ends within `2·(T + n) + 3` loop iterations (scans, sends, end-of-file wraps), where `T`
is the number of ammo delivered — for every kind, preload setting, bounds and cancellation point. -/
theorem C08_no_spin (inp : Input) (n T : Nat) (hn : 0 < n)
    (hT : target inp.b.limit inp.b.passes n inp.cancelAt = some T) :
    ∃ fuel, fuel ≤ 2 * (T + n) + 3 ∧ ∃ o, runFuel inp (List.range n) (fun _ => true) fuel = some o := by
  refine ⟨fuelFor T n n, ?_, ?_⟩
  · unfold fuelFor
    have h1 := succ_mul' (T / n) (n + 1)
    have h2 : T / n * (n + 1) = T / n * n + T / n := by rw [Nat.mul_add, Nat.mul_one]
    have h3 : T / n * n ≤ T := Nat.div_mul_le_self T n
    have h4 : T / n ≤ T := Nat.div_le_self T n
    omega
  · obtain ⟨o, h1, _⟩ := C08_run inp n T hn hT
    unfold run at h1; rw [hT] at h1
    exact ⟨o, h1⟩

/-- **the run ends successfully**: core/engine awaitRun fails the pool on a provider error unless it is the
run context's own error; the provider's result never is such an error. -/
theorem C08_engine_success (inp : Input) (n T : Nat) (hn : 0 < n)
    (hT : target inp.b.limit inp.b.passes n inp.cancelAt = some T) :
    ∃ o, run inp n = some o ∧ poolFailsOnProvider o.run (cancelled inp.cancelAt o.delivered.length) = false := by
  obtain ⟨o, h1, h2, _, h4⟩ := C08_run inp n T hn hT
  refine ⟨o, h1, ?_⟩
  rcases h4 with h | ⟨h, hc⟩
  · simp [h, poolFailsOnProvider]
  · have : o.delivered.length = T := by rw [h2]; simp [cyc]
    simp [h, poolFailsOnProvider, this, hc, cancelled]

/-- **Spec holds of Model.run** for every cell shape the harness generates (cap > expected count of a bounded
cell; cap ≥ 1): the executable Spec that judges the real providers accepts the model's observation. -/
theorem C08_spec_holds (k : Kind) (preload : Bool) (limit passes n cap : Nat) (hn : 0 < n) (hcap : 0 < cap)
    (hbig : ∀ m, Spec.C08.expected limit passes n = some m → m < cap) :
    Spec.C08.holds { limit, passes, n, cap }
      (Drv.C08.obsOf cap 0 (run ⟨k, preload, ⟨limit, passes⟩, some cap⟩ n)) = true := by
  cases hE : Spec.C08.expected limit passes n with
  | none =>
    have h00 : limit = 0 ∧ passes = 0 := by
      unfold Spec.C08.expected at hE
      cases limit <;> cases passes <;> simp_all
    obtain ⟨rfl, rfl⟩ := h00
    obtain ⟨o, h1, h2, h3, h4⟩ := C08_unbounded_prefix k preload n cap hn
    have hl : o.delivered.length = cap := by rw [h2]; simp [cyc]
    rw [h1]
    rcases h3 with h3 | h3 <;>
      simp [Drv.C08.obsOf, Spec.C08.holds, Spec.C08.countOk, Spec.C08.want, Spec.C08.wantCut, Spec.C08.bounded, hE, hl, hcap,
        Spec.C08.returnsOk, Spec.C08.runOk, Spec.C08.endOk, Spec.C08.spinOk, h3, h4, Drv.C08.classOf]
  | some m =>
    have hlt := hbig m hE
    obtain ⟨o, h1, h2, h3, h4⟩ := C08_cancel k preload ⟨limit, passes⟩ n m cap hn hE
    have hmin : min cap m = m := Nat.min_eq_right (by omega)
    have hl : o.delivered.length = m := by rw [h2]; simp [cyc, hmin]
    -- the run was not cancelled, so it did not return context.Canceled
    obtain ⟨o', h1', _, _, h4'⟩ := C08_run ⟨k, preload, ⟨limit, passes⟩, some cap⟩ n (min cap m) hn (target_cancel _ _ _ _ _ (by rw [← expected_eq_target _ _ _ hn]; exact hE))
    rw [h1] at h1'
    cases h1'
    have hnil : o.run = .nil := by
      rcases h4' with h | ⟨_, h⟩
      · exact h
      · simp [hmin] at h; omega
    rw [h1]
    have hnc : ¬ cap ≤ m := by omega
    have hc0 : cap ≠ 0 := by omega
    simp [Drv.C08.obsOf, Spec.C08.holds, Spec.C08.countOk, Spec.C08.want, Spec.C08.wantCut, Spec.C08.bounded, hE, hl, hnc,
      Spec.C08.returnsOk, Spec.C08.runOk, Spec.C08.endOk, Spec.C08.spinOk, hnil, h4, Drv.C08.classOf,
      Spec.C08.opsBound, hc0, hmin]

/-! ## every interleaving: provider ∥ channel ∥ consumers ∥ cancel  (`Model.C08Mach`)

`reach inp n cons ls` is the state after the schedule `ls` (ANY list of labels: loop iterations of `Run`, the two
outcomes of its send `select`, receives and end-of-ammo observations of each of the `cons` consumers, a cancel at
any position; labels that are not enabled are skipped).  The channel has the capacity the constructor of the kind
gives it.  No fairness is assumed: consumers may stop acquiring at any time (instances whose schedule is over). -/

/-- **never too many, always in file order** — in every interleaving the ammo acquired so far followed by those in
the channel are the first `sent` entries of the cyclic file, `sent` never exceeds `min⁺(limit, passes·n)`, and the
channel never holds more than its capacity. -/
theorem C08_conc_prefix (inp : Input) (n cons : Nat) (hn : 0 < n) (ls : List Label) :
    (reach inp n cons ls).acquired ++ (reach inp n cons ls).buf = cyc n (reach inp n cons ls).sent ∧
    (∀ m, Spec.C08.expected inp.b.limit inp.b.passes n = some m → (reach inp n cons ls).sent ≤ m) ∧
    (reach inp n cons ls).buf.length ≤ inp.kind.chanCap := by
  have hi := sysInv_reach inp n cons hn ls
  refine ⟨hi.seq, ?_, hi.bufcap⟩
  intro m hm
  obtain ⟨_, h3⟩ := atBound_of_expected inp.b n m hn hm
  obtain ⟨h1, h2⟩ := hi.below
  rcases h3 with ⟨h0, h4⟩ | ⟨h0, h4⟩
  · rcases h1 with h1 | h1 <;> omega
  · rcases h2 with h2 | h2 <;> omega

/-- **clean end** — whenever `Run` has returned, in whatever interleaving: the sink is closed, the result is nil —
or context.Canceled, only if the context was cancelled — and a run that nobody cancelled has sent exactly
`min⁺(limit, passes·n)` ammo (so an unbounded run returns only when it is cancelled). -/
theorem C08_conc_clean_end (inp : Input) (n cons : Nat) (hn : 0 < n) (ls : List Label) (r : RunRes)
    (h : (reach inp n cons ls).result = some r) :
    (reach inp n cons ls).closed = true ∧
    (r = .nil ∨ ((reach inp n cons ls).cancelled = true ∧ r = .canceled)) ∧
    ((reach inp n cons ls).cancelled = false →
      r = .nil ∧ Spec.C08.expected inp.b.limit inp.b.passes n = some (reach inp n cons ls).sent) := by
  have hi := sysInv_reach inp n cons hn ls
  obtain ⟨h1, _, h3⟩ := hi.returned r h
  refine ⟨h1, ?_, ?_⟩
  · rcases h3 with ⟨h3, _⟩ | ⟨hc, h3 | h3⟩
    · exact Or.inl h3
    · exact Or.inr ⟨hc, h3⟩
    · unfold doneResOf at h3
      split at h3
      · exact Or.inr ⟨hc, h3⟩
      · exact Or.inl h3
  · intro hnc
    rcases h3 with ⟨h3, h4⟩ | ⟨hc, _⟩
    · exact ⟨h3, expected_of_atBound _ _ _ hn h4⟩
    · rw [hnc] at hc; cases hc

/-- **the sink is closed exactly when `Run` has returned**, and consumers see the end only then -/
theorem C08_conc_closed_iff (inp : Input) (n cons : Nat) (hn : 0 < n) (ls : List Label) :
    ((reach inp n cons ls).closed = true ↔ (reach inp n cons ls).result.isSome = true) ∧
    ((reach inp n cons ls).ended ≠ [] → (reach inp n cons ls).closed = true ∧ (reach inp n cons ls).buf = []) := by
  have hi := sysInv_reach inp n cons hn ls
  refine ⟨?_, hi.ended⟩
  cases hr : (reach inp n cons ls).result with
  | none => simp [(hi.running hr).1]
  | some r => simp [(hi.returned r hr).1]

/-- **no consumer stays blocked** — once `Run` has returned every consumer that has not yet seen the end of ammo can
complete its Acquire at once: with an ammo that was still in the channel, or with `ok=false`. -/
theorem C08_conc_consumers_released (inp : Input) (n cons : Nat) (hn : 0 < n) (ls : List Label)
    (h : (reach inp n cons ls).result.isSome = true) (c : Nat) (hc : c < cons) (hne : c ∉ (reach inp n cons ls).ended) :
    ((reach inp n cons ls).next inp n inp.kind.chanCap cons (.recv c)).isSome = true ∨
    ((reach inp n cons ls).next inp n inp.kind.chanCap cons (.eoa c)).isSome = true := by
  have hi := sysInv_reach inp n cons hn ls
  have hcl := ((C08_conc_closed_iff inp n cons hn ls).1).mpr h
  cases hb : (reach inp n cons ls).buf with
  | nil => right; simp [Sys.next, hcl, hb, hc, hne]
  | cons i rest => left; simp [Sys.next, hb, hc, hne]

/-- **returns promptly, needs nobody, does not spin** — from any reachable state in which the context is cancelled
or the bound `min⁺(limit, passes·n)` has been sent, `Run` on its own (nobody receives, nothing else happens) has
returned after at most 3 of its own steps: loop iterations or the Done branch of its select. -/
theorem C08_conc_returns (inp : Input) (n cons : Nat) (hn : 0 < n) (ls : List Label)
    (hres : (reach inp n cons ls).result = none)
    (hstop : (reach inp n cons ls).cancelled = true ∨
      Spec.C08.expected inp.b.limit inp.b.passes n = some (reach inp n cons ls).sent) :
    (ownRun inp n inp.kind.chanCap cons 3 (reach inp n cons ls)).result.isSome = true := by
  have hi := sysInv_reach inp n cons hn ls
  exact returns_alone inp n _ cons hn 1 _ hi hres (hstop.imp id (atBound_of_expected _ _ _ hn)) (tauBudget_le_one n _)

/-- **a cancel stops the providers that read ctx.Err() in their loop** (http with and without preload, scenario):
whatever happens after the cancel, at most the one ammo that was already in the send `select` is still sent. -/
theorem C08_conc_cancel_stops (inp : Input) (n cons : Nat) (hn : 0 < n) (ht : inp.kind.ctxTop = true)
    (ls ls' : List Label) :
    (reach inp n cons (ls ++ Label.cancel :: ls')).sent ≤ (reach inp n cons ls).sent + 1 := by
  have hi := sysInv_reach inp n cons hn ls
  have hrun : reach inp n cons (ls ++ Label.cancel :: ls') =
      Sys.run inp n inp.kind.chanCap cons { (reach inp n cons ls) with cancelled := true } ls' := by
    unfold reach; rw [run_append, run_cons]; rfl
  rw [hrun]
  generalize reach inp n cons ls = s at hi ⊢
  have hi' : SysInv inp n inp.kind.chanCap { s with cancelled := true } :=
    sysInv_next inp n _ cons hn s _ .cancel hi rfl
  have h := pot_run_cancelled inp n inp.kind.chanCap cons hn ht ls' _ hi' rfl
  have h1 : pot { s with cancelled := true } ≤ s.sent + 1 := by
    simp only [pot, Sys.sent]; split <;> omega
  have h2 : ∀ t : Sys, t.sent ≤ pot t := fun t => Nat.le_add_right _ _
  exact Nat.le_trans (h2 _) (Nat.le_trans h h1)

/-- **exactly `min⁺(limit, passes·n)`, and everybody sees the end** — no deadlock: a reachable state in which
nothing but a cancel can happen any more (at least one consumer) is one in which `Run` has returned, the channel is
drained, EVERY consumer has seen `ok=false`, and the acquired ammo are the first entries of the cyclic file in order
— exactly `min⁺(limit, passes·n)` of them, with `Run` = nil, if nobody cancelled. -/
theorem C08_conc_complete (inp : Input) (n cons : Nat) (hn : 0 < n) (hc : 0 < cons) (ls : List Label)
    (hstuck : ∀ l, l ≠ Label.cancel → (reach inp n cons ls).next inp n inp.kind.chanCap cons l = none) :
    (∀ c, c < cons → c ∈ (reach inp n cons ls).ended) ∧
    (reach inp n cons ls).acquired = cyc n (reach inp n cons ls).acquired.length ∧
    ((reach inp n cons ls).cancelled = false →
      (reach inp n cons ls).result = some .nil ∧
      Spec.C08.expected inp.b.limit inp.b.passes n = some (reach inp n cons ls).acquired.length) := by
  have hi := sysInv_reach inp n cons hn ls
  obtain ⟨hr, hb, he⟩ := no_deadlock inp n _ cons _ hi hc hstuck
  have hsent : (reach inp n cons ls).sent = (reach inp n cons ls).acquired.length := by
    simp [Sys.sent, Sys.acquired, hb]
  refine ⟨he, ?_, ?_⟩
  · have := hi.seq
    rw [hb, List.append_nil, hsent] at this
    exact this
  · intro hnc
    obtain ⟨r, hr'⟩ := Option.isSome_iff_exists.mp hr
    obtain ⟨_, _, h3⟩ := C08_conc_clean_end inp n cons hn ls r hr'
    obtain ⟨h4, h5⟩ := h3 hnc
    rw [hsent] at h5
    exact ⟨by rw [hr', h4], h5⟩

/-- **one model** — the small-step machine of every provider kind (the one the interleaving theorems are about, whose
step functions are bridged to the regenerated loop bodies), driven by the schedule of the harness' drain mode (one
consumer that is always ready, the context cancelled after `cancelAt` acquisitions, the select taking Done once it is
cancelled), ends exactly like `Model.C08.run` (the fuel-function model the Lean driver predicts the real providers'
observations with): same acquired ammo, same result of `Run`, sink closed. -/
theorem C08_machine_agrees (inp : Input) (n T : Nat) (hn : 0 < n)
    (hT : target inp.b.limit inp.b.passes n inp.cancelAt = some T) :
    runMach inp n = run inp n := by
  have hlen : (List.range n).length = n := List.length_range
  have tg : Tgt inp.b.limit inp.b.passes ((List.range n).filter (fun _ => true)).length inp.cancelAt T := by
    rw [filter_const_true, hlen]; exact tgt_of_target _ _ _ _ _ hn hT
  have h := runFuel_spec inp (List.range n) (fun _ => true) T (by rw [hlen]; exact hn)
    (by rw [filter_const_true, hlen]; exact hn) (fun _ => rfl) tg
  rw [filter_const_true, hlen] at h
  rw [runMach_eq inp n T hn hT]
  unfold run; rw [hT]
  simp only
  rw [h, cycTake_range n T hn]


/-! ## round 2: termination, the reading loops of `Scan` line by line, LoadAmmo -/

/-- **global termination measure** — a BOUNDED cell (`m = min⁺(limit, passes·n)`) cannot run for ever, whatever the
scheduler does: of ANY schedule at most `6·m + cons + 4` labels (loop iterations, sends, receives, end-of-ammo
observations; `cancel` not counted) find their transition enabled.  No fairness is needed for this. -/
theorem C08_conc_terminates (inp : Input) (n cons m : Nat) (hn : 0 < n)
    (hm : Spec.C08.expected inp.b.limit inp.b.passes n = some m) (ls : List Label) :
    effSteps inp n inp.kind.chanCap cons (Sys.init inp n) ls ≤ 6 * m + cons + 4 := by
  have hb := atBound_of_expected inp.b n m hn hm
  have h := effSteps_le_mu inp n inp.kind.chanCap cons m hn hb ls _ (sysInv_init inp n _ hn)
  have := mu_init_le inp n cons m
  omega

/-- **every fair execution of a bounded cell ends, completely and cleanly** — an infinite schedule that does not idle
for ever while something other than a cancel can happen (minimal progress; weaker than weak fairness) reaches a state
in which every consumer has seen `ok=false` and the acquired ammo are the first entries of the cyclic file in order —
exactly `min⁺(limit, passes·n)` of them with `Run` = nil when nobody cancelled. -/
theorem C08_conc_fair_end (inp : Input) (n cons m : Nat) (hn : 0 < n) (hc : 0 < cons)
    (hm : Spec.C08.expected inp.b.limit inp.b.passes n = some m)
    (σ : Nat → Label) (hp : Progressing inp n inp.kind.chanCap cons σ) :
    ∃ t, let s := stateAt inp n inp.kind.chanCap cons σ t
      (∀ c, c < cons → c ∈ s.ended) ∧ s.acquired = cyc n s.acquired.length ∧
      (s.cancelled = false → s.result = some .nil ∧ s.acquired.length = m) := by
  have hb := atBound_of_expected inp.b n m hn hm
  obtain ⟨t, ht⟩ := progressing_reaches_stuck inp n inp.kind.chanCap cons m hn hb σ hp
  refine ⟨t, ?_⟩
  have he : stateAt inp n inp.kind.chanCap cons σ t = reach inp n cons ((List.range t).map σ) :=
    stateAt_eq_run inp n _ cons σ t
  simp only
  rw [he] at ht ⊢
  obtain ⟨h1, h2, h3⟩ := C08_conc_complete inp n cons hn hc _ ht
  refine ⟨h1, h2, ?_⟩
  intro hnc
  obtain ⟨h4, h5⟩ := h3 hnc
  rw [hm] at h5
  exact ⟨h4, by simpa using h5.symm⟩

/-- **after a cancel the providers that read ctx.Err() are done within a bounded number of steps** (http with and
without preload, scenario — bounded or not): once the context is cancelled, of ANY continuation at most
`buffered + cons + 6` labels find their transition enabled (emptying the channel, the end-of-ammo observations, the
last steps of `Run`). -/
theorem C08_conc_cancel_terminates (inp : Input) (n cons : Nat) (hn : 0 < n) (ht : inp.kind.ctxTop = true)
    (ls ls' : List Label) :
    effSteps inp n inp.kind.chanCap cons (reach inp n cons (ls ++ [Label.cancel])) ls' ≤
      (reach inp n cons ls).buf.length + cons + 6 := by
  have hi' := sysInv_reach inp n cons hn (ls ++ [Label.cancel])
  have hc : (reach inp n cons (ls ++ [Label.cancel])).cancelled = true := by
    unfold reach; rw [run_append, run_cons]; rfl
  have hb : (reach inp n cons (ls ++ [Label.cancel])).buf = (reach inp n cons ls).buf := by
    unfold reach; rw [run_append, run_cons]; rfl
  rw [← hb]
  generalize reach inp n cons (ls ++ [Label.cancel]) = s at hi' hc ⊢
  have h := effSteps_le_muC inp n inp.kind.chanCap cons hn ht ls' s hi' hc
  have htb := tauBudget_le_one n s.ps
  have hw : waiting cons s ≤ cons := by
    have := waitingIn_le (List.range cons) s.ended
    simpa [waiting] using this
  have hmu : muC n cons s ≤ s.buf.length + cons + 6 := by
    simp only [muC]
    by_cases hr : s.result.isSome = true <;> by_cases ho : s.offering.isSome = true <;> simp [hr, ho] <;> omega
  omega

/-- the bound on sends after a cancel, claimed for EVERY provider kind -/
def C08_conc_cancel_stops_statement : Prop :=
  ∀ (inp : Input) (n cons : Nat), 0 < n → ∀ (ls ls' : List Label),
    (reach inp n cons (ls ++ Label.cancel :: ls')).sent ≤ (reach inp n cons ls).sent + 1

/-- … is false without fairness: grpc/json (like the generic JSON provider) notices a cancel only in its `select`;
a scheduler under which the send wins every time lets it send `k` more ammo for every `k`.  (`C08_conc_cancel_stops`
is the part that holds: the providers that read ctx.Err(); `C08_conc_returns`: the Done branch is enabled at every
such select, and Go picks uniformly among the ready cases.) -/
theorem C08_conc_cancel_stops_counterexample : ¬ C08_conc_cancel_stops_statement := by
  intro h
  have h1 := h grpcUnbounded 1 1 (by omega) [] (grpcRounds 2)
  rw [grpc_sends_after_cancel 2] at h1
  simp [reach, Sys.run, Sys.sent, Sys.init] at h1

/-- **the reading loops of `Scan`, line by line** — the decoder of every stream kind (round function REGENERATED from
uri.go / uripost.go / raw.go / jsonline.go, `Bridge.ProvLoops.roundOf_eq`) over ANY file with `n ≥ 1` entry lines and
any number of non-entry lines (headers, blank lines) anywhere is the abstract cyclic source of the provider theorems:
from a state with `q` passes and `r` entries behind it yields entry `r` (entry 0 of the next pass at the end of the
file while passes are left) and ErrPassLimit exactly when `passes` passes are complete. -/
theorem C08_scan_lines (style : Style) (passes : Nat) (f : Lines) (hn : 0 < f.count true) :
    Src (scanFileRes style ⟨0, passes⟩ f) (f.count true) passes (RLines f) ∧ RLines f 0 0 LDec.init :=
  ⟨src_lines style passes f hn, RLines_init f⟩

/-- … so `Provider.Run` of components/providers/http/provider, with and without preload, over the line-level decoder
delivers exactly what `C08_run` says: the first `T` entries of the cyclic file, nil (Canceled only when the cancel is
what stopped it), sink closed. -/
theorem C08_lines_run (style : Style) (f : Lines) (hn : 0 < f.count true) (preload : Bool) (b : Bounds)
    (cancelAt : Option Nat) (T : Nat) (hT : target b.limit b.passes (f.count true) cancelAt = some T) :
    httpRun (fun b d => scanFileRes style b f d) LDec.init (List.range (f.count true)) (fun _ => true) preload b cancelAt
        (fuelFor T (f.count true) (f.count true)) =
      some ⟨cyc (f.count true) T, endRes cancelAt T, true⟩ := by
  have hlen : (List.range (f.count true)).length = f.count true := List.length_range
  have tg := tgt_of_target _ _ _ _ _ hn hT
  have h := httpRun_spec (fun b d => scanFileRes style b f d) LDec.init (RLines f) (List.range (f.count true))
    (fun _ => true) preload b cancelAt T (by rw [hlen]; exact hn) (by rw [filter_const_true, hlen]; exact hn)
    (by rw [hlen]; exact src_lines style 1 f hn) (by rw [hlen]; exact src_lines style b.passes f hn) (RLines_init f)
    (by rw [filter_const_true, hlen]; exact tg)
  rw [filter_const_true, hlen] at h
  rw [h, cycTake_range _ T hn]
  rfl

/-- **LoadAmmo** (loop regenerated from decoder.go, `Bridge.ProvLoops.loadAmmo_eq`) over the line-level decoder: with
a live context it returns every entry once, in order; a cancelled context ends the load of the decoders that read
ctx.Err() (uri, uripost, raw) at once with the context's error, which `Provider.loadAmmo` hands on AS IT IS
(`httpLoadFail`, bridged to the regenerated condition) — so core/engine does not count it as a provider failure;
the json-lines decoder does not look at the context. -/
theorem C08_load_lines (style : Style) (f : Lines) (hn : 0 < f.count true) :
    loadLines style false f (f.count true + 1) LDec.init [] = some (.ok (List.range (f.count true))) ∧
    (∀ fuel d acc, loadLines .eofCheck true f (fuel + 1) d acc = some (.error .canceled)) ∧
    poolFailsOnProvider (httpLoadFail true .canceled) true = false ∧
    (∀ b d c, scanFile .topCheck b c f d = scanFile .topCheck b false f d) := by
  refine ⟨?_, loadLines_cancelled f, by decide, fun b d c => scanFile_top_ctx b f d c⟩
  have := loadLines_ok style f hn (f.count true + 1) 0 LDec.init (RLines_init f) (by omega)
  simpa using this

/-- **what Go's `select` adds after a cancel** — the possibilistic bound on sends after a cancel is false for the
providers without a ctx check at the loop top (`C08_conc_cancel_stops_counterexample`); Go resolves a `select` with
several ready cases by a uniform random choice.  With one coin per select (`coinRun`: `Run` on its own from ANY state of
ANY provider kind in which the context is cancelled, a consumer always ready so that the send case is always ready too
— the worst case; `true` = the send case, `false` = the Done case): among the `2^k` equally likely outcomes of the
first `k` coins at most `2^(k-j)` let `Run` send `j` more ammo — probability at most `2^-j` — and the first `false`
that meets a select in progress ends `Run`. -/
theorem C08_conc_cancel_geometric (inp : Input) (n cons : Nat) (ls : List Label) (fuel k j : Nat) (hj : j ≤ k)
    (hc : (reach inp n cons ls).cancelled = true) :
    ((allCoins k).filter (fun cs => decide ((reach inp n cons ls).sent + j ≤
        (coinRun inp n inp.kind.chanCap fuel cs (reach inp n cons ls)).sent))).length ≤ 2 ^ (k - j) ∧
    (allCoins k).length = 2 ^ k ∧
    (∀ cs, (reach inp n cons ls).result.isSome = false → (reach inp n cons ls).offering.isSome = true →
      (coinRun inp n inp.kind.chanCap (fuel + 1) (false :: cs) (reach inp n cons ls)).result.isSome = true) := by
  refine ⟨?_, allCoins_length k, fun cs hr ho => coinRun_tail inp n _ fuel cs _ hr ho hc⟩
  rw [← heads_count k j hj]
  apply filter_length_mono
  intro cs h
  have h1 := coinRun_sent inp n inp.kind.chanCap fuel cs _ hc
  simp only [decide_eq_true_eq] at h ⊢
  omega

/-- **the concurrent machine runs on the line-level decoder too** — `Model.C08Mach.stepOf` (the iteration every
interleaving theorem is about) runs `runFullScan` on the entry-level decoder `scanStream`; over the line-level decoder
of `Model.C08Scan` (round function regenerated from uri.go / uripost.go / raw.go / jsonline.go) on ANY file with `n ≥ 1`
entry lines and any non-entry lines anywhere, the same iteration from a related state (same passes behind, same entries
of the current pass behind, same number delivered) does the same — same result of `Run`, or the same ammo on offer —
and leads to related states again; the initial states are related.  So every schedule of the machine is step by step a
schedule over the real file layout. -/
theorem C08_lines_step (inp : Input) (f : Lines) (hn : 0 < f.count true) (c : Bool) (ld : LDec) (d : Dec) (k : Nat)
    (hrel : SrcRel (f.count true) inp.b.passes (RLines f) (RStream (f.count true)) (ld, k) (d, k)) :
    ActRel (SrcRel (f.count true) inp.b.passes (RLines f) (RStream (f.count true)))
      (streamStep (scanFileRes (styleOf inp.kind) ⟨0, inp.b.passes⟩ f) (·.passNum) inp.b.limit c ld k)
      (streamStep (scanStream (styleOf inp.kind) ⟨0, inp.b.passes⟩ (f.count true)) Dec.passNumOf inp.b.limit c d k) ∧
    stepOf inp (f.count true) c (.stream d k) =
      liftAct (fun p => .stream p.1 p.2)
        (streamStep (scanStream (styleOf inp.kind) ⟨0, inp.b.passes⟩ (f.count true)) Dec.passNumOf inp.b.limit c d k) ∧
    SrcRel (f.count true) inp.b.passes (RLines f) (RStream (f.count true)) (LDec.init, 0) (Dec.init, 0) := by
  have hsrc : Src (scanStream (styleOf inp.kind) ⟨0, inp.b.passes⟩ (f.count true)) (f.count true) inp.b.passes
      (RStream (f.count true)) := by
    cases hs : styleOf inp.kind
    · exact src_eofCheck _ _ hn
    · exact src_topCheck _ _ hn
  refine ⟨?_, rfl, rfl, 0, 0, Nat.zero_le _, by omega, RLines_init f, RStream_init _⟩
  exact streamStep_bisim _ _ _ _ _ _ hn _ _ (src_lines _ _ f hn) hsrc
    (fun q r s h => h.2.2.1) (fun q r t h => h.2.1) _ c ld d k hrel

/-! ## round 3: faults — an I/O error of the ammo file at any point, a Close that fails, no Close at all

`freach inp n cons ls` is the state after a schedule over the labels of the interleaving theorems PLUS `ioerr`: the
operation on the ammo file that `Run`'s loop is about to make (a read, a seek, the open) fails, at any position of
the schedule, together with any cancel.  `finishOf k r cl` is the deferred cleanup of `Run` (http: REGENERATED path by
path, `Bridge.ProvLoops.httpFinish_eq`) for the three outcomes `cl` of closing the ammo file. -/

/-- **whatever fails, the invariants of the property survive** — in every interleaving with I/O faults: what was
acquired followed by what is in the channel is a prefix of the cyclic file, never more than `min⁺(limit, passes·n)`,
never more in the channel than its capacity; the sink is closed exactly when `Run` has returned, and consumers see the
end only then, with the channel drained. -/
theorem C08_fault_safe (inp : Input) (n cons : Nat) (hn : 0 < n) (ls : List FLabel) :
    (freach inp n cons ls).s.acquired ++ (freach inp n cons ls).s.buf = cyc n (freach inp n cons ls).s.sent ∧
    (∀ m, Spec.C08.expected inp.b.limit inp.b.passes n = some m → (freach inp n cons ls).s.sent ≤ m) ∧
    (freach inp n cons ls).s.buf.length ≤ inp.kind.chanCap ∧
    ((freach inp n cons ls).s.closed = true ↔ (freach inp n cons ls).s.result.isSome = true) ∧
    ((freach inp n cons ls).s.ended ≠ [] → (freach inp n cons ls).s.closed = true ∧ (freach inp n cons ls).s.buf = []) := by
  have hi := fInv_reach inp n cons hn ls
  generalize freach inp n cons ls = f at hi ⊢
  unfold FInv at hi
  have key : f.s.acquired ++ f.s.buf = cycl n f.s.sent ∧ Below inp.b n f.s.sent ∧ f.s.buf.length ≤ inp.kind.chanCap ∧
      (f.s.closed = true ↔ f.s.result.isSome = true) ∧ (f.s.ended ≠ [] → f.s.closed = true ∧ f.s.buf = []) := by
    by_cases hf : f.faulted = true
    · simp only [hf, if_true] at hi
      exact ⟨hi.seq, hi.below, hi.bufcap, by simp [hi.res, hi.closed], hi.ended⟩
    · simp only [hf] at hi
      refine ⟨hi.seq, hi.below, hi.bufcap, ?_, hi.ended⟩
      cases hr : f.s.result with
      | none => simp [(hi.running hr).1]
      | some r => simp [(hi.returned r hr).1]
  obtain ⟨k1, k2, k3, k4, k5⟩ := key
  refine ⟨k1, ?_, k3, k4, k5⟩
  intro m hm
  obtain ⟨_, h3⟩ := atBound_of_expected inp.b n m hn hm
  obtain ⟨h1, h2⟩ := k2
  rcases h3 with ⟨h0, h4⟩ | ⟨h0, h4⟩
  · rcases h1 with h1 | h1 <;> omega
  · rcases h2 with h2 | h2 <;> omega

/-- **no consumer stays blocked, whatever made `Run` return** — bound, cancel or I/O error: once it has returned every
consumer that has not yet seen the end of ammo completes its Acquire at once (an ammo still in the channel, or ok=false). -/
theorem C08_fault_released (inp : Input) (n cons : Nat) (hn : 0 < n) (ls : List FLabel)
    (h : (freach inp n cons ls).s.result.isSome = true) (c : Nat) (hc : c < cons) (hne : c ∉ (freach inp n cons ls).s.ended) :
    ((freach inp n cons ls).next inp n inp.kind.chanCap cons (.sys (.recv c))).isSome = true ∨
    ((freach inp n cons ls).next inp n inp.kind.chanCap cons (.sys (.eoa c))).isSome = true := by
  have hcl := ((C08_fault_safe inp n cons hn ls).2.2.2.1).mpr h
  cases hb : (freach inp n cons ls).s.buf with
  | nil => right; simp [FSys.next, Sys.next, hcl, hb, hc, hne]
  | cons i rest => left; simp [FSys.next, Sys.next, hb, hc, hne]

/-- **an I/O error ends `Run` at once** — from any reachable state in which the loop is about to touch the ammo file,
the failing operation makes `Run` return (no retry, no spin) with the sink closed. -/
theorem C08_fault_returns (inp : Input) (n cons : Nat) (ls : List FLabel)
    (hres : (freach inp n cons ls).s.result = none) (hoff : (freach inp n cons ls).s.offering = none)
    (hrd : (freach inp n cons ls).s.ps.readsFile = true) :
    ∃ f', (freach inp n cons ls).next inp n inp.kind.chanCap cons .ioerr = some f' ∧
      f'.s.result = some .errOther ∧ f'.s.closed = true ∧ f'.faulted = true := by
  refine ⟨_, by simp only [FSys.next, hres, hoff, hrd]; simp; rfl, rfl, finishOf_closes _ _ _, rfl⟩

/-- **what `Run` returns** — nil only at the bound, Canceled only after a cancel, an error only after an I/O error
(`faulted` ⇔ the loop ended with one); a run that met neither a cancel nor a fault has sent exactly
`min⁺(limit, passes·n)`: an I/O error is never swallowed into a short, "clean" run. -/
theorem C08_fault_result (inp : Input) (n cons : Nat) (hn : 0 < n) (ls : List FLabel) (r : RunRes)
    (h : (freach inp n cons ls).s.result = some r) :
    (r = .nil ∨ ((freach inp n cons ls).s.cancelled = true ∧ r = .canceled) ∨
      ((freach inp n cons ls).faulted = true ∧ r = .errOther)) ∧
    ((freach inp n cons ls).faulted = true ↔ r = .errOther) ∧
    (r = .nil → (freach inp n cons ls).s.cancelled = false →
      Spec.C08.expected inp.b.limit inp.b.passes n = some (freach inp n cons ls).s.sent) := by
  have hfi := faulted_iff inp n cons hn ls
  have hi := fInv_reach inp n cons hn ls
  rw [h] at hfi
  generalize freach inp n cons ls = f at hi h hfi ⊢
  unfold FInv at hi
  have hfi' : f.faulted = true ↔ r = .errOther := by
    rw [hfi]; constructor
    · intro e; cases e; rfl
    · intro e; rw [e]
  refine ⟨?_, hfi', ?_⟩
  · by_cases hf : f.faulted = true
    · exact Or.inr (Or.inr ⟨hf, hfi'.mp hf⟩)
    · simp only [hf] at hi
      obtain ⟨_, _, h3⟩ := hi.returned r h
      rcases h3 with ⟨h3, _⟩ | ⟨hc, h3 | h3⟩
      · exact Or.inl h3
      · exact Or.inr (Or.inl ⟨hc, h3⟩)
      · unfold doneResOf at h3
        split at h3
        · exact Or.inr (Or.inl ⟨hc, h3⟩)
        · exact Or.inl h3
  · intro hnil hnc
    have hf : ¬ f.faulted = true := by rw [hfi', hnil]; simp
    simp only [hf] at hi
    obtain ⟨_, _, h3⟩ := hi.returned r h
    rcases h3 with ⟨_, h4⟩ | ⟨hc, _⟩
    · exact expected_of_atBound _ _ _ hn h4
    · rw [hnc] at hc; cases hc

/-- **the deferred cleanup** (http family: regenerated path by path from `Provider.Run`; the other families close the
sink by a deferred statement of its own and drop the result of closing the file) — whatever the loop's result and
whatever closing the ammo file gives (no Close function, success, an error): the sink is closed; Close is called
exactly when there is one; the caller gets the loop's own result unless Close failed in the http family, where the
failure is always reported (`none` = an error that names the fault) — so `Run` = nil means: clean loop AND clean close. -/
theorem C08_fault_finish (k : Kind) (r : RunRes) (cl : CloseOut) :
    (finishOf k r cl).closesSink = true ∧
    (finishOf k r cl).callsClose = decide (cl ≠ .absent) ∧
    ((cl ≠ .fails ∨ k.isHttp = false) → finalClass k r cl = if r = .errOther then none else some r) ∧
    (k.isHttp = true → finalClass k r .fails = none) ∧
    (finalClass k r cl = some .nil → r = .nil ∧ (cl ≠ .fails ∨ k.isHttp = false)) := by
  refine ⟨finishOf_closes k r cl, finishOf_calls k r cl, finalClass_keep k r cl, finalClass_fails k r, ?_⟩
  intro h
  by_cases hc : cl ≠ .fails ∨ k.isHttp = false
  · rw [finalClass_keep k r cl hc] at h
    split at h
    · cases h
    · simp only [Option.some.injEq] at h; exact ⟨h, hc⟩
  · have h1 : cl = .fails := by
      cases cl <;> simp_all
    have h2 : k.isHttp = true := by
      cases hk : k.isHttp <;> simp_all
    rw [h1, finalClass_fails k r h2] at h
    cases h

/-- **conservative** — a schedule without a fault is a schedule of the system of the interleaving theorems -/
theorem C08_fault_none (inp : Input) (n cons : Nat) (ls : List Label) :
    (freach inp n cons (ls.map FLabel.sys)).s = reach inp n cons ls ∧
    (freach inp n cons (ls.map FLabel.sys)).faulted = false := by
  unfold freach reach
  rw [frun_sys]
  exact ⟨rfl, rfl⟩

/-- **the Spec's fault clauses hold of the model** — for every reachable state of the system with faults in which
`Run` has returned, with any outcome of Close: the observation a drained cell gives (everything acquired, every
consumer released) satisfies `Spec.C08.faultHolds`' structural clauses: the sink is closed, the count is within the
bound, the result is nil / Canceled / the reported fault, nil without a cancel means the exact bound. -/
theorem C08_fault_spec (inp : Input) (n cons : Nat) (hn : 0 < n) (ls : List FLabel) (r : RunRes) (cl : CloseOut)
    (h : (freach inp n cons ls).s.result = some r) :
    (freach inp n cons ls).s.closed = true ∧
    (∀ m, Spec.C08.expected inp.b.limit inp.b.passes n = some m → (freach inp n cons ls).s.acquired.length ≤ m) ∧
    (finalClass inp.kind r cl = some .nil ∨ finalClass inp.kind r cl = some .canceled ∨ finalClass inp.kind r cl = none) ∧
    (finalClass inp.kind r cl = some .canceled → (freach inp n cons ls).s.cancelled = true) ∧
    (finalClass inp.kind r cl = some .nil → (freach inp n cons ls).s.cancelled = false →
      Spec.C08.expected inp.b.limit inp.b.passes n = some (freach inp n cons ls).s.sent) := by
  obtain ⟨s1, s2, _, s4, _⟩ := C08_fault_safe inp n cons hn ls
  obtain ⟨r1, _, r3⟩ := C08_fault_result inp n cons hn ls r h
  have hfin := C08_fault_finish inp.kind r cl
  refine ⟨s4.mpr (by simp [h]), ?_, ?_, ?_, ?_⟩
  · intro m hm
    have := s2 m hm
    simp only [Sys.sent, Sys.acquired, List.length_map] at this ⊢
    omega
  · by_cases hc : cl ≠ .fails ∨ inp.kind.isHttp = false
    · rw [hfin.2.2.1 hc]
      rcases r1 with r1 | ⟨_, r1⟩ | ⟨_, r1⟩ <;> simp [r1]
    · have h1 : cl = .fails := by cases cl <;> simp_all
      have h2 : inp.kind.isHttp = true := by cases hk : inp.kind.isHttp <;> simp_all
      rw [h1, hfin.2.2.2.1 h2]; simp
  · intro hcan
    by_cases hc : cl ≠ .fails ∨ inp.kind.isHttp = false
    · rw [hfin.2.2.1 hc] at hcan
      split at hcan
      · cases hcan
      · simp only [Option.some.injEq] at hcan
        rcases r1 with r1 | ⟨hcc, _⟩ | ⟨_, r1⟩
        · rw [r1] at hcan; cases hcan
        · exact hcc
        · rw [r1] at hcan; cases hcan
    · have h1 : cl = .fails := by cases cl <;> simp_all
      have h2 : inp.kind.isHttp = true := by cases hk : inp.kind.isHttp <;> simp_all
      rw [h1, hfin.2.2.2.1 h2] at hcan; cases hcan
  · intro hnil hnc
    exact r3 (hfin.2.2.2.2 hnil).1 hnc

/-! non-vacuity: concrete cells, evaluated by the kernel -/
example : (run ⟨.jsonArray, false, ⟨0, 1⟩, none⟩ 1).map (·.delivered) = some [0] := by decide
example : (run ⟨.uri, true, ⟨2, 0⟩, none⟩ 3).map (fun o => (o.delivered, o.run, o.sinkClosed)) = some ([0, 1], .nil, true) := by decide
example : (run ⟨.grpcJson, false, ⟨1, 0⟩, none⟩ 1).map (fun o => (o.delivered, o.run)) = some ([0], .nil) := by decide
example : (run ⟨.httpScenario, false, ⟨2, 0⟩, none⟩ 3).map (fun o => (o.delivered, o.run, o.sinkClosed)) = some ([0, 1], .nil, true) := by decide
example : (run ⟨.genericJson, false, ⟨5, 2⟩, none⟩ 2).map (·.delivered) = some [0, 1, 0, 1] := by decide
example : (run ⟨.raw, false, ⟨0, 0⟩, some 7⟩ 3).map (fun o => (o.delivered, o.run)) = some ([0, 1, 2, 0, 1, 2, 0], .canceled) := by decide
example : Spec.C08.expected 2 1 3 = some 2 ∧ target 2 1 3 none = some 2 := by decide
example : (runMach ⟨.jsonLines, true, ⟨0, 2⟩, some 3⟩ 2).map (fun o => (o.delivered, o.run, o.sinkClosed)) = some ([0, 1, 0], .canceled, true) := by decide
-- interleavings: two consumers of a preloaded uri provider with limit 3 (unbuffered channel) …
example : let s := reach ⟨.uri, true, ⟨3, 0⟩, none⟩ 2 2 [.prod, .prod, .hand 1, .prod, .hand 0, .prod, .hand 1, .prod, .eoa 0, .eoa 1]
    (s.acquired, s.log.map (·.1), s.result, s.closed, s.ended) = ([0, 1, 0], [1, 0, 1], some .nil, true, [1, 0]) := by decide
-- … that state is stuck (hypothesis of C08_conc_complete)
example : ∀ l ∈ [Label.prod, .push, .hand 0, .hand 1, .done, .recv 0, .recv 1, .eoa 0, .eoa 1],
    ((reach ⟨.uri, true, ⟨3, 0⟩, none⟩ 2 2 [.prod, .prod, .hand 1, .prod, .hand 0, .prod, .hand 1, .prod, .eoa 0, .eoa 1]).next
      ⟨.uri, true, ⟨3, 0⟩, none⟩ 2 0 2 l).isNone = true := by decide
-- grpc/json (buffer 128), unbounded, cancelled while its buffer holds two ammo and nobody receives: Done branch, nil, closed
example : let s := reach ⟨.grpcJson, false, ⟨0, 0⟩, none⟩ 2 1 [.prod, .push, .prod, .push, .prod, .prod, .cancel, .done, .recv 0]
    (s.acquired, s.buf, s.result, s.closed, s.cancelled) = ([0], [1], some .nil, true, true) := by decide
-- hypotheses of C08_conc_returns: cancelled in the select / bound reached, not yet returned
example : let s := reach ⟨.httpScenario, false, ⟨0, 0⟩, none⟩ 3 1 [.prod, .push, .prod, .cancel]
    (s.result, s.cancelled, s.offering.isSome) = (none, true, true) := by decide
example : let s := reach ⟨.genericJson, false, ⟨0, 1⟩, none⟩ 2 1 [.prod, .push, .prod, .push]
    (s.result, Spec.C08.expected 0 1 2 == some s.sent) = (none, true) := by decide
-- round 2: a file with header / blank lines around and between its two entries, read line by line
example : (scanFile .eofCheck ⟨0, 2⟩ false [false, true, false, false, true, false] ⟨5, 2, 0⟩).1 = .ammo ∧
    (scanFile .eofCheck ⟨0, 2⟩ false [false, true, false, false, true, false] ⟨5, 2, 0⟩).2.1 = some 0 := by decide
example : (scanFile .topCheck ⟨0, 1⟩ false [true, false] ⟨1, 1, 0⟩).1 = .errNoAmmo ∨
    (scanFile .topCheck ⟨0, 1⟩ false [true, false] ⟨1, 1, 0⟩).1 = .unexpected ∨
    (scanFile .topCheck ⟨0, 1⟩ false [true, false] ⟨1, 1, 0⟩).1 = .errPass := by decide
example : (match loadLines .eofCheck false [false, true, true, false] 4 LDec.init [] with
    | some (.ok l) => l == [0, 1] | _ => false) = true := by decide
-- hypotheses of C08_conc_terminates / _fair_end: a bounded cell; a schedule that keeps making progress
example : Spec.C08.expected 3 0 2 = some 3 ∧ (6 * 3 + 2 + 4 = 24) := by decide
example : effSteps ⟨.uri, true, ⟨3, 0⟩, none⟩ 2 0 2 (Sys.init ⟨.uri, true, ⟨3, 0⟩, none⟩ 2)
    [.prod, .prod, .hand 1, .push, .prod, .hand 0, .prod, .hand 1, .prod, .eoa 0, .eoa 1, .eoa 1] = 10 := by decide
-- … and of C08_conc_cancel_terminates: a ctx-checking kind cancelled while its buffer holds ammo
example : (reach ⟨.httpScenario, false, ⟨0, 0⟩, none⟩ 3 1 ([.prod, .push, .prod, .push] ++ [.cancel])).buf.length = 2 ∧
    (reach ⟨.httpScenario, false, ⟨0, 0⟩, none⟩ 3 1 ([.prod, .push, .prod, .push] ++ [.cancel])).cancelled = true ∧
    Kind.ctxTop .httpScenario = true := by decide

-- round 3: grpc/json cancelled in its select; the coins true, true, false: two more ammo, then Run has returned (nil)
example : let s := reach ⟨.grpcJson, false, ⟨0, 0⟩, none⟩ 2 1 [.prod, .cancel]
    let e := coinRun ⟨.grpcJson, false, ⟨0, 0⟩, none⟩ 2 128 9 [true, true, false, true] s
    (s.cancelled, s.offering.isSome, s.sent, e.sent, e.result, heads [true, true, false, true]) = (true, true, 0, 2, some .nil, 2) := by decide
-- round 3: an I/O error in the middle of the second pass of a raw file read by two consumers, after a cancel …
example : let f := freach ⟨.raw, false, ⟨0, 0⟩, none⟩ 2 2 [.sys .prod, .sys (.hand 1), .sys .prod, .sys (.hand 0), .sys .prod, .sys (.hand 1), .sys .cancel, .ioerr, .sys (.eoa 0)]
    (f.s.acquired, f.s.result, f.s.closed, f.faulted, f.s.ended) = ([0, 1, 0], some .errOther, true, true, [0]) := by decide
-- … hypotheses of C08_fault_returns: the loop of a grpc/json provider between two lines
example : let f := freach ⟨.grpcJson, false, ⟨0, 0⟩, none⟩ 3 1 [.sys .prod, .sys .push]
    (f.s.result, f.s.offering, f.s.ps.readsFile) = (none, none, true) := by decide
-- … the fault label is not enabled while preloaded ammo are replayed (no file operation any more)
example : ((freach ⟨.uri, true, ⟨0, 0⟩, none⟩ 2 1 [.sys .prod]).next ⟨.uri, true, ⟨0, 0⟩, none⟩ 2 0 1 .ioerr).isNone = true := by decide
-- … the deferred cleanup: a cancelled http run whose Close fails reports the fault; grpc/json drops it
example : finalClass .uri .canceled .fails = none ∧ finalClass .grpcJson .nil .fails = some .nil ∧
    finalClass .raw .nil .absent = some .nil ∧ (finishOf .jsonLines .canceled .fails).closesSink = true := by decide

/-! ## round 4: chosencases, data sources of the generic JSON provider, machine integers

"entries" of the property are the entries a pass delivers.  With a `chosencases` option (http kinds with and without
preload, grpc/json) these are the entries of the file whose tag is listed: `chosenOf n pick`, wherever they lie in the
file — also behind the first `limit` entries.  `Model.C08.runPick` runs the providers' loops with their filter over the
WHOLE file. -/

/-- **General form with a chosencases option**: every kind that has the option, every file of `n` entries, every list of
chosen entries that names at least one entry of the file, every limit, passes and cancellation point: the provider ends
within the model's fuel, consumers have acquired exactly the first `T` entries of the endlessly repeated list of the
CHOSEN entries in file order, `T` = what stops the run first (limit, passes × number of chosen entries, the cancel),
`Run` returns nil (Canceled only when the cancel is what stopped it), the sink is closed. -/
theorem C08_pick_run (inp : Input) (n : Nat) (pick : List Nat) (T : Nat) (hk : inp.kind.hasFilter = true)
    (hf : 0 < (chosenOf n pick).length)
    (hT : target inp.b.limit inp.b.passes (chosenOf n pick).length inp.cancelAt = some T) :
    ∃ o, runPick inp n pick = some o ∧ o.delivered = cycTake (chosenOf n pick) T ∧ o.sinkClosed = true ∧
      (o.run = .nil ∨ (o.run = .canceled ∧ inp.cancelAt = some T)) := by
  have hlen : (List.range n).length = n := List.length_range
  have hn : 0 < n := by
    cases n with
    | zero => simp [chosenOf] at hf
    | succ n => omega
  have tg := tgt_of_target _ _ _ _ _ hf hT
  have h := runFuelPick_spec inp (List.range n) (pickPred pick) T hk (by rw [hlen]; exact hn) hf tg
  rw [hlen] at h
  refine ⟨⟨cycTake (chosenOf n pick) T, kindEnd inp.kind inp.cancelAt T, true⟩, ?_, rfl, rfl, ?_⟩
  · unfold runPick; rw [hT]; exact h
  · simp only
    have hE : endRes inp.cancelAt T = .nil ∨ (endRes inp.cancelAt T = .canceled ∧ inp.cancelAt = some T) := by
      unfold endRes
      by_cases hc : cancelled inp.cancelAt T = true
      · right
        obtain ⟨c, hc1, hc2⟩ := (cancelled_true_iff _ _).mp hc
        have hle := tg.le_cancel c hc1
        have : c = T := by omega
        subst this
        exact ⟨by rw [if_pos hc], hc1⟩
      · left; rw [if_neg hc]
    cases hkd : inp.kind <;> simp [kindEnd, hE]

/-- **count with a chosencases option**: nobody cancels ⇒ exactly `min⁺(limit, passes × chosen entries)` ammo, the chosen
entries in file order over and over, `Run` = nil, sink closed — whatever the position of the chosen entries in the file
(e.g. all of them behind the first `limit` entries) and whatever `preload` says. -/
theorem C08_pick_count (k : Kind) (preload : Bool) (b : Bounds) (n : Nat) (pick : List Nat) (m : Nat)
    (hk : k.hasFilter = true) (hf : 0 < (chosenOf n pick).length)
    (hm : Spec.C08.expected b.limit b.passes (chosenOf n pick).length = some m) :
    ∃ o, runPick ⟨k, preload, b, none⟩ n pick = some o ∧ o.delivered = cycTake (chosenOf n pick) m ∧
      o.delivered.length = m ∧ o.run = .nil ∧ o.sinkClosed = true := by
  rw [expected_eq_target _ _ _ hf] at hm
  obtain ⟨o, h1, h2, h3, h4⟩ := C08_pick_run ⟨k, preload, b, none⟩ n pick m hk hf hm
  refine ⟨o, h1, h2, by rw [h2, length_cycTake _ _ hf], ?_, h3⟩
  rcases h4 with h | ⟨_, h⟩
  · exact h
  · simp at h

/-- **preload does not matter** (with or without a chosencases option, any cancellation point): the same ammo, the same
result of `Run` -/
theorem C08_pick_preload (k : Kind) (b : Bounds) (cancelAt : Option Nat) (n : Nat) (pick : List Nat) (T : Nat)
    (hk : k.hasFilter = true) (hf : 0 < (chosenOf n pick).length)
    (hT : target b.limit b.passes (chosenOf n pick).length cancelAt = some T) :
    runPick ⟨k, true, b, cancelAt⟩ n pick = runPick ⟨k, false, b, cancelAt⟩ n pick := by
  have hlen : (List.range n).length = n := List.length_range
  have hn : 0 < n := by
    cases n with
    | zero => simp [chosenOf] at hf
    | succ n => omega
  have tg := tgt_of_target _ _ _ _ _ hf hT
  have h1 := runFuelPick_spec ⟨k, true, b, cancelAt⟩ (List.range n) (pickPred pick) T hk (by rw [hlen]; exact hn) hf tg
  have h2 := runFuelPick_spec ⟨k, false, b, cancelAt⟩ (List.range n) (pickPred pick) T hk (by rw [hlen]; exact hn) hf tg
  rw [hlen] at h1 h2
  unfold runPick
  simp only [hT]
  exact h1.trans h2.symm

/-- a chosencases option that lists every entry is no filter: `runPick` is `run` -/
theorem C08_pick_all (inp : Input) (n : Nat) (pick : List Nat) (T : Nat) (hk : inp.kind.hasFilter = true) (hn : 0 < n)
    (hall : ∀ i, i < n → pick.contains i = true)
    (hT : target inp.b.limit inp.b.passes n inp.cancelAt = some T) :
    runPick inp n pick = run inp n := by
  have hch : chosenOf n pick = List.range n := by
    unfold chosenOf
    apply List.filter_eq_self.mpr
    intro i hi
    exact hall i (List.mem_range.mp hi)
  have hlen : (List.range n).length = n := List.length_range
  have hf : 0 < (chosenOf n pick).length := by rw [hch, hlen]; exact hn
  have hT' : target inp.b.limit inp.b.passes (chosenOf n pick).length inp.cancelAt = some T := by rw [hch, hlen]; exact hT
  have tg := tgt_of_target _ _ _ _ _ hf hT'
  have h1 := runFuelPick_spec inp (List.range n) (pickPred pick) T hk (by rw [hlen]; exact hn) hf tg
  have hf0 : 0 < ((List.range n).filter (fun _ => true)).length := by rw [filter_const_true, hlen]; exact hn
  have tg0 : Tgt inp.b.limit inp.b.passes ((List.range n).filter (fun _ => true)).length inp.cancelAt T := by
    rw [filter_const_true, hlen]; exact tgt_of_target _ _ _ _ _ hn hT
  have h2 := runFuel_spec inp (List.range n) (fun _ => true) T (by rw [hlen]; exact hn) hf0 (fun _ => rfl) tg0
  rw [filter_const_true] at h2
  unfold runPick run
  rw [hT', hT]
  simp only
  have e : (List.range n).filter (pickPred pick) = List.range n := hch
  rw [e] at h1
  rw [hch]
  rw [hlen] at h1 h2 ⊢
  rw [h1, h2]

/-- **Spec holds of the model** for the chosencases cells the harness generates (cap > the expected count of a bounded
cell, cap ≥ 1): `n` of the Spec's cell = the number of chosen entries, `fileN` = the entries of the file -/
theorem C08_pick_spec_holds (k : Kind) (preload : Bool) (limit passes n cap : Nat) (pick : List Nat)
    (hk : k.hasFilter = true) (hf : 0 < (chosenOf n pick).length) (hcap : 0 < cap)
    (hbig : ∀ m, Spec.C08.expected limit passes (chosenOf n pick).length = some m → m < cap) :
    Spec.C08.holds { limit, passes, n := (chosenOf n pick).length, cap, fileN := n }
      (Drv.C08.obsOf cap 0 (runPick ⟨k, preload, ⟨limit, passes⟩, some cap⟩ n pick)) = true := by
  cases hE : Spec.C08.expected limit passes (chosenOf n pick).length with
  | none =>
    have h00 : limit = 0 ∧ passes = 0 := by
      unfold Spec.C08.expected at hE
      cases limit <;> cases passes <;> simp_all
    obtain ⟨rfl, rfl⟩ := h00
    obtain ⟨o, h1, h2, h3, h4⟩ := C08_pick_run ⟨k, preload, ⟨0, 0⟩, some cap⟩ n pick cap hk hf (by simp [target])
    have hl : o.delivered.length = cap := by rw [h2, length_cycTake _ _ hf]
    rw [h1]
    rcases h4 with h4 | ⟨h4, _⟩ <;>
      simp [Drv.C08.obsOf, Spec.C08.holds, Spec.C08.countOk, Spec.C08.want, Spec.C08.wantCut, Spec.C08.bounded, hE, hl, hcap,
        Spec.C08.returnsOk, Spec.C08.runOk, Spec.C08.endOk, Spec.C08.spinOk, h3, h4, Drv.C08.classOf]
  | some m =>
    have hlt := hbig m hE
    have hT : target limit passes (chosenOf n pick).length (some cap) = some (min cap m) :=
      target_cancel _ _ _ _ _ (by rw [← expected_eq_target _ _ _ hf]; exact hE)
    obtain ⟨o, h1, h2, h3, h4⟩ := C08_pick_run ⟨k, preload, ⟨limit, passes⟩, some cap⟩ n pick (min cap m) hk hf hT
    have hmin : min cap m = m := Nat.min_eq_right (by omega)
    have hl : o.delivered.length = m := by rw [h2, length_cycTake _ _ hf, hmin]
    have hnil : o.run = .nil := by
      rcases h4 with h | ⟨_, h⟩
      · exact h
      · simp [hmin] at h; omega
    rw [h1]
    have hnc : ¬ cap ≤ m := by omega
    have hc0 : cap ≠ 0 := by omega
    simp [Drv.C08.obsOf, Spec.C08.holds, Spec.C08.countOk, Spec.C08.want, Spec.C08.wantCut, Spec.C08.bounded, hE, hl, hnc,
      Spec.C08.returnsOk, Spec.C08.runOk, Spec.C08.endOk, Spec.C08.spinOk, hnil, h3, Drv.C08.classOf, hc0, hmin]

/-! ### data sources of the generic JSON provider

`DecodeProvider.Run` reads its data source through `ioutil2.NewMultiPassReader`, which needs a source that can `Seek`.
What `OpenSource` of each source of core/datasource hands out is REGENERATED (`Gen.ProvLoops.srcOpensFile / Inline / Buffer /
Reader`, by classifying with go/types what every `return` of the method hands out; `Bridge.ProvLoops.srcOpens_eq` proves it
equal to `Model.C08.opensOf`), and so is the fallback of `NewMultiPassReader` for a source without Seek (`mprOnce`, bridged to
`Model.C08.effPasses` by `mprOnce_eq`). -/

/-- the property's count clause for the generic JSON provider over a data source of kind `k` -/
def C08_src_statement : Prop :=
  ∀ (k : SrcKind) (b : Bounds) (n m : Nat), 0 < n → Spec.C08.expected b.limit b.passes n = some m →
    ∃ o, runSrc k ⟨.genericJson, false, b, none⟩ n = some o ∧ o.delivered = cyc n m ∧ o.run = .nil ∧ o.sinkClosed = true

/-- **every source that can be rewound** — a file, inline data (`type: inline`), a reader that can Seek with or without a
Close of its own — behaves like the file source all the other theorems are about: `runSrc` IS `run`. -/
theorem C08_src_partial (k : SrcKind) (hk : k ≠ .readCloser ∧ k ≠ .reader ∧ k ≠ .buffer) (b : Bounds) (n m : Nat) (hn : 0 < n)
    (hm : Spec.C08.expected b.limit b.passes n = some m) :
    runSrc k ⟨.genericJson, false, b, none⟩ n = run ⟨.genericJson, false, b, none⟩ n ∧
    ∃ o, runSrc k ⟨.genericJson, false, b, none⟩ n = some o ∧ o.delivered = cyc n m ∧ o.run = .nil ∧ o.sinkClosed = true := by
  have hs := runSrc_seekable k ((seekable_iff k).mpr hk) ⟨.genericJson, false, b, none⟩ rfl n
  refine ⟨hs, ?_⟩
  rw [hs]
  exact C08_count .genericJson false b n m hn hm

/-- a source that cannot be rewound (a ReadCloser without Seek, a plain io.Reader, a bytes.Buffer) is read ONCE: `min⁺(limit, n)` ammo whatever
`passes` says; the run still ends cleanly -/
theorem C08_src_once (k : SrcKind) (hk : k = .readCloser ∨ k = .reader ∨ k = .buffer) (b : Bounds) (n m : Nat) (hn : 0 < n)
    (hm : Spec.C08.expected b.limit 1 n = some m) :
    ∃ o, runSrc k ⟨.genericJson, false, b, none⟩ n = some o ∧ o.delivered = cyc n m ∧ o.run = .nil ∧ o.sinkClosed = true := by
  have hs : k.seekable = false := by rcases hk with rfl | rfl | rfl <;> rfl
  unfold runSrc effPasses
  rw [hs]
  exact C08_count .genericJson false ⟨b.limit, 1⟩ n m hn hm

/-- … so the count clause is FALSE for such a source: one entry, `passes: 2` — two ammo asked for, one delivered -/
theorem C08_src_counterexample : ¬ C08_src_statement := by
  intro h
  obtain ⟨o, h1, h2, _⟩ := h .reader ⟨0, 2⟩ 1 2 (by omega) (by decide)
  have : (runSrc .reader ⟨.genericJson, false, ⟨0, 2⟩, none⟩ 1).map (·.delivered) = some (cyc 1 2) := by
    rw [h1]; simp [h2]
  revert this
  decide

/-! ### scenario weights

The "entries" of a scenario file are what a pass of the scenario provider replays: scenario `i` in file order `weight_i / g`
times in a row (`Model.C08.spread`, `g` = gcd of the weights, weight 0 = 1). -/

/-- **count with scenario weights**: every weight vector of a non-empty scenario file, every limit and passes: exactly
`min⁺(limit, passes × entries of a pass)` ammo, the spread list over and over — the k-th ammo is scenario
`(spread ws)[k mod entries]` —, `Run` = nil, sink closed -/
theorem C08_weights_count (k : Kind) (b : Bounds) (ws : List Nat) (hws : ws ≠ []) (m : Nat)
    (hm : Spec.C08.expected b.limit b.passes (spread ws).length = some m) :
    ∃ o, runWeights ⟨k, false, b, none⟩ ws = some o ∧
      o.delivered = (List.range m).map (fun i => (spread ws).getD (i % (spread ws).length) 0) ∧
      o.delivered.length = m ∧ o.run = .nil ∧ o.sinkClosed = true := by
  have hn : 0 < (spread ws).length := by
    have := (length_spread ws).2
    have : 0 < ws.length := by cases ws with | nil => exact absurd rfl hws | cons a l => simp
    omega
  obtain ⟨o, h1, h2, h3, h4⟩ := C08_count k false b _ m hn hm
  refine ⟨{ o with delivered := o.delivered.map fun j => (spread ws).getD j 0 }, ?_, ?_, ?_, h3, h4⟩
  · simp [runWeights, h1]
  · simp [h2, cyc, List.map_map, Function.comp_def]
  · simp [h2, cyc]

/-- **what a pass is made of**: it has `Σ weight_i / g` entries, at least one per scenario, and scenario `j` occurs exactly
`weight_j / g` times in it (a weight 0 counting as 1) — in particular equal weights give one entry each, whatever the
common value -/
theorem C08_weights_share (ws : List Nat) (j : Nat) (hj : j < ws.length) :
    (spread ws).length = (spreadCounts ws).sum ∧ ws.length ≤ (spread ws).length ∧
    (spread ws).count j = (if ws.getD j 0 = 0 then 1 else ws.getD j 0) / gcdList (normWeights ws) ∧
    0 < (spread ws).count j := by
  have hc : (spread ws).count j = (spreadCounts ws).getD j 0 := by
    have := count_spreadFrom 0 (spreadCounts ws) j
    simpa [spread] using this
  have hlen : (spreadCounts ws).length = ws.length := by simp [spreadCounts, normWeights]
  have hget : (spreadCounts ws).getD j 0 = (if ws.getD j 0 = 0 then 1 else ws.getD j 0) / gcdList (normWeights ws) := by
    simp [spreadCounts, normWeights, List.getD_eq_getElem?_getD, List.getElem?_map, List.getElem?_eq_getElem hj]
  refine ⟨(length_spread ws).1, (length_spread ws).2, by rw [hc, hget], ?_⟩
  rw [hc]
  have hmem : (spreadCounts ws).getD j 0 ∈ spreadCounts ws := by
    rw [List.getD_eq_getElem?_getD, List.getElem?_eq_getElem (by rw [hlen]; exact hj)]
    exact List.getElem_mem _
  exact spreadCounts_pos ws _ hmem

-- non-vacuity: weights 2,4,6 (gcd 2: a pass is 0,1,1,2,2,2), limit 8, one and a half passes
example : spread [2, 4, 6] = [0, 1, 1, 2, 2, 2] ∧ spread [0, 2] = [0, 1, 1] ∧ spread [5] = [0] ∧ spread [2, 2] = [0, 1] := by decide
example : (runWeights ⟨.httpScenario, false, ⟨8, 2⟩, none⟩ [2, 4, 6]).map (fun o => (o.delivered, o.run, o.sinkClosed))
    = some ([0, 1, 1, 2, 2, 2, 0, 1], .nil, true) := by decide

/-! ### machine integers

limit, passes and the counters of the replay loops are Go `uint`s; `Model.C08.replayStepU` is the loop body of
runPreloaded / scenario `Run` over `UInt64` with modular arithmetic. -/

/-- **no wrap**: for EVERY 64-bit limit, passes and length and every counter below 2^64 - 1 the loop body over machine
integers does what the loop body over `Nat` does (`replayStepN`, bridged to the regenerated `runPreloadedStep` /
`scenarioStep`): the `Nat` models are right for all values of the options, "practically unbounded" ones included. -/
theorem C08_replay_no_wrap (passes limit length ammoNum : UInt64) (c : Bool) (hinc : ammoNum.toNat + 1 < 2 ^ 64) :
    actToNat (replayStepU passes limit length c ammoNum)
      = replayStepN passes.toNat limit.toNat length.toNat c ammoNum.toNat :=
  replayStepU_eq passes limit length ammoNum c hinc

/-- **no wrap in the streaming decoders**: one round of the reading loop of uri / uripost / raw `Scan` (`roundEof`) and of
jsonline `Scan` (`roundTop`) — the functions the regenerated rounds are bridged to — and the limit check that opens every
`Scan` and every iteration of runFullScan, written over Go's 64-bit `uint` (`d.ammoNum`, `d.passNum`, `Limit`, `Passes`),
are the `Nat` ones for EVERY value of the options and all counters that have not themselves wrapped.  With
`C08_replay_no_wrap` this covers every loop of the `uint` kinds (`Bridge.ProvLoops.optTypes_eq`: the option types are
regenerated); the `int` kinds (grpc/json, generic JSON) compare counters that only grow by one with options below 2^63. -/
theorem C08_scan_no_wrap (passes limit ammoNum passNum : UInt64) (c : Bool) (rd : Rd)
    (ha : ammoNum.toNat + 1 < 2 ^ 64) (hp : passNum.toNat + 1 < 2 ^ 64) :
    roundEofU passes c rd ammoNum passNum = roundEof passes.toNat c rd ammoNum.toNat passNum.toNat ∧
    roundTopU passes c rd ammoNum passNum = roundTop passes.toNat c rd ammoNum.toNat passNum.toNat ∧
    limitReachedU limit ammoNum = decide (limit.toNat ≠ 0 ∧ limit.toNat ≤ ammoNum.toNat) :=
  ⟨roundEofU_eq passes ammoNum passNum c rd ha hp, roundTopU_eq passes ammoNum passNum c rd ha hp, limitReachedU_eq limit ammoNum⟩

-- non-vacuity: passes = 2^63 at the end of the first pass: the pass is counted, the file is rewound
example : roundEofU 9223372036854775808 false .eof 3 0 = .rewind 3 1 ∧ limitReachedU 9223372036854775808 5 = false := by decide

/-- the same claim for the loop with a precomputed pass bound `passLimit := Passes * length` -/
def C08_replay_product_statement : Prop :=
  ∀ (passes limit length ammoNum : UInt64) (c : Bool), ammoNum.toNat + 1 < 2 ^ 64 →
    actToNat (replayStepProductU passes limit length c ammoNum)
      = replayStepN passes.toNat limit.toNat length.toNat c ammoNum.toNat

/-- … is FALSE: passes = 2^63, two entries, limit 5 — the product wraps to 0 and the first iteration reports the pass
limit with nothing sent, where the division form sends entry 0 -/
theorem C08_replay_product_counterexample : ¬ C08_replay_product_statement := by
  intro h
  have := congrArg (fun a => match a with | Act.offer _ _ => true | _ => false) (h 9223372036854775808 5 2 0 false (by decide))
  revert this
  decide

-- round 4 non-vacuity: the chosen entries all lie behind the first `limit` entries of the file, preload on and off
example : (runPick ⟨.uri, true, ⟨3, 1⟩, none⟩ 6 [3, 4, 5]).map (fun o => (o.delivered, o.run, o.sinkClosed)) = some ([3, 4, 5], .nil, true) ∧
    (runPick ⟨.uri, false, ⟨3, 1⟩, none⟩ 6 [3, 4, 5]).map (fun o => (o.delivered, o.run, o.sinkClosed)) = some ([3, 4, 5], .nil, true) := by decide
example : (runPick ⟨.grpcJson, false, ⟨5, 0⟩, none⟩ 4 [1, 3]).map (fun o => (o.delivered, o.run)) = some ([1, 3, 1, 3, 1], .nil) := by decide
example : Kind.hasFilter .jsonArray = true ∧ 0 < (chosenOf 4 [3]).length ∧ Spec.C08.expected 3 0 (chosenOf 4 [3]).length = some 3 := by decide
example : (runSrc .inline ⟨.genericJson, false, ⟨5, 3⟩, none⟩ 2).map (·.delivered) = some [0, 1, 0, 1, 0] ∧
    (runSrc .buffer ⟨.genericJson, false, ⟨5, 3⟩, none⟩ 2).map (·.delivered) = some [0, 1] := by decide
example : SrcKind.seekable .readSeekCloser = true ∧ SrcKind.seekable .reader = false := by decide

/-! ## round 6: the size of an entry and the `maxammosize` option -/

/-- **every line that fits is read, in every pass** — grpc/json over a file whose lines have ANY lengths below the token
limit the configuration gives its scanner (`maxammosize`, or bufio.MaxScanTokenSize when it is not set; the limit is
REGENERATED pass by pass, `Bridge.ProvLoops.grpcScanMax_eq`) is the cell without sizes — with and without a chosencases
option, for every limit, passes and cancellation point: all the theorems about `run` / `runPick` hold of it. -/
theorem C08_size_run (inp : Input) (hk : inp.kind = .grpcJson) (sizes : List Nat) (mas : Nat)
    (hfit : ∀ len, len ∈ sizes → len < tokMax mas) :
    runGrpcSz inp sizes mas none = run inp sizes.length ∧
    ∀ pick, runGrpcSz inp sizes mas (some pick) = runPick inp sizes.length pick :=
  ⟨runGrpcSz_eq_run inp hk sizes mas hfit, fun pick => runGrpcSz_eq_runPick inp hk sizes mas pick hfit⟩

/-- **count with sizes**: a non-empty grpc/json file whose lines fit, any limit and passes: exactly `min⁺(limit, passes·n)`
ammo in file order, `Run` = nil, sink closed — however large the lines and the option are -/
theorem C08_size_count (b : Bounds) (sizes : List Nat) (mas m : Nat) (hn : sizes ≠ [])
    (hfit : ∀ len, len ∈ sizes → len < tokMax mas)
    (hm : Spec.C08.expected b.limit b.passes sizes.length = some m) :
    ∃ o, runGrpcSz ⟨.grpcJson, false, b, none⟩ sizes mas none = some o ∧ o.delivered = cyc sizes.length m ∧
      o.run = .nil ∧ o.sinkClosed = true := by
  have hpos : 0 < sizes.length := by cases sizes with | nil => exact absurd rfl hn | cons a l => simp
  rw [(C08_size_run ⟨.grpcJson, false, b, none⟩ rfl sizes mas hfit).1]
  exact C08_count .grpcJson false b sizes.length m hpos hm

/-- **a line that does not fit ends `Run` at once with the scanner's error** (no retry, no spin, before the limit is
looked at), whatever the state of the loop -/
theorem C08_size_unreadable {α : Type} (file : List α) (chosen : α → Bool) (b : Bounds) (cancelAt : Option Nat)
    (rd : Nat → Nat → Bool) (fuel : Nat) (s : GrpcSt) (out : List α)
    (hpos : s.pos < file.length) (hrd : rd s.passNum s.pos = false) :
    grpcLoopSz file chosen b cancelAt rd (fuel + 1) s out = some (out, .errOther) :=
  grpcLoopSz_unreadable file chosen b cancelAt rd fuel s out hpos hrd

/-- **what is readable does not depend on the pass** — for every kind, option value, file and position: the reader of a
later pass reads exactly the lines the reader of the first pass reads; uri reads every line a 64-bit machine can hold,
the readers without a token limit (uripost, raw, http/json, the generic JSON provider) every line -/
theorem C08_size_every_pass (k : Kind) (mas : Nat) (sizes : List Nat) (p i : Nat) :
    readable k mas sizes p i = readable k mas sizes 1 i ∧
    ((∀ len, len ∈ sizes → len < maxInt) → readable .uri mas sizes p i = true) ∧
    (k ≠ .grpcJson ∧ k ≠ .uri → readable k mas sizes p i = true) :=
  ⟨rfl, fun h => readable_uri mas sizes h p i, fun h => readable_unlimited k h mas sizes p i⟩

/-- the line-level reader of `C08_scan_lines` over lines with lengths that all fit is the reader without sizes: the
theorems about `scanFile` / `loadLines` hold of sized files -/
theorem C08_size_lines (f : Lines) (fits : Nat → Bool) (hfit : ∀ i, i < f.length → fits i = true) (pos : Nat) :
    rdAtSz f fits pos = rdAt f pos := rdAtSz_eq f fits hfit pos

/-- the count clause for a provider whose scanner gets the configured buffer in the FIRST pass only (the set-up hoisted
out of the pass loop, a plain `bufio.NewScanner` after the seek) -/
def C08_size_first_only_statement : Prop :=
  ∀ (b : Bounds) (sizes : List Nat) (mas m : Nat), sizes ≠ [] → (∀ len, len ∈ sizes → len < tokMax mas) →
    Spec.C08.expected b.limit b.passes sizes.length = some m →
    ∃ out, grpcLoopSz (List.range sizes.length) (fun _ => true) b none
        (fun p i => match sizes[i]? with | some len => fitsTok (lineMaxFirstOnly mas p) len | none => true)
        (fuelFor m sizes.length sizes.length) GrpcSt.init [] = some (out, .nil) ∧ out = cyc sizes.length m

/-- … is FALSE: one line of 70000 bytes, `maxammosize: 100000`, `passes: 2` — the first pass delivers it, the second
ends with bufio.ErrTooLong -/
theorem C08_size_first_only_counterexample : ¬ C08_size_first_only_statement := by
  intro h
  obtain ⟨out, h1, _⟩ := h ⟨0, 2⟩ [70000] 100000 2 (by simp) (by simp [tokMax]) (by decide)
  have e : grpcLoopSz (List.range [70000].length) (fun _ => true) ⟨0, 2⟩ none
      (fun p i => match [70000][i]? with | some len => fitsTok (lineMaxFirstOnly 100000 p) len | none => true)
      (fuelFor 2 [70000].length [70000].length) GrpcSt.init [] = some ([0], .errOther) := by decide
  rw [e] at h1
  cases h1

-- non-vacuity: two lines of 70000 and 60 bytes, maxammosize 100000, three passes, limit 5
example : (runGrpcSz ⟨.grpcJson, false, ⟨5, 3⟩, none⟩ [70000, 60] 100000 none).map (fun o => (o.delivered, o.run, o.sinkClosed))
    = some ([0, 1, 0, 1, 0], .nil, true) ∧ (∀ len, len ∈ [70000, 60] → len < tokMax 100000) := by decide
-- the same file without the option: the first line is refused, `Run` reports it, nothing delivered; big line second: one ammo
example : (runGrpcSz ⟨.grpcJson, false, ⟨5, 3⟩, none⟩ [70000, 60] 0 none).map (fun o => (o.delivered, o.run, o.sinkClosed))
    = some ([], .errOther, true) ∧
    (runGrpcSz ⟨.grpcJson, false, ⟨1, 0⟩, none⟩ [60, 70000] 0 none).map (fun o => (o.delivered, o.run)) = some ([0], .errOther) := by decide
-- hypotheses of C08_size_unreadable
example : (GrpcSt.init).pos < (List.range 2).length ∧ readable .grpcJson 0 [70000, 60] GrpcSt.init.passNum GrpcSt.init.pos = false := by decide

/-! ## round 6: composition with the regenerated `config.SpreadNames`; the Spec on cut cells -/

/-- **composition with the regenerated `config.SpreadNames`** (gen area `c15scen`, owned by C15, imported read-only and
regenerated in C08's runs too): for EVERY weight vector of two or more scenarios the divisor the Go code computes
(`math.GCDM` over the effective weights, regenerated statement by statement, bridged by `Bridge.C15Scen.GCDM_eq`) is the
gcd `Model.C08.spreadCounts` divides by, and the number of copies of a scenario of weight `w` it puts into the ring
(`int(weight / div)` over the effective weight, 0 counting as 1) is the count `Model.C08.spreadCounts` gives it — so
`C08_weights_count` / `C08_weights_share` are about what the code builds.  (One scenario: `spreadSingle` = one copy.) -/
theorem C08_weights_regenerated (ws : List Nat) (h2 : 2 ≤ ws.length) :
    Gen.C15Scen.spreadDiv (ws.map fun (w : Nat) => Gen.C15Scen.spreadEffWeight (w : Int)) = some ((gcdList (normWeights ws) : Nat) : Int) ∧
    (spreadCounts ws).map (fun (c : Nat) => (c : Int)) =
      ws.map (fun (w : Nat) => Gen.C15Scen.spreadCnt (Gen.C15Scen.spreadEffWeight (w : Int)) ((gcdList (normWeights ws) : Nat) : Int)) ∧
    Gen.C15Scen.spreadSingle = (1, 1) := by
  have hmap : (ws.map fun (w : Nat) => Gen.C15Scen.spreadEffWeight (w : Int)) = (normWeights ws).map (fun (w : Nat) => (w : Int)) := by
    simp [normWeights, List.map_map, Function.comp_def, effWeight_cast]
  refine ⟨?_, ?_, rfl⟩
  · unfold Gen.C15Scen.spreadDiv
    rw [hmap, Bridge.C15Scen.GCDM_eq, Proofs.C15.GCDM_nat (normWeights ws) ?_ (by simpa [normWeights] using h2), gcdList_eq_c15]
    intro w hw
    simp only [normWeights, List.mem_map] at hw
    obtain ⟨v, _, rfl⟩ := hw
    split <;> omega
  · simp only [spreadCounts, normWeights, List.map_map, Function.comp_def]
    apply List.map_congr_left
    intro w _
    rw [effWeight_cast]
    rfl


/-- **Spec holds of Model.run, cut cells** — the drain cells the harness cuts at or below the bound (`cap ≤ M`: the
consumer that makes the `cap`-th acquisition cancels): exactly `cap` acquired, `Run` = nil or Canceled, sink closed -/
theorem C08_spec_holds_cut (k : Kind) (preload : Bool) (limit passes n cap m : Nat) (hn : 0 < n) (hcap : 0 < cap)
    (hE : Spec.C08.expected limit passes n = some m) (hle : cap ≤ m) :
    Spec.C08.holds { limit, passes, n, cap }
      (Drv.C08.obsOf cap 0 (run ⟨k, preload, ⟨limit, passes⟩, some cap⟩ n)) = true := by
  obtain ⟨o, h1, h2, h3, h4⟩ := C08_cancel k preload ⟨limit, passes⟩ n m cap hn hE
  have hmin : min cap m = cap := Nat.min_eq_left hle
  have hl : o.delivered.length = cap := by rw [h2]; simp [cyc, hmin]
  rw [h1]
  have hc0 : cap ≠ 0 := by omega
  rcases h3 with h3 | h3 <;>
    simp [Drv.C08.obsOf, Spec.C08.holds, Spec.C08.countOk, Spec.C08.want, Spec.C08.wantCut, Spec.C08.bounded, hE, hl, hle, hcap, hc0, hmin,
      Spec.C08.returnsOk, Spec.C08.runOk, Spec.C08.endOk, Spec.C08.spinOk, h3, h4, Drv.C08.classOf, Spec.C08.opsBound]

/-- **Spec holds of Model.run** for EVERY drain cell with a cap (cut or not, bounded or not) -/
theorem C08_spec_holds_all (k : Kind) (preload : Bool) (limit passes n cap : Nat) (hn : 0 < n) (hcap : 0 < cap) :
    Spec.C08.holds { limit, passes, n, cap }
      (Drv.C08.obsOf cap 0 (run ⟨k, preload, ⟨limit, passes⟩, some cap⟩ n)) = true := by
  cases hE : Spec.C08.expected limit passes n with
  | none => exact C08_spec_holds k preload limit passes n cap hn hcap (by intro m hm; rw [hE] at hm; cases hm)
  | some m =>
    by_cases hle : cap ≤ m
    · exact C08_spec_holds_cut k preload limit passes n cap m hn hcap hE hle
    · exact C08_spec_holds k preload limit passes n cap hn hcap (by intro m' hm; rw [hE] at hm; cases hm; omega)

example : Spec.C08.expected 5 2 3 = some 5 ∧ (3 : Nat) ≤ 5 := by decide
/-! ## round 6, audit: non-vacuity of the fairness hypothesis -/

/-- **`C08_conc_fair_end` is not vacuous**: a schedule that makes minimal progress exists -/
theorem C08_conc_fair_end_nonvacuous : Progressing fairInp 2 fairInp.kind.chanCap 2 fairSched := by
  have hstuck : Stuck fairInp 2 0 2 (stateAt fairInp 2 0 2 fairSched 10) :=
    stuck_of_done _ _ _ _ _ (by decide) (by decide) (by decide) (by decide)
  intro t hns
  by_cases ht : t < 10
  · have key : ∀ t, t < 10 → ∃ t', t' < 10 ∧ t ≤ t' ∧ fairSched t' ≠ .cancel ∧
        ((stateAt fairInp 2 0 2 fairSched t').next fairInp 2 0 2 (fairSched t')).isSome = true := by decide
    obtain ⟨t', _, h1, h2, h3⟩ := key t ht
    exact ⟨t', h1, h2, h3⟩
  · exfalso
    apply hns
    obtain ⟨j, rfl⟩ : ∃ j, t = 10 + j := ⟨t - 10, by omega⟩
    have : stateAt fairInp 2 fairInp.kind.chanCap 2 fairSched (10 + j) = stateAt fairInp 2 0 2 fairSched 10 := fairSched_const j
    rw [this]
    exact hstuck

end Pandora.Props.C08
