/-
C19 — No response from the target can abort or crash the run.

Theorems over `Pandora.Model.C19` (the REPAIRED behaviour: fixes/C19-substr-clamp.diff, fixes/C19-xpath-nodeset.diff)
and the decision trees of `Pandora.Model.C10`.  Quantified over ALL header values, modifier arguments, statuses,
bodies (every predicate the peer controls is a free function), error chains, step lists and ammo sequences.
-/
import Pandora.Proofs.C19

namespace Pandora.Props.C19
open Pandora.Model.C10 Pandora.Model.C19 Pandora.Proofs.C19

/-! ## nothing the peer sends makes response-processing code panic -/

/-- * `substr` with ANY integer arguments (negative, swapped, beyond the value) on ANY value slices within bounds;
* every modifier chain on every header value returns;
* every postprocessor list on every response returns `ok` or an error, never a panic (var/header, assert/response,
  var/jsonpath on unparsable JSON, var/xpath on any HTML and any expression type);
* the gRPC assertion on every status / missing message;
* hence a shot of ANY gun kind panics only in the documented fatal configuration. -/
theorem C19_no_panic :
    (∀ (α : Type) (start end_ : Int) (v : List α), (substr start end_ v).isOk = true) ∧
    (∀ (mods : List Modifier) (v : List Char), (applyChain mods v).isOk = true) ∧
    (∀ (r : Resp) (pps : List PP), runPPs r pps ≠ .panic) ∧
    (∀ (a : GrpcAssert) (code : Nat) (outNil : Bool) (has : String → Bool), assertGrpc a code outNil has ≠ .panic) ∧
    (∀ g : GunShot, g.documentedFatal = false → g.run.panicked = false) := by
  refine ⟨?_, ?_, runPPs_no_panic, assertGrpc_no_panic, ?_⟩
  · intro α a b v
    obtain ⟨r, hr⟩ := substr_ok a b v
    simp [hr, Checked.isOk]
  · intro mods v
    obtain ⟨r, hr⟩ := applyChain_ok mods v
    simp [hr, Checked.isOk]
  · intro g hg
    rw [run_panicked_iff, hg]

/-- The slice indices of the repaired `substr`, explicitly: `0 ≤ lo ≤ hi ≤ len` for all arguments and lengths. -/
theorem C19_substr_bounds (start end_ : Int) (len : Nat) :
    0 ≤ (substrBounds start end_ len).1 ∧ (substrBounds start end_ len).1 ≤ (substrBounds start end_ len).2 ∧
      (substrBounds start end_ len).2 ≤ (len : Int) :=
  substrBounds_valid start end_ len (by omega)

/-- The fix is conservative: whenever the closure as found returned a value, the repaired one returns the same. -/
theorem C19_substr_fix_conservative (α : Type) (start end_ : Int) (v r : List α)
    (h : substrUnclamped start end_ v = .ok r) : substr start end_ v = .ok r :=
  substr_fix_conservative start end_ v r h

/-! ## every response class yields a sample and the instance goes on -/

/-- what the single sample of a plain http shot must carry -/
def carries (reply : Reply) (s : Sample) : Prop :=
  match reply with
  | .full r => s.proto = r.status ∧ s.net = 0
  | .brokenBody st e => s.proto = st ∧ s.net = getErrno e
  | .noResponse e => s.proto = 0 ∧ s.net = getErrno e

/-- For EVERY sequence of ammo and EVERY behaviour of the target outside the documented fatal configuration:
the instance takes all ammo and finishes normally, the samples are exactly those of the individual shots;
a plain http shot yields exactly one sample carrying the received status or the failure code;
a scenario shot yields one sample per executed step (at least one when it has steps);
a gRPC shot yields one sample, a gRPC scenario one per executed call. -/
theorem C19_sample_and_continue :
    (∀ shots : List GunShot, (∀ g ∈ shots, g.documentedFatal = false) →
        (instanceRun (shots.map GunShot.run)).result = .finished ∧
        (instanceRun (shots.map GunShot.run)).shotsTaken = shots.length ∧
        (instanceRun (shots.map GunShot.run)).samples = (shots.map fun g => g.run.reports).flatten) ∧
    (∀ (h2 lacks : Bool) (cfg : AutoTagCfg) (tag : String) (id : Nat) (path : String) (reply : Reply),
        (h2 && lacks) = false →
        ∃ s, (GunShot.http h2 lacks cfg tag id path reply).run.reports = [s] ∧ carries reply s) ∧
    (∀ (scn : String) (steps : List (StepCfg × Reply)),
        (GunShot.scenario scn steps).run.reports.length
          = executedSteps (steps.map fun (c, r) => { name := c.name, outcome := stepOutcome c r }) ∧
        (steps ≠ [] → 1 ≤ (GunShot.scenario scn steps).run.reports.length)) ∧
    (∀ (tag : String) (o : GrpcOutcome), (GunShot.grpc tag o).run.reports.length = 1) ∧
    (∀ (scn : String) (calls : List (GrpcCallCfg × GrpcReply)),
        (GunShot.grpcScenario scn calls).run.reports.length
          = executedGrpcSteps (calls.map fun (c, r) => { tag := c.tag, outcome := grpcStepOutcome c r })) := by
  refine ⟨?_, ?_, ?_, ?_, ?_⟩
  · intro shots hs
    have h := instanceRun_all (shots.map GunShot.run) (by
      intro s hs'
      simp only [List.mem_map] at hs'
      obtain ⟨g, hg, rfl⟩ := hs'
      rw [run_panicked_iff, hs g hg])
    simpa [List.map_map, Function.comp_def] using h
  · intro h2 lacks cfg tag id path reply hf
    simp only [GunShot.run, hf]
    cases reply with
    | noResponse e =>
      exact ⟨{ tags := httpTag cfg tag path, id := id, proto := 0, net := getErrno e },
        by simp [Reply.httpOutcome, shootHttp], by simp [carries]⟩
    | brokenBody st e =>
      exact ⟨{ tags := httpTag cfg tag path, id := id, proto := st, net := getErrno e },
        by simp [Reply.httpOutcome, shootHttp], by simp [carries]⟩
    | full r =>
      exact ⟨{ tags := httpTag cfg tag path, id := id, proto := r.status, net := 0 },
        by simp [Reply.httpOutcome, shootHttp], by simp [carries]⟩
  · intro scn steps
    have hlen : (GunShot.scenario scn steps).run.reports.length
        = executedSteps (steps.map fun (c, r) => { name := c.name, outcome := stepOutcome c r }) := by
      simp only [GunShot.run]
      apply Proofs.C10.shootScenario_length
      intro s hs st
      simp only [List.mem_map] at hs
      obtain ⟨⟨c, r⟩, _, rfl⟩ := hs
      exact stepOutcome_no_panic c r st
    refine ⟨hlen, ?_⟩
    intro hne
    rw [hlen]
    cases steps with
    | nil => exact absurd rfl hne
    | cons p rest =>
      simp only [List.map_cons, executedSteps]
      split <;> omega
  · intro tag o
    simp [GunShot.run, shootGrpc]
  · intro scn calls
    simp only [GunShot.run]
    exact Proofs.C10.shootGrpcScenario_length _ _

/-! ## only the documented condition is fatal -/

/-- An instance run fails the pool ("shoot panic") if and only if some shot was the documented fatal configuration:
the http2 gun reaching a peer that does not speak HTTP/2. No status, header, body, JSON, HTML, truncation, reset,
refusal or timeout can do it. -/
theorem C19_only_documented_fatal (shots : List GunShot) :
    (instanceRun (shots.map GunShot.run)).result = .poolFailed ↔ ∃ g ∈ shots, g.documentedFatal = true := by
  rw [instanceRun_failed_iff]
  constructor
  · rintro ⟨s, hs, hp⟩
    simp only [List.mem_map] at hs
    obtain ⟨g, hg, rfl⟩ := hs
    exact ⟨g, hg, by rw [← run_panicked_iff]; exact hp⟩
  · rintro ⟨g, hg, hf⟩
    exact ⟨g.run, List.mem_map.mpr ⟨g, hg, rfl⟩, by rw [run_panicked_iff]; exact hf⟩

/-! ## the defects of the tree as found (what the two fixes repair) -/

/-- `substr(5)` on a 3-byte header value: the closure as found slices `in[3:5]` and panics. -/
theorem C19_substr_as_found_panics :
    substrUnclamped 5 0 ['a', 'b', 'c'] = .panic "slice bounds out of range" := by decide

/-- …and through the engine's eyes: with the code as found a RESPONSE (a short header value) — or a scalar xpath
expression on any response — panics inside `Shoot`, and the instance run fails the pool. -/
theorem C19_as_found_counterexample :
    (∃ (r : Resp) (pps : List PP), runPPsAsFound r pps = .panic) ∧
    (∀ r : Resp, runPPsAsFound r [.varXpath [.scalar]] = .panic) ∧
    (instanceRun [{ reports := [], panicked := true }]).result = .poolFailed := by
  refine ⟨⟨⟨200, fun _ => ['a', 'b', 'c'], 0, fun _ => false, false, fun _ => false⟩,
      [.varHeader [⟨"X-Val", some [.substr 5 0]⟩]], by decide⟩, ?_, by decide⟩
  intro r
  simp [runPPsAsFound, runPPAsFound, xpathUnchecked]

/-! ## non-vacuity -/

example : substr 5 0 ['a', 'b', 'c'] = .ok [] := by decide
example : substr (-2) 0 "abcdef".toList = .ok ['e', 'f'] := by decide
example : substr 5 3 "abcdefgh".toList = .ok ['d', 'e'] := by decide
example : substr (-100) 100 "abc".toList = .ok ['a', 'b', 'c'] := by decide
example : substr 0 (-100) "abc".toList = .ok [] := by decide
example : applyChain [.lower, .replace ['='] [], .substr 6 0] "Basic Ym9=".toList = .ok "ym9".toList := by decide
-- a scenario against a target whose second answer carries a short header: the step completes, the run goes on
example : (GunShot.scenario "s"
    [(⟨"a", false, []⟩, .full ⟨200, fun _ => [], 0, fun _ => false, false, fun _ => false⟩),
     (⟨"b", false, [.varHeader [⟨"X-Val", some [.substr 5 0]⟩]]⟩, .full ⟨404, fun _ => ['a','b','c'], 0, fun _ => false, false, fun _ => false⟩)]).run
    = { reports := [⟨"s.a", 0, 200, 0⟩, ⟨"s.b", 0, 404, 0⟩], panicked := false } := by decide
-- the documented fatal case
example : (GunShot.http true true ⟨false, 2, true⟩ "t" 1 "/" (.noResponse .other)).documentedFatal = true := rfl
example : (instanceRun [(GunShot.http true true ⟨false, 2, true⟩ "t" 1 "/" (.noResponse .other)).run]).result = .poolFailed := by decide
-- a refused connection is not fatal for the http2 gun
example : (GunShot.http true false ⟨false, 2, true⟩ "t" 1 "/" (.noResponse (.opError (.syscallError (.errno 111))))).run
    = { reports := [⟨"t", 1, 0, 111⟩], panicked := false } := by decide

end Pandora.Props.C19
