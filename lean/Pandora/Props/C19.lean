/-
C19 — No response from the target can abort or crash the run.

Theorems over `Pandora.Model.C19` (the behaviour of /repo HEAD, which contains the repairs adbe8d7 substr clamps and
4085816 xpath non-node-set) and the decision trees of `Pandora.Model.C10`.  Quantified over ALL header values,
modifier arguments, statuses, bodies (every predicate the peer controls is a free function), error chains, TLS
negotiation results, step lists, ammo sequences and numbers of instances.  `Pandora.Bridge.C19` (imported here, so
it is rebuilt on every check) ties the index arithmetic of `substr`, the size-operator table, the status
comparisons, `checkHTTP2` / `panicOnHTTP1Client.Do`, the `recover()` of `instance.Run` and the inventory of all
run-time panic sites of the anchored files to the CURRENT source.
-/
import Pandora.Proofs.C19
import Pandora.Proofs.C19Vars
import Pandora.Bridge.C19
import Pandora.Proofs.C19Run
import Pandora.Bridge.C19Run
import Pandora.Proofs.C19R6
import Pandora.Model.C02Sched

namespace Pandora.Props.C19
open Pandora.Model.C10 Pandora.Model.C19 Pandora.Proofs.C19

/-! ## nothing the peer sends makes response-processing code panic -/

/-- * `substr` with ANY integer arguments (negative, swapped, beyond the value) on ANY value slices within bounds,
  and the slice expression of the CURRENT source (`Gen.RespGuard.substrIdx`, regenerated statement by statement from
  the closure in var_header.go) is that `substr`;
* every modifier chain on every header value returns;
* every postprocessor list on every response returns `ok` or an error, never a panic (var/header, assert/response,
  var/jsonpath on unparsable JSON, var/xpath on any HTML and any expression type);
* the gRPC assertion on every status / missing message;
* hence a shot of ANY gun kind panics only in the documented fatal configuration. -/
theorem C19_no_panic :
    (∀ (α : Type) (start end_ : Int) (v : List α), (substr start end_ v).isOk = true) ∧
    (∀ (α : Type) (start end_ : Int) (v : List α),
        goSlice v (Gen.RespGuard.substrIdx start end_ v.length).1 (Gen.RespGuard.substrIdx start end_ v.length).2
          = substr start end_ v) ∧
    (∀ (mods : List Modifier) (v : List Char), (applyChain mods v).isOk = true) ∧
    (∀ (r : Resp) (pps : List PP), runPPs r pps ≠ .panic) ∧
    (∀ (a : GrpcAssert) (code : Nat) (outNil : Bool) (has : String → Bool), assertGrpc a code outNil has ≠ .panic) ∧
    (∀ g : GunShot, g.documentedFatal = false → g.run.panicked = false) := by
  refine ⟨?_, ?_, ?_, runPPs_no_panic, assertGrpc_no_panic, ?_⟩
  · intro α a b v
    obtain ⟨r, hr⟩ := substr_ok a b v
    simp [hr, Checked.isOk]
  · intro α a b v
    rw [Bridge.C19.substrIdx_eq]
    rfl
  · intro mods v
    obtain ⟨r, hr⟩ := applyChain_ok mods v
    simp [hr, Checked.isOk]
  · intro g hg
    rw [run_panicked_iff, hg]

/-- The slice indices of the repaired `substr`, explicitly: `0 ≤ lo ≤ hi ≤ len` for all arguments and lengths. -/
theorem C19_substr_bounds (start end_ : Int) (len : Nat) :
    0 ≤ (substrBounds start end_ len).1 ∧ (substrBounds start end_ len).1 ≤ (substrBounds start end_ len).2 ∧
      (substrBounds start end_ len).2 ≤ (len : Int) :=
  substrBounds_valid start end_ len (by omega)

/-- The unbounded-`Int` reading of the closure is exact for Go's 64-bit `int`: the only additions are `l + start` with
`start < 0` and `l + end` with `end ≤ 0`, and `0 ≤ l`; for all arguments in the `int64` range every intermediate value
stays in that range (no wrap-around), so `C19_substr_bounds` speaks about the machine arithmetic too. -/
theorem C19_substr_no_overflow (start end_ l : Int)
    (hs : -(2 ^ 63) ≤ start ∧ start < 2 ^ 63) (he : -(2 ^ 63) ≤ end_ ∧ end_ < 2 ^ 63) (hl : 0 ≤ l ∧ l < 2 ^ 63) :
    (-(2 ^ 63) ≤ adjStart start l ∧ adjStart start l < 2 ^ 63) ∧ (-(2 ^ 63) ≤ adjEnd end_ l ∧ adjEnd end_ l < 2 ^ 63) := by
  unfold adjStart adjEnd
  constructor <;> split <;> omega

/-- The fix is conservative: whenever the closure as found returned a value, the repaired one returns the same. -/
theorem C19_substr_fix_conservative (α : Type) (start end_ : Int) (v r : List α)
    (h : substrUnclamped start end_ v = .ok r) : substr start end_ v = .ok r :=
  substr_fix_conservative start end_ v r h

/-! ## every response class yields a sample and the instance goes on -/

/-- what the single sample of a plain http shot must carry -/
def carries (reply : Reply) (s : Sample) : Prop :=
  match reply with
  | .full r => s.proto = r.status ∧ s.net = 0
  | .brokenBody st e => s.proto = st ∧ s.net = getErrno e
  | .noResponse e => s.proto = 0 ∧ s.net = getErrno e

/-- For EVERY sequence of ammo and EVERY behaviour of the target outside the documented fatal configuration:
the instance takes all ammo and finishes normally, the samples are exactly those of the individual shots;
a plain http shot yields exactly one sample carrying the received status or the failure code;
a scenario shot (http/scenario, and http2/scenario outside the fatal condition) yields one sample per executed step
(at least one when it has steps);
a gRPC shot yields one sample, a gRPC scenario one per executed call. -/
theorem C19_sample_and_continue :
    (∀ shots : List GunShot, (∀ g ∈ shots, g.documentedFatal = false) →
        (instanceRun (shots.map GunShot.run)).result = .finished ∧
        (instanceRun (shots.map GunShot.run)).shotsTaken = shots.length ∧
        (instanceRun (shots.map GunShot.run)).samples = (shots.map fun g => g.run.reports).flatten) ∧
    (∀ (h2 : Bool) (facts : H2Facts) (cfg : AutoTagCfg) (tag : String) (id : Nat) (path : String) (reply : Reply),
        (h2 && h2Panics facts reply) = false →
        ∃ s, (GunShot.http h2 facts cfg tag id path reply).run.reports = [s] ∧ carries reply s) ∧
    (∀ (h2 : Bool) (scn : String) (steps : List (StepCfg × H2Facts × Reply)),
        (GunShot.scenario h2 scn steps).documentedFatal = false →
        (GunShot.scenario h2 scn steps).run.reports.length
          = executedSteps (steps.map fun (c, _, r) => { name := c.name, outcome := stepOutcome c r }) ∧
        (steps ≠ [] → 1 ≤ (GunShot.scenario h2 scn steps).run.reports.length)) ∧
    (∀ (tag : String) (o : GrpcOutcome), (GunShot.grpc tag o).run.reports.length = 1) ∧
    (∀ (scn : String) (calls : List (GrpcCallCfg × GrpcReply)),
        (GunShot.grpcScenario scn calls).run.reports.length
          = executedGrpcSteps (calls.map fun (c, r) => { tag := c.tag, outcome := grpcStepOutcome c r })) := by
  refine ⟨?_, ?_, ?_, ?_, ?_⟩
  · intro shots hs
    have h := instanceRun_all (shots.map GunShot.run) (by
      intro s hs'
      simp only [List.mem_map] at hs'
      obtain ⟨g, hg, rfl⟩ := hs'
      rw [run_panicked_iff, hs g hg])
    simpa [List.map_map, Function.comp_def] using h
  · intro h2 facts cfg tag id path reply hf
    simp only [GunShot.run, hf]
    cases reply with
    | noResponse e =>
      exact ⟨{ tags := httpTag cfg tag path, id := id, proto := 0, net := getErrno e },
        by simp [Reply.httpOutcome, shootHttp], by simp [carries]⟩
    | brokenBody st e =>
      exact ⟨{ tags := httpTag cfg tag path, id := id, proto := st, net := getErrno e },
        by simp [Reply.httpOutcome, shootHttp], by simp [carries]⟩
    | full r =>
      exact ⟨{ tags := httpTag cfg tag path, id := id, proto := r.status, net := 0 },
        by simp [Reply.httpOutcome, shootHttp], by simp [carries]⟩
  · intro h2 scn steps hnf
    have hlen : (GunShot.scenario h2 scn steps).run.reports.length
        = executedSteps (steps.map fun (c, _, r) => { name := c.name, outcome := stepOutcome c r }) := by
      simp only [GunShot.run]
      rw [scenario_map_eq_of_not_fatal h2 steps hnf scn]
      apply Proofs.C10.shootScenario_length
      intro s hs st
      simp only [List.mem_map] at hs
      obtain ⟨⟨c, f, r⟩, _, rfl⟩ := hs
      exact stepOutcome_no_panic c r st
    refine ⟨hlen, ?_⟩
    intro hne
    rw [hlen]
    cases steps with
    | nil => exact absurd rfl hne
    | cons p rest =>
      simp only [List.map_cons, executedSteps]
      split <;> omega
  · intro tag o
    simp [GunShot.run, shootGrpc]
  · intro scn calls
    simp only [GunShot.run]
    exact Proofs.C10.shootGrpcScenario_length _ _

/-! ## what the samples carry: the received status or the failure -/

/-- A failed plain http exchange carries a NON-ZERO net code (so it is counted as a failure), provided the error
chain has no `Errno(0)` leaf (Go's syscall layer never produces one; hypothesis `ErrnoNonzero` of C10). -/
theorem C19_http_failure_is_visible (h2 : Bool) (facts : H2Facts) (cfg : AutoTagCfg) (tag : String) (id : Nat)
    (path : String) (e : Err) (he : Proofs.C10.ErrnoNonzero e) (hf : (h2 && facts.alpnAlert) = false) :
    ∃ s, (GunShot.http h2 facts cfg tag id path (.noResponse e)).run.reports = [s] ∧ s.proto = 0 ∧ s.net ≠ 0 := by
  have hf' : (h2 && h2Panics facts (.noResponse e)) = false := by simpa [h2Panics] using hf
  refine ⟨{ tags := httpTag cfg tag path, id := id, proto := 0, net := getErrno e }, ?_, rfl, ?_⟩
  · simp [GunShot.run, hf', Reply.httpOutcome, shootHttp]
  · exact Proofs.C10.getErrno_ne_zero e he

/-- The http scenario guns (http/scenario; http2/scenario outside the documented fatal condition), for EVERY step
list and EVERY behaviour of the target: the samples are those of the steps
the loop enters, in order (step `i` ↦ sample `i`); the loop enters the next step exactly when the previous one
completed; the sample of a completed step carries the scenario.step tag, the RECEIVED STATUS and net code 0; the
sample of a step that failed for whatever reason (no response, broken body, unparsable JSON, a scalar xpath, an
assertion, a header the modifiers reject) carries the tag `…|__EMPTY__`, proto 0 and the failure net code 999, and
it is the last sample of that shot. -/
theorem C19_scenario_samples (h2 : Bool) (scn : String) (steps : List (StepCfg × H2Facts × Reply))
    (hnf : (GunShot.scenario h2 scn steps).documentedFatal = false) :
    let ms : List Step := steps.map fun (c, _, r) => { name := c.name, outcome := stepOutcome c r }
    (GunShot.scenario h2 scn steps).run.reports = ((steps.take (executedSteps ms)).map fun (c, _, r) => sampleOfStep scn c r) ∧
    (∀ (c : StepCfg) (resp : Resp), stepCompleted c (.full resp) = true →
        sampleOfStep scn c (.full resp) = { tags := stepTag scn c.name, id := 0, proto := resp.status, net := 0 }) ∧
    (∀ (c : StepCfg) (r : Reply), stepCompleted c r = false →
        sampleOfStep scn c r = { tags := stepTag scn c.name ++ "|" ++ emptyTag, id := 0, proto := 0, net := protoCodeError }) ∧
    (∀ i, i + 1 < executedSteps ms → ∃ p, steps[i]? = some p ∧ stepCompleted p.1 p.2.2 = true) := by
  refine ⟨by simp only [GunShot.run]; rw [scenario_map_eq_of_not_fatal h2 steps hnf scn]; exact shootScenario_reports scn steps,
    sampleOfStep_completed scn, sampleOfStep_failed scn, ?_⟩
  clear hnf
  induction steps with
  | nil => intro i hi; simp [executedSteps] at hi
  | cons p rest ih =>
    obtain ⟨c, f, r⟩ := p
    intro i hi
    have hi' : i + 1 < (match stepOutcome c r with
        | .received _ .ok => 1 + executedSteps (rest.map fun (c, _, r) => ({ name := c.name, outcome := stepOutcome c r } : Step))
        | _ => 1) := hi
    have hcompl : stepCompleted c r = true := by
      cases hr : stepCompleted c r with
      | true => rfl
      | false =>
        exfalso
        have hso : ∀ st, stepOutcome c r ≠ .received st .ok := by
          intro st heq
          unfold stepOutcome at heq
          by_cases hp : c.prepFails = true
          · simp [hp] at heq
          · simp only [hp] at heq
            cases r with
            | noResponse e => simp at heq
            | brokenBody s e => simp at heq
            | full resp =>
              simp only [Bool.false_eq_true, if_false, StepOutcome.received.injEq] at heq
              simp [stepCompleted, hp, heq.2] at hr
        split at hi'
        · rename_i st heq
          exact hso st heq
        · omega
    cases i with
    | zero => exact ⟨(c, f, r), rfl, hcompl⟩
    | succ j =>
      have hj : j + 1 < executedSteps (rest.map fun (c, _, r) => ({ name := c.name, outcome := stepOutcome c r } : Step)) := by
        clear hi
        split at hi'
        · rw [Nat.add_comm 1] at hi'
          exact Nat.lt_of_add_lt_add_right hi'
        · omega
      obtain ⟨q, hq, hqc⟩ := ih j hj
      exact ⟨q, by simpa using hq, hqc⟩

/-- The gRPC guns: a plain shot reports one sample whose proto code is the converted gRPC status of the call
(0 / 400 for an unknown method / an ill-typed payload); a scenario reports one sample per entered call, in order,
carrying the converted status of THAT call, also when an assertion then rejects the response. -/
theorem C19_grpc_samples :
    (∀ (tag : String) (o : GrpcOutcome),
        (GunShot.grpc tag o).run.reports = [{ tags := tag, id := 0, proto := grpcProto o, net := 0 }]) ∧
    (∀ (scn : String) (calls : List (GrpcCallCfg × GrpcReply)),
        (GunShot.grpcScenario scn calls).run.reports
          = ((calls.take (executedGrpcSteps (calls.map fun (c, r) => { tag := c.tag, outcome := grpcStepOutcome c r }))).map
              fun (c, r) => sampleOfCall scn c r)) ∧
    (∀ (scn : String) (c : GrpcCallCfg) (r : GrpcReply), c.kind = .callable →
        (sampleOfCall scn c r).proto = Gen.RespGuard.grpcToHttp r.code) := by
  refine ⟨fun tag o => by simp [GunShot.run, shootGrpc], fun scn calls => shootGrpcScenario_reports scn calls, ?_⟩
  intro scn c r hk
  simp [sampleOfCall, grpcStepOutcome, hk, grpcStepProto, Bridge.C19.grpcToHttp_eq]

/-! ## the pool: any number of instances -/

/-- For ANY number of instances and ANY distribution of the ammo over them: if no shot meets the documented fatal
condition, every instance takes all its ammo, the pool finishes, and the aggregator receives exactly the samples of
all shots. The pool fails if and only if some shot of some instance is the documented fatal one. -/
theorem C19_pool (insts : List (List GunShot)) :
    ((∀ shots ∈ insts, ∀ g ∈ shots, g.documentedFatal = false) →
        poolResult (insts.map (·.map GunShot.run)) = .finished ∧
        poolShots (insts.map (·.map GunShot.run)) = (insts.map List.length).sum ∧
        poolSamples (insts.map (·.map GunShot.run)) = (insts.map fun shots => (shots.map fun g => g.run.reports).flatten).flatten) ∧
    (poolResult (insts.map (·.map GunShot.run)) = .poolFailed ↔ ∃ shots ∈ insts, ∃ g ∈ shots, g.documentedFatal = true) := by
  constructor
  · intro h
    have hp : ∀ shots ∈ insts.map (·.map GunShot.run), ∀ s ∈ shots, s.panicked = false := by
      intro shots hs s hss
      simp only [List.mem_map] at hs
      obtain ⟨gs, hgs, rfl⟩ := hs
      simp only [List.mem_map] at hss
      obtain ⟨g, hg, rfl⟩ := hss
      rw [run_panicked_iff]
      exact h gs hgs g hg
    obtain ⟨h1, h2⟩ := poolSamples_all _ hp
    refine ⟨poolResult_finished _ hp, ?_, ?_⟩
    · simpa [List.map_map, Function.comp_def] using h2
    · simpa [List.map_map, Function.comp_def] using h1
  · rw [poolResult_failed_iff]
    constructor
    · rintro ⟨shots, hs, s, hss, hp⟩
      simp only [List.mem_map] at hs
      obtain ⟨gs, hgs, rfl⟩ := hs
      simp only [List.mem_map] at hss
      obtain ⟨g, hg, rfl⟩ := hss
      exact ⟨gs, hgs, g, hg, by rw [← run_panicked_iff]; exact hp⟩
    · rintro ⟨gs, hgs, g, hg, hf⟩
      exact ⟨gs.map GunShot.run, List.mem_map.mpr ⟨gs, hgs, rfl⟩, g.run, List.mem_map.mpr ⟨g, hg, rfl⟩,
        by rw [run_panicked_iff]; exact hf⟩

/-! ## only the documented condition is fatal -/

/-- What "documented fatal" is, spelled out against `panicOnHTTP1Client.Do` / `checkHTTP2` (tied to the source by
`Bridge.C19.panicOnHTTP1Do_eq`, `checkHTTP2Conds_eq`, `nextProtoTLS_eq`): the gun is the http2 gun AND the peer did
not negotiate HTTP/2 — it answered the ALPN offer with the alert "no application protocol", or a response arrived
over a connection that is not TLS, negotiated another protocol than `h2`, or not mutually.  Refusal, reset, silence,
garbage, any status and any body are NOT fatal for the http2 gun.  For the http2/scenario gun: some step that is
actually sent (all earlier steps completed) meets such a peer.  Nothing is fatal for the other five gun kinds
(http, connect, http/scenario, grpc, grpc/scenario). -/
theorem C19_documented_fatal_iff :
    (∀ (h2 : Bool) (facts : H2Facts) (cfg : AutoTagCfg) (tag : String) (id : Nat) (path : String) (reply : Reply),
      (GunShot.http h2 facts cfg tag id path reply).documentedFatal = true ↔
        h2 = true ∧ (match reply with
          | .noResponse _ =>
            Gen.RespGuard.doErrPanics facts.err.isOpError facts.err.opRemoteError facts.err.textNoAppProto = true ∧
            facts.err.isOpError = true ∧ facts.err.opRemoteError = true ∧ facts.err.textNoAppProto = true
          | _ => facts.tls = none ∨ (∃ p m, facts.tls = some (p, m) ∧ (p ≠ Gen.RespGuard.nextProtoTLS ∨ m = false)))) ∧
    (∀ scn steps, (GunShot.scenario false scn steps).documentedFatal = false) ∧
    (∀ (scn : String) (steps : List (StepCfg × H2Facts × Reply)),
      (GunShot.scenario true scn steps).documentedFatal = true ↔
        ∃ (i : Nat) (p : StepCfg × H2Facts × Reply), steps[i]? = some p ∧ p.1.prepFails = false ∧ h2Panics p.2.1 p.2.2 = true ∧
          ∀ j, j < i → ∃ q, steps[j]? = some q ∧ stepCompleted q.1 q.2.2 = true ∧ h2Panics q.2.1 q.2.2 = false) ∧
    (∀ tag o, (GunShot.grpc tag o).documentedFatal = false) ∧
    (∀ scn calls, (GunShot.grpcScenario scn calls).documentedFatal = false) := by
  refine ⟨?_, fun scn steps => scenarioFatal_false steps, fun scn steps => scenarioFatal_true_iff steps,
    fun _ _ => rfl, fun _ _ => rfl⟩
  intro h2 facts cfg tag id path reply
  have hchk : checkHTTP2 facts.tls = false ↔
      facts.tls = none ∨ (∃ p m, facts.tls = some (p, m) ∧ (p ≠ Gen.RespGuard.nextProtoTLS ∨ m = false)) := by
    rw [Bridge.C19.nextProtoTLS_eq]
    cases ht : facts.tls with
    | none => simp [checkHTTP2]
    | some pm =>
      obtain ⟨p, m⟩ := pm
      constructor
      · intro h
        refine Or.inr ⟨p, m, rfl, ?_⟩
        by_cases hp : p = nextProtoTLS
        · right
          simpa [checkHTTP2, hp] using h
        · left
          exact hp
      · rintro (h | ⟨p', m', heq, h⟩)
        · cases h
        · cases heq
          rcases h with h | h
          · simp [checkHTTP2, h]
          · by_cases hp : p = nextProtoTLS <;> simp [checkHTTP2, hp, h]
  cases reply with
  | noResponse e =>
    simp only [GunShot.documentedFatal, h2Panics, H2Facts.alpnAlert, Bridge.C19.doErrPanics_eq, Bool.and_eq_true]
    simp only [DoErrFacts.panics, Bool.and_eq_true]
    constructor
    · rintro ⟨h, ⟨ha, hb⟩, hc⟩
      exact ⟨h, ⟨⟨ha, hb⟩, hc⟩, ha, hb, hc⟩
    · rintro ⟨h, hp, _⟩
      exact ⟨h, hp⟩
  | brokenBody st e => simp [GunShot.documentedFatal, h2Panics, hchk]
  | full r => simp [GunShot.documentedFatal, h2Panics, hchk]


/-- An instance run fails the pool ("shoot panic") if and only if some shot was the documented fatal configuration:
the http2 gun reaching a peer that does not speak HTTP/2. No status, header, body, JSON, HTML, truncation, reset,
refusal or timeout can do it. -/
theorem C19_only_documented_fatal (shots : List GunShot) :
    (instanceRun (shots.map GunShot.run)).result = .poolFailed ↔ ∃ g ∈ shots, g.documentedFatal = true := by
  rw [instanceRun_failed_iff]
  constructor
  · rintro ⟨s, hs, hp⟩
    simp only [List.mem_map] at hs
    obtain ⟨g, hg, rfl⟩ := hs
    exact ⟨g, hg, by rw [← run_panicked_iff]; exact hp⟩
  · rintro ⟨g, hg, hf⟩
    exact ⟨g.run, List.mem_map.mpr ⟨g, hg, rfl⟩, by rw [run_panicked_iff]; exact hf⟩

/-! ## TLS alerts and connection plans -/

/-- Of ALL alert records a peer can answer the ClientHello with (any level byte, any description byte), exactly one is
the documented fatal condition: the FATAL alert 120 `no_application_protocol` ("I do not speak h2"). Every other one —
internal_error 80, handshake_failure 40, bad_certificate 42, certificate_required 116, unrecognized_name 112,
protocol_version 70, warnings, close_notify, unknown levels — is an ordinary failed exchange for the http2 gun: one
sample with proto 0 and the failure's net code, the shot returns, the instance goes on.  (`alertErr` is how crypto/tls
reports the record; the condition is the regenerated `Gen.RespGuard.doErrPanics`.) -/
theorem C19_tls_alert_fatal_iff (level code : Nat) :
    (Gen.RespGuard.doErrPanics (alertErr level code).isOpError (alertErr level code).opRemoteError
        (alertErr level code).textNoAppProto = true ↔ level = 2 ∧ code = 120) ∧
    (∀ (cfg : AutoTagCfg) (tag : String) (id : Nat) (path : String) (e : Err), ¬ (level = 2 ∧ code = 120) →
      (GunShot.http true { err := alertErr level code } cfg tag id path (.noResponse e)).documentedFatal = false ∧
      (GunShot.http true { err := alertErr level code } cfg tag id path (.noResponse e)).run
        = { reports := [{ tags := httpTag cfg tag path, id := id, proto := 0, net := getErrno e }], panicked := false }) := by
  have hiff : (alertErr level code).panics = true ↔ level = 2 ∧ code = 120 := by
    unfold alertErr
    by_cases h0 : code = 0
    · simp [h0, DoErrFacts.panics]
    · by_cases h2 : level = 2
      · simp [h0, h2, DoErrFacts.panics]
      · by_cases h1 : level = 1 <;> simp [h0, h1, h2, DoErrFacts.panics]
  refine ⟨by rw [Bridge.C19.doErrPanics_eq]; exact hiff, ?_⟩
  intro cfg tag id path e hne
  have hp : (alertErr level code).panics = false := by
    cases h : (alertErr level code).panics with
    | false => rfl
    | true => exact absurd (hiff.mp h) hne
  have hf : (true && h2Panics { err := alertErr level code } (.noResponse e)) = false := by
    simp [h2Panics, H2Facts.alpnAlert, hp]
  exact ⟨by simpa [GunShot.documentedFatal] using hf, by simp [GunShot.run, hf, Reply.httpOutcome, shootHttp]⟩

/-- One http2 client over ANY sequence of connections the peer grants (`connShots`: kept-alive or one per request),
none of which is of the fatal kind (no ALPN alert, no connection negotiated without `h2`) — handshakes may end in
any other alert, EOF, reset, garbage, a timeout, at any point of the run, before or after successful exchanges:
every request gets its shot, no shot is the documented fatal one, the instance finishes with one sample per request. -/
theorem C19_connection_plan (dka : Bool) (dflt : ConnFate) (plan : List ConnFate) (replies : List Reply) (isOpen : Bool)
    (cfg : AutoTagCfg) (hd : dflt.fatal = false) (hp : ∀ c ∈ plan, c.fatal = false) :
    let shots := (connShots dka dflt isOpen plan replies).map fun (f, r) => GunShot.http true f cfg "" 0 "" r
    shots.length = replies.length ∧ (∀ g ∈ shots, g.documentedFatal = false) ∧
    (instanceRun (shots.map GunShot.run)).result = .finished ∧
    (instanceRun (shots.map GunShot.run)).samples.length = replies.length := by
  intro shots
  obtain ⟨hl, hm⟩ := connShots_not_fatal dka dflt hd replies isOpen plan hp
  have hnf : ∀ g ∈ shots, g.documentedFatal = false := by
    intro g hg
    simp only [shots, List.mem_map] at hg
    obtain ⟨⟨f, r⟩, hmem, rfl⟩ := hg
    simp [GunShot.documentedFatal, hm (f, r) hmem]
  have hrun := instanceRun_all (shots.map GunShot.run) (by
    intro s hs
    simp only [List.mem_map] at hs
    obtain ⟨g, hg, rfl⟩ := hs
    rw [run_panicked_iff, hnf g hg])
  refine ⟨by simp [shots, hl], hnf, hrun.1, ?_⟩
  rw [hrun.2.2]
  have hone : ∀ g ∈ shots, g.run.reports.length = 1 := by
    intro g hg
    have hgf := hnf g hg
    simp only [shots, List.mem_map] at hg
    obtain ⟨⟨f, r⟩, _, rfl⟩ := hg
    have hf : (true && h2Panics f r) = false := by simpa [GunShot.documentedFatal] using hgf
    cases r <;> simp [GunShot.run, hf, Reply.httpOutcome, shootHttp]
  have hsum : ∀ (l : List GunShot), (∀ g ∈ l, g.run.reports.length = 1) →
      ((l.map GunShot.run).map (·.reports)).flatten.length = l.length := by
    intro l
    induction l with
    | nil => intro _; rfl
    | cons g rest ih =>
      intro h
      simp only [List.map_cons, List.flatten_cons, List.length_append, List.length_cons]
      rw [h g (List.mem_cons_self ..), ih (fun x hx => h x (List.mem_cons_of_mem _ hx))]
      omega
  rw [hsum shots hone]
  simp [shots, hl]

/-- The same for the http2/scenario gun: `n` scenario shots of one client over ANY sequence of connections none of
which is of the fatal kind — every step that is sent takes the connection state as the previous one left it, a step
that fails (by its connection or by its response) ends its shot — the instance finishes all `n` shots, every shot
reports the samples of the steps it entered (at least one when the scenario has steps). -/
theorem C19_connection_plan_scenario (dka : Bool) (dflt : ConnFate) (plan : List ConnFate) (scn : String)
    (steps : List (StepCfg × Reply)) (n : Nat) (isOpen : Bool)
    (hd : dflt.fatal = false) (hp : ∀ c ∈ plan, c.fatal = false) :
    let shots := scenarioShotsOverConns dka dflt true scn steps n isOpen plan
    shots.length = n ∧ (∀ g ∈ shots, g.documentedFatal = false) ∧
    (instanceRun (shots.map GunShot.run)).result = .finished ∧
    (instanceRun (shots.map GunShot.run)).shotsTaken = n ∧
    (steps ≠ [] → ∀ g ∈ shots, 1 ≤ g.run.reports.length) := by
  intro shots
  obtain ⟨hl, hnf⟩ := scenarioShotsOverConns_not_fatal dka dflt hd true scn steps n isOpen plan hp
  obtain ⟨h1, h2, _⟩ := C19_sample_and_continue.1 shots hnf
  refine ⟨hl, hnf, h1, by rw [h2, hl], ?_⟩
  intro hne g hg
  have hgf := hnf g hg
  -- every shot of the list is a scenario shot over a step list of the same length as `steps`
  have hshape : ∀ (k : Nat) (o : Bool) (pl : List ConnFate), ∀ g ∈ scenarioShotsOverConns dka dflt true scn steps k o pl,
      ∃ ss : List (StepCfg × H2Facts × Reply), g = GunShot.scenario true scn ss ∧ ss ≠ [] := by
    intro k
    induction k with
    | zero => intro o pl g hg; simp [scenarioShotsOverConns] at hg
    | succ j ih =>
      intro o pl g hg
      simp only [scenarioShotsOverConns, List.mem_cons] at hg
      rcases hg with rfl | hg
      · refine ⟨_, rfl, ?_⟩
        cases steps with
        | nil => exact absurd rfl hne
        | cons p rest =>
          obtain ⟨c, r⟩ := p
          simp only [scenarioOverConns]
          split
          · simp
          · split <;> simp
      · exact ih _ _ g hg
  obtain ⟨ss, rfl, hss⟩ := hshape n isOpen plan g hg
  exact (C19_sample_and_continue.2.2.1 true scn ss hgf).2 hss

/-! ## round 3: what an earlier RESPONSE stored is read again inside `Shoot` (preprocessors, template functions) -/

/-- Index arithmetic on response-derived lists. For EVERY index kind (`[N]` with any integer, `[next]`, `[rand]`,
`[last]`, garbage), EVERY list length (empty lists included: `{"items":[]}`, an xpath without matches), every value of
the shared iterator and every draw of its random generator, `calcIndex` returns — an error or an index INSIDE the
list — and never panics (no division by zero, no `rand.Intn(0)`, no index -1); the same holds for `calcIndex` of the
CURRENT source (regenerated statement by statement, `Bridge.C19.calcIndex_eq`); hence no element access of
`extractFromSlice` leaves its slice, whatever value (of whatever type) the variable holds. -/
theorem C19_index_in_bounds :
    (∀ (k : IndexKind) (length : Int) (nextV randRaw : Nat),
        ∃ r, calcIndex k length nextV randRaw = .ok r ∧ ∀ i, r = some i → 0 ≤ i ∧ i < length) ∧
    (∀ (indexStr : String) (atoi : Option Int) (length : Int) (nextV randRaw : Nat),
        ∃ r, Gen.RespGuard.calcIndex indexStr atoi length nextV randRaw = .ok r ∧ ∀ i, r = some i → 0 ≤ i ∧ i < length) ∧
    (∀ (v : Val) (k : IndexKind) (nextV randRaw : Nat), (extractFromSlice v k nextV randRaw).isOk = true) := by
  refine ⟨calcIndex_ok, Bridge.C19.calcIndex_in_bounds, ?_⟩
  intro v k nextV randRaw
  obtain ⟨r, hr⟩ := extractFromSlice_ok v k nextV randRaw
  rw [hr]; rfl

/-- Reading variables never panics. For EVERY variable tree (any nesting of maps, lists of any length and element type,
strings, numbers, nulls — everything a postprocessor can have stored from a response), every path, every iterator:
`GetMapValue` returns a value or an error; and for every list of preprocessor mappings — paths and calls of
`randInt` / `randString` / `uuid` with any arguments, looked up in the variables or literal — `Preprocessor.Process`
returns variables or an error, with the length bound of the CURRENT source (`Gen.RespGuard.maxRandStringLength`):
a digit string chosen by the peer is never a length `make([]rune, n)` refuses. -/
theorem C19_vars_no_panic :
    (∀ (it : Iter) (vars : Fields) (segs : List Seg), (getMapValue it vars segs).isOk = true) ∧
    (∀ (cnt : Val), (randString (some Gen.RespGuard.maxRandStringLength) cnt).isOk = true) ∧
    (∀ (f t : Int), (randIntRange f t).isOk = true) ∧
    (∀ (vars : Fields) (ms : List (String × PreMap)),
        (preprocess (some Gen.RespGuard.maxRandStringLength) vars ms).isOk = true) := by
  refine ⟨?_, ?_, ?_, ?_⟩
  · intro it vars segs
    obtain ⟨r, hr⟩ := getMapValue_ok it vars segs
    rw [hr]; rfl
  · intro cnt
    obtain ⟨r, hr⟩ := randString_ok _ Bridge.C19.maxRandStringLength_ok cnt
    rw [hr]; rfl
  · intro f t
    obtain ⟨r, hr⟩ := randIntRange_ok f t
    rw [hr]; rfl
  · intro vars ms
    obtain ⟨r, hr⟩ := preprocess_ok _ Bridge.C19.maxRandStringLength_ok vars ms
    rw [hr]; rfl

/-- A scenario shot whose steps READ what earlier responses stored. For every list of steps — each with its
preprocessor mappings, its postprocessors, what the target does with its request, the facts of its connection and
ANY variables its postprocessors extract from that response (`post`: chosen by the peer) — every initial variable state
and everything the shared iterator hands out: the shot is exactly the shot of the same steps with the variable
mechanism resolved into the static `prepFails` (a preprocessor that cannot produce its variables is a step that fails
before anything is sent: one `…|__EMPTY__` sample, the remaining steps skipped) — so `C19_scenario_samples` and
`C19_pool` apply to it —, resolving changes nothing else of a step, and the shot panics only in the documented fatal
configuration (never for the http/scenario gun). -/
theorem C19_scenario_vars (h2 : Bool) (scn : String) (s : VarState) (steps : List VStep) :
    let cap := some Gen.RespGuard.maxRandStringLength
    shootScenarioV cap h2 scn s steps = (GunShot.scenario h2 scn (resolveV cap h2 s steps)).run ∧
    (resolveV cap h2 s steps).map (fun p => (p.1.name, p.1.pps, p.2)) =
      steps.map (fun v => (v.cfg.name, v.cfg.pps, v.facts, v.reply)) ∧
    (shootScenarioV cap h2 scn s steps).panicked = (GunShot.scenario h2 scn (resolveV cap h2 s steps)).documentedFatal ∧
    (h2 = false → (shootScenarioV cap h2 scn s steps).panicked = false) := by
  have heq := shootScenarioV_eq _ Bridge.C19.maxRandStringLength_ok h2 scn steps s
  refine ⟨heq, resolveV_shape _ h2 steps s, ?_, ?_⟩
  · rw [heq]; exact run_panicked_iff _
  · intro h
    rw [heq, run_panicked_iff]
    subst h
    exact scenarioFatal_false _

/-- The gRPC scenario gun with "prepare" preprocessors that read the earlier response MESSAGES (`request.<call>.postprocessor`:
repeated fields of any length, strings, anything — chosen by the peer): for every list of calls, every variable state and
every iterator the shot is exactly the shot of the same calls with the preprocessors resolved into the static
`GrpcCallKind.prepFails` (a preprocessor that cannot produce its variable — an index into a list the target left
empty, a missing field of a failed call — is a call that fails before it is made: one sample with code 0, the remaining
calls skipped), so `C19_grpc_samples` applies to it, and it never panics. -/
theorem C19_grpc_scenario_vars (scn : String) (s : VarState) (calls : List VCall) :
    let cap := some Gen.RespGuard.maxRandStringLength
    shootGrpcScenarioV cap scn s calls = (GunShot.grpcScenario scn (resolveGrpcV cap s calls)).run ∧
    (shootGrpcScenarioV cap scn s calls).panicked = false := by
  have heq := shootGrpcScenarioV_eq _ Bridge.C19.maxRandStringLength_ok scn calls s
  refine ⟨heq, ?_⟩
  rw [heq, run_panicked_iff]
  rfl

/-- … and the instance goes on with the next ammo: an instance of the http/scenario gun (or of the gRPC scenario gun) that
shoots ANY sequence of such scenarios — whatever every response stores, whatever every preprocessor reads, whatever the
shared iterator hands out from shot to shot — takes all its ammo, finishes, and the aggregator receives exactly the
samples of all shots. -/
theorem C19_vars_instance (scn : String)
    (httpShots : List (VarState × List VStep)) (grpcShots : List (VarState × List VCall)) :
    let cap := some Gen.RespGuard.maxRandStringLength
    let rs := httpShots.map (fun p => shootScenarioV cap false scn p.1 p.2) ++
      grpcShots.map (fun p => shootGrpcScenarioV cap scn p.1 p.2)
    (instanceRun rs).result = .finished ∧ (instanceRun rs).shotsTaken = httpShots.length + grpcShots.length ∧
      (instanceRun rs).samples = (rs.map (·.reports)).flatten := by
  intro cap rs
  have h : ∀ r ∈ rs, r.panicked = false := by
    intro r hr
    rcases List.mem_append.mp hr with h1 | h1
    · obtain ⟨p, _, rfl⟩ := List.mem_map.mp h1
      exact (C19_scenario_vars false scn p.1 p.2).2.2.2 rfl
    · obtain ⟨p, _, rfl⟩ := List.mem_map.mp h1
      exact (C19_grpc_scenario_vars scn p.1 p.2).2
  have := instanceRun_all rs h
  refine ⟨this.1, ?_, this.2.2⟩
  rw [this.2.1]
  simp [rs]

/-! ## round 4: the code the guns depend on — the clock, the shared iterator, the dialer, the pooled sample -/

/-- the schedule tokens an instance meets: is the token overdue when the instance gets to it (the clock decides — a
target that answers slowly makes the following tokens overdue), and the shot it would take -/
def tokensOf (tokens : List (Bool × GunShot)) : List Token :=
  tokens.map fun p => { slowDown := p.1, shot := p.2.run }

/-- `instance.Run` against the clock, with and without `discard_overflow`, for EVERY sequence of tokens, every verdict
of the waiter on each of them and every shot: if no shot that is actually TAKEN (the condition of the current source,
`Gen.RespGuard.instanceShootCond`) is the documented fatal one, the instance takes every token, and the aggregator
receives for each token the samples of its shot or — overdue with `discard_overflow` — exactly ONE `discarded` sample
(no status, failure code 777: what the current netsample constants say); the run fails the pool iff a TAKEN shot is
the documented fatal one (a discarded token cannot); without `discard_overflow` the loop is the plain shooting loop of
the earlier theorems, however slow the target is. -/
theorem C19_discard_overflow (discard : Bool) (tokens : List (Bool × GunShot)) :
    ((∀ p ∈ tokens, Gen.RespGuard.instanceShootCond discard p.1 = true → p.2.documentedFatal = false) →
      (instanceRunSched discard (tokensOf tokens)).result = .finished ∧
      (instanceRunSched discard (tokensOf tokens)).shotsTaken = tokens.length ∧
      (instanceRunSched discard (tokensOf tokens)).samples =
        (tokens.map fun p => if Gen.RespGuard.instanceShootCond discard p.1 then p.2.run.reports
          else [⟨Gen.RespGuard.discardedTag, 0, 0, Gen.RespGuard.discardedNet⟩]).flatten) ∧
    ((instanceRunSched discard (tokensOf tokens)).result = .poolFailed ↔
      ∃ p ∈ tokens, Gen.RespGuard.instanceShootCond discard p.1 = true ∧ p.2.documentedFatal = true) ∧
    (instanceRunSched false (tokensOf tokens) = instanceRun (tokens.map (·.2.run))) := by
  have hw : ∀ t ∈ tokensOf tokens, t.waitOk = true := by
    intro t ht
    obtain ⟨p, _, rfl⟩ := List.mem_map.mp ht
    rfl
  refine ⟨?_, ?_, ?_⟩
  · intro h
    have hp : ∀ t ∈ tokensOf tokens, shootCond discard t.slowDown = true → t.shot.panicked = false := by
      intro t ht hc
      obtain ⟨p, hp, rfl⟩ := List.mem_map.mp ht
      rw [run_panicked_iff]
      exact h p hp (by rw [Bridge.C19.instanceShootCond_eq]; exact hc)
    obtain ⟨h1, h2, h3⟩ := instanceRunSched_all discard _ hw hp
    refine ⟨h1, by simpa [tokensOf] using h2, ?_⟩
    rw [h3]
    simp only [tokensOf, List.map_map, Function.comp_def, tokenSamples, Bridge.C19.instanceShootCond_eq]
    rfl
  · rw [instanceRunSched_failed_iff discard _ hw]
    constructor
    · rintro ⟨t, ht, hc, hpn⟩
      obtain ⟨p, hp, rfl⟩ := List.mem_map.mp ht
      exact ⟨p, hp, by rw [Bridge.C19.instanceShootCond_eq]; exact hc, by rw [← run_panicked_iff]; exact hpn⟩
    · rintro ⟨p, hp, hc, hf⟩
      exact ⟨_, List.mem_map.mpr ⟨p, hp, rfl⟩, by rw [← Bridge.C19.instanceShootCond_eq]; exact hc,
        by rw [run_panicked_iff]; exact hf⟩
  · rw [instanceRunSched_nodiscard _ hw]
    simp [tokensOf, List.map_map, Function.comp_def]

/-- WHEN a token is dropped: with a clock that does not run backwards, the waiter of the current source
(regenerated as functions: `Gen.Waiter.Wait` / `IsSlowDown`, `Bridge.Waiter.Wait_eq`, see `C19_slow_answer_costs_only_late_tokens`) finds a token overdue exactly when the instance asks for it
`MaxOverdueDuration` (the current constant) or more after its time — whatever the cached clock reading was; and a run in
which the target answers fast enough for every token to be asked for in time is the same run with and without
`discard_overflow`: the option cannot cost a shot unless the target made the instance late. -/
theorem C19_discard_only_when_late :
    (∀ (due lastNow asked : Int) (shot : ShotResult), lastNow ≤ asked →
      ((tokenAt due lastNow asked shot).slowDown = true ↔ asked - due ≥ Gen.RespGuard.maxOverdueNanos)) ∧
    (∀ (discard : Bool) (ts : List Token), (∀ t ∈ ts, t.slowDown = false) →
      instanceRunSched discard ts = instanceRunSched false ts) := by
  refine ⟨?_, instanceRunSched_on_time⟩
  intro due lastNow asked shot h
  rw [Bridge.C19.maxOverdueNanos_eq]
  exact isSlowDown_iff due lastNow asked h

/-- The shared `NextIterator` under ANY interleaving: any number of instances (goroutines numbered below `n`), each
calling `Next` again and again, the scheduler picking who makes the next step (lock, begin of the map access, end of
the map access, unlock) for as long as it likes — with the mutex (the current source: `Bridge.C19.mpIterNext_locked`,
`mpIterRand_locked`) no map access ever begins while another goroutine is inside one: `[next]` in the preprocessors
of several instances cannot be the `fatal error: concurrent map writes` that no recover() catches. -/
theorem C19_iterator_interleaving (n : Nat) (sched : List Nat) :
    (iterRun true n {} sched).fatal = false ∧
    Gen.RespGuard.mpIterNext.take 2 = ["v0.mx.Lock()", "defer v0.mx.Unlock()"] ∧
    Gen.RespGuard.mpIterRand.take 2 = ["v0.mx.Lock()", "defer v0.mx.Unlock()"] :=
  ⟨(iterRun_inv n sched {} iterInv_init).1, Bridge.C19.mpIterNext_locked, Bridge.C19.mpIterRand_locked⟩

/-- …and the mutex is NEEDED: without it two instances suffice (the second begins its map access while the first is
inside) — right for one participant, fatal for two. -/
theorem C19_iterator_needs_mutex : ∃ n sched, (iterRun false n {} sched).fatal = true :=
  ⟨2, [0, 0, 1, 1], by decide⟩

/-- lib/netutil's DNS-caching dialer is TRANSPARENT for what the peer does: for every sequence of dial outcomes of a
run (refused, connected, in any order, before and after the cache is filled) the guns see exactly the outcomes of the
underlying dials, nothing panics (the remote address of a connected tcp connection is a `*net.TCPAddr`; for every
`DialFacts` with that fact), a failed dial remembers nothing and the cache is filled by the first successful one. -/
theorem C19_dns_cache_transparent :
    (∀ (cached : Bool) (os : List DialOutcome),
      dnsDials {} cached os = .ok (os, cached || os.any (· == .connected))) ∧
    (∀ (f : DialFacts) (cached : Bool) (o : DialOutcome), f.remoteIsTCP = true → ∃ r, dnsDial f cached o = .ok r) ∧
    (∀ f : DialFacts, dnsDial f false .refused = .ok (.refused, false)) :=
  ⟨dnsDials_transparent, dnsDial_ok, fun _ => rfl⟩

/-- the order of the two independent-looking operations of the dialer matters: remembering the address BEFORE looking
at the error of the dial reads the remote address of a connection that does not exist — every refused connection of a
host-name target would be a panic inside `Shoot`. -/
theorem C19_dns_cache_order_matters :
    dnsDialAddFirst {} false .refused = .panic "invalid memory address or nil pointer dereference" := rfl

/-- Who owns the pooled sample of a scenario step, for EVERY step list and every outcome of every step (http/scenario
and http2/scenario, outside the documented fatal configuration): the sample of every entered step is acquired, touched
only while the gun owns it, handed to the aggregator EXACTLY once and never touched afterwards (the phout aggregator
returns it to the pool; another instance acquires it), and the number of hand-overs is the number of samples of the
shot.  Tie: `Bridge.C19.scenarioReportLastUse_eq` (the Report of `shootStep` is its last use of the sample and no error
can be returned after it), `scenarioReportCalls_eq`, `scenarioShootLoop_eq`, `scenarioReportErrStmts_eq`. -/
theorem C19_sample_ownership (h2 : Bool) (scn : String) (steps : List (StepCfg × H2Facts × Reply))
    (hf : (GunShot.scenario h2 scn steps).documentedFatal = false) :
    let ss : List Step := steps.map fun (c, f, r) => { name := c.name, outcome := stepOutcomeH2 h2 f c r }
    (∀ tr ∈ scenarioOps false ss, wellOwned tr = true) ∧
    ((scenarioOps false ss).map reportsIn).sum = (GunShot.scenario h2 scn steps).run.reports.length ∧
    Gen.RespGuard.scenarioReportLastUse = true := by
  intro ss
  have hp : (shootScenario scn ss).panicked = false := by
    have := run_panicked_iff (GunShot.scenario h2 scn steps)
    rw [hf] at this
    exact this
  obtain ⟨h1, h2'⟩ := scenarioOps_wellOwned scn ss hp
  exact ⟨h1, h2', Bridge.C19.scenarioReportLastUse_eq⟩

/-- the seeded order (SetProtoCode / Report moved in front of the postprocessor loop) is NOT well owned: a step whose
postprocessor refuses the response hands its sample over twice and writes to it in between. -/
theorem C19_report_before_postprocessors_counterexample :
    ∀ st, wellOwned (stepOps true (.received st .err)) = false ∧ reportsIn (stepOps true (.received st .err)) = 2 :=
  fun _ => ⟨rfl, rfl⟩

/-! ## the defects of the tree as found (what the two fixes repair) -/

/-- `substr(5)` on a 3-byte header value: the closure as found slices `in[3:5]` and panics. -/
theorem C19_substr_as_found_panics :
    substrUnclamped 5 0 ['a', 'b', 'c'] = .panic "slice bounds out of range" := by decide

/-- …and through the engine's eyes: with the code as found a RESPONSE (a short header value) — or a scalar xpath
expression on any response — panics inside `Shoot`, and the instance run fails the pool. -/
theorem C19_as_found_counterexample :
    (∃ (r : Resp) (pps : List PP), runPPsAsFound r pps = .panic) ∧
    (∀ r : Resp, runPPsAsFound r [.varXpath [.scalar]] = .panic) ∧
    (instanceRun [{ reports := [], panicked := true }]).result = .poolFailed := by
  refine ⟨⟨⟨200, fun _ => ['a', 'b', 'c'], 0, fun _ => false, false, fun _ => false⟩,
      [.varHeader [⟨"X-Val", some [.substr 5 0]⟩]], by decide⟩, ?_, by decide⟩
  intro r
  simp [runPPsAsFound, runPPAsFound, xpathUnchecked]

/-- The emptiness guard of `calcIndex` has to stand in front of the KEYWORD branches: with the guard in the numeric
branch only (in front of the modulo it seems to be there for), an EMPTY list in a response — `{"items":[]}` — makes
`[next]` divide by zero, `[rand]` call `rand.Intn(0)` and `[last]` index -1, each a panic inside `Shoot`. -/
theorem C19_index_guard_needed :
    (∀ nextV randRaw : Nat,
      calcIndexGuardNumericOnly .next 0 nextV randRaw = .panic "integer divide by zero" ∧
      calcIndexGuardNumericOnly .rand 0 nextV randRaw = .panic "invalid argument to Intn" ∧
      calcIndexGuardNumericOnly .last 0 nextV randRaw = .ok (some (-1))) ∧
    (∀ k ∈ [IndexKind.next, .rand, .last],
      (getMapValueWith calcIndexGuardNumericOnly ({} : Iter) 0 [("items", .list true [])] [⟨"items", some k⟩]).isOk = false) := by
  refine ⟨calcIndexGuardNumericOnly_empty, ?_⟩
  decide

/-- `randString` as found (before fixes/C19-randstring-cap.diff) has no bound on its length: a digit string the peer
sends (a header value stored by var/header, handed to `randString(request.<step>.postprocessor.<var>)` by the next
step's preprocessor) is a length `make([]rune, n)` refuses — a panic inside `Shoot`, and the pool fails. -/
theorem C19_randString_as_found_panics :
    randString none (.str "99999999999999999") = .panic "makeslice: len out of range" ∧
    (shootScenarioV none false "s" {}
      [{ cfg := ⟨"a", false, []⟩, reply := .full ⟨200, fun _ => [], 0, fun _ => false, false, fun _ => false⟩,
         post := [("v", .str "99999999999999999")] },
       { cfg := ⟨"b", false, []⟩, reply := .full ⟨200, fun _ => [], 0, fun _ => false, false, fun _ => false⟩,
         pre := [("x", .call .randString [⟨[⟨"request", none⟩, ⟨"a", none⟩, ⟨"postprocessor", none⟩, ⟨"v", none⟩],
                                          "request.a.postprocessor.v", {}⟩])] }]).panicked = true ∧
    (instanceRun [{ reports := [⟨"s.a", 0, 200, 0⟩], panicked := true }]).result = .poolFailed := by
  refine ⟨randString_as_found_panics, by decide, by decide⟩

/-! ## non-vacuity -/

example : substr 5 0 ['a', 'b', 'c'] = .ok [] := by decide
-- C19_substr_no_overflow at the extreme arguments: substr(MinInt64, MaxInt64) on a 3-byte value is the whole value
example : substr (-9223372036854775808) 9223372036854775807 "abc".toList = .ok "abc".toList := by decide
example : substr (-2) 0 "abcdef".toList = .ok ['e', 'f'] := by decide
example : substr 5 3 "abcdefgh".toList = .ok ['d', 'e'] := by decide
example : substr (-100) 100 "abc".toList = .ok ['a', 'b', 'c'] := by decide
example : substr 0 (-100) "abc".toList = .ok [] := by decide
example : applyChain [.lower, .replace ['='] [], .substr 6 0] "Basic Ym9=".toList = .ok "ym9".toList := by decide
-- a scenario against a target whose second answer carries a short header: the step completes, the run goes on
example : (GunShot.scenario false "s"
    [(⟨"a", false, []⟩, {}, .full ⟨200, fun _ => [], 0, fun _ => false, false, fun _ => false⟩),
     (⟨"b", false, [.varHeader [⟨"X-Val", some [.substr 5 0]⟩]]⟩, {}, .full ⟨404, fun _ => ['a','b','c'], 0, fun _ => false, false, fun _ => false⟩)]).run
    = { reports := [⟨"s.a", 0, 200, 0⟩, ⟨"s.b", 0, 404, 0⟩], panicked := false } := by decide
-- the documented fatal case
example : (GunShot.http true (.ofAlpnAlert true none) ⟨false, 2, true⟩ "t" 1 "/" (.noResponse .other)).documentedFatal = true := rfl
example : (instanceRun [(GunShot.http true (.ofAlpnAlert true none) ⟨false, 2, true⟩ "t" 1 "/" (.noResponse .other)).run]).result = .poolFailed := by decide
-- a refused connection is not fatal for the http2 gun
example : (GunShot.http true {} ⟨false, 2, true⟩ "t" 1 "/" (.noResponse (.opError (.syscallError (.errno 111))))).run
    = { reports := [⟨"t", 1, 0, 111⟩], panicked := false } := by decide

-- C19_http_failure_is_visible: a refused connection seen by the http2 gun
example : Proofs.C10.ErrnoNonzero (.opError (.syscallError (.errno 111))) := by simp [Proofs.C10.ErrnoNonzero]
-- C19_scenario_samples: a three-step scenario whose second response fails its assertion: two samples, the third step is not entered
example : (GunShot.scenario true "s"
    [(⟨"a", false, [.varJsonpath ["x"]]⟩, {}, .full ⟨201, fun _ => [], 2, fun _ => false, true, fun _ => true⟩),
     (⟨"b", false, [.assertResponse { statusCode := 200 }]⟩, {}, .full ⟨503, fun _ => [], 0, fun _ => false, false, fun _ => false⟩),
     (⟨"c", false, []⟩, {}, .full ⟨200, fun _ => [], 0, fun _ => false, false, fun _ => false⟩)]).run.reports
    = [⟨"s.a", 0, 201, 0⟩, ⟨"s.b|__EMPTY__", 0, 0, 999⟩] := by decide
example : stepCompleted ⟨"a", false, [.varXpath [.nodeSet]]⟩ (.full ⟨404, fun _ => [], 0, fun _ => false, false, fun _ => false⟩) = true := by decide
example : stepCompleted ⟨"a", false, [.varXpath [.scalar]]⟩ (.full ⟨200, fun _ => [], 0, fun _ => false, false, fun _ => false⟩) = false := by decide
-- C19_grpc_samples: Internal (13, e.g. a response message that does not unmarshal) is reported as 500; without an
-- assertion the scenario goes on with the next call, with one it stops there
example : (GunShot.grpcScenario "g" [(⟨"t0", .callable, []⟩, ⟨13, fun _ => false⟩), (⟨"t1", .callable, []⟩, ⟨0, fun _ => true⟩)]).run.reports
    = [⟨"g.t0", 0, 500, 0⟩, ⟨"g.t1", 0, 200, 0⟩] := by decide
example : (GunShot.grpcScenario "g" [(⟨"t0", .callable, [{ statusCode := 200 }]⟩, ⟨13, fun _ => false⟩), (⟨"t1", .callable, []⟩, ⟨0, fun _ => true⟩)]).run.reports
    = [⟨"g.t0", 0, 500, 0⟩] := by decide
-- C19_pool: three instances, one of them idle; 404s, a reset and a truncated body between them
example : poolResult ([[GunShot.http false {} ⟨false, 2, true⟩ "a" 1 "/" (.noResponse .other)], [],
    [GunShot.grpc "g" (.invoked 14), GunShot.http false {} ⟨false, 2, true⟩ "b" 2 "/" (.brokenBody 200 .other)]].map (·.map GunShot.run))
    = .finished := by decide
example : poolResult ([[GunShot.grpc "g" (.invoked 0)], [GunShot.http true { tls := none } ⟨false, 2, true⟩ "t" 1 "/"
    (.full ⟨200, fun _ => [], 0, fun _ => false, false, fun _ => false⟩)]].map (·.map GunShot.run)) = .poolFailed := by decide
-- C19_documented_fatal_iff: http/1.1 negotiated; h2 negotiated but not mutually; plain TCP; and the good case
example : (GunShot.http true { tls := some ("http/1.1", true) } ⟨false, 2, true⟩ "t" 1 "/" (.brokenBody 200 .other)).documentedFatal = true := by decide
example : (GunShot.http true { tls := some ("h2", false) } ⟨false, 2, true⟩ "t" 1 "/" (.brokenBody 200 .other)).documentedFatal = true := by decide
example : (GunShot.http true { tls := some ("h2", true) } ⟨false, 2, true⟩ "t" 1 "/" (.brokenBody 500 .other)).documentedFatal = false := by decide
example : (GunShot.http false (.ofAlpnAlert true none) ⟨false, 2, true⟩ "t" 1 "/" (.noResponse .other)).documentedFatal = false := by decide
-- the http2/scenario gun against a TLS peer without h2: the first request that is sent is fatal, nothing is reported
example : (GunShot.scenario true "s" [(⟨"a", false, []⟩, .ofAlpnAlert true none, .noResponse .other), (⟨"b", false, []⟩, .ofAlpnAlert true none, .noResponse .other)]).run
    = { reports := [], panicked := true } := by decide
example : (GunShot.scenario true "s" [(⟨"a", true, []⟩, .ofAlpnAlert true none, .noResponse .other), (⟨"b", false, []⟩, .ofAlpnAlert true none, .noResponse .other)]).documentedFatal = false := by decide
-- a scenario that meets SEVERAL connections (keep-alives off): the first step over h2, the second over a connection of
-- a backend without ALPN: one sample, then the documented fatal condition
example : (GunShot.scenario true "s"
    [(⟨"a", false, []⟩, {}, .full ⟨200, fun _ => [], 0, fun _ => false, false, fun _ => false⟩),
     (⟨"b", false, []⟩, { tls := some ("", false) }, .full ⟨200, fun _ => [], 0, fun _ => false, false, fun _ => false⟩)]).run
    = { reports := [⟨"s.a", 0, 200, 0⟩], panicked := true } := by decide
-- … and with a TLS alert other than no_application_protocol on the second connection: two samples, the run goes on
example : (GunShot.scenario true "s"
    [(⟨"a", false, []⟩, {}, .full ⟨200, fun _ => [], 0, fun _ => false, false, fun _ => false⟩),
     (⟨"b", false, []⟩, { err := alertErr 2 80 }, .noResponse .other)]).run
    = { reports := [⟨"s.a", 0, 200, 0⟩, ⟨"s.b|__EMPTY__", 0, 0, 999⟩], panicked := false } := by decide
-- the regenerated index arithmetic on the defect's witness: `in[3:3]`, not `in[3:5]`
example : Gen.RespGuard.substrIdx 5 0 3 = (3, 3) := by decide
example : Gen.RespGuard.sizeRejects ">" 10 3 = some true := by decide
example : Gen.RespGuard.sizeRejects "~" 10 3 = none := by decide

-- C19_tls_alert_fatal_iff: internal_error is an ordinary failure, no_application_protocol is the fatal one, the same
-- description at warning level is not
example : (alertErr 2 80).panics = false ∧ (alertErr 2 120).panics = true ∧ (alertErr 1 120).panics = false ∧
    (alertErr 2 0).panics = false ∧ (alertErr 3 120).panics = false := by decide
-- C19_connection_plan: the first handshake meets internal_error, the second a reset, then an h2 connection serves
-- the rest (kept alive): three requests, three samples (two failures and the 503 of the target)
example : (instanceRun (((connShots false .h2 false [.fails (alertErr 2 80), .fails {}] [.noResponse .other, .noResponse .other,
      .full ⟨503, fun _ => [], 0, fun _ => false, false, fun _ => false⟩]).map
    fun (f, r) => GunShot.http true f ⟨false, 2, true⟩ "t" 7 "/" r).map GunShot.run)).samples
    = [⟨"t", 7, 0, 999⟩, ⟨"t", 7, 0, 999⟩, ⟨"t", 7, 503, 0⟩] := by decide
example : ConnFate.fatal (.fails (alertErr 2 80)) = false ∧ ConnFate.fatal (.noH2 (some ("", false))) = true ∧
    ConnFate.fatal (.fails (alertErr 2 120)) = true := by decide
-- with keep-alives disabled the fourth request dials again and meets the backend without ALPN: documented fatal
example : ((connShots true .h2 false [.h2, .h2, .fails {}, .noH2 (some ("", false))] (List.replicate 4
      (.full ⟨200, fun _ => [], 0, fun _ => false, false, fun _ => false⟩))).map
    fun (f, r) => (GunShot.http true f ⟨false, 2, true⟩ "t" 7 "/" r).documentedFatal) = [false, false, false, true] := by decide
-- the regenerated condition of the error branch
example : Gen.RespGuard.doErrPanics true true false = false ∧ Gen.RespGuard.doErrPanics true true true = true := by decide

-- C19_connection_plan_scenario: two shots of a two-step scenario, one connection per request: the second request of
-- the first shot meets a reset, the second shot runs over good connections: 1 + 1 (failed step) + 2 samples
example : (instanceRun ((scenarioShotsOverConns true .h2 true "s"
      [(⟨"a", false, []⟩, .full ⟨200, fun _ => [], 0, fun _ => false, false, fun _ => false⟩),
       (⟨"b", false, []⟩, .full ⟨404, fun _ => [], 0, fun _ => false, false, fun _ => false⟩)] 2 false
      [.h2, .fails {}]).map GunShot.run)).samples
    = [⟨"s.a", 0, 200, 0⟩, ⟨"s.b|__EMPTY__", 0, 0, 999⟩, ⟨"s.a", 0, 200, 0⟩, ⟨"s.b", 0, 404, 0⟩] := by decide

-- round 3: index kinds over lists of length 0, 1, n
example : calcIndex .next 3 7 0 = .ok (some 1) ∧ calcIndex .next 0 7 0 = .ok none ∧ calcIndex .last 1 0 0 = .ok (some 0) ∧
    calcIndex (.num (-1)) 3 0 0 = .ok (some 2) ∧ calcIndex (.num 5) 3 0 0 = .ok (some 2) ∧ calcIndex .rand 4 0 11 = .ok (some 3) ∧
    calcIndex .rand 0 0 11 = .ok none ∧ calcIndex .bad 3 0 0 = .ok none := by decide
example : Gen.RespGuard.calcIndex "next" none 0 0 0 = .ok none ∧ Gen.RespGuard.calcIndex "-7" (some (-7)) 3 0 0 = .ok (some 2) := by decide
-- a two-step scenario: the first response stores an EMPTY list, the second step's preprocessor takes `v[next]`:
-- one completed sample, one failed step, no panic; with one element the second step is sent
example : shootScenarioV (some Gen.RespGuard.maxRandStringLength) false "s" {}
      [{ cfg := ⟨"a", false, []⟩, reply := .full ⟨200, fun _ => [], 0, fun _ => false, false, fun _ => false⟩,
         post := [("v", .list true [])] },
       { cfg := ⟨"b", false, []⟩, reply := .full ⟨404, fun _ => [], 0, fun _ => false, false, fun _ => false⟩,
         pre := [("x", .path [⟨"request", none⟩, ⟨"a", none⟩, ⟨"postprocessor", none⟩, ⟨"v", some .next⟩] {})] }]
    = { reports := [⟨"s.a", 0, 200, 0⟩, ⟨"s.b|__EMPTY__", 0, 0, 999⟩], panicked := false } := by decide
example : shootScenarioV (some Gen.RespGuard.maxRandStringLength) false "s" {}
      [{ cfg := ⟨"a", false, []⟩, reply := .full ⟨200, fun _ => [], 0, fun _ => false, false, fun _ => false⟩,
         post := [("v", .list true [.str "e0"])] },
       { cfg := ⟨"b", false, []⟩, reply := .full ⟨404, fun _ => [], 0, fun _ => false, false, fun _ => false⟩,
         pre := [("x", .path [⟨"request", none⟩, ⟨"a", none⟩, ⟨"postprocessor", none⟩, ⟨"v", some .last⟩] {})] }]
    = { reports := [⟨"s.a", 0, 200, 0⟩, ⟨"s.b", 0, 404, 0⟩], panicked := false } := by decide
-- the repaired randString: the same digit string is an error, a small one a string
example : randString (some Gen.RespGuard.maxRandStringLength) (.str "99999999999999999") = .ok false ∧
    randString (some Gen.RespGuard.maxRandStringLength) (.str "12") = .ok true ∧
    randString (some Gen.RespGuard.maxRandStringLength) (.other "1.5" none) = .ok false := by decide
-- C19_grpc_scenario_vars: the first call returns a message without the repeated field (an empty list), the second call's
-- preprocessor takes `result[rand]`: two samples, the second with code 0; nothing panics
example : shootGrpcScenarioV (some Gen.RespGuard.maxRandStringLength) "g" {}
      [{ name := "c0", cfg := ⟨"t0", .callable, []⟩, reply := ⟨0, fun _ => true⟩, post := some [] },
       { name := "c1", cfg := ⟨"t1", .callable, []⟩, reply := ⟨0, fun _ => true⟩,
         pre := [("x", .path [⟨"request", none⟩, ⟨"c0", none⟩, ⟨"postprocessor", none⟩, ⟨"result", some .rand⟩] {})] }]
    = { reports := [⟨"g.t0", 0, 200, 0⟩, ⟨"g.t1", 0, 0, 0⟩], panicked := false } := by decide

-- round 4. C19_discard_overflow: a slow first answer makes the second token overdue; with discard_overflow it is
-- reported as ONE discarded sample, the third shot is taken again
example : (instanceRunSched true (tokensOf
    [(false, .grpc "a" (.invoked 0)), (true, .grpc "b" (.invoked 5)), (false, .grpc "c" (.invoked 14))])).samples =
    [⟨"a", 0, 200, 0⟩, ⟨"discarded", 0, 0, 777⟩, ⟨"c", 0, 503, 0⟩] := by decide
-- … and without it all three shots are taken
example : ((instanceRunSched false (tokensOf
    [(false, .grpc "a" (.invoked 0)), (true, .grpc "b" (.invoked 5)), (false, .grpc "c" (.invoked 14))])).samples).length = 3 := by decide
-- C19_iterator_interleaving: three instances, an interleaving in which two of them are blocked in Lock() for a while
example : (iterRun true 3 {} [0, 1, 2, 0, 1, 0, 2, 0, 1, 1, 1, 1, 2, 2, 2, 2]).handed.map (·.2) = [2, 1, 0] := by decide
-- C19_dns_cache_transparent: refused, refused, connected (fills the cache), refused through the cached address
example : dnsDials {} false [.refused, .refused, .connected, .refused] =
    .ok ([.refused, .refused, .connected, .refused], true) := by decide
-- C19_sample_ownership: a failing assertion on the second step
example : scenarioOps false [⟨"a", .received 200 .ok⟩, ⟨"b", .received 200 .err⟩, ⟨"c", .received 200 .ok⟩] =
    [[.acquire, .touch, .touch, .report], [.acquire, .touch, .touch, .touch, .touch, .report]] := by decide

-- C19_discard_only_when_late: due at 1 s, asked for at 3.5 s (the previous answer took that long): overdue; at 2.9 s: not
example : (tokenAt 1000000000 0 3500000000 {reports := []}).slowDown = true ∧
    (tokenAt 1000000000 0 2900000000 {reports := []}).slowDown = false := by decide

/-! ## round 6: what a slow answer costs — composition with the waiter of the current source

`Gen.Waiter` (gen area `waiter`, owned by C04) regenerates `(*Waiter).Wait`, `IsSlowDown` and one pass of the loop of
`instance.Run` as Lean FUNCTIONS from core/coreutil/waiter.go and core/engine/instance.go; `Bridge.Waiter` proves them equal
to C04's model. The theorem below is stated over those definitions (imported read-only), not over a copy. -/

/-- A slow answer costs exactly the tokens the instance is late for, never the ones after them. For the waiter and the
loop of the CURRENT source (conjuncts 1-3: the regenerated functions are C04's model, the `discarded` sample of this model
carries the regenerated constants), EVERY waiter state, every token and every clock reading:
* the `overdue` a call of `Wait` leaves behind is a function of the token, the cached reading and the clock alone — what
  the waiter remembered of EARLIER tokens (a late one before) is not an argument (conjunct 4): state that survived from
  one token to the next would make one slow answer cost every later shot;
* with a clock that does not run backwards the token is found overdue exactly when the instance asks for it
  `MaxOverdueDuration` or more after its time (conjunct 5);
* for every history of passes of the loop (any tokens, response times, cancellations, `ClockOK`): a `discarded` sample is
  reported only with `discard_overflow` on and only for a token that is `MaxOverdueDuration` late at that moment
  (conjunct 6) — a token asked for in time is SHOT, whatever the target did to the requests before it;
* the samples the aggregator receives for the whole loop are, token by token, the samples of the token's shot or the one
  `discarded` sample (`tokenSamples`), and the loop is C19's `instanceRunSched` on these tokens: all theorems about it
  (`C19_discard_overflow`) apply to the loop of the current source (conjuncts 7, 8). -/
theorem C19_slow_answer_costs_only_late_tokens :
    (∀ (w : Model.C04.Waiter) (e : Model.C04.Env),
      Gen.Waiter.Wait w e = ((Model.C04.wait w e).w, (Model.C04.wait w e).ok)) ∧
    (∀ (d : Bool) (w : Model.C04.Waiter) (it : Model.C04.Iter),
      Gen.Waiter.iteration d w it = Model.C04.iteration .fresh d w it) ∧
    (discardedSample.tags = Gen.Waiter.DiscardedShootTag ∧ (discardedSample.net : Int) = Gen.Waiter.DiscardedShootCodeError ∧
      maxOverdue = Gen.Waiter.MaxOverdueDuration) ∧
    (∀ (w : Model.C04.Waiter) (e : Model.C04.Env), (Gen.Waiter.Wait w e).1.overdue = R6.overdueAfter w.lastNow e) ∧
    (∀ (w : Model.C04.Waiter) (e : Model.C04.Env) (next : Int), e.ctxDone = false → e.tok = some next → w.lastNow ≤ e.now →
      (Gen.Waiter.IsSlowDown (Gen.Waiter.Wait w e).1 false = true ↔ e.now - next ≥ Gen.Waiter.MaxOverdueDuration)) ∧
    (∀ (d : Bool) (w : Model.C04.Waiter) (h : List Model.C04.Iter), Proofs.C04.ClockOK w h →
      ∀ it s, Model.C04.Ev.discard it s ∈ (Model.C04.runLoop .fresh d w h).1 →
        d = true ∧ ∃ next, it.env.tok = some next ∧ Gen.Waiter.MaxOverdueDuration ≤ it.env.ret - next) ∧
    (∀ (shotOf : Model.C04.Iter → ShotResult) (d : Bool) (w : Model.C04.Waiter) (h : List Model.C04.Iter),
      R6.samplesOfEvents shotOf (Model.C04.runLoop .fresh d w h).1 =
        ((R6.drawnTokens shotOf w h).map (tokenSamples d)).flatten) ∧
    (∀ (shotOf : Model.C04.Iter → ShotResult) (d : Bool) (w : Model.C04.Waiter) (h : List Model.C04.Iter),
      (∀ t ∈ R6.drawnTokens shotOf w h, shootCond d t.slowDown = true → t.shot.panicked = false) →
      (instanceRunSched d (R6.drawnTokens shotOf w h)).result = .finished ∧
      (instanceRunSched d (R6.drawnTokens shotOf w h)).samples =
        R6.samplesOfEvents shotOf (Model.C04.runLoop .fresh d w h).1) := by
  refine ⟨Bridge.Waiter.Wait_eq, Bridge.Waiter.iteration_eq, ⟨rfl, rfl, rfl⟩, ?_, ?_, ?_, R6.samples_eq, ?_⟩
  · intro w e
    rw [Bridge.Waiter.Wait_eq]
    exact R6.wait_overdue w e
  · intro w e next hc ht hl
    rw [Bridge.Waiter.IsSlowDown_eq, Bridge.Waiter.Wait_eq, Bridge.Waiter.MaxOverdueDuration_eq]
    simp only [Model.C04.isSlowDown, Model.C04.slowCond, R6.wait_overdue, R6.overdueAfter_eq w.lastNow e next hc ht]
    have := isSlowDown_iff next w.lastNow e.now hl
    simp only [isSlowDown, maxOverdue] at this
    simpa [Model.C04.maxOverdue] using this
  · intro d w h hc it s hev
    rw [Bridge.Waiter.MaxOverdueDuration_eq]
    exact R6.discard_only_late d w h hc it s hev
  · intro shotOf d w h hp
    have := instanceRunSched_all d (R6.drawnTokens shotOf w h) (R6.drawnTokens_waitOk shotOf w h) hp
    exact ⟨this.1, by rw [this.2.2, R6.samples_eq]⟩

/-- the history behind the seeded change C19-r5-3, as the model sees it: the first answer takes 2.7 s, so the second
token (due at once) is overdue and dropped; the third is due at 3.0 s, the instance asks for it at 2.7 s, sleeps, and
SHOOTS it. (All times in ns after an instant well after year 1.) -/
def r6Demo : List Model.C04.Iter :=
  let t : Int := 1700000000000000000
  [ { env := { tok := some t, pick := t, now := t, arm := t, ret := t }, dur := 2700000000 },
    { env := { tok := some t, pick := t + 2700000000, now := t + 2700000000, arm := t + 2700000000, ret := t + 2700000000 } },
    { env := { tok := some (t + 3000000000), pick := t + 2700000000, now := t + 2700000000, arm := t + 2700000000,
               ret := t + 3000000000 } } ]

-- C19_slow_answer_costs_only_late_tokens: the hypotheses hold of a non-trivial history (a late token followed by one in
-- the future), its second token is dropped, its third is shot
example : Proofs.C04.ClockOK {} r6Demo ∧
    ((Model.C04.runLoop .fresh true {} r6Demo).1.map Model.C04.Ev.isShoot) = [true, false, true] ∧
    (R6.drawnTokens (fun _ => { reports := [] }) {} r6Demo).map (·.slowDown) = [false, true, false] := by decide

/-- the seeded change C19-r5-3 as a model: `Wait` of the current source except that the overdue is NOT reset in front of
the timer wait (a token in the future leaves the overdue of the last late token behind) -/
def waitStale (w : Model.C04.Waiter) (e : Model.C04.Env) : Model.C04.Res :=
  let r := Model.C04.wait w e
  match r.path with
  | .timer | .timerCancel => { r with w := { r.w with overdue := w.overdue } }
  | _ => r

/-- the loop of `instance.Run` over that waiter (shape of `Model.C04.runLoop`; `true` = the token is shot) -/
def runStale (discard : Bool) : Model.C04.Waiter → List Model.C04.Iter → List Bool
  | _, [] => []
  | w, it :: rest =>
    if it.finished || !it.ammoOk then [] else
    let r := waitStale w it.env
    if !r.ok then runStale discard r.w rest
    else Model.C04.fires discard (Model.C04.isSlowDown r.w it.ctxDoneSlow) :: runStale discard r.w rest

/-- …and why the reset matters: with the stale overdue the history `r6Demo` (one slow answer) loses its third token —
due 300 ms AFTER the instance asks for it — and with it every later one: conjunct 6 of
`C19_slow_answer_costs_only_late_tokens` is false of that waiter. The seeded change is a proved violation, not only a
broken bridge. -/
theorem C19_stale_overdue_counterexample :
    Proofs.C04.ClockOK {} r6Demo ∧ runStale true {} r6Demo = [true, false, false] ∧
    ((Model.C04.runLoop .fresh true {} r6Demo).1.map Model.C04.Ev.isShoot) = [true, false, true] := by decide

/-- schedule → waiter → instance, over C02's model of a schedule leaf (`Model.C02.Leaf.fin`: once / const / line / step
profiles are lists of offsets) and C04's waiter of the current source: whatever the target did before, the instance never
acts on token `i` of a started profile before `start + offs[i]` — `Wait` returns true (at instant `e.ret`) only for a token
the schedule handed out, and not before its instant (clock hypotheses `EnvOK`, cached reading not ahead of the clock). A
slow target can make shots LATE (and, with discard_overflow, cost them), it cannot pull later shots forward. -/
theorem C19_shot_not_before_profile_instant (offs : List Int) (dur : Int) (i : Nat) (start now : Int)
    (l' : Model.C02.Leaf) (tx : Int) (w : Model.C04.Waiter) (e : Model.C04.Env)
    (hn : Model.C02.Leaf.next (.fin offs dur i (some start)) now = .ok (l', tx, true))
    (htok : e.tok = some tx) (hok : Proofs.C04.EnvOK e) (hinv : w.lastNow ≤ e.now)
    (h : (Gen.Waiter.Wait w e).2 = true) :
    ∃ o, offs[i]? = some o ∧ tx = start + o ∧ start + o ≤ e.ret := by
  rw [Bridge.Waiter.Wait_eq] at h
  obtain ⟨next, h1, h2, _⟩ := Proofs.C04.waitV_ok .fresh w e hok hinv h
  rw [htok] at h1
  cases h1
  unfold Model.C02.Leaf.next at hn
  cases ho : offs[i]? with
  | none => simp [ho] at hn
  | some o =>
    simp [ho] at hn
    exact ⟨o, rfl, hn.2.symm, by omega⟩

-- C19_shot_not_before_profile_instant: token 1 of const 2/s (offsets 0, 500 ms), started at t = 1.7e18, asked for 100 ms early
example :
    Model.C02.Leaf.next (.fin [0, 500000000] 1000000000 1 (some 1700000000000000000)) 1700000000000000000 =
      .ok (.fin [0, 500000000] 1000000000 2 (some 1700000000000000000), 1700000000500000000, true) ∧
    Proofs.C04.EnvOK { tok := some 1700000000500000000, now := 1700000000400000000, arm := 1700000000400000000,
                       ret := 1700000000500000000 } ∧
    (Gen.Waiter.Wait {} { tok := some 1700000000500000000, now := 1700000000400000000, arm := 1700000000400000000,
                          ret := 1700000000500000000 }).2 = true :=
  ⟨by rfl, by decide, by decide⟩

end Pandora.Props.C19
