import Pandora.Model.C07
import Pandora.Spec.C07

namespace Pandora.Props.C07
end Pandora.Props.C07
