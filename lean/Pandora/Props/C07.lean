/-
C07 — ammo decoding fidelity: the property theorems.

For EVERY list of entries, EVERY permitted layout, EVERY limit `k` (i.e. any number of passes, complete or not) and
both provider modes (streaming / preload) the decoder models of `Pandora.Model.C07` deliver exactly the entries that
were rendered into the file, in file order, wrapping around at end of file, each with the header lines that precede
it in the file (and nothing from the previous pass).  The models are tied to the real decoders by the differential
harness (harness/cmd/c07, `Pandora.Drv.C07`); the helper lemmas are in `Pandora/Proofs/C07*.lean`.
-/
import Pandora.Proofs.C07Extra
import Pandora.Proofs.C07Heap
import Pandora.Proofs.C07Frame
import Pandora.Proofs.C07Prov
import Pandora.Proofs.C07Enrich
import Pandora.Proofs.C07Json
import Pandora.Proofs.C07Build
import Pandora.Bridge.C07

namespace Pandora.Props.C07
open Pandora.Model.C07 Pandora.Spec.C07 Pandora.Proofs.C07

/-! ### statement-level definitions -/

/-- what a provider delivers under `Limit = k` when one pass over the file yields `pass`:
the pass repeated and cut at `k`; a file without entries is the error `no ammo in file` -/
def cycled {α : Type} (pass : List α) (k : Nat) : List α × Stop :=
  if pass.isEmpty then ([], .err .noammo) else (cycleTake pass k, .eof)

/-- a well-formed ammo file description: entries and layout within what the format permits (no condition on line
lengths: since /repo 66b1841 the uri decoder reads lines of any length, like the other formats) -/
def wellFormed (f : Fmt) (items : List Item) (lay : Layout) : Prop :=
  itemsOK f items = true ∧ layoutOK lay = true

/-- … for a uri decoder whose Scanner has the token limit `lim` (the decoder before that repair: `some maxTok`):
additionally every line of the file fits a token -/
def wellFormedLim (lim : Option Nat) (items : List Item) (lay : Layout) : Prop :=
  itemsOK .uri items = true ∧ layoutOK lay = true ∧ linesFitL lim (render .uri items lay) = true

/-- the delivery of any of the three line formats -/
inductive Delivered where
  | ammo (r : List Ammo × Stop)
  | frames (r : List RawAmmo × Stop)
deriving DecidableEq

/-- the provider model for format `f` on the bytes `file` -/
def decodeAll (f : Fmt) (file : Bytes) (k : Nat) (pre : Bool) : Delivered :=
  match f with
  | .uri => .ammo (uriDeliver file k pre)
  | .uripost => .ammo (uripostDeliver true file k pre)
  | .raw => .frames (rawDeliver file k pre)

/-- what the ENTRIES say must be delivered (no file bytes, no layout involved) -/
def expectedAll (f : Fmt) (items : List Item) (k : Nat) : Delivered :=
  match f with
  | .raw => .frames (cycled (expFrames items) k)
  | _ => .ammo (cycled (expAmmo f [] items) k)

/-- number of request entries (header lines are not entries) -/
def countReqs : List Item → Nat
  | [] => 0
  | .hdr _ _ :: r => countReqs r
  | _ :: r => countReqs r + 1

/-! ### one pass over a rendered file -/

/-- uri, for ANY token limit of the decoder's Scanner (`none`: no limit): one pass over a rendered file all of whose
lines fit a token yields exactly the entries, with their effective headers -/
theorem C07_uri_pass_lim (lim : Option Nat) (items : List Item) (lay : Layout)
    (hi : itemsOK .uri items = true) (hl : layoutOK lay = true) (hf : linesFitL lim (render .uri items lay) = true) :
    uriPassLim lim (render .uri items lay) [] = (expAmmo .uri [] items, .eof) := by
  obtain ⟨hlead, hper, htrail⟩ := layoutOK_parts hl
  have hfits := fits_of_linesFitL hf
  unfold render at hfits ⊢
  obtain ⟨hb, hfits'⟩ := uriPass_blanks lay.lead _ [] hlead hfits
  rw [hb]
  exact uriPass_renderItems lay.finalNL lay.trail htrail items lay.per [] hi hper hfits'

/-- without a limit every file fits -/
theorem C07_no_limit_fits (file : Bytes) : linesFitL none file = true := by
  simp [linesFitL, tooLong]

/-- uri as it is in /repo (no line limit since 66b1841): one pass of the scanner over the rendered file yields exactly
the entries, with their effective headers — whatever the length of its lines -/
theorem C07_uri_pass (items : List Item) (lay : Layout)
    (hi : itemsOK .uri items = true) (hl : layoutOK lay = true) :
    uriPass (render .uri items lay) [] = (expAmmo .uri [] items, .eof) :=
  C07_uri_pass_lim none items lay hi hl (C07_no_limit_fits _)

/-- uripost: one pass of the (repaired) block reader yields exactly the entries with their bodies -/
theorem C07_uripost_pass (items : List Item) (lay : Layout)
    (hi : itemsOK .uripost items = true) (hl : layoutOK lay = true) :
    uripostPass true (render .uripost items lay) [] = (expAmmo .uripost [] items, .eof) := by
  obtain ⟨hlead, hper, htrail⟩ := layoutOK_parts hl
  unfold render
  rw [upPass_blanks lay.lead _ [] hlead]
  exact upPass_renderItems lay.finalNL lay.trail htrail items lay.per [] hi hper

/-- raw: one pass finds exactly the frames, whatever bytes they contain -/
theorem C07_raw_pass (items : List Item) (lay : Layout)
    (hi : itemsOK .raw items = true) (hl : layoutOK lay = true) :
    rawPass (render .raw items lay) = (expFrames items, .eof) := by
  obtain ⟨hlead, hper, htrail⟩ := layoutOK_parts hl
  unfold render
  rw [rawPass_blanks lay.lead _ hlead]
  exact rawPass_renderItems lay.finalNL lay.trail htrail items lay.per hi hper

/-! ### round trips: all entry lists, all layouts, all limits (any number of passes), both modes -/

/-- **uri**: the provider delivers the entries of the file, in file order, wrapping around, each with the header
lines that precede it in the file (accumulated from nothing at every pass) -/
theorem C07_uri_roundtrip (items : List Item) (lay : Layout) (k : Nat) (pre : Bool)
    (hi : itemsOK .uri items = true) (hl : layoutOK lay = true) :
    uriDeliver (render .uri items lay) k pre = cycled (expAmmo .uri [] items) k := by
  show deliver (uriPass (render .uri items lay) []) k pre = _
  rw [C07_uri_pass items lay hi hl, deliver_eof]; rfl

/-- the same for a decoder with a token limit, on files whose lines fit it (the decoder before /repo 66b1841) -/
theorem C07_uri_roundtrip_lim (lim : Option Nat) (items : List Item) (lay : Layout) (k : Nat) (pre : Bool)
    (h : wellFormedLim lim items lay) :
    uriDeliverLim lim (render .uri items lay) k pre = cycled (expAmmo .uri [] items) k := by
  unfold uriDeliverLim
  rw [C07_uri_pass_lim lim items lay h.1 h.2.1 h.2.2, deliver_eof]; rfl

/-- **uripost**: the same with bodies of arbitrary bytes (newlines, `[`, NUL, empty, lines that look like entries);
a last entry without trailing newline is kept -/
theorem C07_uripost_roundtrip (items : List Item) (lay : Layout) (k : Nat) (pre : Bool)
    (hi : itemsOK .uripost items = true) (hl : layoutOK lay = true) :
    uripostDeliver true (render .uripost items lay) k pre = cycled (expAmmo .uripost [] items) k := by
  unfold uripostDeliver
  rw [C07_uripost_pass items lay hi hl, deliver_eof]; rfl

/-- **raw**: exactly the frames with their tags, whatever the frames contain -/
theorem C07_raw_frames (items : List Item) (lay : Layout) (k : Nat) (pre : Bool)
    (hi : itemsOK .raw items = true) (hl : layoutOK lay = true) :
    rawDeliver (render .raw items lay) k pre = cycled (expFrames items) k := by
  unfold rawDeliver
  rw [C07_raw_pass items lay hi hl, deliver_eof]; rfl

/-- all three formats at once: the delivery is the function `expectedAll` of the ENTRIES -/
theorem C07_roundtrip (f : Fmt) (items : List Item) (lay : Layout) (k : Nat) (pre : Bool)
    (h : wellFormed f items lay) :
    decodeAll f (render f items lay) k pre = expectedAll f items k := by
  obtain ⟨hi, hl⟩ := h
  cases f with
  | uri => simp only [decodeAll, expectedAll]; rw [C07_uri_roundtrip items lay k pre hi hl]
  | uripost => simp only [decodeAll, expectedAll]; rw [C07_uripost_roundtrip items lay k pre hi hl]
  | raw => simp only [decodeAll, expectedAll]; rw [C07_raw_frames items lay k pre hi hl]

/-- **layout never matters**: two permitted layouts of the same entries (blank lines, surrounding blanks, CRLF,
padding inside header lines, final newline present or not, trailing blanks) are delivered identically -/
theorem C07_layout_invariant (f : Fmt) (items : List Item) (lay lay' : Layout) (k : Nat) (pre pre' : Bool)
    (h : wellFormed f items lay) (h' : wellFormed f items lay') :
    decodeAll f (render f items lay) k pre = decodeAll f (render f items lay') k pre' := by
  rw [C07_roundtrip f items lay k pre h, C07_roundtrip f items lay' k pre' h']

/-- why the repair df9a0d4 was needed: the block reader BEFORE it (`uripostPass false`) discards whatever follows the
last newline of the file — a last entry `0 /b tag` without final newline was dropped (compare `C07_uripost_pass`) -/
theorem C07_unrepaired_uripost_drops_last (line : Bytes) (h : Hdrs) (hl : LF ∉ line) :
    uripostPass false line h = ([], .eof) := by
  cases line with
  | nil => rw [uripostPass]
  | cons b r =>
    have hc := cut_no_sep LF (b :: r) hl
    rw [uripostPass]
    simp [hc]

/-! ### what "the entries, wrapping around" means, spelled out -/

/-- position `i` of the delivery is entry `i mod n` of the pass: file order, wrap-around, nothing dropped,
duplicated or merged; and exactly `k` are delivered -/
theorem C07_wraparound {α : Type} (pass : List α) (hne : pass ≠ []) (k : Nat) :
    (cycled pass k).2 = .eof ∧ (cycled pass k).1.length = k ∧
    ∀ i, i < k → (cycled pass k).1[i]? = pass[i % pass.length]? := by
  have he : pass.isEmpty = false := by cases pass <;> simp_all
  have hc : cycled pass k = (cycleTake pass k, .eof) := by simp [cycled, he]
  rw [hc]
  exact ⟨rfl, cycleTake_length pass hne k, fun i hi => cycleTake_get pass hne k i hi⟩

/-- header lines are forgotten at each new pass: the delivery one pass later is the same ammo (same effective
header set), not the one with the headers accumulated until the end of the file -/
theorem C07_headers_forgotten {α : Type} (pass : List α) (hne : pass ≠ []) (k i : Nat) (hi : i + pass.length < k) :
    (cycled pass k).1[i + pass.length]? = (cycled pass k).1[i]? := by
  obtain ⟨_, _, h⟩ := C07_wraparound pass hne k
  rw [h _ hi, h i (by omega), Nat.add_mod_right]

/-- one pass has exactly one ammo per request entry (header lines produce none) -/
theorem C07_count (f : Fmt) (hf : f ≠ .raw) (items : List Item) (hi : itemsOK f items = true) :
    ∀ h, (expAmmo f h items).length = countReqs items := by
  induction items with
  | nil => intro h; rfl
  | cons it r ih =>
    intro h
    simp only [itemsOK, List.all_cons, Bool.and_eq_true] at hi
    have ihr := ih (by simpa [itemsOK] using hi.2)
    cases it with
    | hdr k v => simp only [expAmmo, countReqs]; exact ihr _
    | req u t b => simp only [expAmmo, countReqs, List.length_cons]; rw [ihr]
    | frame t fr => cases f <;> simp_all [itemOK]

theorem C07_count_raw (items : List Item) (hi : itemsOK .raw items = true) :
    (expFrames items).length = countReqs items := by
  induction items with
  | nil => rfl
  | cons it r ih =>
    simp only [itemsOK, List.all_cons, Bool.and_eq_true] at hi
    have ihr := ih (by simpa [itemsOK] using hi.2)
    cases it with
    | hdr k v => simp [itemOK] at hi
    | req u t b => simp [itemOK] at hi
    | frame t fr => simp only [expFrames, countReqs, List.length_cons]; rw [ihr]

/-! ### the model is the model of the CURRENT source (facts regenerated by /verif/gen on every run) -/

/-- the decoders in /repo obtain their lines the way the pass functions of the model describe: uri through a
`bufio.Scanner` whose buffer may grow to `math.MaxInt` (`newLineScanner`: no line limit, `scanLimit maxIntGo = none`), uripost and raw through
`ReadString('\n')` (no limit); each of them applies `strings.TrimSpace` to the line, stores a clone of the header
accumulator in the ammo and uses the methods GET / POST (lemmas of `Pandora.Bridge.C07` about `Pandora.Gen.AmmoDec`) -/
theorem C07_regenerated_readers :
    Pandora.Gen.AmmoDec.uriReader = .scanner maxIntGo ∧ scanLimit maxIntGo = none ∧ Pandora.Gen.AmmoDec.uripostReader = .readString 10
      ∧ Pandora.Gen.AmmoDec.rawReader = .readString 10
      ∧ Pandora.Gen.AmmoDec.uriMethod = getBytes ∧ Pandora.Gen.AmmoDec.uripostMethod = postBytes
      ∧ Pandora.Gen.AmmoDec.uriHeaderOrigin = .clone ∧ Pandora.Gen.AmmoDec.uripostHeaderOrigin = .clone
      ∧ Pandora.Gen.AmmoDec.jsonURLPrefix = httpPrefix :=
  ⟨Pandora.Bridge.C07.uriReader_eq, by decide, Pandora.Bridge.C07.uripostReader_eq, Pandora.Bridge.C07.rawReader_eq,
   Pandora.Bridge.C07.methods_eq.1, Pandora.Bridge.C07.methods_eq.2,
   Pandora.Bridge.C07.headerOrigin_eq.1, Pandora.Bridge.C07.headerOrigin_eq.2, Pandora.Bridge.C07.json_facts.1⟩

/-- round 3 — the three string helpers of the line formats, regenerated STATEMENT BY STATEMENT from the current source
(`util.DecodeHeader`, `uripost.DecodeURI`, `raw.DecodeHeader`: named results, early returns, `if init; cond`, index and
slice expressions as partial operations), compute for EVERY input what the model's `decodeHeader`, `decodeURI`,
`rawDecodeHeader` compute, and never reach a run-time panic (`goResult… = some …`).  A helper whose source leaves the
translator's subset is reported untranslated (`…G? = none`) and nothing is claimed about it in that run. -/
theorem C07_regenerated_helpers :
    (∀ g ∈ Pandora.Gen.AmmoDec.decodeHeaderG?, ∀ h : Bytes,
        Pandora.Bridge.C07.goResult2 (g h) = Pandora.Bridge.C07.modelResult (decodeHeader h))
    ∧ (∀ g ∈ Pandora.Gen.AmmoDec.decodeURIG?, ∀ s : Bytes,
        Pandora.Bridge.C07.goResult3 (g s) = Pandora.Bridge.C07.modelResult (decodeURI s))
    ∧ (∀ g ∈ Pandora.Gen.AmmoDec.rawDecodeHeaderG?, ∀ s : Bytes,
        (Pandora.Bridge.C07.goResult2 (g s)).map (fun r => r.toOption) = some (rawDecodeHeader s)) := by
  refine ⟨?_, ?_, ?_⟩
  · intro g hg h
    have ht : Pandora.Gen.AmmoDec.decodeHeaderG?.isSome = true := by rw [Option.mem_def.mp hg]; rfl
    have e : g = Pandora.Gen.AmmoDec.decodeHeaderG := by
      have := Option.mem_def.mp hg
      first
      | exact absurd ht (by decide)
      | exact (Option.some.inj this).symm
    rw [e]; exact Pandora.Bridge.C07.decodeHeaderG_eq ht h
  · intro g hg s
    have ht : Pandora.Gen.AmmoDec.decodeURIG?.isSome = true := by rw [Option.mem_def.mp hg]; rfl
    have e : g = Pandora.Gen.AmmoDec.decodeURIG := by
      have := Option.mem_def.mp hg
      first
      | exact absurd ht (by decide)
      | exact (Option.some.inj this).symm
    rw [e]; exact Pandora.Bridge.C07.decodeURIG_eq ht s
  · intro g hg s
    have ht : Pandora.Gen.AmmoDec.rawDecodeHeaderG?.isSome = true := by rw [Option.mem_def.mp hg]; rfl
    have e : g = Pandora.Gen.AmmoDec.rawDecodeHeaderG := by
      have := Option.mem_def.mp hg
      first
      | exact absurd ht (by decide)
      | exact (Option.some.inj this).symm
    rw [e, Pandora.Bridge.C07.rawDecodeHeaderG_eq ht s]
    cases rawDecodeHeader s <;> rfl

/-! ### ownership of the header set: WHEN the request is built does not matter

The pass functions treat the running `[Header: value]` set as a value.  In the code it is a map that later header lines
keep writing, and `BuildRequest` reads the ammo's map later, on another goroutine: while the decoder already scans
towards the next entry (streaming), after the whole file has been scanned (`preload`), at any time with several
instances.  `Pandora.Model.C07Heap` models the maps as heap cells and lets decoder steps and reads interleave freely. -/

/-- a decoder that stores a clone of the accumulator (what /repo does: `Pandora.Bridge.C07.headerOrigin_eq`): in EVERY
interleaving of decoder steps (header lines, entries, any number of new passes) and `BuildRequest`s (of any delivered
ammo, at any later moment, in any order, any number of times) every `BuildRequest` sees exactly the header set of the
value model, i.e. the header lines that precede the entry in its pass, plus the `headers` option -/
theorem C07_clone_isolates (cfg : Hdrs) (acts : List Act) : readsRight true cfg acts :=
  clone_readsRight cfg acts

/-- the same for the CURRENT source: the origin regenerated from `readLine` / `readBlock` makes the decoder a copying one -/
theorem C07_clone_isolates_regenerated (cfg : Hdrs) (acts : List Act) :
    readsRight (copiesOf Pandora.Gen.AmmoDec.uriHeaderOrigin cfg) cfg acts
      ∧ readsRight (copiesOf Pandora.Gen.AmmoDec.uripostHeaderOrigin cfg) cfg acts := by
  rw [(Pandora.Bridge.C07.copies_eq cfg).1, (Pandora.Bridge.C07.copies_eq cfg).2]
  exact ⟨clone_readsRight cfg acts, clone_readsRight cfg acts⟩

/-- in terms of the ENTRIES: when the decoder's part of the interleaving is `n` passes over a file rendered from
`items`, the `BuildRequest` of delivery number `j`, whenever it runs, sees the header set of entry `j mod len` of the
Spec (`expAmmo`, header lines accumulated from nothing at every pass) merged with the `headers` option -/
theorem C07_clone_isolates_entries (f : Fmt) (cfg : Hdrs) (items : List Item) (n : Nat) (acts : List Act)
    (hd : decEvs acts = passEvs f items n) :
    ∀ jh ∈ (runRef true cfg RefState.init acts).reads,
      ((List.replicate n ((expAmmo f [] items).map (Ammo.withCfg cfg))).flatten[jh.1]?).map (·.hdrs) = some jh.2 := by
  intro jh hjh
  have h := clone_readsRight cfg acts jh hjh
  unfold valueHdrs at h
  rw [hd, valueOut_passEvs] at h
  exact h

/-- "clone only when there is a `headers` option to merge" (origin `mixed`; a seeded change did exactly this):
the full claim for such a decoder … -/
def C07_mixed_isolates_statement : Prop :=
  ∀ (cfg : Hdrs) (acts : List Act), readsRight (copiesOf .mixed cfg) cfg acts

/-- … holds when the option is non-empty (which is why tests that configure a header do not notice) … -/
theorem C07_mixed_isolates_partial (cfg : Hdrs) (hc : cfg ≠ []) (acts : List Act) :
    readsRight (copiesOf .mixed cfg) cfg acts := by
  have : copiesOf .mixed cfg = true := by
    cases cfg with
    | nil => exact absurd rfl hc
    | cons a r => rfl
  rw [this]
  exact clone_readsRight cfg acts

/-- the witness: one entry, then a header line, then the request of the entry is built -/
def aliasWitness : List Act :=
  [.dec (.req { method := getBytes, url := [47, 97], body := [], tag := [], hdrs := [] }),
   .dec (.hdr [88] [49]), .read 0]

/-- … and is false without one: the entry is delivered with a header line written AFTER it -/
theorem C07_mixed_isolates_counterexample : ¬ C07_mixed_isolates_statement := by
  intro h
  have h1 := h [] aliasWitness (0, [([88], [49])]) (by decide)
  revert h1
  decide

/-- a decoder that stores the accumulator itself is wrong for every `headers` option the model gives it -/
theorem C07_alias_counterexample : ¬ ∀ acts : List Act, readsRight false [] acts := by
  intro h
  have h1 := h aliasWitness (0, [([88], [49])]) (by decide)
  revert h1
  decide

/-! ### … and forgotten at each new pass: what the decoder does to the accumulator when the file wraps around (round 3) -/

/-- a cloning decoder that, at the end of a pass, gives itself a NEW accumulator map or EMPTIES the old one in place
(`clear(d.header)`): in every interleaving of decoder steps, passes and `BuildRequest`s every request sees the header
lines of its own pass only.  (Emptying in place is safe because no delivered ammo holds the accumulator cell.) -/
theorem C07_pass_reset_isolates (reset : PassReset) (hf : reset.forgets = true) (cfg : Hdrs) (acts : List Act) :
    readsRightR reset cfg acts :=
  reset_readsRight reset hf cfg acts

/-- the same for the CURRENT source: the end-of-pass behaviour regenerated from `uriDecoder.Scan` / `uripostDecoder.Scan` -/
theorem C07_pass_reset_regenerated (cfg : Hdrs) (acts : List Act) :
    readsRightR Pandora.Gen.AmmoDec.uriPassReset cfg acts ∧ readsRightR Pandora.Gen.AmmoDec.uripostPassReset cfg acts :=
  ⟨reset_readsRight _ Pandora.Bridge.C07.passReset_forgets.1 cfg acts,
   reset_readsRight _ Pandora.Bridge.C07.passReset_forgets.2 cfg acts⟩

/-- the claim for a decoder that leaves its accumulator alone at the end of a pass … -/
def C07_pass_reset_kept_statement : Prop := ∀ (cfg : Hdrs) (acts : List Act), readsRightR .kept cfg acts

/-- … holds as long as the file is read once (no `newPass` among the decoder's steps: why a single-pass test passes) … -/
theorem C07_pass_reset_kept_partial (cfg : Hdrs) (acts : List Act) (h1 : LineEv.newPass ∉ decEvs acts) :
    readsRightR .kept cfg acts := by
  have hrun : ∀ (acts : List Act) (s : RefState), LineEv.newPass ∉ decEvs acts →
      runRefR .kept cfg s acts = runRef true cfg s acts := by
    intro acts
    induction acts with
    | nil => intro s _; rfl
    | cons a r ih =>
      intro s hn
      cases a with
      | read j => exact ih _ (by simpa [decEvs] using hn)
      | dec e =>
        cases e with
        | newPass => simp [decEvs] at hn
        | hdr k v => exact ih _ (by simpa [decEvs] using hn)
        | req am => exact ih _ (by simpa [decEvs] using hn)
  intro jh hjh
  rw [hrun acts _ h1] at hjh
  exact clone_readsRight cfg acts jh hjh

/-- the witness: `[X: 1]`, an entry, end of file, the entry again, then the request of the second delivery is built -/
def keptWitness : List Act :=
  [.dec (.hdr [88] [49]), .dec (.req { method := getBytes, url := [47, 97], body := [], tag := [], hdrs := [] }),
   .dec .newPass, .dec (.req { method := getBytes, url := [47, 97], body := [], tag := [], hdrs := [] }), .read 1]

/-- … and is false over two passes: an entry that precedes the header line in the file is delivered WITH it in pass 2 -/
theorem C07_pass_reset_needed : ¬ C07_pass_reset_kept_statement := by
  intro h
  have h1 := h [] [.dec (.req { method := getBytes, url := [47, 97], body := [], tag := [], hdrs := [] }),
    .dec (.hdr [88] [49]), .dec .newPass,
    .dec (.req { method := getBytes, url := [47, 97], body := [], tag := [], hdrs := [] }), .read 1]
    (1, [([88], [49])]) (by decide)
  revert h1
  decide

/-! ### line length: no format has a line limit (uri: since /repo 66b1841; before, the `bufio.Scanner` default of 64 KiB) -/

/-- the uri round trip for a decoder whose Scanner has the DEFAULT buffer (what /repo had before 66b1841), stated
without a hypothesis on line lengths.  It is FALSE (`C07_uri_roundtrip_counterexample`: this is the defect that commit
repaired); `C07_uri_roundtrip_partial` is the part that held.  For the current decoder the unrestricted statement is
the theorem `C07_uri_roundtrip`. -/
def C07_uri_roundtrip_statement : Prop :=
  ∀ (items : List Item) (lay : Layout) (k : Nat) (pre : Bool),
    itemsOK .uri items = true → layoutOK lay = true →
    uriDeliverLim (some maxTok) (render .uri items lay) k pre = cycled (expAmmo .uri [] items) k

/-- the part that held: every line shorter than the Scanner limit -/
theorem C07_uri_roundtrip_partial (items : List Item) (lay : Layout) (k : Nat) (pre : Bool)
    (hi : itemsOK .uri items = true) (hl : layoutOK lay = true) (hf : linesFit (render .uri items lay) = true) :
    uriDeliverLim (some maxTok) (render .uri items lay) k pre = cycled (expAmmo .uri [] items) k :=
  C07_uri_roundtrip_lim (some maxTok) items lay k pre ⟨hi, hl, hf⟩

/-- with a default Scanner a uri file whose first line has 65536 bytes or more is not delivered wrongly, it is REFUSED:
`token too long`, in either mode, before anything is handed out -/
theorem C07_uri_line_limit (line rest : Bytes) (k : Nat) (pre : Bool) (hk : 0 < k)
    (hline : LF ∉ line) (hlong : maxTok ≤ line.length) :
    uriDeliverLim (some maxTok) (line ++ LF :: rest) k pre = ([], .err .toolong) := by
  unfold uriDeliverLim
  rw [uriPass_toolong maxTok (by decide) line (LF :: rest) [] hline hlong (Or.inr ⟨rest, rfl⟩)]
  cases pre
  · simp [deliver]; omega
  · simp [deliver]

/-- the limit was real: the single entry `/aaa…a` with a target of 65536 bytes is a well-formed uri entry, and a decoder
with the default Scanner delivers nothing of it -/
theorem C07_uri_roundtrip_counterexample : ¬ C07_uri_roundtrip_statement := by
  intro hst
  have hi : itemsOK .uri [.req (longTarget 65535) [] []] = true := by
    have := longTarget_ok 65535
    simp only [itemsOK, List.all_cons, List.all_nil, itemOK, this]
    decide
  have h := hst [.req (longTarget 65535) [] []] {} 1 false hi (by decide)
  have hfile : render .uri [.req (longTarget 65535) [] []] {} = longTarget 65535 ++ LF :: [] := by
    simp [render, renderItems, renderBlanks, content, payload]
  rw [hfile, C07_uri_line_limit (longTarget 65535) [] 1 false (by omega) (longTarget_noLF _)
    (by rw [longTarget_length]; decide)] at h
  have h2 := congrArg Prod.snd h
  simp [cycled, expAmmo] at h2

/-- … and is gone: the decoder of /repo delivers a uri entry whose line has ANY length (here a target of `n + 1` bytes
for every `n`, any tag, any layout, any limit, both modes), exactly like uripost and raw -/
theorem C07_uri_any_line_length (n : Nat) (t : Bytes) (lay : Layout) (k : Nat) (pre : Bool)
    (ht : tagOK t = true) (hl : layoutOK lay = true) :
    uriDeliver (render .uri [.req (longTarget n) t []] lay) k pre
      = cycled [{ method := getBytes, url := longTarget n, body := [], tag := t, hdrs := [] }] k := by
  have hi : itemsOK .uri [.req (longTarget n) t []] = true := by
    simp [itemsOK, itemOK, longTarget_ok, ht, sizeOK]
  rw [C07_uri_roundtrip _ lay k pre hi hl]
  simp [expAmmo]

/-- uripost reads its lines with `ReadString`: a request line of ANY length is one line (here a target of `n + 1`
bytes for every `n`, any tag, any body, any layout, any limit, both modes) -/
theorem C07_uripost_any_line_length (n : Nat) (t b : Bytes) (lay : Layout) (k : Nat) (pre : Bool)
    (ht : tagOK t = true) (hb : sizeOK b.length = true) (hl : layoutOK lay = true) :
    uripostDeliver true (render .uripost [.req (longTarget n) t b] lay) k pre
      = cycled [{ method := postBytes, url := longTarget n, body := b, tag := t, hdrs := [] }] k := by
  have hi : itemsOK .uripost [.req (longTarget n) t b] = true := by
    simp [itemsOK, itemOK, longTarget_ok, ht, hb]
  rw [C07_uripost_roundtrip _ lay k pre hi hl]
  simp [expAmmo]

/-- raw: a size line of any length (here a tag of `n + 1` bytes) is one line -/
theorem C07_raw_any_line_length (n : Nat) (fr : Bytes) (lay : Layout) (k : Nat) (pre : Bool)
    (hne : fr ≠ []) (hs : sizeOK fr.length = true) (hl : layoutOK lay = true) :
    rawDeliver (render .raw [.frame (longTarget n) fr] lay) k pre = cycled [{ frame := fr, tag := longTarget n }] k := by
  have ht : tagOK (longTarget n) = true := by
    simp [tagOK, (noLF_iff _).mpr (longTarget_noLF n), longTarget_reverse_edge]
  have hi : itemsOK .raw [.frame (longTarget n) fr] = true := by
    simp [itemsOK, itemOK, ht, hs, hne]
  rw [C07_raw_frames _ lay k pre hi hl]
  simp [expFrames]

/-! ### scope of an in-file header line (statements about the Spec `expAmmo`, i.e. about what the round-trip
theorems say is delivered) -/

/-- `[k: v]` applies to the entries AFTER it: the pass splits at the header line, the entries before it are those of
the file cut there, and every entry after it carries `v` for the canonical key until another header line redefines it -/
theorem C07_header_applies_after (f : Fmt) (pre post : List Item) (k v : Bytes) (h : Hdrs)
    (hn : noRedef (canonKey k) post = true) :
    expAmmo f h (pre ++ .hdr k v :: post) = expAmmo f h pre ++ expAmmo f (hset (accHdrs h pre) k v) post ∧
    ∀ a ∈ expAmmo f (hset (accHdrs h pre) k v) post, hget a.hdrs (canonKey k) = some v := by
  constructor
  · rw [expAmmo_append]; rfl
  · exact expAmmo_keeps f (canonKey k) v post _ (hget_hset_same _ k v) hn

/-- … and NOT to the entries before it: they are delivered exactly as if the file ended before the header line -/
theorem C07_header_not_before (f : Fmt) (pre post : List Item) (k v : Bytes) (h : Hdrs) :
    (expAmmo f h (pre ++ .hdr k v :: post)).take (expAmmo f h pre).length = expAmmo f h pre := by
  rw [expAmmo_append, List.take_left']
  rfl

/-- the limit only cuts: what is delivered under a limit `k` is the first `k` of what is delivered under any larger
limit (so `k` can be read as "the first k acquisitions", also of a provider that runs without a limit) -/
theorem C07_limit_prefix {α : Type} (pass : List α) (k k' : Nat) (hk : k ≤ k') :
    (cycled pass k').1.take k = (cycled pass k).1 := by
  unfold cycled
  split
  · simp
  · exact cycleTake_prefix pass k k' hk

/-! ### from decoded ammo to the request the gun receives (`BuildRequest`), and the executable Spec -/

/-- on request targets where the model knows `net/url`, every delivered ammo materialises (`Acquire` →
`BuildRequest`) into the request written in the file: method, target, Host, effective headers, body, tag.
`cfg` is the provider's `headers` option (any, also empty): it only fills in keys the file did not define. -/
theorem C07_requests (f : Fmt) (hf : f ≠ .raw) (cfg : Hdrs) (items : List Item) (k : Nat) (hk : targetsKnown items = true) :
    ((cycled (expAmmo f [] items) k).1.map (Ammo.withCfg cfg)).map buildReq
      = (cycleTake (expReqs f cfg [] items) k).map some := by
  have hmap := expAmmo_buildReq f hf cfg items [] hk
  unfold cycled
  split
  · rename_i he
    have : expReqs f cfg [] items = [] := by
      have hl := congrArg List.length hmap
      simp only [List.length_map, List.isEmpty_iff.mp he, List.length_nil] at hl
      exact List.length_eq_zero_iff.mp hl.symm
    simp [this, cycleTake_nil]
  · simp only
    rw [cycleTake_map, cycleTake_map, hmap, ← cycleTake_map]

/-- headers written in the ammo file have priority over the `headers` option, for every key and every option list -/
theorem C07_file_headers_win (cfg h : Hdrs) (key v : Bytes) (hk : hget h key = some v) :
    hget (mergeCfg h cfg) key = some v :=
  mergeCfg_keeps cfg h key v hk

/-- the executable Spec (`judge`, the same function that is evaluated on the REAL provider's observation)
accepts what the uri model delivers, for all entries, layouts, limits, modes and `headers` options -/
theorem C07_uri_spec (cfg : Hdrs) (items : List Item) (lay : Layout) (k : Nat) (pre : Bool)
    (hi : itemsOK .uri items = true) (hl : layoutOK lay = true)
    (hk : targetsKnown items = true) :
    ∃ e rs, modelObs (withCfgRes cfg (uriDeliver (render .uri items lay) k pre)) = some (e, rs) ∧
      judge (expected ((expReqs .uri cfg [] items).map reqStr) k) (expectedErr ((expReqs .uri cfg [] items).map reqStr)) rs e = "ok" :=
  modelObs_ok .uri (by decide) cfg items k hk _ (C07_uri_roundtrip items lay k pre hi hl)

theorem C07_uripost_spec (cfg : Hdrs) (items : List Item) (lay : Layout) (k : Nat) (pre : Bool)
    (hi : itemsOK .uripost items = true) (hl : layoutOK lay = true) (hk : targetsKnown items = true) :
    ∃ e rs, modelObs (withCfgRes cfg (uripostDeliver true (render .uripost items lay) k pre)) = some (e, rs) ∧
      judge (expected ((expReqs .uripost cfg [] items).map reqStr) k) (expectedErr ((expReqs .uripost cfg [] items).map reqStr)) rs e = "ok" :=
  modelObs_ok .uripost (by decide) cfg items k hk _ (C07_uripost_roundtrip items lay k pre hi hl)

/-- an absolute-form target `http://host[:port]/path?query` in a uri / uripost file: the request goes to `/path?query`
with Host = the URL's authority — a `[Host: …]` line or a Host in the `headers` option does not replace it (they only
supply the Host of origin-form targets), all other header lines apply as usual -/
theorem C07_absolute_target (f : Fmt) (cfg h : Hdrs) (host path t b : Bytes) (r : List Item)
    (hh : hostOK host = true) (hp : uriOK path = true) :
    ∃ q, (expReqs f cfg h (.req (httpPrefix ++ host ++ path) t b :: r)).head? = some q ∧
      q.host = host ∧ q.uri = path ∧ q.tag = t ∧ q.hdrs = sortHdrs ((mergeCfg h cfg).filter (fun kv => kv.1 != hostKey)) := by
  have hne : host.isEmpty = false := by
    cases host with
    | nil => simp [hostOK, cut] at hh
    | cons _ _ => rfl
  have hparts : targetParts (httpPrefix ++ host ++ path) = (host, path) := by
    unfold targetParts
    rw [parseURL_http host path (Or.inr hh) hp]
    rfl
  by_cases hf : f = .uripost
  · refine ⟨mkReq postBytes path host b t (mergeCfg h cfg), ?_, by simp [mkReq, hne]⟩
    simp only [expReqs, hf, if_true, List.head?_cons, hparts]
  · refine ⟨mkReq getBytes path host [] t (mergeCfg h cfg), ?_, by simp [mkReq, hne]⟩
    simp only [expReqs, hf, if_false, List.head?_cons, hparts]

/-! ### http/json: entity → request -/

/-- after `encoding/json`: every entity becomes the request it describes (`http://host` + uri, Host, method
defaulting to GET, headers, body, tag), in order, wrapping around — in stream mode, array mode and preload -/
theorem C07_json_mapping (cfg : Hdrs) (array : Bool) (ents : List Entity) (k : Nat) (pre : Bool)
    (hk : ents.all entityKnown = true) :
    ∃ as, jsonDeliver array ents k pre = cycled as k ∧ as.length = ents.length ∧
      (as.map (Ammo.withCfg cfg)).map buildReq
        = ents.map (fun e => some (entityReq cfg e.host e.method e.uri e.tag e.body e.headers)) := by
  obtain ⟨as, h1, h2, h3⟩ := jsonPass_known cfg ents hk
  refine ⟨as, ?_, h2, h3⟩
  unfold jsonDeliver
  simp only [h1]
  cases array <;> simp [deliver_eof, cycled]

/-- an entity with an invalid method stops the delivery with an error instead of being sent as something else -/
theorem C07_json_badmethod (e : Entity) (r : List Entity) (h : validMethod e.method = false) :
    jsonPass (e :: r) = ([], .err .badmethod) := by
  simp [jsonPass, entityAmmo, h]

/-! ### raw: the REQUESTS written in the frames (round 3)

`C07_raw_frames` delivers every frame byte for byte.  What a frame SAYS is HTTP text; `frameReq`
(`Pandora.Model.C07Frame`) reads it the way `raw.DecodeRequest` = `net/http.ReadRequest` does (checked against the
library on every generated frame by the harness) and the theorems below show that it reads back exactly what an author
wrote: request line, every header line in order with its value, the body — for ALL methods, targets, header lists,
bodies (arbitrary bytes), CRLF or LF line ends and any blanks after the colon. -/

/-- raw entries written by an author: a tag and a request description each -/
def rawItems (qs : List (Bytes × FrameSrc)) : List Item := qs.map fun tq => .frame tq.1 (renderFrame tq.2)

/-- the LINES of a rendered frame are the lines written: method, target, header lines (canonical key, exact value;
the `Content-Length` of the body last), and the bytes after the blank line are the body -/
theorem C07_raw_frame_text (q : FrameSrc) (h : srcOK q = true) :
    frameLines (renderFrame q) = some (q.method, q.target, canonLines q.lines, q.body.getD []) :=
  frameLines_render q h

/-- … and the REQUEST read from it is the request described: `srcReq` (method, path+query, Host from the authority or
the `Host` line, header lines merged per canonical name in file order, body as written) -/
theorem C07_raw_frame_request (q : FrameSrc) (h : srcOK q = true) (hp : srcPlain q = true) :
    frameReq (renderFrame q) = some (srcReq q) :=
  frameReq_render q h hp

/-- the body of the request is the body written, byte for byte, whatever it contains -/
theorem C07_raw_body_exact (q : FrameSrc) (b : Bytes) (hq : q.body = some b) (h : srcOK q = true) (hp : srcPlain q = true) :
    (frameReq (renderFrame q)).map (·.body) = some b := by
  rw [C07_raw_frame_request q h hp]
  simp [srcReq, hq]

/-- **raw, end to end**: a file of size-prefixed frames written from request descriptions, in any permitted layout,
any limit, both modes: delivery i carries the tag and the REQUEST of entry i mod n -/
theorem C07_raw_requests (qs : List (Bytes × FrameSrc)) (lay : Layout) (k : Nat) (pre : Bool)
    (hi : itemsOK .raw (rawItems qs) = true) (hl : layoutOK lay = true)
    (hq : ∀ tq ∈ qs, srcOK tq.2 = true ∧ srcPlain tq.2 = true) :
    (rawDeliver (render .raw (rawItems qs) lay) k pre).1.map (fun a => (a.tag, frameReq a.frame)) =
      cycleTake (qs.map fun tq => (tq.1, some (srcReq tq.2))) k := by
  rw [C07_raw_frames (rawItems qs) lay k pre hi hl]
  have hexp : expFrames (rawItems qs) = qs.map fun tq => ({ frame := renderFrame tq.2, tag := tq.1 } : RawAmmo) := by
    induction qs with
    | nil => rfl
    | cons a r ih =>
      have := ih (by simpa [rawItems, itemsOK] using (by simpa [rawItems, itemsOK] using hi : _ ∧ _).2)
        (fun tq htq => hq tq (List.mem_cons_of_mem _ htq))
      simpa [rawItems, expFrames] using this
  have hfst : (cycled (expFrames (rawItems qs)) k).1 = cycleTake (expFrames (rawItems qs)) k := by
    unfold cycled
    split
    · rename_i he
      rw [List.isEmpty_iff.mp he, cycleTake_nil]
    · rfl
  rw [hfst, cycleTake_map, hexp, List.map_map]
  congr 1
  apply List.map_congr_left
  intro tq htq
  simp [Function.comp, C07_raw_frame_request tq.2 (hq tq htq).1 (hq tq htq).2]

/-! ### non-vacuity: concrete well-formed files meeting the hypotheses -/

/-- `/a t`, `[X-A: v]`, `/b?q=1 my tag`  (byte strings are written out: `String.toUTF8` does not reduce in the kernel) -/
def exItems : List Item :=
  [.req [47, 97] [116] [], .hdr [88, 45, 65] [118], .req [47, 98, 63, 113, 61, 49] [109, 121, 32, 116, 97, 103] []]

/-- uripost: `[Host: example.com]`, `/a` tagged `my tag` with the body `⏎[A: b]⏎3 /x⏎` (a newline, a header
look-alike and a request look-alike), then `/b` with an empty body -/
def exPost : List Item :=
  [.hdr [72, 111, 115, 116] [101, 120, 97, 109, 112, 108, 101, 46, 99, 111, 109],
   .req [47, 97] [109, 121, 32, 116, 97, 103] [10, 91, 65, 58, 32, 98, 93, 10, 51, 32, 47, 120, 10], .req [47, 98] [] []]

/-- raw: `GET / HTTP/1.1⏎Host: h⏎⏎` tagged `t1`, then the 8 bytes `⏎⏎[x]⏎5⏎` without tag -/
def exRaw : List Item :=
  [.frame [116, 49] [71, 69, 84, 32, 47, 32, 72, 84, 84, 80, 47, 49, 46, 49, 13, 10, 72, 111, 115, 116, 58, 32, 104, 13, 10, 13, 10], .frame [] [10, 10, 91, 120, 93, 10, 53, 10]]

/-- blank lines first, padding and CRLF around the entries, no final newline -/
def exLay : Layout :=
  { lead := [[], [SP, CR]]
    per := [{ pre := [SP], post := [9, CR], blanks := [[], [SP]] }, { i1 := [SP], i2 := [9], i3 := [SP, SP], i4 := [SP], post := [CR] }]
    finalNL := false }

def exLay2 : Layout := { finalNL := true, trail := [SP, 9] }

example : itemsOK .uri exItems = true ∧ layoutOK exLay = true ∧ targetsKnown exItems = true := by decide
example : itemsOK .uripost exPost = true ∧ layoutOK exLay = true ∧ layoutOK exLay2 = true := by decide
example : itemsOK .raw exRaw = true := by decide

/-- the uri example: 3 entries in the file, 2 requests per pass, the header applies to the second only -/
example : expAmmo .uri [] exItems =
    [{ method := getBytes, url := [47, 97], body := [], tag := [116], hdrs := [] },
     { method := getBytes, url := [47, 98, 63, 113, 61, 49], body := [], tag := [109, 121, 32, 116, 97, 103], hdrs := [([88, 45, 65], [118])] }] := by
  decide

/-- the padded CRLF layout without final newline and the plain layout render to different bytes … -/
example : render .uri exItems exLay ≠ render .uri exItems exLay2 := by decide

/-- … both are well-formed, so `C07_layout_invariant` applies to them -/
example : wellFormed .uri exItems exLay ∧ wellFormed .uri exItems exLay2 := by
  refine ⟨⟨by decide, by decide⟩, ⟨by decide, by decide⟩⟩

/-- 2.5 passes over the uripost example (k = 5 with 2 entries per pass): the theorem applies and the result is a
real delivery (5 requests, no error) -/
example : (uripostDeliver true (render .uripost exPost exLay) 5 false).1.length = 5
    ∧ (uripostDeliver true (render .uripost exPost exLay) 5 false).2 = .eof := by
  rw [C07_uripost_roundtrip exPost exLay 5 false (by decide) (by decide)]
  have hne : expAmmo .uripost [] exPost ≠ [] := by decide
  obtain ⟨h1, h2, _⟩ := C07_wraparound _ hne 5
  exact ⟨h2, h1⟩

example : (rawDeliver (render .raw exRaw exLay2) 3 true).1.length = 3 := by
  rw [C07_raw_frames exRaw exLay2 3 true (by decide) (by decide)]
  exact (C07_wraparound _ (by decide) 3).2.1

/-- the hypotheses of `C07_uri_line_limit` are met by a real line: 65536 letters (no newline among them); the short
example file meets `wellFormedLim (some maxTok)` -/
example : wellFormedLim (some maxTok) exItems exLay := ⟨by decide, by decide, by decide⟩
example : LF ∉ longTarget 65535 ∧ maxTok ≤ (longTarget 65535).length :=
  ⟨longTarget_noLF _, by rw [longTarget_length]; decide⟩

/-- `C07_uripost_any_line_length` / `C07_raw_any_line_length` with concrete arguments: a line of more than 100000 bytes -/
example : (uripostDeliver true (render .uripost [.req (longTarget 100000) [116] [98, 10, 98]] exLay2) 3 true).1.length = 3 := by
  rw [C07_uripost_any_line_length 100000 [116] [98, 10, 98] exLay2 3 true (by decide) (by decide) (by decide)]
  exact (C07_wraparound _ (by simp) 3).2.1

example : (rawDeliver (render .raw [.frame (longTarget 70000) [71]] exLay2) 2 false).2 = .eof := by
  rw [C07_raw_any_line_length 70000 [71] exLay2 2 false (by simp) (by decide) (by decide)]
  exact (C07_wraparound _ (by simp) 2).1

/-- `C07_header_applies_after` on the uri example: `[X-A: v]` sits between the two requests and nothing redefines it -/
example : noRedef (canonKey [88, 45, 65]) [Item.req [47, 98, 63, 113, 61, 49] [109, 121, 32, 116, 97, 103] []] = true
    ∧ exItems = [.req [47, 97] [116] []] ++ .hdr [88, 45, 65] [118] :: [.req [47, 98, 63, 113, 61, 49] [109, 121, 32, 116, 97, 103] []] := by
  decide

/-- http/json: a known entity -/
example : ([{ host := [101, 120, 97, 109, 112, 108, 101, 46, 99, 111, 109], method := [80, 79, 83, 84], uri := [47, 97, 63, 98, 61, 99], tag := [109, 121, 32, 116, 97, 103],
              body := [123, 125], headers := [([120, 45, 97], [118])] }] : List Entity).all entityKnown = true := by decide

/-- an interleaving in which every request is built late: streaming with the decoder one entry (and the header lines
before it) ahead, then a new pass, then the reads of a second consumer — the hypotheses of `C07_clone_isolates_entries`
are met by it (two passes over the uri example) and the reads are non-trivial (different header sets) -/
def exActs : List Act :=
  [.dec (.hdr [88, 45, 65] [49]), .dec (.req { method := getBytes, url := [47, 97], body := [], tag := [116], hdrs := [] }),
   .dec (.hdr [120, 45, 97] [50]), .dec (.hdr [72, 111, 115, 116] [104]),
   .dec (.req { method := getBytes, url := [47, 98], body := [], tag := [], hdrs := [] }), .read 0, .dec .newPass,
   .dec (.hdr [88, 45, 65] [49]), .read 1, .read 0,
   .dec (.req { method := getBytes, url := [47, 97], body := [], tag := [116], hdrs := [] }),
   .dec (.hdr [120, 45, 97] [50]), .dec (.hdr [72, 111, 115, 116] [104]),
   .dec (.req { method := getBytes, url := [47, 98], body := [], tag := [], hdrs := [] }), .dec .newPass, .read 3, .read 2]

def exHdrItems : List Item :=
  [.hdr [88, 45, 65] [49], .req [47, 97] [116] [], .hdr [120, 45, 97] [50], .hdr [72, 111, 115, 116] [104], .req [47, 98] [] []]

example : decEvs exActs = passEvs .uri exHdrItems 2 := by decide
example : (runRef true [] RefState.init exActs).reads =
    [(0, [([88, 45, 65], [49])]), (1, [([88, 45, 65], [50]), ([72, 111, 115, 116], [104])]), (0, [([88, 45, 65], [49])]),
     (3, [([88, 45, 65], [50]), ([72, 111, 115, 116], [104])]), (2, [([88, 45, 65], [49])])] := by decide
/-- the same interleaving with a decoder that stores the accumulator itself: delivery 0 is built with the header lines
that FOLLOW it (what the seeded change did in streaming mode) -/
example : (runRef false [] RefState.init exActs).reads.head? =
    some (0, [([88, 45, 65], [50]), ([72, 111, 115, 116], [104])]) := by decide
example : ([([67], [118])] : Hdrs) ≠ [] := by decide
/-- a layout whose padding is Unicode white space (NBSP before the line, U+3000 + CR after it, U+2028 / NEL / U+1680 inside
`[key: value]`, a blank line of U+205F, trailing U+00A0) is a permitted layout: the round trips apply to it -/
def exLayU : Layout :=
  { lead := [[0xE2, 0x81, 0x9F]]
    per := [{ pre := [0xC2, 0xA0], post := [0xE3, 0x80, 0x80, 13], i1 := [0xE2, 0x80, 0xA8], i2 := [0xC2, 0x85],
              i3 := [0xE1, 0x9A, 0x80, 32], i4 := [0xE2, 0x80, 0x8A], blanks := [[9, 0xE2, 0x80, 0xAF]] },
            { pre := [0xE2, 0x80, 0x80, 32], post := [0xC2, 0xA0, 13] }]
    finalNL := true, trail := [0xC2, 0xA0] }
example : layoutOK exLayU = true ∧ wellFormed .uri exItems exLayU := by
  refine ⟨by decide, by decide, by decide⟩
example : render .uri exItems exLayU ≠ render .uri exItems exLay := by decide
/-- `http://h.x:8080/a?b=c` meets the hypotheses of `C07_absolute_target`, and such entries are inside `targetsKnown` -/
example : hostOK [104, 46, 120, 58, 56, 48, 56, 48] = true ∧ uriOK [47, 97, 63, 98, 61, 99] = true
    ∧ targetsKnown [.req (httpPrefix ++ [104, 46, 120, 58, 56, 48, 56, 48] ++ [47, 97, 63, 98, 61, 99]) [116] []] = true := by decide

/-- round 3 — a request description: `PUT http://h.x:8080/a?b=c HTTP/1.1`, lines `x-a: v`, `Host: ignored`, `X-A: w`
(two spellings of one name), LF line ends, the body `⏎[A: b]⏎` + NUL -/
def exSrc : FrameSrc :=
  { method := [80, 85, 84], target := httpPrefix ++ [104, 46, 120, 58, 56, 48, 56, 48] ++ [47, 97, 63, 98, 61, 99]
    hdrs := [([120, 45, 97], [118]), ([72, 111, 115, 116], [105, 103, 110, 111, 114, 101, 100]), ([88, 45, 65], [119])]
    body := some [10, 91, 65, 58, 32, 98, 93, 10, 0], crlf := false, gap := [SP, 9] }
/-- the same without a body (every function involved then reduces in the kernel) -/
def exSrc0 : FrameSrc := { exSrc with body := none, crlf := true }
example : srcOK exSrc = true ∧ srcPlain exSrc = true ∧ srcOK exSrc0 = true ∧ srcPlain exSrc0 = true := by decide
/-- what it denotes: Host is the authority (the `Host` line is dropped), the two `X-A` lines make one header with both
values in file order -/
example : srcReq exSrc0 = { method := [80, 85, 84], uri := [47, 97, 63, 98, 61, 99], host := [104, 46, 120, 58, 56, 48, 56, 48]
                            hdrs := [([88, 45, 65], [[118], [119]])], body := [] } := by decide
example : itemsOK .raw (rawItems [([116], exSrc0)]) = true := by decide
example : (frameReq (renderFrame exSrc)).map (·.body) = some [10, 91, 65, 58, 32, 98, 93, 10, 0] :=
  C07_raw_body_exact exSrc _ rfl (by decide) (by decide)

/-- round 3 — the end-of-pass witness meets the hypotheses of `C07_pass_reset_isolates` for both safe resets, and under
`cleared` the second pass's delivery is read with the header set of its own pass -/
example : PassReset.fresh.forgets = true ∧ PassReset.cleared.forgets = true ∧ PassReset.kept.forgets = false := by decide
example : (runRefR .cleared [] RefState.init keptWitness).reads = [(1, [])] := by decide
example : (runRefR .kept [] RefState.init keptWitness).reads = [(1, [([88], [49])])] := by decide
example : LineEv.newPass ∉ decEvs aliasWitness := by decide

/-- round 4 — a `uris` option: `/a t`, `[X-A: v]`, `/b` -/
def exUris : List Item := [.req [47, 97] [116] [], .hdr [88, 45, 65] [118], .req [47, 98] [] []]

/-! ### round 4 — the provider side: which decoder reads the file, the `uris` option, the delivery counters -/

/-- **every route of the config reaches the decoder of its format**: the provider type named after a line format forces
that format's decoder whatever the `decoder` option says, `http/json` forces the http/json decoder, and the generic type
`http` uses the decoder the option names; the table is the one `Import` registers in the current source
(`Pandora.Bridge.C07.registrations_eq`, `decoderTypes_eq`; differential: `via=reg`, `via=http`) -/
theorem C07_registered_routes (f : Fmt) (opt : String) :
    decoderOf f.name opt = some f.name ∧ decoderOf "http" f.name = some f.name
      ∧ decoderOf "http/json" opt = some "jsonline" ∧ decoderOf "http" "jsonline" = some "jsonline"
      ∧ (∀ t, Pandora.Gen.AmmoDec.registrationsG? = some t → t = regTable)
      ∧ (∀ v, Pandora.Gen.AmmoDec.validDecodersG? = some v → v = validDecoders) := by
  refine ⟨?_, ?_, rfl, by decide, Pandora.Bridge.C07.registrations_eq, Pandora.Bridge.C07.decoderTypes_eq.2⟩
  · cases f <;> rfl
  · cases f <;> decide

/-- an unknown provider type or an unknown decoder name selects nothing (`NewProvider`: "unknown decoder type") -/
theorem C07_unregistered_route : decoderOf "urii" "uri" = none ∧ decoderOf "http" "uri " = none ∧ decoderOf "http" "" = none := by
  decide

/-- **the `uris` option**: the strings of the option, one entry each (`uri`, `uri tag`, `[key: value]`), are delivered
exactly like the entries of a file - in order, wrapping around, header entries applying to the entries after them and
forgotten at each pass: `NewProvider` joins the strings with a newline (regenerated separator:
`Pandora.Bridge.C07.urisSep_eq`), which IS the file rendered without layout and without final newline -/
theorem C07_uris_option (items : List Item) (k : Nat) (pre : Bool) (hi : itemsOK .uri items = true) :
    urisFile (items.map urisLine) = render .uri items { finalNL := false }
      ∧ uriDeliver (urisFile (items.map urisLine)) k pre = cycled (expAmmo .uri [] items) k := by
  have h := render_uris items hi
  refine ⟨h.symm, ?_⟩
  rw [← h]
  exact C07_uri_roundtrip items _ k pre hi (by decide)

/-- … and the separator the current source joins them with is that newline -/
theorem C07_uris_separator_regenerated : ∀ s, Pandora.Gen.AmmoDec.urisSepG? = some s → s = [LF] :=
  Pandora.Bridge.C07.urisSep_eq

/-- **delivery counters**: the provider picks entry `counter % length` of the preloaded slice (and the http/json decoder
of its array); with the counter in a machine integer of `bits` value bits this is the entry the Spec expects
(`C07_wraparound`: entry `i mod n` at position `i`) for every delivery before the `2^bits`-th -/
theorem C07_counter_width {α : Type} (pass : List α) (hne : pass ≠ []) (bits k i : Nat) (hi : i < k) (hb : i < 2 ^ bits) :
    (cycled pass k).1[i]? = pass[wrapIdx bits pass.length i]? := by
  rw [wrapIdx_of_lt bits pass.length i hb]
  exact (C07_wraparound pass hne k).2.2 i hi

/-- the statement without the bound on the number of deliveries, for a 16-bit counter -/
def C07_counter_narrow_statement : Prop :=
  ∀ {α : Type} (pass : List α), pass ≠ [] → ∀ k i, i < k → (cycled pass k).1[i]? = pass[wrapIdx 16 pass.length i]?

/-- … is false: over three entries delivery 65536 must be entry 1 (65536 = 3·21845 + 1), a 16-bit counter is back at 0 -/
theorem C07_counter_narrow_counterexample : ¬ C07_counter_narrow_statement := by
  intro h
  have h1 := h [0, 1, 2] (by decide) 65537 65536 (by decide)
  rw [(C07_wraparound [0, 1, 2] (by decide) 65537).2.2 65536 (by decide)] at h1
  revert h1; decide

/-- the counters of the current source have at least 63 value bits (regenerated: the narrowest integer type in the index
of `p.ammos[i]`, `d.ammos[i]` and in the operand compared with `Limit`), so `C07_counter_width` covers every delivery
below 2^63 -/
theorem C07_counter_regenerated :
    (∀ b, Pandora.Gen.AmmoDec.preloadIndexBits? = some b → 63 ≤ b)
      ∧ (∀ b, Pandora.Gen.AmmoDec.fullScanCounterBits? = some b → 63 ≤ b)
      ∧ (∀ b, Pandora.Gen.AmmoDec.arrayIndexBits? = some b → 63 ≤ b) :=
  Pandora.Bridge.C07.counterBits_ok

/-- round 4 — non-vacuity: the `uris` list `/a t`, `[X-A: v]`, `/b` is a well-formed entry list; joined it is the file
`/a t⏎[X-A: v]⏎/b`; and the hypotheses of `C07_counter_width` hold for delivery 65536 of 65544 with a 63-bit counter -/
example : itemsOK .uri exUris = true ∧ urisFile (exUris.map urisLine)
    = [47, 97, 32, 116, 10, 91, 88, 45, 65, 58, 118, 93, 10, 47, 98] := by decide
example : (65536 : Nat) < 65544 ∧ (65536 : Nat) < 2 ^ 63 ∧ wrapIdx 63 3 65536 = 1 ∧ wrapIdx 16 3 65536 = 0 := by decide

/-! ### round 4 — raw: the `headers` option on the request a frame denotes (`enrichF`, what the Spec expects for plain frames) -/

/-- the option never touches method, target or body of the frame's request, whatever it lists -/
theorem C07_raw_option_keeps_request (cfg : Hdrs) (r : FReq) :
    (enrichF cfg r).method = r.method ∧ (enrichF cfg r).uri = r.uri ∧ (enrichF cfg r).body = r.body :=
  enrichF_core cfg r

/-- **the frame's own headers win**: a header the frame carries keeps exactly its values (all of them, in the order
written), for every option list -/
theorem C07_raw_frame_headers_win (cfg : Hdrs) (r : FReq) (key : Bytes) (vs : List Bytes)
    (h : r.hdrs.lookup key = some vs) : (enrichF cfg r).hdrs.lookup key = some vs :=
  enrichF_keeps cfg r key vs h

/-- a frame that names its Host (the authority of an absolute target or a `Host` line) keeps it whatever the option says -/
theorem C07_raw_frame_host_wins (cfg : Hdrs) (r : FReq) (h : r.host ≠ []) : (enrichF cfg r).host = r.host :=
  enrichF_host cfg r h

/-- **the option fills in what the frame lacks**: an option entry whose canonical key the frame does not carry (and that is
not `Host`) becomes a header of the request with the option's value; later entries of the option do not change it -/
theorem C07_raw_option_fills (cfg : Hdrs) (r : FReq) (k v : Bytes)
    (hno : r.hdrs.any (fun x => x.1 == canonKey k) = false) (hk : canonKey k ≠ hostKey) :
    (enrichF ((k, v) :: cfg) r).hdrs.lookup (canonKey k) = some [v] := by
  have hk' : (canonKey k == hostKey) = false := by simpa using hk
  have h1 : (enrichStep r (k, v)).hdrs.lookup (canonKey k) = some [v] := by
    unfold enrichStep
    simp only [hno, hk']
    exact lookup_insert_self (canonKey k, [v]) r.hdrs hno
  exact enrichF_keeps cfg _ _ _ h1

/-- … and a `Host` entry of the option becomes the Host of a request whose frame named none (and never a header) -/
theorem C07_raw_option_host (cfg : Hdrs) (r : FReq) (k v : Bytes) (hk : canonKey k = hostKey)
    (hno : r.hdrs.any (fun x => x.1 == hostKey) = false) (hh : r.host = []) (hv : v ≠ []) :
    (enrichF ((k, v) :: cfg) r).host = v := by
  have h1 : enrichStep r (k, v) = { r with host := v } := by
    unfold enrichStep
    simp [hk, hno, hh]
  show (enrichF cfg (enrichStep r (k, v))).host = v
  rw [h1, enrichF_host cfg _ (by simpa using hv)]

/-- round 4 — non-vacuity: the request of `exSrc0` (header `X-A` with two values, Host from the authority) under the
option `[x-a: cfg]`, `[Host: o.example]`, `[X-New: n]`: `X-A` and the Host stay, `X-New` is added -/
example : (enrichF [([120, 45, 97], [99]), (hostKey, [111]), ([88, 45, 78, 101, 119], [110])] (srcReq exSrc0))
    = { srcReq exSrc0 with hdrs := [([88, 45, 65], [[118], [119]]), ([88, 45, 78, 101, 119], [[110]])] } := by decide


/-! ### round 4 — http/json: the JSON TEXT of the file (`Pandora.Model.C07Json`; before: the model started after `encoding/json`) -/

/-- **a JSON string** is read back byte for byte: every byte string written with `"` and `\` escaped and control bytes as
`\u00XX` (newlines, NUL, `[`, quotes inside bodies …), whatever follows the closing quote -/
theorem C07_json_string_roundtrip (s rest : Bytes) : readStr (escStr s ++ 34 :: rest) = some (s, rest) :=
  readStr_esc s rest

/-- **one entity object** written with any JSON white space `g` around every token is read back as that entity - all
hosts, methods, targets, tags, bodies and header lists of arbitrary bytes -/
theorem C07_json_object (g : Bytes) (hg : allJWs g = true) (e : Entity) (rest : Bytes) :
    readObj (e.headers.length + 6) (entBody g e ++ rest) = some (e, rest) :=
  readObj_render g hg e _ (Nat.le_refl _) rest

/-- **an http/json file of one object after the other** - one per line, pretty-printed, packed, blank lines or other
white space `lead` before and `sep` after each object, `g` inside, final newline or none - is read by `jsonDoc` (the fuel
it takes, the length of the file, is enough) as exactly its entities, in file order, in stream mode; hence what the model
delivers from the FILE is what it delivers from the entities (`C07_json_mapping`) -/
theorem C07_json_text_stream (g lead sep : Bytes) (hg : allJWs g = true) (hl : allJWs lead = true) (hs : allJWs sep = true)
    (es : List Entity) (hne : es ≠ []) (hu : utf8Valid (renderStreamJ g lead sep es) = true) (k : Nat) (pre : Bool) :
    jsonDoc (renderStreamJ g lead sep es) = some (false, es)
      ∧ (jsonDoc (renderStreamJ g lead sep es)).map (fun p => jsonDeliver p.1 p.2 k pre) = some (jsonDeliver false es k pre) := by
  have h := jsonDoc_stream g lead sep hg hl hs es hne hu
  exact ⟨h, by rw [h]; rfl⟩

/-- **an http/json file that is ONE array** (white space before `[`, around the elements and the commas, after `]`) is read
as exactly its entities, in array mode -/
theorem C07_json_text_array (g lead0 lead sep trail : Bytes) (hg : allJWs g = true) (hl0 : allJWs lead0 = true)
    (hl : allJWs lead = true) (hs : allJWs sep = true) (ht : allJWs trail = true) (es : List Entity) (hne : es ≠ [])
    (hu : utf8Valid (lead0 ++ 91 :: renderElemsJ g lead sep trail es) = true) (k : Nat) (pre : Bool) :
    jsonDoc (lead0 ++ 91 :: renderElemsJ g lead sep trail es) = some (true, es)
      ∧ (jsonDoc (lead0 ++ 91 :: renderElemsJ g lead sep trail es)).map (fun p => jsonDeliver p.1 p.2 k pre)
          = some (jsonDeliver true es k pre) := by
  have h := jsonDoc_array g lead0 lead sep trail hg hl0 hl hs ht es hne hu
  exact ⟨h, by rw [h]; rfl⟩

/-- layout does not matter for http/json either: two renderings of the same entities (different gaps, separators, stream
or array) are read as the same entities -/
theorem C07_json_layout_invariant (g g' lead lead' sep sep' lead0 trail : Bytes)
    (hg : allJWs g = true) (hg' : allJWs g' = true) (hl : allJWs lead = true) (hl' : allJWs lead' = true)
    (hs : allJWs sep = true) (hs' : allJWs sep' = true) (hl0 : allJWs lead0 = true) (ht : allJWs trail = true)
    (es : List Entity) (hne : es ≠ []) (hu : utf8Valid (renderStreamJ g lead sep es) = true)
    (hu' : utf8Valid (lead0 ++ 91 :: renderElemsJ g' lead' sep' trail es) = true) :
    (jsonDoc (renderStreamJ g lead sep es)).map (·.2) = (jsonDoc (lead0 ++ 91 :: renderElemsJ g' lead' sep' trail es)).map (·.2) := by
  rw [jsonDoc_stream g lead sep hg hl hs es hne hu, jsonDoc_array g' lead0 lead' sep' trail hg' hl0 hl' hs' ht es hne hu']
  rfl

/-- round 4 — non-vacuity: two entities (a body with `"`, `\`, LF, NUL and a two-byte rune; a header), gap ` ⏎`, one per
line with a blank line between them: the rendering is valid UTF-8 and all gaps are JSON white space -/
def exEnts : List Entity :=
  [{ host := [104], method := [80, 79, 83, 84], uri := [47, 97], tag := [116, 32, 49], body := [34, 92, 10, 0, 195, 169], headers := [([88, 45, 65], [118, 93])] },
   { host := [], method := [71, 69, 84], uri := [47], tag := [], body := [], headers := [] }]
set_option maxRecDepth 20000 in
example : exEnts ≠ [] ∧ allJWs [32, 10] = true ∧ allJWs [] = true ∧ allJWs [10, 10] = true
    ∧ utf8Valid (renderStreamJ [32, 10] [] [10, 10] exEnts) = true
    ∧ utf8Valid ([10] ++ 91 :: renderElemsJ [] [32] [9] [13, 10] exEnts) = true := by decide


/-! ### round 6 — `BuildRequest` is a pure function of the decoded entry (reference level, `Pandora.Model.C07Build`) -/

/-- every request built from a decoded entry looks as the entry says, however often the entry has been built from before
and whatever the owners of the earlier requests did to them with operations in `allowed` -/
def C07_build_pure_statement (o : UrlOrigin) (allowed : BMut → Bool) : Prop :=
  ∀ (e : BEntry) (h0 : BHeap) (rounds : List (List BMut)), entryOK o e h0 →
    (∀ ms ∈ rounds, ∀ m ∈ ms, allowed m = true) →
    ∀ ob ∈ bRounds o e h0 rounds, ob = bExpect e h0

/-- **the same decoded entry always yields the same request** (preload, the http/json array, any wrap-around, any number
of consumers one after the other): with the URL parsed anew at every build (`UrlOrigin.fresh`: `http.NewRequest` with the
URL string) nothing the gun (`req.URL.Scheme`, `req.URL.Host`, `req.Host`), the client (the body) or a middleware
(`Header.Set` / `Add` / `Del`, path and query) does to a delivered request reaches the entry; and what it yields is
something (`bExpect` is defined for every well-formed entry) -/
theorem C07_build_pure : C07_build_pure_statement .fresh gunClass ∧
    ∀ (e : BEntry) (h0 : BHeap), entryOK .fresh e h0 → (bExpect e h0).isSome = true := by
  refine ⟨?_, fun e h0 hok => (bObs_build_fresh e h0 h0 hok (Ext.refl h0)).2⟩
  intro e h0 rounds hok hg ob hob
  exact bRounds_fresh e h0 hok rounds h0 (Ext.refl h0) hg ob hob

/-- the heap of the examples: a URL object (only a caching entry has one), the value slice `["v"]`, the entry's header map
`{X-A: ["v"]}` -/
def exBHeap : BHeap := [.url [] [] [47, 97], .slice [[118]], .hmap [([88, 45, 65], 1)]]
def exBEntry : BEntry := { method := getBytes, urlVal := ([], [], [47, 97]), urlRef := 0, hdr := 2, body := [] }

theorem exBEntry_ok (o : UrlOrigin) : entryOK o exBEntry exBHeap :=
  ⟨[([88, 45, 65], 1)], rfl, rfl, fun _ => rfl⟩

/-- non-vacuity of `C07_build_pure`: the entry `GET /a` with `X-A: v`, shot three times by a gun that sets scheme and
resolved host, a middleware that replaces `X-A` and adds a header — all three requests are `GET /a`, `X-A: v` -/
example : bRounds .fresh exBEntry exBHeap
    [[.setScheme [104], .setUrlHost [49, 48], .hdrSet [88, 45, 65] [122], .hdrAdd [88, 45, 65] [121], .hdrSet [66] [49]],
     [.setUrlHost [50], .hdrDel [88, 45, 65]], []]
    = [bExpect exBEntry exBHeap, bExpect exBEntry exBHeap, bExpect exBEntry exBHeap]
    ∧ bExpect exBEntry exBHeap = some { method := getBytes, scheme := [], urlHost := [], path := [47, 97], host := [],
                                        hdrs := [([88, 45, 65], [[118]])], body := [] } := by decide

/-- seeded change C07-r6-1: an entry that caches its parsed `*url.URL` and puts it into every request
(`UrlOrigin.alias`) is NOT pure — the gun's `req.URL.Host = resolved target` is written into the entry's URL, the next
request built from the entry goes to that host -/
theorem C07_build_alias_counterexample : ¬ C07_build_pure_statement .alias gunClass := by
  intro H
  have h := H exBEntry exBHeap [[.setUrlHost [49, 48]], []] (exBEntry_ok _) (by decide)
    (some { method := getBytes, scheme := [], urlHost := [49, 48], path := [47, 97], host := [49, 48], hdrs := [([88, 45, 65], [[118]])], body := [] })
    (by decide)
  revert h; decide

/-- … the first request built from such an entry is still right (why no test that looks at one pass notices) -/
theorem C07_build_alias_partial :
    (bRounds .alias exBEntry exBHeap [[.setUrlHost [49, 48]], []]).head? = some (bExpect exBEntry exBHeap) := by decide

/-- the value slices of the header map ARE shared between the entry and its requests (`req.Header[key] = values`): an
in-place write of a slice element — which no gun, middleware or net/http function performs, hence outside `gunClass` —
would reach the entry even with a fresh URL -/
theorem C07_build_elem_write_counterexample : ¬ C07_build_pure_statement .fresh (fun _ => true) := by
  intro H
  have h := H exBEntry exBHeap [[.elemWrite [88, 45, 65] 0 [122]], []] (exBEntry_ok _) (by decide)
    (some { method := getBytes, scheme := [], urlHost := [], path := [47, 97], host := [], hdrs := [([88, 45, 65], [[122]])], body := [] })
    (by decide)
  revert h; decide

/-- the same for the CURRENT source: the origins regenerated from `BuildRequest` of both ammo types (and everything they
call inside the module) are `fresh`, so every request built from a decoded entry of /repo is the request the entry denotes,
whatever guns and middlewares did to the requests built from it before -/
theorem C07_build_regenerated :
    C07_build_pure_statement Pandora.Gen.AmmoDec.ammoBuildUrlOrigin gunClass
      ∧ C07_build_pure_statement Pandora.Gen.AmmoDec.rawAmmoBuildUrlOrigin gunClass
      ∧ Pandora.Gen.AmmoDec.ammoBuildHdrOrigin = .fresh ∧ Pandora.Gen.AmmoDec.rawAmmoBuildHdrOrigin = .fresh := by
  obtain ⟨h1, h2, h3, h4⟩ := Pandora.Bridge.C07.buildOrigins_fresh
  rw [h1, h3]
  exact ⟨C07_build_pure.1, C07_build_pure.1, h2, h4⟩

/-! ### round 6 — the last size line of a raw file (/repo dbbf16d) -/

/-- why the repair dbbf16d was needed: the raw decoder BEFORE it discarded whatever followed the last newline of the file,
so a file cut short inside its last size line was accepted silently -/
theorem C07_unrepaired_raw_drops_last (line : Bytes) (hl : LF ∉ line) : rawPassOld line = ([], .eof) := by
  unfold rawPassOld
  cases line with
  | nil => rw [rawPassF]
  | cons b r =>
    have hc := cut_no_sep LF (b :: r) hl
    rw [rawPassF]
    simp [hc]

/-- since the repair the last size line is decoded like every other one: a size line that announces `n > 0` bytes at the
very end of the file (however the size is spelled, whatever the tag and the padding) is the error `failed to read ammo`,
never an accepted pass -/
theorem C07_raw_truncated_is_error (sz t pre post : Bytes) (n : Nat) (hs : SizeTok sz n) (hn : 0 < n) (ht : tagOK t = true)
    (hpre : padOK pre = true) (hpost : padOK post = true) :
    rawPass (pre ++ (sz ++ tagPart t) ++ post) = ([], .err .shortread) := by
  obtain ⟨hLF, hf, hr, x, r, hxr⟩ := frameContent_props sz n t hs ht
  have hline : LF ∉ pre ++ (sz ++ tagPart t) ++ post := by
    simp only [List.mem_append, not_or] at hLF ⊢
    exact ⟨⟨padOK_noLF hpre, hLF.1, hLF.2⟩, padOK_noLF hpost⟩
  have hne : pre ++ (sz ++ tagPart t) ++ post ≠ [] := by rw [hxr]; simp
  rw [rawPass_lastline' _ hline hne, trimSpace_pad pre _ post (padOK_allWs hpre) (padOK_allWs hpost) hf hr]
  have hcut := cut_tagPart sz t hs.noSP
  have hd : rawDecodeHeader (sz ++ tagPart t) = some ((n : Int), t) := by
    unfold rawDecodeHeader
    simp only [hcut.1, hcut.2, hs.val]
  rw [hxr] at hd ⊢
  unfold rawBlock
  simp only [hd]
  have h1 : ¬ ((n : Int) < 0) := by omega
  have h2 : n ≠ 0 := by omega
  simp [h1, h2, hn]

/-- non-vacuity: `  5 t` + CR at the end of a file (the corpus witness `5 t`) -/
example : SizeTok (sizeText {} 5) 5 ∧ tagOK [116] = true ∧ padOK [32, 32] = true ∧ padOK [13] = true
    ∧ rawPass ([32, 32] ++ (sizeText {} 5 ++ tagPart [116]) ++ [13]) = ([], .err .shortread)
    ∧ rawPassOld [32, 53, 32, 116, 13] = ([], .eof) :=
  ⟨sizeText_tok {} 5 (by decide), by decide, by decide, by decide,
   C07_raw_truncated_is_error _ _ _ _ 5 (sizeText_tok {} 5 (by decide)) (by decide) (by decide) (by decide) (by decide),
   C07_unrepaired_raw_drops_last _ (by decide)⟩

/-! ### round 6 — the spelling of the size field -/

/-- the size field of a uripost / raw entry may be written with a `+` and with leading zeros (fixed-width sizes): the
layout records it per entry, all round trips above hold for every such spelling; stated on its own: two files that differ
only in how their sizes are spelled deliver the same -/
theorem C07_size_spelling (f : Fmt) (items : List Item) (lay lay' : Layout)
    (h : wellFormed f items lay) (h' : wellFormed f items lay') (k : Nat) (pre pre' : Bool) :
    decodeAll f (render f items lay) k pre = decodeAll f (render f items lay') k pre' :=
  C07_layout_invariant f items lay lay' k pre pre' h h'

/-- non-vacuity: `010 /a t` + ten bytes and `+3 /b` + three bytes (the witness of seeded change C07-r4-1) and the plain
spelling of the same entries are both well-formed -/
example : wellFormed .uripost [.req [47, 97] [116] [48, 49, 50, 51, 52, 53, 54, 55, 56, 57], .req [47, 98] [] [97, 98, 99]]
      { per := [{ szZeros := 1 }, { szPlus := true }] }
    ∧ wellFormed .uripost [.req [47, 97] [116] [48, 49, 50, 51, 52, 53, 54, 55, 56, 57], .req [47, 98] [] [97, 98, 99]] {} :=
  ⟨⟨by decide, by decide⟩, ⟨by decide, by decide⟩⟩

end Pandora.Props.C07
