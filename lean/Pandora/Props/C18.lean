/-
C18 — Plugin registry: every constructor shape yields rightly configured components.

All theorems are about `Model.C18.run`, the model of core/plugin/registry.go + constructor.go (tied to the real
registry by the correspondence driver harness/cmd/c18, which runs the FULL cross product of shapes on every check
and must print the model's observation byte for byte).  They quantify over
  * every constructor shape `Shape` (component | factory constructor × no config | struct | *struct × error result
    × the returned factory's error result × product type impl | interface × default-config function
    absent | fresh | nil-returning | one shared pointer),
  * every requested form (`New`, `func() Plugin`, `func() (Plugin, error)`),
  * every world: default values, user settings, fillConf given or not, and ANY fault plan (`Nat → Bool` per kind of
    user code),
  * every number k of calls (induction on k in Proofs/C18: `iter_inv`, `iter_keys`, `iter_frame`, `iter_views`; a run is taken apart by
    `run_cases` in Proofs/C18Run).
The statements are the executable Spec predicates of Spec/C18 (the very functions the driver evaluates on the real
registry's observations) plus, for the configuration, the unbounded ∀-fields form.

Round 2 adds
  * sessions (`Model.C18Sess`, `Spec.C18Sess`): ONE registry with ANY number of registrations (plugin type × name × shape,
    each with its own user code and fault plan) and ANY interleaving of Register / New / NewFactory / calls of any factory
    handed out so far / Lookup — `C18_session` (the whole session Spec), `C18_lookup` (creation by name: the lookup error
    without any user code, or exactly the one registration for this type and name), `C18_isolation`,
    `C18_session_single` (the session model restricted to one registration and one creation IS `Model.C18.run`);
  * the config hooks (`Model.C18Hook`: `Hook`, `FactoryHook`, `parseConf`) — `C18_hook`, `C18_hook_order`, and for the
    tree as found (an empty plugin name reaches the registry and panics there) `C18_hook_unrepaired_counterexample` /
    `C18_hook_partial`.
-/
import Pandora.Proofs.C18Ext
import Pandora.Proofs.C18Eng
import Pandora.Proofs.C18Hist
import Pandora.Bridge.Plugin
import Pandora.Proofs.C18Sess
import Pandora.Proofs.C18Hook
import Pandora.Proofs.C18Valid
import Pandora.Proofs.C18Nest
import Pandora.Proofs.C18Over
import Pandora.Proofs.C18R6
import Pandora.Proofs.C18R6Err
import Pandora.Gen.Config

namespace Pandora.Props.C18
open Pandora.Model.C18 Pandora.Spec.C18 Pandora.Proofs.C18

/-- a registration is accepted iff the default-config function fits the constructor's config argument -/
theorem C18_register (inp : Input) : (run inp).isSome = registerOk inp.sh := by
  unfold run runSt
  cases hr : registerOk inp.sh
  · simp
  · cases hf : inp.form <;> simp
    all_goals split <;> simp

/-- **config**: every component handed out — by `New`, by a factory of either type, made from a component
constructor or from a factory constructor, whatever failed before — was built from the registered defaults
overlaid by the user's settings (every field except the `Mark` field the components themselves write), and from
nothing at all when the constructor takes no config. -/
theorem C18_config (inp : Input) (obs : Obs) (h : run inp = some obs) :
    ∀ p ∈ products obs.steps,
      (inp.sh.cfg = .none → p.seen = []) ∧
      (inp.sh.cfg ≠ .none → ∀ f, f ≠ markField → p.seen.get f = (expected inp.sh inp.w).get f) := by
  obtain ⟨_, rfl⟩ := run_eq_phase h
  intro p hp
  exact config_phase inp _ (initSt_shared _ _) p hp

/-- the executable form of `C18_config` the driver evaluates (any list of fields) -/
theorem C18_config_spec (inp : Input) (obs : Obs) (fields : List Nat) (h : run inp = some obs) :
    configOk inp obs fields = true := by
  have := C18_config inp obs h
  simp only [configOk, List.all_eq_true]
  intro p hp
  obtain ⟨h1, h2⟩ := this p hp
  by_cases hc : inp.sh.cfg = .none
  · simp [hc, h1 hc]
  · simp only [hc, if_false, List.all_eq_true, Bool.or_eq_true, beq_iff_eq]
    intro f _
    by_cases hf : f = markField
    · exact .inl hf
    · exact .inr (h2 hc f hf)

/-- **errors**: a failing fillConf / constructor / registered-factory invocation ends the operation at once and
its error is the operation's result — the error result of `New`, of `NewFactory` and of a
`func() (Plugin, error)` factory; a panic carrying that very error exactly when the requested factory type is
`func() Plugin` and the failure happens in a factory call; an operation without a failing invocation succeeds;
a successful `NewFactory` is followed by exactly k results. -/
theorem C18_errors (inp : Input) (obs : Obs) (h : run inp = some obs) : errorsOk inp obs = true := by
  obtain ⟨_, rfl⟩ := run_eq_phase h
  exact errors_phase inp _

/-- **fresh**: when the requested form must configure per product — `New`, or a factory (of either type) made from
a component constructor — every single call invokes the default-config function once (if one is registered),
fillConf once on the new configuration and, unless fillConf failed, the constructor once on that very
configuration (and a factory constructor's factory once); over the k calls the configurations handed to fillConf
are pairwise distinct, so are those handed to the constructors and those held by the products, and at the very
end every product still reads its own serial number through its configuration pointer: no two products share
configuration state.  `NewFactory` itself invokes no user code.  (Excluded, by `freshApplies`: a default-config
function that itself returns one shared pointer — see the last example below.) -/
theorem C18_fresh (inp : Input) (obs : Obs) (h : run inp = some obs) (ha : freshApplies inp = true) :
    freshOk inp obs = true :=
  fresh_run h ha

/-- sum over the calls of the number of user-code invocations of one kind -/
def total (p : Ev → Bool) (calls : List Step) : Nat := (calls.map fun s => s.evs.countP p).sum

/-- `C18_fresh` in numbers: a factory made from a component constructor that takes a configuration, called k
times, made k configurations (k default-config calls), filled k of them — k pairwise distinct ones —, and called the
constructor once per call whose fillConf did not fail, each time on another configuration; the products
hold pairwise distinct configurations. -/
theorem C18_fresh_counts (inp : Input) (obs : Obs) (h : run inp = some obs) (ha : freshApplies inp = true)
    (hfa : inp.sh.factory = false) :
    (callsOf inp obs).length = inp.k ∧
    total isDflt (callsOf inp obs) = (if inp.sh.dflt = .absent then 0 else inp.k) ∧
    total isFill (callsOf inp obs) = (if inp.w.hasFill then inp.k else 0) ∧
    ((callsOf inp obs).filterMap fillAddr?).length = (if inp.w.hasFill then inp.k else 0) ∧
    ((callsOf inp obs).filterMap fillAddr?).Nodup ∧
    total isCtor (callsOf inp obs) + (callsOf inp obs).countP fillFailed = inp.k ∧
    total isFact (callsOf inp obs) = 0 ∧
    ((callsOf inp obs).filterMap ctorConf?).Nodup ∧
    ((callsOf inp obs).filterMap prodCell?).Nodup := by
  have hfresh := fresh_run h ha
  have hlen : (callsOf inp obs).length = inp.k := by
    obtain ⟨_, rfl⟩ := run_eq_phase h
    simp only [freshApplies, Bool.and_eq_true, bne_iff_ne, ne_eq] at ha
    exact calls_length_phase inp _ (.inr ⟨hfa, ha.1.1⟩)
  simp only [freshOk, Bool.and_eq_true, List.all_eq_true, nodup, decide_eq_true_eq] at hfresh
  obtain ⟨⟨⟨⟨⟨⟨_, hcall⟩, n1⟩, n2⟩, n3⟩, _⟩, _⟩ := hfresh
  -- per-call counts, summed
  have hsum : ∀ (p : Ev → Bool) (c : Nat), (∀ s ∈ callsOf inp obs, s.evs.countP p = c) →
      total p (callsOf inp obs) = (callsOf inp obs).length * c := by
    intro p c
    unfold total
    generalize callsOf inp obs = l
    intro hl
    induction l with
    | nil => simp
    | cons a l ih =>
      simp only [List.map_cons, List.sum_cons, List.length_cons, hl a (by simp)]
      rw [ih (fun s hs => hl s (by simp [hs])), Nat.add_mul]; omega
  have hper : ∀ s ∈ callsOf inp obs,
      s.evs.countP isDflt = (if inp.sh.dflt = .absent then 0 else 1) ∧
      s.evs.countP isFill = (if inp.w.hasFill then 1 else 0) ∧
      (inp.w.hasFill = true → (fillAddr? s).isSome = true) ∧
      s.evs.countP isCtor = (if fillFailed s then 0 else 1) ∧
      s.evs.countP isFact = 0 := by
    intro s hs
    have := hcall s hs
    simp only [freshCallOk, hfa, Bool.false_and, Bool.false_eq_true, if_false, Bool.and_eq_true, beq_iff_eq,
      Bool.or_eq_true, Bool.not_eq_true'] at this
    obtain ⟨⟨⟨⟨⟨⟨a1, a2⟩, a3⟩, a4⟩, a5⟩, _⟩, _⟩ := this
    refine ⟨a1, a2, ?_, a4, a5⟩
    intro hfill
    rcases a3 with a3 | a3
    · rw [hfill] at a3; exact absurd a3 (by simp)
    · exact a3
  refine ⟨hlen, ?_, ?_, ?_, n1, ?_, ?_, n2, n3⟩
  · rw [hsum isDflt _ (fun s hs => (hper s hs).1), hlen]; split <;> simp
  · rw [hsum isFill _ (fun s hs => (hper s hs).2.1), hlen]; split <;> simp
  · rw [← hlen]
    generalize callsOf inp obs = l at hper
    induction l with
    | nil => simp
    | cons a l ih =>
      have ha' := hper a (by simp)
      have ih' := ih (fun s hs => hper s (by simp [hs]))
      by_cases hfill : inp.w.hasFill = true
      · obtain ⟨c, hc⟩ := Option.isSome_iff_exists.mp (ha'.2.2.1 hfill)
        simp only [hfill, if_true] at ih' ⊢
        simp [hc, ih']
      · simp only [hfill, Bool.false_eq_true, if_false] at ih' ha' ⊢
        have : fillAddr? a = none := by
          have h0 := ha'.2.1
          unfold fillAddr?
          rw [List.findSome?_eq_none_iff]
          intro e he
          cases e with
          | fill i ad ok =>
            have : 0 < a.evs.countP isFill := List.countP_pos_iff.mpr ⟨_, he, rfl⟩
            omega
          | _ => rfl
        simp only [List.filterMap_cons, this]
        exact ih'
  · rw [← hlen]
    unfold total
    generalize callsOf inp obs = l at hper
    induction l with
    | nil => simp
    | cons a l ih =>
      have ha' := (hper a (by simp)).2.2.2.1
      have ih' := ih (fun s hs => hper s (by simp [hs]))
      simp only [List.map_cons, List.sum_cons, List.countP_cons, List.length_cons, ha']
      cases hff : fillFailed a <;> simp <;> omega
  · rw [hsum isFact 0 (fun s hs => (hper s hs).2.2.2.2)]; simp

/-- **once**: a factory (of either type) made from a factory constructor — creation invokes the default-config
function once (if one is registered and the constructor takes a configuration), fillConf once (if given) and, unless
fillConf failed, the registered factory constructor once, and does not invoke the factory it returns; every later
call invokes exactly one piece of user code: the registered factory. -/
theorem C18_once (inp : Input) (obs : Obs) (h : run inp = some obs) (ha : onceApplies inp = true) :
    onceOk inp obs = true :=
  once_run h ha

/-- `C18_once` in numbers: after a successful `NewFactory` the k calls contain no default-config, fillConf or
constructor invocation at all and exactly k invocations of the registered factory. -/
theorem C18_once_counts (inp : Input) (obs : Obs) (h : run inp = some obs) (ha : onceApplies inp = true)
    (c : Step) (calls : List Step) (hsteps : obs.steps = c :: calls) (hmade : c.res = .made) :
    calls.length = inp.k ∧
    c.evs.countP isFill = (if inp.w.hasFill then 1 else 0) ∧ c.evs.countP isCtor = 1 ∧ c.evs.countP isFact = 0 ∧
    total isDflt calls = 0 ∧ total isFill calls = 0 ∧ total isCtor calls = 0 ∧ total isFact calls = inp.k := by
  have honce := once_run h ha
  have herr := C18_errors inp obs h
  simp only [onceApplies, Bool.and_eq_true, bne_iff_ne, ne_eq] at ha
  have hlen : calls.length = inp.k := by
    cases hform : inp.form with
    | component => exact absurd hform ha.2
    | facNoErr | facErr =>
      simp only [errorsOk, hform, hsteps, isMade, hmade, beq_self_eq_true, Bool.true_or, Bool.and_true, if_true,
        Bool.and_eq_true, beq_iff_eq] at herr
      exact herr.1.2
  simp only [onceOk, hsteps, Bool.and_eq_true, List.all_eq_true] at honce
  obtain ⟨hc, hcalls⟩ := honce
  have hnofail : fillFailed c = false := by
    -- a creation step whose fillConf failed does not end in `made`
    cases hform : inp.form with
    | component => exact absurd hform ha.2
    | facNoErr | facErr =>
      simp only [errorsOk, hform, hsteps, Bool.and_eq_true] at herr
      have h1 := herr.1.1.1
      unfold stepErrOk at h1
      rw [hmade] at h1
      cases hff : fillFailed c with
      | false => rfl
      | true =>
        exfalso
        simp only [fillFailed, List.any_eq_true] at hff
        obtain ⟨e, he, hbad⟩ := hff
        cases e with
        | fill i ad ok =>
          simp only [Bool.not_eq_true'] at hbad
          subst hbad
          have hm : Err.fill i ∈ c.evs.filterMap evFail := by
            simp only [List.mem_filterMap]
            exact ⟨_, he, by simp [evFail]⟩
          split at h1
          · rename_i hnil; rw [hnil] at hm; simp at hm
          · simp at h1
          · simp at h1
        | dflt => simp at hbad
        | ctor _ _ _ => simp at hbad
        | fact _ _ => simp at hbad
  simp only [onceCreateOk, hnofail, Bool.false_eq_true, if_false, Bool.and_eq_true, beq_iff_eq] at hc
  obtain ⟨⟨⟨_, c2⟩, c3⟩, c4⟩ := hc
  have hper : ∀ s ∈ calls, s.evs.countP isDflt = 0 ∧ s.evs.countP isFill = 0 ∧ s.evs.countP isCtor = 0 ∧
      s.evs.countP isFact = 1 := by
    intro s hs
    have := hcalls s hs
    simp only [onceCallOk, Bool.and_eq_true, beq_iff_eq] at this
    obtain ⟨l1, l2⟩ := this
    match hev : s.evs, l1, l2 with
    | [e], _, l2 =>
      cases e <;> simp_all [isDflt, isFill, isCtor, isFact, List.countP_cons]
  have hsum : ∀ (p : Ev → Bool) (n : Nat), (∀ s ∈ calls, s.evs.countP p = n) → total p calls = calls.length * n := by
    intro p n
    unfold total
    generalize calls = l
    intro hl
    induction l with
    | nil => simp
    | cons a l ih =>
      simp only [List.map_cons, List.sum_cons, List.length_cons, hl a (by simp)]
      rw [ih (fun s hs => hl s (by simp [hs])), Nat.add_mul]; omega
  refine ⟨hlen, c2, c3, c4, ?_, ?_, ?_, ?_⟩
  · rw [hsum isDflt 0 (fun s hs => (hper s hs).1)]; simp
  · rw [hsum isFill 0 (fun s hs => (hper s hs).2.1)]; simp
  · rw [hsum isCtor 0 (fun s hs => (hper s hs).2.2.1)]; simp
  · rw [hsum isFact 1 (fun s hs => (hper s hs).2.2.2), hlen]; simp

/-- **fresh, per call — shared default configuration included**: whenever the requested form must configure per
product (`New`, or a factory made from a component constructor that takes a configuration), EVERY call invokes the
default-config function once (if registered), fillConf once on what it returned and, unless fillConf failed, the
constructor once on that very configuration — also when the registered default-config function hands out one and
the same pointer each time.  (`C18_fresh` adds that the configurations are pairwise distinct when the function does
not do that.)  `NewFactory` itself invokes no user code. -/
theorem C18_percall (inp : Input) (obs : Obs) (h : run inp = some obs) (ha : percallApplies inp = true) :
    percallOk inp obs = true :=
  percall_run h ha

/-- **structure, every shape**: for every shape, requested form, world and k, every operation consists of exactly the
invocations of user code — in exactly the order — that the constructor shape prescribes:
`New` = [default-config] [fillConf] constructor [registered factory];
`NewFactory` for a component constructor = nothing (fillConf once on the empty struct when the constructor takes
no config), each call = [default-config] [fillConf] constructor when it takes a config and the constructor alone when it
does not;
`NewFactory` for a factory constructor = [default-config] [fillConf] constructor, each call = the registered factory
alone; a failing fillConf / constructor ends the operation.  This decides the invocation counts of the shapes
`C18_fresh` / `C18_once` do not speak about (no-config constructors, factory constructors through `New`). -/
theorem C18_struct (inp : Input) (obs : Obs) (h : run inp = some obs) : structOk inp obs = true :=
  struct_run h

/-- `C18_struct` in numbers for a component constructor WITHOUT a config requested as a factory: creation invokes
fillConf at most once (on the empty struct) and nothing else, the k calls are exactly k constructor invocations -/
theorem C18_struct_plain (inp : Input) (obs : Obs) (h : run inp = some obs)
    (hc : inp.sh.cfg = .none) (hfa : inp.sh.factory = false) (hform : inp.form ≠ .component)
    (c : Step) (calls : List Step) (hsteps : obs.steps = c :: calls) :
    c.evs.map kindOf = (if inp.w.hasFill then [K.f] else []) ∧
    ∀ s ∈ calls, s.evs.map kindOf = [K.c] := by
  have hs := struct_run h
  have hcalls : callsOf inp obs = calls := by
    cases hf : inp.form with
    | component => exact absurd hf hform
    | facNoErr | facErr => simp [callsOf, hsteps]
  have hne : (inp.form == Form.component) = false := by simp [hform]
  simp only [structOk, structOkBy, hcalls, hsteps, List.head?_cons, hne, Bool.false_or, Bool.and_eq_true,
    List.all_eq_true, beq_iff_eq] at hs
  obtain ⟨⟨h1, h2⟩, _⟩ := hs
  refine ⟨?_, fun s hs => ?_⟩
  · rw [h1]; simp [createKindsBy, hfa, hc]
  · rw [h2 s hs]; simp [callKindsBy, reconfigures, hne, hfa, hc]

/-! ### registration: which Go types `Register` accepts (expectations regenerated from core/plugin on every run) -/

open Pandora.Model.C18Ty in
/-- **supported ways of registering, as Go types**: for EVERY type of the registered constructor and of the optional
default-config function (an unbounded space of Go types: any nesting of funcs, pointers, named types), the
expectations `Register` checks — `newImplConstructor`, `newPluginConstructor`, `newFactoryConstructor`,
`expectPluginConstructor`, `newDefaultConfigContainer`, regenerated from the source into Gen/Plugin.lean — all hold iff
the constructor is `func([Conf | *Conf]) (Impl | func() (Impl [, error]) [, error])` with `Impl` implementing the plugin
interface, and the default-config function is absent or `func() <the constructor's config type>` -/
theorem C18_register_types (p t : Ty) (d : Option Ty) :
    Pandora.Bridge.Plugin.accepts p t d = Pandora.Model.C18Reg.supported p t d :=
  Pandora.Bridge.Plugin.accepts_eq_supported p t d

/-- every shape of the model, given its Go types (as the driver builds them with reflect.FuncOf), is accepted by the
regenerated expectations iff the model says `Register` accepts it, and is taken as a factory constructor iff it is a
factory shape -/
theorem C18_register_shapes (sh : Shape) :
    Pandora.Bridge.Plugin.accepts Pandora.Model.C18Reg.plugT (Pandora.Model.C18Reg.ctorTy sh)
      (Pandora.Model.C18Reg.dfltTy sh) = registerOk sh ∧
    Pandora.Gen.Plugin.isFactoryConstructor Pandora.Model.C18Reg.plugT (Pandora.Model.C18Reg.ctorTy sh) = sh.factory :=
  ⟨Pandora.Bridge.Plugin.accepts_shape sh, Pandora.Bridge.Plugin.isFactoryConstructor_shape sh⟩

/-! ### the engine's use of a gun factory -/

open Pandora.Model.C18Engine in
/-- **engine**: a pool that starts `inst` instances calls its gun factory — a `func() (core.Gun, error)` made by
`NewFactory` — once to warm up and once per instance, until the first error.  For every shape, world (any fault plan)
and `inst`: the run is a registry run of form `func() (Plugin, error)` with at most `inst + 1` calls; at most that
many guns are built; every gun was built from the registered defaults overlaid by the user's settings; and when the
registered gun constructor is a component constructor with a config (and no shared default pointer) the guns hold
pairwise distinct configuration objects (`cells` = number of pointer-holding guns) and at the end every one of them still
reads its own serial number through its pointer (`own = cells`): instances never share configuration state. -/
theorem C18_engine (inp : Input) (inst : Nat) (per : Bool) (eo : EngineObs) (h : engineRun inp inst per = some eo) :
    ∃ obs, run (gunInput inp inst) = some obs ∧
      (gunInput inp inst).form = .facErr ∧ (gunInput inp inst).k ≤ inst + 1 ∧
      eo.guns = (Pandora.Spec.C18.products obs.steps).length ∧ eo.guns ≤ inst + 1 ∧
      (inp.sh.cfg ≠ .none → ∀ t ∈ eo.seen,
        t = ((expected inp.sh inp.w).get 1, (expected inp.sh inp.w).get 2, (expected inp.sh inp.w).get 3)) ∧
      (freshApplies (gunInput inp inst) = true →
        eo.cells = ((Pandora.Spec.C18.products obs.steps).filterMap (·.cell)).length ∧ eo.own = eo.cells) := by
  obtain ⟨obs, h1, h2, h3, h4, h5⟩ := engine_run h
    (fun obs ho => C18_errors _ obs ho)
    (fun obs ho p hp hc f hf => (C18_config _ obs ho p hp).2 hc f hf)
    (fun obs ho ha => C18_fresh _ obs ho ha)
  have hk := gunK_le inp inst
  have hp : poolGunCalls inst = inst + 1 := by simp [poolGunCalls, warmupGunCalls, gunCallsPerInstance, Nat.add_comm]
  exact ⟨obs, h1, rfl, by simp only [gunInput]; omega, h2, by omega, h4, h5⟩

/-! ### histories: all sequences of creations and calls on one registration -/

/-- **histories**: a registration is used again and again — `New` / `NewFactory` with other user settings, each followed
by any number of calls (phases, each started in the state the earlier ones left: configuration objects, invocation
counters; one fault plan over the global invocation indices).  For EVERY shape, default values, fault plan and list of
phases:
(1) every phase satisfies the whole single-creation Spec with ITS OWN user settings — errors, structure, per-call,
once, fresh, and its products were built from the defaults overlaid by the settings of THAT creation (the
configuration clause excludes a shared default pointer, which keeps earlier users' settings by the plugin author's
choice): an earlier creation never leaks into a later one;
(2) across phases (unless the default-config function shares one object): the configurations held by the products of
all per-product-configuring phases are pairwise distinct whichever creations they come from, and at the very end of
the history every such product still reads its own serial number through its configuration pointer — no later
creation or call disturbed it. -/
theorem C18_history (h : HInput) (o : HObs) (fields : List Nat) (hr : runHist h = some o) :
    histPhasesOk h fields h.phases o.phases = true ∧ histCrossOk h o = true := by
  refine ⟨?_, hist_cross hr⟩
  unfold runHist at hr
  by_cases hreg : registerOk h.sh = true
  · simp only [hreg, Bool.not_true, Bool.false_eq_true, if_false, Option.some.injEq] at hr
    subst hr
    exact hist_phases h fields h.phases (histInit h)
  · simp [hreg] at hr

/-- the verdict the driver computes for a history is `ok` on the model's own observation -/
theorem C18_history_spec (h : HInput) (fields : List Nat) : judgeHist h (runHist h) fields = "ok" := by
  cases hrun : runHist h with
  | none =>
    have : registerOk h.sh = false := by
      unfold runHist at hrun
      by_cases hreg : registerOk h.sh = true
      · simp [hreg] at hrun
      · simpa using hreg
    simp [judgeHist, this]
  | some o =>
    have hreg : registerOk h.sh = true := by
      unfold runHist at hrun
      by_cases hreg : registerOk h.sh = true
      · exact hreg
      · simp [hreg] at hrun
    obtain ⟨h1, h2⟩ := C18_history h o fields hrun
    simp [judgeHist, hreg, h1, h2]

/-- a single creation is the one-phase history (so everything above speaks about `run` as well) -/
theorem C18_history_single (inp : Input) (obs : Obs) (h : run inp = some obs) :
    obs = phaseObs inp (initSt inp.sh inp.w) :=
  (run_eq_phase h).2

/-- the whole Spec verdict the driver computes is `ok` on the model's own observation, for every input -/
theorem C18_spec (inp : Input) (fields : List Nat) : judge inp (run inp) fields = "ok" := by
  cases hrun : run inp with
  | none =>
    have := C18_register inp
    rw [hrun] at this
    simp only [judge]
    rw [← this]; simp
  | some obs =>
    have hreg : registerOk inp.sh = true := by
      have := C18_register inp
      rw [hrun] at this
      exact this.symm
    simp only [judge, hreg, Bool.not_true, Bool.false_eq_true, if_false, C18_errors inp obs hrun,
      C18_config_spec inp obs fields hrun]
    have hp : (percallApplies inp && !percallOk inp obs) = false := by
      by_cases hp : percallApplies inp = true
      · simp [C18_percall inp obs hrun hp]
      · simp [hp]
    simp only [hp, C18_struct inp obs hrun, Bool.not_true, Bool.false_eq_true, if_false]
    by_cases hf : freshApplies inp = true
    · by_cases ho : onceApplies inp = true
      · simp [hf, ho, C18_fresh inp obs hrun hf, C18_once inp obs hrun ho]
      · simp [hf, ho, C18_fresh inp obs hrun hf]
    · by_cases ho : onceApplies inp = true
      · simp [hf, ho, C18_once inp obs hrun ho]
      · simp [hf, ho]

/-! ### sessions: several registrations in ONE registry, any interleaving of operations

`Model.C18Sess`: a registry holds any number of registrations (plugin type × name × constructor shape, each with its own
user code and fault plan); a session is ANY list of `Register` / `New` / `NewFactory` / call of ANY factory handed out so
far / `Lookup`.  The Spec (`Spec.C18Sess.judgeSess`) keeps its own book, resolves every creation "by name" itself and
judges every single step by the clauses of the single-creation Spec w.r.t. the registration that was meant and the user
settings of the creation the called factory came from. -/
section
open Pandora.Model.C18Sess Pandora.Spec.C18Sess Pandora.Proofs.C18Sess

/-- **every session satisfies the whole session Spec**: for every list of operations (no bound on the number of
registrations, creations, calls, on their order) and every list of fields:
(1) a registration is accepted iff its name is not empty, nothing is registered under this (plugin type, name) yet and the
default-config function fits the constructor; a creation for a (type, name) nobody registered ends with the error result
of the lookup; a creation for a registered one runs on exactly that registration; `Lookup` never denies a registered
type;
(2) every step — the creation of a factory, every call of every factory at whatever later moment, every `New` — satisfies
the error, configuration (defaults of ITS registration overlaid by the user settings of ITS creation, every listed field),
per-call, once and invocation-structure clauses of the single-creation Spec;
(3) at the very end every product that must own its configuration reads its own serial number through its configuration
pointer, whatever was created or called after it;
(4) the configurations obtained by different `Get`s of one registration are pairwise distinct: no two per-product
configurations, and no configuration captured by a factory constructor and any other, coincide. -/
theorem C18_session (ops : List Op) (fields : List Nat) : judgeSess ops (Pandora.Model.C18Sess.run ops) fields = "ok" := by
  have h1 := opsOk_run fields ops SSt.empty Track.empty rel_empty inv_empty
  have h2 := viewsOk_run fields ops SSt.empty Track.empty (runFrom SSt.empty ops).1 rel_empty inv_empty (frame_refl _)
  have c1 := (cells_run fields projFills (fun sst tr op hR hI => (cells_exec fields hR hI op).1) ops _ _ rel_empty inv_empty).2
  have c2 := (cells_run fields projConfs (fun sst tr op hR hI => (cells_exec fields hR hI op).2.1) ops _ _ rel_empty inv_empty).2
  have c3 := (cells_run fields projProds (fun sst tr op hR hI => (cells_exec fields hR hI op).2.2) ops _ _ rel_empty inv_empty).2
  simp only [projFills, projConfs, projProds] at c1 c2 c3
  simp [judgeSess, Pandora.Model.C18Sess.run, h1, h2, nodupP, c1, c2, c3]

/-- the operations of a session, one by one (clauses (1) and (2) of `C18_session`) -/
theorem C18_session_steps (ops : List Op) (fields : List Nat) :
    opsOk fields Track.empty ops (Pandora.Model.C18Sess.run ops).outs = "" :=
  opsOk_run fields ops SSt.empty Track.empty rel_empty inv_empty

/-- **creation by name**: after ANY session `pre`, with `book` the Spec's own record of the accepted registrations:
* nothing registered for (t, n): `New` and `NewFactory` end with the lookup error, NO user code runs and nothing in the
  registry changes;
* otherwise there is exactly ONE accepted registration for (t, n) and `New` is the single-registration `regNew` of
  Model/C18 on the current state of that registration — with that registration's constructor shape, defaults and fault
  plan, and this creation's user settings. -/
theorem C18_lookup (pre : List Op) (t : Nat) (n : String) (user : Cfg) (hasFill : Bool) :
    (resolve (trackRun Track.empty pre (runFrom SSt.empty pre).2).regs t n = none →
      exec (runFrom SSt.empty pre).1 (.new t n user hasFill) =
        ((runFrom SSt.empty pre).1, .noEntry ((runFrom SSt.empty pre).1.types.contains t)) ∧
      ∀ e, exec (runFrom SSt.empty pre).1 (.newFactory t n e user hasFill) =
        ((runFrom SSt.empty pre).1, .noEntry ((runFrom SSt.empty pre).1.types.contains t))) ∧
    (∀ i, resolve (trackRun Track.empty pre (runFrom SSt.empty pre).2).regs t n = some i →
      ∃ sl, (runFrom SSt.empty pre).1.slots[i]? = some sl ∧ sl.reg.ptype = t ∧ sl.reg.name = n ∧
        (∀ (j : Nat) (sl' : Slot), (runFrom SSt.empty pre).1.slots[j]? = some sl' → sl'.reg.ptype = t → sl'.reg.name = n → j = i) ∧
        exec (runFrom SSt.empty pre).1 (.new t n user hasFill) =
          (setSt (runFrom SSt.empty pre).1 i sl (step (regNew sl.reg.sh (sl.reg.world user hasFill)) sl.st).1,
           .step i (step (regNew sl.reg.sh (sl.reg.world user hasFill)) sl.st).2)) := by
  obtain ⟨hR, hI⟩ := rel_run [] pre SSt.empty Track.empty rel_empty inv_empty
  have hU := uniq_run [] pre SSt.empty Track.empty rel_empty inv_empty uniq_empty
  generalize (runFrom SSt.empty pre).1 = sst at hR hI ⊢
  generalize trackRun Track.empty pre (runFrom SSt.empty pre).2 = book at hR hU ⊢
  refine ⟨fun hres => ?_, fun i hres => ?_⟩
  · have hfind : findSlot sst.slots t n = none := by rw [findSlot_eq, ← hR.regs]; exact hres
    exact ⟨by simp [exec, hfind], fun e => by simp [exec, hfind]⟩
  · obtain ⟨r, hr, h1, h2⟩ := resolve_some hres
    obtain ⟨sl, hsl, hreg⟩ := slot_of_rel hR hr
    have hfind : findSlot sst.slots t n = some i := by rw [findSlot_eq, ← hR.regs]; exact hres
    subst hreg
    refine ⟨sl, hsl, h1, h2, fun j sl' hj g1 g2 => ?_, by simp [exec, hfind, hsl]⟩
    have hj' : book.regs[j]? = some sl'.reg := by rw [hR.regs, List.getElem?_map, hj]; rfl
    exact hU j i sl'.reg sl.reg hj' hr (by rw [g1, h1]) (by rw [g2, h2])

/-- **the session model extends the single-creation model**: a session that registers one constructor and then does what
`Model.C18.run` does — `NewFactory` followed by k calls of the factory, or k calls of `New` — has exactly the steps of
`Model.C18.run` for the corresponding input (so `C18_config`, `C18_errors`, `C18_fresh`, `C18_once`, … speak about
sessions as well, and `C18_session` generalises them to every interleaving and any number of registrations) -/
theorem C18_session_single (r : Reg) (hn : r.name ≠ "") (hreg : registerOk r.sh = true) (user : Cfg) (hasFill : Bool) (k : Nat) :
    (∀ e : Bool, some ((Pandora.Model.C18Sess.run
        (.register r :: .newFactory r.ptype r.name e user hasFill :: List.replicate k (.call 0))).outs.filterMap stepOf) =
      (run { r.input (formOf e) user hasFill with k := k }).map (·.steps)) ∧
    some ((Pandora.Model.C18Sess.run
        (.register r :: List.replicate k (.new r.ptype r.name user hasFill))).outs.filterMap stepOf) =
      (run { r.input .component user hasFill with k := k }).map (·.steps) :=
  ⟨fun e => single_factory r hn hreg e user hasFill k, single_new r hn hreg user hasFill k⟩

/-- **registrations do not interfere**: an operation that the Spec attributes to registration `i` changes the state of
no other registration; an operation that reaches no registration (failed lookup, call of a factory that was never
handed out, `Lookup`) changes nothing at all, and `Register` changes no existing registration and no factory -/
theorem C18_isolation (pre : List Op) (op : Op) :
    (∀ i inp creation, target (trackRun Track.empty pre (runFrom SSt.empty pre).2) op = some (i, inp, creation) →
      ∀ j : Nat, j ≠ i → (exec (runFrom SSt.empty pre).1 op).1.slots[j]? = (runFrom SSt.empty pre).1.slots[j]?) ∧
    (target (trackRun Track.empty pre (runFrom SSt.empty pre).2) op = none →
      (exec (runFrom SSt.empty pre).1 op).1.handles = (runFrom SSt.empty pre).1.handles ∧
      ∀ (j : Nat) (sl : Slot), (runFrom SSt.empty pre).1.slots[j]? = some sl → (exec (runFrom SSt.empty pre).1 op).1.slots[j]? = some sl) := by
  obtain ⟨hR, hI⟩ := rel_run [] pre SSt.empty Track.empty rel_empty inv_empty
  generalize (runFrom SSt.empty pre).1 = sst at hR hI ⊢
  generalize trackRun Track.empty pre (runFrom SSt.empty pre).2 = book at hR ⊢
  refine ⟨fun i inp creation ht j hj => ?_, fun ht => ?_⟩
  · obtain ⟨sl, st', s, newH, touched, hsl, hsh, hex, _⟩ := exec_slot [] hR hI op i inp creation ht
    rw [hex]
    simp only [slotExec]
    exact List.getElem?_set_ne (fun hh => hj hh.symm)
  · obtain ⟨types', extra, hex, _⟩ := exec_other [] hR hI op ht
    rw [hex]
    refine ⟨rfl, fun j sl hj => ?_⟩
    simp only
    rw [List.getElem?_append_left (lt_of_getElem? hj)]
    exact hj

end

/-! ### the config hooks (core/plugin/pluginconfig): from config data to a creation by name -/
section
open Pandora.Model.C18Hook Pandora.Proofs.C18Hook

/-- **what reaches the registry through the hooks** (repaired `parseConf`): a creation by name happens exactly for
well-formed data — a map with string keys and exactly one key that spells `type` in any letter case, with a string value
— the plugin name is that value and is NEVER empty (so the registry's `expect(name != "")` cannot fire on user data),
and the user's settings are all other entries, in their order, none of them a `type` key; for every other data the hook
ends with the error result (and for a type without any registered plugin it hands the data back untouched) -/
theorem C18_hook (typeKnown : Bool) (dk : DataKind) (nsk : Bool) (data : List KV) :
    (typeKnown = false → hook true typeKnown dk nsk data = .pass) ∧
    (typeKnown = true → ∀ name, WellFormed true dk nsk data name →
      hook true typeKnown dk nsk data = .create name (data.filter fun kv => !isTypeKey kv.key) ∧ name ≠ "") ∧
    (typeKnown = true → (¬ ∃ name, WellFormed true dk nsk data name) → hook true typeKnown dk nsk data = .parseErr) ∧
    (∀ name rest, hook true typeKnown dk nsk data = .create name rest →
      name ≠ "" ∧ WellFormed true dk nsk data name ∧ ∀ kv ∈ rest, isTypeKey kv.key = false) := by
  refine ⟨fun h => by simp [hook, h], fun h name hw => ?_, fun h hn => ?_, fun name rest hc => ?_⟩
  · refine ⟨by simp [hook, h, parseConf_of_wf hw], ?_⟩
    obtain ⟨_, _, _, _, _, _, h5⟩ := hw
    exact h5 rfl
  · simp [hook, h, parseConf_err hn]
  · unfold hook at hc
    cases typeKnown with
    | false => simp at hc
    | true =>
      simp only [Bool.not_true, Bool.false_eq_true, if_false] at hc
      cases hp : parseConf true dk nsk data with
      | err => simp [hp] at hc
      | ok n r =>
        simp only [hp, Out.create.injEq] at hc
        obtain ⟨rfl, rfl⟩ := hc
        obtain ⟨hw, hr⟩ := parseConf_ok hp
        refine ⟨?_, hw, fun kv hkv => ?_⟩
        · obtain ⟨_, _, _, _, _, _, h5⟩ := hw
          exact h5 rfl
        · rw [hr] at hkv
          simpa using (List.mem_filter.mp hkv).2

/-- a Go map has no iteration order: whichever enumeration of the data the model is given, the outcome is the same (the
settings up to their order) -/
theorem C18_hook_order (typeKnown : Bool) (dk : DataKind) (nsk : Bool) (data data' : List KV) (hp : data.Perm data') :
    match hook true typeKnown dk nsk data, hook true typeKnown dk nsk data' with
    | .pass, .pass => True
    | .parseErr, .parseErr => True
    | .create n r, .create n' r' => n = n' ∧ r.Perm r'
    | _, _ => False := by
  cases typeKnown with
  | false => simp [hook]
  | true =>
    by_cases hw : ∃ name, WellFormed true dk nsk data name
    · obtain ⟨name, hw⟩ := hw
      have hw' := wf_perm hp hw
      simp only [hook, Bool.not_true, Bool.false_eq_true, if_false, parseConf_of_wf hw, parseConf_of_wf hw']
      exact ⟨trivial, hp.filter _⟩
    · have hw' : ¬ ∃ name, WellFormed true dk nsk data' name := fun ⟨n, h⟩ => hw ⟨n, wf_perm hp.symm h⟩
      simp [hook, parseConf_err hw, parseConf_err hw']

/-- the tree as found: `type: ""` goes through to the registry, whose `expect(name != "")` panics — the statement that the
name handed to the registry is never empty is FALSE without the repair -/
def C18_hook_unrepaired_statement : Prop :=
  ∀ (typeKnown : Bool) (dk : DataKind) (nsk : Bool) (data : List KV) (name : String) (rest : List KV),
    hook false typeKnown dk nsk data = .create name rest → name ≠ ""

theorem C18_hook_unrepaired_counterexample : ¬ C18_hook_unrepaired_statement := by
  intro h
  exact h true .strMap false [⟨['t', 'y', 'p', 'e'], true, ""⟩] "" [] (by decide) rfl

/-- what holds of the tree as found as well: everything but the emptiness of the name -/
theorem C18_hook_partial (typeKnown : Bool) (dk : DataKind) (nsk : Bool) (data : List KV) (name : String) (rest : List KV)
    (h : hook false typeKnown dk nsk data = .create name rest) :
    WellFormed false dk nsk data name ∧ rest = data.filter (fun kv => !isTypeKey kv.key) := by
  unfold hook at h
  cases typeKnown with
  | false => simp at h
  | true =>
    simp only [Bool.not_true, Bool.false_eq_true, if_false] at h
    cases hp : parseConf false dk nsk data with
    | err => simp [hp] at h
    | ok n r =>
      simp only [hp, Out.create.injEq] at h
      obtain ⟨rfl, rfl⟩ := h
      exact parseConf_ok hp

/-- non-vacuity: `Type: x` with settings, in a `map[interface{}]interface{}` -/
example : hook true true .anyMap false [⟨['a'], false, "5"⟩, ⟨['T', 'y', 'p', 'e'], true, "x"⟩, ⟨['b'], false, "7"⟩] =
    .create "x" [⟨['a'], false, "5"⟩, ⟨['b'], false, "7"⟩] := by decide
/-- two spellings of the key / a number as name / no key / an empty name / a non-string key: the error result -/
example : hook true true .strMap false [⟨['t', 'y', 'p', 'e'], true, "x"⟩, ⟨['T', 'Y', 'P', 'E'], true, "x"⟩] = .parseErr ∧
    hook true true .strMap false [⟨['t', 'y', 'p', 'e'], false, "5"⟩] = .parseErr ∧
    hook true true .strMap false [⟨['t', 'y', 'p'], true, "x"⟩] = .parseErr ∧
    hook true true .strMap false [⟨['t', 'y', 'p', 'e'], true, ""⟩] = .parseErr ∧
    hook true true .anyMap true [⟨['t', 'y', 'p', 'e'], true, "x"⟩] = .parseErr ∧
    hook true false .other false [] = .pass := by decide
end

/-! ### validation of the decoded configuration (round 3): config errors reach the caller also when the user sets nothing -/

/-- **validation, one creation started in any state** (so: every creation of a history, with its own settings): when the
fillConf is the validating decoder (`validating r inp`: always given — the hooks always pass one —, decodes the user's
settings over the configuration and fails exactly when the result breaks the rule of the config type),
  * no component is ever built from a configuration that breaks the rule,
  * if the defaults overlaid by the user's settings satisfy the rule, no operation ends with fillConf's error,
  * if they break it — whatever the user's settings are, EMPTY settings included — every operation that needs the
    configuration (every `New`, every call of a factory made from a component constructor, the `NewFactory` of a factory
    constructor) ends with fillConf's error and nothing at all is built.
Every shape, form, default-config variant that does not share one pointer, any constructor / factory fault plan, any k. -/
theorem C18_validate_phase (r : Rule) (hr : r.field ≠ markField) (inp : Input) (st : St) (hs : inp.sh.dflt ≠ .shared) :
    validProductsOk r inp (phaseObs (validating r inp) st) = true ∧
    validAcceptedOk r inp (phaseObs (validating r inp) st) = true ∧
    invalidRefusedOk r inp (phaseObs (validating r inp) st) = true := by
  have hB : SharedOk (validating r inp).sh (validating r inp).w st.heap := fun h => absurd h hs
  cases hv : ruleHolds r inp with
  | true =>
    have hnf : ∀ i, (validating r inp).w.fillFault i = false := by intro i; simp [validating, hv]
    have h2 := nofail_phase (validating r inp) st hnf
    refine ⟨?_, ?_, by simp [invalidRefusedOk, hv]⟩
    · simp only [validProductsOk, Bool.or_eq_true, beq_iff_eq, List.all_eq_true]
      by_cases hc : inp.sh.cfg = .none
      · exact .inl hc
      · refine .inr fun p hp => ?_
        have hseen := (config_phase (validating r inp) st hB p hp).2 hc r.field hr
        have hexp : expected (validating r inp).sh (validating r inp).w = expected inp.sh (withFill inp).w := by
          simp [expected, validating, withFill, defaults]
        simp only [ruleHolds, Bool.or_eq_true, beq_iff_eq, hc, false_or] at hv
        rw [hexp] at hseen
        simpa [Rule.ok, hseen] using hv
    · simp only [validAcceptedOk, hv, Bool.not_true, Bool.false_or, List.all_eq_true, Bool.not_eq_true']
      exact h2
  | false =>
    have hc : inp.sh.cfg ≠ .none := by
      intro hc; simp [ruleHolds, hc] at hv
    have haf : ∀ i, (validating r inp).w.fillFault i = true := by intro i; simp [validating, hv]
    have h3 := allfail_phase (validating r inp) st rfl haf hc
    have hnil := products_nil h3
    refine ⟨by simp [validProductsOk, hnil], by simp [validAcceptedOk, hv], ?_⟩
    simp only [invalidRefusedOk, hv, Bool.false_or, Bool.and_eq_true, List.all_eq_true, Bool.or_eq_true, hnil,
      List.isEmpty_nil, and_true]
    exact h3

/-- **validation, a run** (registration, creation, k calls) — also for a default-config function that hands out one
shared pointer -/
theorem C18_validate (r : Rule) (hr : r.field ≠ markField) (inp : Input) (obs : Obs)
    (h : run (validating r inp) = some obs) :
    validProductsOk r inp obs = true ∧ validAcceptedOk r inp obs = true ∧ invalidRefusedOk r inp obs = true := by
  obtain ⟨_, rfl⟩ := run_eq_phase h
  have hB : SharedOk (validating r inp).sh (validating r inp).w (initSt (validating r inp).sh (validating r inp).w).heap :=
    initSt_shared _ _
  generalize initSt (validating r inp).sh (validating r inp).w = st at hB ⊢
  cases hv : ruleHolds r inp with
  | true =>
    have hnf : ∀ i, (validating r inp).w.fillFault i = false := by intro i; simp [validating, hv]
    have h2 := nofail_phase (validating r inp) st hnf
    refine ⟨?_, ?_, by simp [invalidRefusedOk, hv]⟩
    · simp only [validProductsOk, Bool.or_eq_true, beq_iff_eq, List.all_eq_true]
      by_cases hc : inp.sh.cfg = .none
      · exact .inl hc
      · refine .inr fun p hp => ?_
        have hseen := (config_phase (validating r inp) st hB p hp).2 hc r.field hr
        have hexp : expected (validating r inp).sh (validating r inp).w = expected inp.sh (withFill inp).w := by
          simp [expected, validating, withFill, defaults]
        simp only [ruleHolds, Bool.or_eq_true, beq_iff_eq, hc, false_or] at hv
        rw [hexp] at hseen
        simpa [Rule.ok, hseen] using hv
    · simp only [validAcceptedOk, hv, Bool.not_true, Bool.false_or, List.all_eq_true, Bool.not_eq_true']
      exact h2
  | false =>
    have hc : inp.sh.cfg ≠ .none := by
      intro hc; simp [ruleHolds, hc] at hv
    have haf : ∀ i, (validating r inp).w.fillFault i = true := by intro i; simp [validating, hv]
    have h3 := allfail_phase (validating r inp) st rfl haf hc
    have hnil := products_nil h3
    refine ⟨by simp [validProductsOk, hnil], by simp [validAcceptedOk, hv], ?_⟩
    simp only [invalidRefusedOk, hv, Bool.false_or, Bool.and_eq_true, List.all_eq_true, Bool.or_eq_true, hnil,
      List.isEmpty_nil, and_true]
    exact h3

/-- the user's settings do not matter for the REFUSAL of an invalid default: with empty settings (a plugin config that
is nothing but `type: name`) the decision is the rule on the registered defaults resp. the zero configuration -/
theorem C18_validate_typeonly (r : Rule) (inp : Input) (hu : inp.w.user = []) :
    ruleHolds r inp = (inp.sh.cfg == .none || r.ok (defaults inp.sh inp.w)) := by
  simp [ruleHolds, expected, withFill, hu, defaults]

/-! ### nested plugins (round 3): a plugin whose configuration contains another plugin -/
section
open Pandora.Model.C18Nest

/-- **nested creation**: the decoder creates the nested component while it fills the outer configuration (`Model.C18Nest`:
the outer fillConf fails when its own plan says so or the nested creation it triggered failed; the nested registration
runs `New` once per outer fillConf invocation).  For every pair of shapes, forms, worlds and fault plans:
  * the outer creation satisfies the whole single-creation Spec (errors as the error result / panic rule, configuration =
    defaults overlaid by ITS settings, fresh / once / per-call structure, invocation structure),
  * so does the nested registration, with ITS defaults and ITS settings: one nested creation per fillConf invocation of the
    outer creation — exactly as many as the outer creation invokes fillConf, which is at most k + 1,
  * and the composition is consistent: the nested creations that decide the outer fillConf's failures are the nested
    creations that happen (the i-th outer fillConf fails by the nested plugin's doing iff the i-th nested creation failed). -/
theorem C18_nested (outer0 inner0 : Input) (m : NestObs) (fields : List Nat) (h : nestRun outer0 inner0 = some m) :
    judge (nestOuter outer0 inner0) (some m.outer) fields = "ok" ∧
    judge (nestInner inner0 (fillCount m.outer.steps)) (some m.inner) fields = "ok" ∧
    m.inner.steps.length = fillCount m.outer.steps ∧
    fillCount m.outer.steps ≤ outer0.k + 1 ∧
    ∀ i s, m.inner.steps[i]? = some s → innerFails inner0 (bound outer0) i = !stepOk s := by
  unfold nestRun at h
  cases ho : run (nestOuter outer0 inner0) with
  | none => simp [ho] at h
  | some oo =>
    cases hi : run (nestInner inner0 (fillCount oo.steps)) with
    | none => simp [ho, hi] at h
    | some io =>
      simp only [ho, hi, Option.some.injEq] at h
      subst h
      have hcount : fillCount oo.steps ≤ outer0.k + 1 := by
        have hs := C18_struct _ _ ho
        have he := C18_errors _ _ ho
        have h1 := sum_le_length (fun s : Step => s.evs.countP isFillEv) oo.steps (struct_fill_le_one _ _ hs)
        have h2 := errors_length _ _ he
        simp only [nestOuter] at h2
        exact Nat.le_trans h1 h2
      have hlen : io.steps.length = fillCount oo.steps := by
        have he := C18_errors _ _ hi
        simp only [errorsOk, nestInner, Bool.and_eq_true, beq_iff_eq] at he
        exact he.1
      refine ⟨?_, ?_, hlen, hcount, ?_⟩
      · have := C18_spec (nestOuter outer0 inner0) fields
        rwa [ho] at this
      · have := C18_spec (nestInner inner0 (fillCount oo.steps)) fields
        rwa [hi] at this
      · intro i s his
        replace his : io.steps[i]? = some s := his
        have hpre := innerSteps_prefix inner0 (fillCount oo.steps) (bound outer0) (by simp only [bound]; omega) io hi
        have hlt : i < fillCount oo.steps := by
          have := (List.getElem?_eq_some_iff.mp his).1
          omega
        have : (innerSteps inner0 (bound outer0))[i]? = some s := by
          rw [hpre, List.getElem?_take] at his
          simpa [hlt] using his
        simp [innerFails, this]
end

/-! ### structured options (round 4): the config decoder overlays defaults with settings for EVERY kind of option -/

section Over
open Pandora.Model.C18Over

/-- **"configured with the registered defaults overlaid by the user's settings"**, for a configuration with scalar, MAP,
LIST, ARRAY and POINTER-to-struct options and settings that may give any option as an explicit NULL: whatever the
registered defaults `d` and the user's settings `u` are, every field `f` (unbounded: every map key, every list index) of
what the decoder of core/config makes of them — `decode` with the ZeroFields flag REGENERATED from `newDecoderConfig` —
is the user's value where the settings name the field (`semSet`) and the default's value otherwise. -/
theorem C18_overlay (d : OCfg) (u : OSet) (f : Nat) :
    sem (decode Pandora.Gen.Plugin.decoderZeroFields d u) f = overlaid d u f := by
  rw [Pandora.Bridge.Plugin.decoder_flags.1]; exact Pandora.Proofs.C18Over.overlay d u f

/-- the driver's flattening is sound: the finite `Cfg`s an `ext=1` case hands to `Model.C18.run` (settings `flatSet`,
defaults `flat`) make the model's "user settings laid over the defaults" (`Spec.C18.expected` is `user ++ defaults`)
equal to the decoded configuration on every listed field — so `C18_config` & co. speak about structured options too -/
theorem C18_overlay_flat (fs : List Nat) (d : OCfg) (u : OSet) (f : Nat) (hf : f ∈ fs) :
    Cfg.get (flatSet fs u ++ flat fs d) f = sem (decode false d u) f :=
  Pandora.Proofs.C18Over.flat_overlay fs d u f hf

/-- what a decoder with ZeroFields = true would have to satisfy -/
def C18_overlay_zerofields_statement : Prop :=
  ∀ (d : OCfg) (u : OSet) (f : Nat), sem (decode true d u) f = overlaid d u f

/-- … and does not: an option given as an explicit null loses its registered default (field 2), a map option of which
the user sets one key loses the default's other keys (field 20 = key k0) -/
theorem C18_overlay_zerofields_counterexample : ¬ C18_overlay_zerofields_statement := by
  intro h
  have := h { OCfg.zero with b := 52 } { OSet.none with b := .null } 2
  revert this; decide

theorem C18_overlay_zerofields_counterexample_map :
    sem (decode true { OCfg.zero with m := some [(0, 7)] } { OSet.none with m := .val [(1, 9)] }) 20 ≠
      overlaid { OCfg.zero with m := some [(0, 7)] } { OSet.none with m := .val [(1, 9)] } 20 := by decide

/-- settings that a ZeroFields decoder treats alike: scalars given or absent, no structured option named -/
def scalarOnly (u : OSet) : Prop :=
  u.a ≠ .null ∧ u.b ≠ .null ∧ u.c ≠ .null ∧ u.m = .absent ∧ u.l = .absent ∧ u.r = .absent ∧ u.p = .absent

/-- what remains true of a ZeroFields decoder: on scalar-only settings the flag makes no difference -/
theorem C18_overlay_zerofields_partial (d : OCfg) (u : OSet) (f : Nat) (hu : scalarOnly u) :
    sem (decode true d u) f = overlaid d u f := by
  obtain ⟨ha, hb, hc, hm, hl, hr, hp⟩ := hu
  rw [← Pandora.Proofs.C18Over.overlay d u f]
  have hs : ∀ (x : Int) (o : Opt Int), o ≠ .null → decScalar true x o = decScalar false x o := by
    intro x o ho; cases o <;> simp_all [decScalar]
  simp only [decode, hm, hl, hr, hp, hs _ _ ha, hs _ _ hb, hs _ _ hc, decMap, decList, decArrAt, decPtr]

end Over

/-! ### round 6: where an error result can come from; the requested forms; the glue around the core, semantically -/

/-- **error source**: an error result — and a panic carrying an error — of ANY operation (every `New`, `NewFactory`, every
call of a factory of either form) is the error of an invocation of user code that the fault plan makes fail AND that has
an error result at all (`planned`: a given fillConf; the registered constructor if it has an error result; the registered
factory if it has one) — and nothing else.  For every shape, form, world, k.  (`C18_errors` is the converse direction: a
failing invocation ends the operation with its error.) -/
theorem C18_error_source (inp : Input) (obs : Obs) (h : run inp = some obs) :
    ∀ s ∈ obs.steps, ∀ e, (s.res = .err e ∨ s.res = .panic e) → planned inp.sh inp.w e = true := by
  obtain ⟨_, rfl⟩ := run_eq_phase h
  exact src_phase inp _

/-- … for a creation started in ANY state (so: every creation of a history) -/
theorem C18_error_source_phase (inp : Input) (st : St) :
    ∀ s ∈ (phaseObs inp st).steps, ∀ e, (s.res = .err e ∨ s.res = .panic e) → planned inp.sh inp.w e = true :=
  src_phase inp st

/-- **no error result, no error**: when neither the registered constructor nor the factory it returns has an error result
and fillConf (if given) does not fail, EVERY operation succeeds — whatever the component is (its implementation type may
itself implement `error`: the registry must not mistake a constructor's only result for an error) -/
theorem C18_no_error_result (inp : Input) (obs : Obs) (h : run inp = some obs)
    (hc : inp.sh.ctorErr = false) (hf : inp.sh.factErr = false)
    (hfill : inp.w.hasFill = false ∨ ∀ i, inp.w.fillFault i = false) :
    ∀ s ∈ obs.steps, s.res = .made ∨ ∃ p, s.res = .ok p := by
  intro s hs
  have hsrc := C18_error_source inp obs h s hs
  have hno : ∀ e, planned inp.sh inp.w e = false := by
    intro e
    cases e with
    | fill i => rcases hfill with h1 | h1 <;> simp [planned, h1]
    | ctor i => simp [planned, hc]
    | fact i => simp [planned, hf]
  cases hres : s.res with
  | made => exact .inl rfl
  | ok p => exact .inr ⟨p, rfl⟩
  | err e => have := hsrc e (.inl hres); rw [hno e] at this; exact absurd this (by simp)
  | panic e => have := hsrc e (.inr hres); rw [hno e] at this; exact absurd this (by simp)

open Pandora.Model.C18Ty Pandora.Model.C18Reg in
/-- **requested forms, as Go types**: for EVERY Go type `t` and name, the expectations `NewFactory` checks before anything
else (regenerated from the source) hold iff `t` is `func() (X [, error])` with `X` an interface type and the name is not
empty — so also what `LookupFactory` / `FactoryPluginType` / the config hook `FactoryHook` take as a factory type; those of
`New` hold iff `t` is an interface type and the name is not empty; the two factory forms of the model are such types, with
the model's number of results, asking for the plugin interface -/
theorem C18_requested_forms (t : Ty) (name : String) :
    (Pandora.Gen.Plugin.newFactoryExpects t name).all id = (requestedOk t && name != "") ∧
    (Pandora.Gen.Plugin.newExpects t name).all id = (t.kind == .iface && name != "") ∧
    Pandora.Gen.Plugin.isFactoryType t = requestedOk t ∧
    requestedOk (formTy 1) = true ∧ requestedOk (formTy 2) = true ∧
    (formTy 1).numOut = Form.facNoErr.numOut ∧ (formTy 2).numOut = Form.facErr.numOut :=
  ⟨Pandora.Proofs.C18R6.newFactoryExpects_eq t name, Pandora.Proofs.C18R6.newExpects_eq t name,
   Pandora.Proofs.C18R6.isFactoryType_eq t, Pandora.Proofs.C18R6.forms_requested.1,
   Pandora.Proofs.C18R6.forms_requested.2.1, Pandora.Proofs.C18R6.forms_requested.2.2.1,
   Pandora.Proofs.C18R6.forms_requested.2.2.2.1⟩

open Pandora.Model.C18Ty Pandora.Model.C18Reg Pandora.Model.C18Hook Pandora.Proofs.C18Hook in
/-- **composition: a factory-typed config field through `FactoryHook`**.  `FactoryHook` first asks
`LookupFactory(t)` = `isFactoryType(t) && Lookup(t.Out(0))` (regenerated: `lookupFactory_steps`, `hook_steps`); composing the
regenerated `isFactoryType` with the hook model: for EVERY Go type `t` of the field and every set `registered` of plugin
types that own a name table — a field whose type is not `func() (Interface [, error])`, or whose interface has no
registered plugin, gets its data back untouched (no user code, no error); otherwise well-formed data reach `NewFactory`
with the parsed non-empty name and the settings without the `type` key, and ill-formed data end with the error result -/
theorem C18_factory_hook (registered : Ty → Bool) (t : Ty) (dk : DataKind) (nsk : Bool) (data : List KV) :
    ((requestedOk t = false ∨ registered (requestedPlugin t) = false) →
      hook true (Pandora.Gen.Plugin.isFactoryType t && registered (requestedPlugin t)) dk nsk data = .pass) ∧
    (requestedOk t = true → registered (requestedPlugin t) = true →
      (∀ name, WellFormed true dk nsk data name →
        hook true (Pandora.Gen.Plugin.isFactoryType t && registered (requestedPlugin t)) dk nsk data =
          .create name (data.filter fun kv => !isTypeKey kv.key) ∧ name ≠ "") ∧
      ((¬ ∃ name, WellFormed true dk nsk data name) →
        hook true (Pandora.Gen.Plugin.isFactoryType t && registered (requestedPlugin t)) dk nsk data = .parseErr)) := by
  rw [Pandora.Proofs.C18R6.isFactoryType_eq]
  refine ⟨fun h => ?_, fun h1 h2 => ?_⟩
  · have : (requestedOk t && registered (requestedPlugin t)) = false := by
      rcases h with h | h <;> simp [h]
    rw [this]
    exact (C18_hook false dk nsk data).1 rfl
  · rw [h1, h2]
    exact ⟨(C18_hook true dk nsk data).2.1 rfl, (C18_hook true dk nsk data).2.2.1 rfl⟩

open Pandora.Model.C18Over in
/-- **composition with the config decoder as C17 reads it** (`Gen/Config.lean`, the regenerated definitions of property C17,
imported read-only; area `config` is regenerated by `./check C18` as well): the chain config file → decoder → plugin hooks →
registry.  (1) `coreimport.Import` installs `pluginconfig.AddHooks()`, which adds exactly `Hook` and `FactoryHook`, and they
end in `plugin.New` / `plugin.NewFactory` with the parsed name and fillConf (C17's reading) — the hooks `C18_hook` /
`C18_factory_hook` speak about; (2) the fillConf they pass is `config.DecodeAndValidate` = Decode, then Validate (C17's
reading of the closure and of the function) — the world of `C18_validate`; (3) with the decoder flags AS C17 REGENERATES
THEM every field of the decoded configuration is the user's value where the settings name it and the registered default
otherwise (`C18_overlay` over C17's `zeroFields`), unknown keys are errors, no weak typing; and the two independent
readings of the flags (C17's and C18's) agree. -/
theorem C18_config_composition (d : OCfg) (u : OSet) (f : Nat) :
    "pluginconfig.AddHooks()" ∈ Pandora.Gen.Config.importHooks ∧
    Pandora.Gen.Config.pluginHooks = ["Hook", "FactoryHook"] ∧
    Pandora.Gen.Config.pluginHookCalls =
      ["Hook: plugin.New(t, name, fillConf)", "FactoryHook: plugin.NewFactory(t, name, fillConf)"] ∧
    "x13 := config.DecodeAndValidate(x6, x12)" ∈ Pandora.Gen.Config.fillConfStmts ∧
    Pandora.Gen.Config.fillConfReturns = ["return x13"] ∧
    Pandora.Gen.Config.decodeAndValidateStmts = ["x2 := Decode(x0, x1)", "if x2 != nil {", "return x2", "}", "return Validate(x1)"] ∧
    sem (decode Pandora.Gen.Config.zeroFields d u) f = overlaid d u f ∧
    Pandora.Gen.Config.errorUnused = true ∧ Pandora.Gen.Config.weaklyTypedInput = false ∧
    Pandora.Gen.Config.zeroFields = Pandora.Gen.Plugin.decoderZeroFields ∧
    Pandora.Gen.Config.errorUnused = Pandora.Gen.Plugin.decoderErrorUnused ∧
    Pandora.Gen.Config.weaklyTypedInput = Pandora.Gen.Plugin.decoderWeaklyTyped := by
  refine ⟨by decide, by decide, by decide, by decide, by decide, by decide, ?_, by decide, by decide, by decide, by decide,
    by decide⟩
  have hz : Pandora.Gen.Config.zeroFields = false := by decide
  rw [hz]
  exact Pandora.Proofs.C18Over.overlay d u f

/-- **the result conversion of the source IS the model's** (semantic tie): the decision table obtained by evaluating
`convertFactoryOutParams` for every requested arity, callee arity and nil / non-nil error equals `convertOut`: an ok result
stays, a nil error is appended or dropped, a non-nil error is the error result when the requested form has one and a panic
carrying it when not; and a config error inside the closure of a component-constructor factory becomes a panic carrying
it for `func() Plugin`, the error result for `func() (Plugin, error)` — never a call of the constructor -/
theorem C18_convert (numOut outLen : Nat) (p : Product) (e : Err) :
    convertOut numOut outLen (.ok p) = .ok p ∧
    convertOut numOut outLen (.error e) = (if numOut < outLen then .panic e else .err e) ∧
    (∀ n ∈ [1, 2], ∀ l ∈ [1, 2], ∀ errNil ∈ [true, false], (l = 1 → errNil = true) →
      Pandora.Proofs.C18R6.convOutcome n l errNil = Pandora.Proofs.C18R6.modelOutcome n l errNil) ∧
    Pandora.Gen.Plugin.confErrTable = [(1, "panic:err"), (2, "ret:zero,err"), (3, "panic:other")] :=
  ⟨(Pandora.Proofs.C18R6.convertOut_spec numOut outLen p e).1, (Pandora.Proofs.C18R6.convertOut_spec numOut outLen p e).2,
   Pandora.Proofs.C18R6.convert_sem.1, Pandora.Proofs.C18R6.confErr_sem⟩

/-! ### non-vacuity: concrete inputs that meet the hypotheses and exercise every branch of the statements -/

/-- defaults 5/6/7 on fields 1..3, the user sets field 2 to 9 -/
def exWorld (fillFault ctorFault factFault : Nat → Bool) : World :=
  { dflt := [(1, 5), (2, 6), (3, 7)], user := [(2, 9)], hasFill := true, fillFault, ctorFault, factFault }

def noFault : Nat → Bool := fun _ => false

/-- `func(*Conf) (*comp, error)` + `func() *Conf`, requested as `func() Plugin`, called 3 times -/
def exFresh : Input :=
  { sh := { factory := false, cfg := .ptr, ctorErr := true, factErr := false, iface := false, dflt := .fresh },
    form := .facNoErr, w := exWorld noFault noFault noFault, k := 3 }

example : (run exFresh).isSome = true ∧ freshApplies exFresh = true ∧ exFresh.sh.factory = false := by decide
/-- three products, three distinct configurations 0,1,2, each seeing 5/9/7 -/
example : (run exFresh).map (fun o => (products o.steps).map fun p => (p.cell, p.seen.get 1, p.seen.get 2, p.seen.get 3)) =
    some [(some 0, 5, 9, 7), (some 1, 5, 9, 7), (some 2, 5, 9, 7)] := by decide
example : (run exFresh).map (fun o => total isFill (callsOf exFresh o)) = some 3 := by decide

/-- `func(*Conf) (func() (Plugin, error), error)` + default config, requested as `func() (Plugin, error)`, 3 calls -/
def exOnce : Input :=
  { sh := { factory := true, cfg := .ptr, ctorErr := true, factErr := true, iface := true, dflt := .fresh },
    form := .facErr, w := exWorld noFault noFault noFault, k := 3 }

example : (run exOnce).isSome = true ∧ onceApplies exOnce = true := by decide
example : (run exOnce).map (fun o => o.steps.map fun s => (s.evs.countP isFill, s.evs.countP isCtor, s.evs.countP isFact)) =
    some [(1, 1, 0), (0, 0, 1), (0, 0, 1), (0, 0, 1)] := by decide
/-- the three products of a factory constructor given a `*Conf` DO share that one configuration (that is the
registered factory's business): the last writer's serial number is what all of them read -/
example : (run exOnce).map (·.views) = some [(0, 2), (1, 2), (2, 2)] := by decide

/-- the second constructor call fails: a panic carrying `ctor 1` for `func() Plugin`, the error result for
`func() (Plugin, error)`; the calls before and after succeed -/
def exErr (form : Form) : Input :=
  { exFresh with form := form, w := exWorld noFault (fun i => i == 1) noFault }

example : (run (exErr .facNoErr)).map (fun o => o.steps.map fun s => match s.res with
      | .made => "made" | .ok _ => "ok" | .err _ => "err" | .panic _ => "panic") =
    some ["made", "ok", "panic", "ok"] := by decide
example : (run (exErr .facErr)).map (fun o => o.steps.map (·.res) |>.filter (fun r => r == .err (.ctor 1))) =
    some [.err (.ctor 1)] := by decide
/-- a fillConf error at creation of a factory from a factory constructor is `NewFactory`'s error result -/
example : (run { exOnce with w := exWorld (fun _ => true) noFault noFault }).map (fun o => o.steps.map (·.res)) =
    some [.err (.fill 0)] := by decide

/-- why `freshApplies` excludes a default-config function returning one shared pointer: there the products of a
component-constructor factory all hold that pointer (identity 0) -/
example : (run { exFresh with sh := { exFresh.sh with dflt := .shared } }).map
    (fun o => (products o.steps).map (·.cell)) = some [some 0, some 0, some 0] := by decide

/-- `C18_percall` is not vacuous for the shared default configuration: the hypotheses hold and every one of the
three calls shows default-config, fillConf and constructor on identity 0 -/
example : (run { exFresh with sh := { exFresh.sh with dflt := .shared } }).isSome = true ∧
    percallApplies { exFresh with sh := { exFresh.sh with dflt := .shared } } = true ∧
    freshApplies { exFresh with sh := { exFresh.sh with dflt := .shared } } = false := by decide
example : (run { exFresh with sh := { exFresh.sh with dflt := .shared } }).map
    (fun o => (callsOf exFresh o).map fun s => (s.evs.map kindOf, fillAddr? s, ctorConf? s)) =
    some [([K.d, K.f, K.c], some 0, some 0), ([K.d, K.f, K.c], some 0, some 0), ([K.d, K.f, K.c], some 0, some 0)] := by
  decide

/-- `func() (Plugin, error)` without config requested as `func() Plugin` (wrapped) and as `func() (Plugin, error)`
(handed out as is): fillConf once on the empty struct at creation, then one constructor invocation per call -/
def exPlain (form : Form) : Input :=
  { sh := { factory := false, cfg := .none, ctorErr := true, factErr := false, iface := true, dflt := .absent },
    form := form, w := exWorld noFault noFault noFault, k := 3 }

example : (run (exPlain .facNoErr)).map (fun o => o.steps.map fun s => s.evs.map kindOf) =
    some [[K.f], [K.c], [K.c], [K.c]] := by decide
example : (run (exPlain .facErr)).map (fun o => o.steps.map fun s => s.evs.map kindOf) =
    some [[K.f], [K.c], [K.c], [K.c]] := by decide
/-- a factory constructor through `New`: configuration, constructor and the factory it returns once per `New` -/
example : (run { exOnce with form := .component }).map (fun o => o.steps.map fun s => s.evs.map kindOf) =
    some [[K.d, K.f, K.c, K.r], [K.d, K.f, K.c, K.r], [K.d, K.f, K.c, K.r]] := by decide

/-! histories: two factories and a `New` on one registration, with different user settings -/
def exHist : HInput :=
  { sh := exFresh.sh, dflt := [(1, 5), (2, 6), (3, 7)], fillFault := noFault, ctorFault := noFault, factFault := noFault,
    phases := [⟨.facNoErr, [(2, 9)], true, 2⟩, ⟨.facErr, [(1, 4)], true, 2⟩, ⟨.component, [], false, 1⟩] }

/-- each creation's products see the defaults overlaid by THAT creation's settings, on five distinct configurations,
and at the very end all five read their own serial number -/
example : (runHist exHist).map (fun o => o.phases.map fun ob => (products ob.steps).map fun p =>
      (p.cell, p.seen.get 1, p.seen.get 2, p.seen.get 3)) =
    some [[(some 0, 5, 9, 7), (some 1, 5, 9, 7)], [(some 2, 4, 6, 7), (some 3, 4, 6, 7)], [(some 4, 5, 6, 7)]] := by decide
example : (runHist exHist).map (·.views) = some [(0, 0), (1, 1), (2, 2), (3, 3), (4, 4)] := by decide
example : (runHist exHist).map (fun o => freshCellsH exHist exHist.phases o.phases) = some [0, 1, 2, 3, 4] := by decide

/-! sessions: two registrations with the SAME name under different plugin types, a refused duplicate, interleaved calls
of three factories, creations for a name / a type nobody registered -/
section
open Pandora.Model.C18Sess Pandora.Spec.C18Sess

def exSess : List Op :=
  [ .register ⟨0, "x", exFresh.sh, [(1, 5), (2, 6), (3, 7)], noFault, noFault, noFault⟩,
    .register ⟨1, "x", exOnce.sh, [(1, 1)], noFault, noFault, noFault⟩,
    .register ⟨0, "x", exOnce.sh, [], noFault, noFault, noFault⟩,            -- duplicate (type 0, "x"): refused
    .newFactory 0 "x" true [(2, 9)] true,                                      -- factory 0: component constructor
    .newFactory 1 "x" false [(3, 8)] true,                                     -- factory 1: factory constructor
    .call 0, .call 1,
    .newFactory 0 "x" false [] false,                                          -- factory 2, other settings
    .call 0, .call 2, .call 1,                                                 -- factory 0 again AFTER the later creation
    .new 0 "y" [] true, .new 2 "x" [] false,                                   -- unknown name / unknown type
    .lookup 2, .lookup 1 ]

/-- which registration served which operation, and what every product saw: the products of factory 0 see 5/9/7 before
and after factory 2 (5/6/7) was created and used; factory 1 belongs to the other plugin type (defaults 1/0/0, user 8) -/
example : (Pandora.Model.C18Sess.run exSess).outs.map (fun o => match o with
      | .accepted => (0, 0, none, 0, 0, 0) | .refused => (1, 0, none, 0, 0, 0) | .noEntry _ => (2, 0, none, 0, 0, 0)
      | .noHandle => (3, 0, none, 0, 0, 0) | .found b => (if b then 4 else 5, 0, none, 0, 0, 0)
      | .step i s => match s.res with
        | .ok p => (7, i, p.cell, p.seen.get 1, p.seen.get 2, p.seen.get 3)
        | .made => (6, i, none, 0, 0, 0) | _ => (8, i, none, 0, 0, 0)) =
    ([(0, 0, none, 0, 0, 0), (0, 0, none, 0, 0, 0), (1, 0, none, 0, 0, 0), (6, 0, none, 0, 0, 0), (6, 1, none, 0, 0, 0),
      (7, 0, some 0, 5, 9, 7), (7, 1, some 0, 1, 0, 8), (6, 0, none, 0, 0, 0), (7, 0, some 1, 5, 9, 7),
      (7, 0, some 2, 5, 6, 7), (7, 1, some 0, 1, 0, 8), (2, 0, none, 0, 0, 0), (2, 0, none, 0, 0, 0),
      (5, 0, none, 0, 0, 0), (4, 0, none, 0, 0, 0)] : List (Nat × Nat × Option Nat × Int × Int × Int)) := by decide
/-- at the very end the three per-product configurations of registration 0 still hold their own serial numbers (the two
products of the factory constructor of registration 1 share its one configuration: both read the last serial, 1) -/
example : (Pandora.Model.C18Sess.run exSess).views =
    [none, none, none, none, none, some 0, some 1, none, some 1, some 2, some 1, none, none, none, none] := by decide
example : (collect Track.empty exSess (Pandora.Model.C18Sess.run exSess).outs).prods = [(0, 0), (0, 1), (0, 2)] ∧
    (collect Track.empty exSess (Pandora.Model.C18Sess.run exSess).outs).confs = [(1, 0), (0, 0), (0, 1), (0, 2)] := by decide
/-- the lookup clause is not vacuous: after the three registrations (type 0, "y") resolves to nothing, (type 1, "x") to
registration 1 -/
example : resolve (trackRun Track.empty (exSess.take 3) (runFrom SSt.empty (exSess.take 3)).2).regs 0 "y" = none ∧
    resolve (trackRun Track.empty (exSess.take 3) (runFrom SSt.empty (exSess.take 3)).2).regs 1 "x" = some 1 := by decide
/-- a refused registration leaves its (empty) name table behind: `Lookup` answers true for that plugin type although
nothing can be created for it (the quirk the model keeps) -/
example : (Pandora.Model.C18Sess.run
      [.register ⟨2, "x", { exFresh.sh with cfg := .none }, [], noFault, noFault, noFault⟩, .lookup 2, .new 2 "x" [] false]).outs =
    [.refused, .found true, .noEntry true] := by decide
end

/-! registration types: a supported and three unsupported constructor types -/
section
open Pandora.Model.C18Ty Pandora.Model.C18Reg Pandora.Bridge.Plugin
/-- `func(*Conf) (func() (Plugin, error), error)` with `func() *Conf` -/
example : accepts plugT (.func (.cons pconfT .nil) (.cons (formTy 2) (.cons Ty.error .nil))) (some (Ty.funcOf0 pconfT)) = true := by
  decide
/-- two arguments / a config that is neither a struct nor a pointer to one / a product that does not implement the
plugin interface / `func() Conf` for a `*Conf` constructor -/
example : accepts plugT (.func (.cons confT (.cons confT .nil)) (.cons implT .nil)) none = false ∧
    accepts plugT (.func (.cons (.ptr pconfT []) .nil) (.cons implT .nil)) none = false ∧
    accepts plugT (.func .nil (.cons pconfT .nil)) none = false ∧
    accepts plugT (.func (.cons pconfT .nil) (.cons implT .nil)) (some (Ty.funcOf0 confT)) = false := by decide
end

/-! the engine: 3 instances = 4 gun factory calls -/
section
open Pandora.Model.C18Engine
/-- `func(*Conf) (*comp, error)` registered as gun, no faults: 4 guns on 4 distinct configs, each 5/9/7, all read their
own serial at the end, the warm-up gun is bound to no instance; a shared rps schedule is built once -/
example : engineRun exFresh 3 false =
    some { res := "ok", guns := 4, cells := 4, dflts := 4, ctors := 4, facts := 0, seen := [(5, 9, 7)], own := 4,
           binds := [0, 1, 1, 1], sched := 1 } := by decide
/-- the first instance's gun constructor fails: `Run` returns that error after 2 factory calls -/
example : (engineRun (exErr .facErr) 3 true).map (fun e => (e.res, e.guns, e.ctors, e.sched)) =
    some ("err.ctor1", 1, 2, 1) := by decide
/-- a factory constructor registered as gun: configured once, its products share that configuration (`cells = 1`) -/
example : (engineRun exOnce 2 true).map (fun e => (e.res, e.guns, e.cells, e.own)) = some ("ok", 3, 1, 1) ∧
    (engineRun exOnce 2 true).map (fun e => (e.ctors, e.facts, e.sched)) = some (1, 3, 2) := by decide
end

/-! ### validation (round 3): non-vacuity -/
section
/-- the rule `C ≥ 10` of the config type; `exFresh` has C = 7 by default and the user sets only B: invalid -/
def exRule : Rule := ⟨3, 10⟩
example : ruleHolds exRule exFresh = false ∧ (run (validating exRule exFresh)).map (fun o => o.steps.map (·.res)) =
    some [.made, .panic (.fill 0), .panic (.fill 1), .panic (.fill 2)] := by decide
/-- nothing but `type: x` (no settings at all), zero configuration (no default-config function): refused -/
example : (run (validating ⟨3, 1⟩ { exFresh with sh := { exFresh.sh with dflt := .absent },
                                                  w := { exFresh.w with user := [] }, form := .component })).map
      (fun o => o.steps.map (·.res)) = some [.err (.fill 0), .err (.fill 1), .err (.fill 2)] := by decide
/-- the user's settings repair the invalid default (C := 12): accepted, every product sees C = 12 -/
example : ruleHolds exRule { exFresh with w := { exFresh.w with user := [(3, 12)] } } = true ∧
    (run (validating exRule { exFresh with w := { exFresh.w with user := [(3, 12)] } })).map
      (fun o => (products o.steps).map fun p => p.seen.get 3) = some [12, 12, 12] := by decide
/-- a factory constructor with an invalid configuration: `NewFactory` itself ends with the config error -/
example : (run (validating exRule exOnce)).map (fun o => o.steps.map (·.res)) = some [.err (.fill 0)] := by decide
/-- a constructor without config has nothing to validate -/
example : ruleHolds ⟨3, 99⟩ { exFresh with sh := { exFresh.sh with cfg := .none, dflt := .absent } } = true := by decide
end

/-! ### nested plugins (round 3): non-vacuity -/
section
open Pandora.Model.C18Nest
/-- the nested registration: `func(*Conf) (*comp, error)` whose constructor fails at its 2nd invocation -/
def exInner : Input := { exFresh with w := { exWorld noFault (fun i => i == 1) noFault with user := [(1, 4)] } }
/-- three products requested: the 2nd outer fillConf fails because its nested creation failed, the others get their own
nested component, built from the NESTED registration's defaults 5/6/7 overlaid by ITS settings (A := 4) -/
example : (nestRun exFresh exInner).map (fun m => (m.outer.steps.map (·.res) |>.map fun r => match r with
      | .ok p => some p.serial | .made => some 100 | _ => none,
    (products m.inner.steps).map fun p => (p.serial, p.seen.get 1, p.seen.get 2, p.seen.get 3))) =
    some ([some 100, some 0, none, some 1], [(0, 4, 6, 7), (2, 4, 6, 7)]) := by decide
example : (nestRun exFresh exInner).map (fun m => (fillCount m.outer.steps, m.inner.steps.length)) = some (3, 3) ∧
    innerFails exInner (bound exFresh) 1 = true ∧ innerFails exInner (bound exFresh) 2 = false := by decide
end

/-! ### structured options (round 4): non-vacuity -/
section OverEx
open Pandora.Model.C18Over

/-- defaults: B = 52, map {k0:1, k2:5}, list [1,2,3], array [7,8,9], pointer {3,4} -/
def exOD : OCfg := ⟨15, 52, 21, some [(0, 1), (2, 5)], some [1, 2, 3], 7, 8, 9, some ⟨3, 4⟩⟩
/-- settings: B as an explicit null, one map key added and one changed, a shorter list with a null element, the second
array element, one field of the nested struct -/
def exOU : OSet := ⟨.absent, .null, .val 24, .val [(1, 9), (2, 6)], .val [none, some 40], .val [none, some 80], .val (some 5, none)⟩

example : (allFields.map fun f => sem (decode false exOD exOU) f) =
    [15, 52, 24, /- k0..k3 -/ 1, 9, 6, 0, /- array -/ 7, 80, 9, /- pointer -/ 1, 5, 4, /- list -/ 2, 1, 40, 0, 0] := by decide
example : (allFields.map fun f => sem (decode true exOD exOU) f) =
    [15, 0, 24, 0, 9, 6, 0, 0, 80, 0, 1, 5, 0, 2, 0, 40, 0, 0] := by decide
example : flatSet allFields exOU = [(3, 24), (22, 9), (24, 6), (9, 80), (11, 1), (12, 5), (14, 2), (23, 40), (25, 0), (27, 0)] := by decide
example : scalarOnly { OSet.none with a := .val 3 } := by simp [scalarOnly, OSet.none]
end OverEx

/-! ### round 6: non-vacuity -/

open Pandora.Model.C18Ty Pandora.Model.C18Reg Pandora.Model.C18Hook in
/-- `C18_factory_hook`: a `func() (Plugin, error)` field with `{type: x, a: 5}` when the plugin interface has plugins -/
example : requestedOk (formTy 2) = true ∧
    hook true (Pandora.Gen.Plugin.isFactoryType (formTy 2) && (fun t => t == plugT) (requestedPlugin (formTy 2))) .strMap false
      [⟨['t', 'y', 'p', 'e'], true, "x"⟩, ⟨['a'], false, "5"⟩] = .create "x" [⟨['a'], false, "5"⟩] := by decide

/-- non-vacuity (round 6): a constructor without error results whose fillConf never fails — every step succeeds; with an
error result and a fault plan the second call's error is a planned one -/
example : (run { exFresh with sh := { exFresh.sh with ctorErr := false } }).map (fun o => o.steps.map fun s => match s.res with
      | .made => 0 | .ok _ => 1 | _ => 2) = some [0, 1, 1, 1] := by decide
example : planned (exErr .facErr).sh (exErr .facErr).w (.ctor 1) = true ∧
    planned (exErr .facErr).sh (exErr .facErr).w (.ctor 0) = false ∧
    planned { (exErr .facErr).sh with ctorErr := false } (exErr .facErr).w (.ctor 1) = false := by decide
open Pandora.Model.C18Ty Pandora.Model.C18Reg in
/-- requested types: `func() (Plugin, error)` is one; `func() (Plugin, *E)` with `*E` implementing `error` is not, nor is
`func() *Impl` or `func(Conf) Plugin` -/
example : requestedOk (formTy 2) = true ∧
    requestedOk (.func .nil (.cons plugT (.cons (.ptr (.base .struct 7 []) [0]) .nil))) = false ∧
    requestedOk (.func .nil (.cons implT .nil)) = false ∧
    requestedOk (.func (.cons confT .nil) (.cons plugT .nil)) = false := by decide

end Pandora.Props.C18
