/-
C18 — Plugin registry: every constructor shape yields rightly configured components.

All theorems are about `Model.C18.run`, the model of core/plugin/registry.go + constructor.go (tied to the real
registry by the correspondence driver harness/cmd/c18, which runs the FULL cross product of shapes on every check
and must print the model's observation byte for byte).  They quantify over
  * every constructor shape `Shape` (component | factory constructor × no config | struct | *struct × error result
    × the returned factory's error result × product type impl | interface × default-config function
    absent | fresh | nil-returning | one shared pointer),
  * every requested form (`New`, `func() Plugin`, `func() (Plugin, error)`),
  * every world: default values, user settings, fillConf given or not, and ANY fault plan (`Nat → Bool` per kind of
    user code),
  * every number k of calls (induction on k in Proofs/C18: `iter_inv`, `iter_keys`, `iter_frame`, `iter_views`).
The statements are the executable Spec predicates of Spec/C18 (the very functions the driver evaluates on the real
registry's observations) plus, for the configuration, the unbounded ∀-fields form.
-/
import Pandora.Proofs.C18

namespace Pandora.Props.C18
open Pandora.Model.C18 Pandora.Spec.C18 Pandora.Proofs.C18

/-- a registration is accepted iff the default-config function fits the constructor's config argument -/
theorem C18_register (inp : Input) : (run inp).isSome = registerOk inp.sh := by
  unfold run runSt
  cases hr : registerOk inp.sh
  · simp
  · cases hf : inp.form <;> simp
    all_goals split <;> simp

private theorem steps_of_run {inp : Input} {obs : Obs} (h : run inp = some obs) :
    ∃ st, runSt inp = some (st, obs.steps) ∧ obs.views = viewsOf st.heap obs.steps := by
  unfold run at h
  cases hr : runSt inp with
  | none => simp [hr] at h
  | some r =>
    simp only [hr, Option.map_some, Option.some.injEq] at h
    subst h
    exact ⟨r.1, rfl, rfl⟩

/-- **config**: every component handed out — by `New`, by a factory of either type, made from a component
constructor or from a factory constructor, whatever failed before — was built from the registered defaults
overlaid by the user's settings (every field except the `Mark` field the components themselves write), and from
nothing at all when the constructor takes no config. -/
theorem C18_config (inp : Input) (obs : Obs) (h : run inp = some obs) :
    ∀ p ∈ products obs.steps,
      (inp.sh.cfg = .none → p.seen = []) ∧
      (inp.sh.cfg ≠ .none → ∀ f, f ≠ markField → p.seen.get f = (expected inp.sh inp.w).get f) := by
  obtain ⟨st, hst, _⟩ := steps_of_run h
  obtain ⟨sh, form, w, k⟩ := inp
  intro p hp
  simp only [products, List.mem_filterMap] at hp
  obtain ⟨s, hs, hsp⟩ := hp
  have hres : s.res = .ok p := by
    unfold product? at hsp
    split at hsp
    · simp only [Option.some.injEq] at hsp; subst hsp; assumption
    · simp at hsp
  suffices hh : SeenOk sh w p.seen from hh
  unfold runSt at hst
  by_cases hr : registerOk sh = true
  · simp only [hr, Bool.not_true, Bool.false_eq_true, if_false] at hst
    have hfac : ∀ n, (n = 1 ∨ n = 2) →
        (match (regNewFactory sh w n (initSt sh w)).2 with
          | .error e => some ((regNewFactory sh w n (initSt sh w)).1,
              [(⟨(regNewFactory sh w n (initSt sh w)).1.log.reverse, .err e⟩ : Step)])
          | .ok fac => some ((iter (step (callFac sh w fac)) k (regNewFactory sh w n (initSt sh w)).1).1,
              ⟨(regNewFactory sh w n (initSt sh w)).1.log.reverse, .made⟩ ::
                (iter (step (callFac sh w fac)) k (regNewFactory sh w n (initSt sh w)).1).2)) = some (st, obs.steps) →
        SeenOk sh w p.seen := by
      intro n hn hst
      cases hc : (regNewFactory sh w n (initSt sh w)).2 with
      | error e =>
        simp only [hc, Option.some.injEq, Prod.mk.injEq] at hst
        rw [← hst.2] at hs
        simp only [List.mem_singleton] at hs
        subst hs
        simp at hres
      | ok fac =>
        simp only [hc, Option.some.injEq, Prod.mk.injEq] at hst
        rw [← hst.2] at hs
        simp only [List.mem_cons] at hs
        rcases hs with rfl | hs
        · simp at hres
        · exact config_factory sh w n k hn (initSt sh w) (initSt_log sh w) (initSt_shared sh w) fac hc s hs p hres
    cases form with
    | component =>
      simp only [Option.some.injEq, Prod.mk.injEq] at hst
      rw [← hst.2] at hs
      exact config_component sh w k s hs p hres
    | facNoErr => exact hfac 1 (.inl rfl) hst
    | facErr => exact hfac 2 (.inr rfl) hst
  · simp [hr] at hst

/-- the executable form of `C18_config` the driver evaluates (any list of fields) -/
theorem C18_config_spec (inp : Input) (obs : Obs) (fields : List Nat) (h : run inp = some obs) :
    configOk inp obs fields = true := by
  have := C18_config inp obs h
  simp only [configOk, List.all_eq_true]
  intro p hp
  obtain ⟨h1, h2⟩ := this p hp
  by_cases hc : inp.sh.cfg = .none
  · simp [hc, h1 hc]
  · simp only [hc, if_false, List.all_eq_true, Bool.or_eq_true, beq_iff_eq]
    intro f _
    by_cases hf : f = markField
    · exact .inl hf
    · exact .inr (h2 hc f hf)

/-- **errors**: a failing fillConf / constructor / registered-factory invocation ends the operation at once and
its error is the operation's result — the error result of `New`, of `NewFactory` and of a
`func() (Plugin, error)` factory; a panic carrying that very error exactly when the requested factory type is
`func() Plugin` and the failure happens in a factory call; an operation without a failing invocation succeeds;
a successful `NewFactory` is followed by exactly k results. -/
theorem C18_errors (inp : Input) (obs : Obs) (h : run inp = some obs) : errorsOk inp obs = true := by
  obtain ⟨sh, form, w, k⟩ := inp
  unfold run runSt at h
  by_cases hr : registerOk sh = true
  · simp only [hr, Bool.not_true, Bool.false_eq_true, if_false] at h
    have hfac : ∀ n, (n = 1 ∨ n = 2) → ∀ form, form ≠ .component → (form == Form.facNoErr) = (n == 1) →
        Option.map (fun r : St × List Step => (⟨r.2, viewsOf r.1.heap r.2⟩ : Obs))
          (match (regNewFactory sh w n (initSt sh w)).2 with
          | .error e => some ((regNewFactory sh w n (initSt sh w)).1,
              [(⟨(regNewFactory sh w n (initSt sh w)).1.log.reverse, .err e⟩ : Step)])
          | .ok fac => some ((iter (step (callFac sh w fac)) k (regNewFactory sh w n (initSt sh w)).1).1,
              ⟨(regNewFactory sh w n (initSt sh w)).1.log.reverse, .made⟩ ::
                (iter (step (callFac sh w fac)) k (regNewFactory sh w n (initSt sh w)).1).2)) = some obs →
        errorsOk ⟨sh, form, w, k⟩ obs = true := by
      intro n hn form hform hpan h
      have hf := errors_factory sh w n k hn (initSt sh w) (initSt_log sh w)
      cases hc : (regNewFactory sh w n (initSt sh w)).2 with
      | error e =>
        rw [hc] at hf
        simp only [hc, Option.map_some, Option.some.injEq] at h
        subst h
        cases form <;> simp_all [errorsOk, isMade, isErr]
      | ok fac =>
        rw [hc] at hf
        obtain ⟨h1, h2, h3⟩ := hf
        simp only [hc, Option.map_some, Option.some.injEq] at h
        subst h
        cases form
        · exact absurd rfl hform
        all_goals
          simp only [errorsOk, h1, isMade, h2, beq_self_eq_true, Bool.true_and, Bool.true_or, if_true,
            List.all_eq_true, Bool.and_eq_true, Bool.not_eq_true', hpan]
          intro s hs
          exact h3 s hs
    cases form with
    | component =>
      simp only [Option.map_some, Option.some.injEq] at h
      subst h
      obtain ⟨h1, h2⟩ := errors_component sh w k (initSt sh w)
      simp only [errorsOk, h1, beq_self_eq_true, Bool.true_and, List.all_eq_true, Bool.and_eq_true, Bool.not_eq_true']
      exact h2
    | facNoErr => exact hfac 1 (.inl rfl) .facNoErr (by simp) rfl h
    | facErr => exact hfac 2 (.inr rfl) .facErr (by simp) rfl h
  · simp [hr] at h

end Pandora.Props.C18
