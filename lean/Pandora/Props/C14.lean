/-
C14 — preload is behaviour-preserving; chosencases selects exactly the listed tags.

Theorems are about `Pandora.Model.C14` (the http provider's two paths as executable machines over a file of
tagged entries: streaming = Decoder.Scan → filter → send, preloaded = LoadAmmo → filter → cyclic replay; REPAIRED
behaviour of c2aa5a1, 8ec6c57 and b8504d9), for ALL five file shapes of the four formats × ANY file (the empty
file included) × limit × passes × ANY chosen-predicate (chosencases subsets matching everything, something or
nothing) and any cancellation point ≥ 1; no bound on sizes (induction over the loops, `Proofs/C14.lean`,
`Proofs/C08*.lean`).  The loops carry explicit fuel; that the run ENDS within the fuel the model supplies is part
of the theorems (`runWith … = some o`).
Tie: (1) regenerated — `Pandora.Bridge.C14` proves that the filter function, the place where each path applies it,
the loop bodies of runFullScan / runPreloaded, the sentinel mapping and the deferred close regenerated from the
current Go source on every check run (`Gen/ChosenCases.lean`) are what the model says
(`C14_model_is_source`, `C14_listed_is_source_filter`); (2) correspondence — harness/cmd/c14 (real providers via
NewProvider or the plugin registry, preload off/on on the same source) + `Pandora.Drv.C14`; `C14_spec_holds` links
the executable Spec that judges the real providers to the model.
-/
import Pandora.Proofs.C14Spec
import Pandora.Proofs.C14Hdr
import Pandora.Bridge.C14
import Pandora.Bridge.C14Mid
import Pandora.Proofs.C14Mid
import Pandora.Model.C14Fin

namespace Pandora.Props.C14
open Pandora.Model.C08 hiding fullScan httpRun runFuel run
open Pandora.Model.C14 Pandora.Proofs.C08 Pandora.Proofs.C14

variable {α : Type}

/-! ## statement-level definitions -/

/-- the first `t` entries of the list `F` repeated endlessly -/
def cyclicPrefix (F : List α) (t : Nat) : List α := ((List.replicate t F).flatten).take t

/-- the entries of an ammo file (`tags` = the tag of each entry, in file order) whose tag is listed -/
def listed (tags cases : List String) : List Entry := (mkFile tags).filter (fun e => decide (e.tag ∈ cases))

/-! ## the theorems -/

/-- **General form.**  Something is chosen (`f > 0`) and the run stops at count `T` (limit, passes·f or a
cancellation, whichever comes first): in BOTH modes the provider ends within the model's fuel, consumers have
acquired exactly the first `T` entries of the endlessly repeated list of chosen entries (file order), `Run`
returns nil (context.Canceled iff the cancellation is what stopped it) and the sink is closed. -/
theorem C14_run (k : Fmt) (preload : Bool) (file : List α) (chosen : α → Bool) (b : Bounds)
    (cancelAt : Option Nat) (T : Nat) (hf : 0 < (file.filter chosen).length)
    (hT : target b.limit b.passes (file.filter chosen).length cancelAt = some T) :
    runWith k preload file chosen b cancelAt
      = some ⟨cyclicPrefix (file.filter chosen) T, if cancelled cancelAt T then .canceled else .nil, true⟩ := by
  unfold runWith fuelOf
  rw [if_neg (by omega), hT]
  exact runFuel_spec k preload file chosen b cancelAt T hf (tgt_of_target _ _ _ _ _ hf hT)

/-- **Nothing chosen.**  If no entry of the file is chosen (chosencases matching nothing, or an empty file), both
modes deliver nothing and `Run` returns ErrNoAmmo ("no ammo in file") with the sink closed — whatever limit and
passes are. -/
theorem C14_nomatch (k : Fmt) (preload : Bool) (file : List α) (chosen : α → Bool) (b : Bounds)
    (cancelAt : Option Nat) (hf : (file.filter chosen).length = 0) (hc : cancelAt ≠ some 0) :
    runWith k preload file chosen b cancelAt = some ⟨[], .errNoAmmo, true⟩ := by
  unfold runWith fuelOf
  rw [if_pos hf]
  exact runFuel_nomatch k preload file chosen b cancelAt hf hc

/-- **preload is behaviour-preserving** (first sentence of the property): for every format, every file, every
limit, passes and chosen-predicate, and every cancellation point (`none`, or after `c ≥ 1` acquisitions), the
outcome — delivered sequence, what `Run` returns, sink closed — is identical with preload off and on.
(`cancelAt = some 0` is a context that is already cancelled when `Run` starts: not a configuration.) -/
theorem C14_equiv (k : Fmt) (file : List α) (chosen : α → Bool) (b : Bounds) (cancelAt : Option Nat)
    (hc : cancelAt ≠ some 0) :
    runWith k false file chosen b cancelAt = runWith k true file chosen b cancelAt := by
  by_cases hf : (file.filter chosen).length = 0
  · rw [C14_nomatch k false file chosen b cancelAt hf hc, C14_nomatch k true file chosen b cancelAt hf hc]
  · cases hT : target b.limit b.passes (file.filter chosen).length cancelAt with
    | none => simp [runWith, fuelOf, hf, hT]
    | some T =>
      rw [C14_run k false file chosen b cancelAt T (by omega) hT, C14_run k true file chosen b cancelAt T (by omega) hT]

/-- The same without the restriction on the cancellation point: it would also cover a context that is already
cancelled when `Run` is called (not a configuration of the property's quantifier; kept visible because it is FALSE). -/
def C14_equiv_precancelled_statement : Prop :=
  ∀ (k : Fmt) (file : List Nat) (chosen : Nat → Bool) (b : Bounds) (cancelAt : Option Nat),
    runWith k false file chosen b cancelAt = runWith k true file chosen b cancelAt

/-- `C14_equiv` is the part of it that holds. -/
theorem C14_equiv_precancelled_partial (k : Fmt) (file : List Nat) (chosen : Nat → Bool) (b : Bounds)
    (cancelAt : Option Nat) (hc : cancelAt ≠ some 0) :
    runWith k false file chosen b cancelAt = runWith k true file chosen b cancelAt := C14_equiv k file chosen b cancelAt hc

/-- http/json, one entry, nothing chosen, context cancelled before `Run`: the streaming path returns
context.Canceled at once, the preloaded path first loads the file (the http/json decoder never looks at the context)
and fails with "no ammo in file".  Nothing is delivered either way. -/
theorem C14_equiv_precancelled_counterexample : ¬ C14_equiv_precancelled_statement := by
  intro h
  have h1 : (runWith .jsonLines false [0] (fun _ => false) ⟨0, 0⟩ (some 0)).map (·.run) = some .canceled := by decide
  have h2 : (runWith .jsonLines true [0] (fun _ => false) ⟨0, 0⟩ (some 0)).map (·.run) = some .errNoAmmo := by decide
  rw [h .jsonLines [0] (fun _ => false) ⟨0, 0⟩ (some 0), h2] at h1
  simp at h1

/-- **A context cancelled before `Run`, decoders that look at the context** (uri, uripost, raw: `Scan` checks
`ctx.Err()` before every line): both modes deliver nothing and `Run` returns context.Canceled — streaming from the
first check of runFullScan, preload because `LoadAmmo` fails with that error before anything is loaded. -/
theorem C14_precancelled_lines (k : Fmt) (hk : scanChecksCtx k = true) (preload : Bool) (file : List α)
    (chosen : α → Bool) (b : Bounds) :
    runWith k preload file chosen b (some 0) = some ⟨[], .canceled, true⟩ := by
  have key : ∀ fuel, runFuel k preload file chosen b (some 0) (fuel + 1) = some ⟨[], .canceled, true⟩ := by
    intro fuel
    cases preload with
    | true => simp [runFuel, loadSeesCancel, hk, cancelled]
    | false =>
      cases k <;> simp [scanChecksCtx] at hk <;>
        simp [runFuel, loadSeesCancel, httpRun, fullScan, cancelled]
  obtain ⟨m, hm⟩ : ∃ m, fuelOf file.length (file.filter chosen).length b (some 0) = some (m + 1) := by
    unfold fuelOf
    split
    · exact ⟨file.length + 2, rfl⟩
    · cases hT : target b.limit b.passes (file.filter chosen).length (some 0) with
      | none => exact absurd hT (target_some_ne_none _ _ _ _)
      | some t => exact ⟨(t / (file.filter chosen).length + 1) * (file.length + 1) + 1, by simp [fuelFor]⟩
  unfold runWith
  rw [hm]
  exact key m

/-- so for these three formats the equivalence holds for EVERY cancellation point, the one before `Run` included
(the part of `C14_equiv_precancelled_statement` that is true beyond `C14_equiv`; for http/json it is false). -/
theorem C14_equiv_precancelled_lines (k : Fmt) (hk : scanChecksCtx k = true) (file : List α) (chosen : α → Bool)
    (b : Bounds) (cancelAt : Option Nat) :
    runWith k false file chosen b cancelAt = runWith k true file chosen b cancelAt := by
  by_cases hc : cancelAt = some 0
  · subst hc
    rw [C14_precancelled_lines k hk false, C14_precancelled_lines k hk true]
  · exact C14_equiv k file chosen b cancelAt hc

/-- … and the equality is never the vacuous `none = none` for a run that has a reason to end: with a limit, with
passes, with a cancellation, or with nothing chosen, both modes END (within the model's fuel). -/
theorem C14_equiv_ends (k : Fmt) (preload : Bool) (file : List α) (chosen : α → Bool) (b : Bounds)
    (cancelAt : Option Nat) (hc : cancelAt ≠ some 0)
    (h : b.limit ≠ 0 ∨ b.passes ≠ 0 ∨ cancelAt ≠ none ∨ (file.filter chosen).length = 0) :
    ∃ o, runWith k preload file chosen b cancelAt = some o := by
  by_cases hf : (file.filter chosen).length = 0
  · exact ⟨_, C14_nomatch k preload file chosen b cancelAt hf hc⟩
  · cases hT : target b.limit b.passes (file.filter chosen).length cancelAt with
    | none =>
      exfalso
      cases cancelAt with
      | some c => unfold target at hT; simp only at hT; split at hT <;> simp at hT
      | none =>
        have := (target_none_iff _ _ _).mp hT
        rcases h with h | h | h | h
        · exact h this.1
        · exact h this.2
        · exact h rfl
        · exact hf h
    | some T => exact ⟨_, C14_run k preload file chosen b cancelAt T (by omega) hT⟩

/-- **chosencases selects exactly the listed tags; limit counts delivered entries** (second sentence): with a
non-empty chosencases list of which at least one tag occurs in the file, and a limit and/or passes, both modes
deliver exactly the first `m` entries of the endlessly repeated list of the entries WHOSE TAG IS LISTED, in file
order, where `m = min⁺(limit, passes · f)` and `f` = number of such entries — so `limit` counts delivered
entries, not entries read — and end with nil and a closed sink. -/
theorem C14_chosen (k : Fmt) (preload : Bool) (tags cases : List String) (b : Bounds) (m : Nat)
    (hcases : cases ≠ []) (hf : 0 < (listed tags cases).length)
    (hm : Spec.C14.expected b.limit b.passes (listed tags cases).length = some m) :
    run k preload tags cases b none = some ⟨cyclicPrefix (listed tags cases) m, .nil, true⟩ := by
  unfold listed at *
  rw [← filter_isChosen_eq_mem cases hcases] at hf hm ⊢
  rw [expected_eq_target _ _ _ hf] at hm
  have := C14_run k preload (mkFile tags) (isChosen cases) b none m hf hm
  simpa [run, cancelled] using this

/-- without chosencases the same holds for the whole file -/
theorem C14_nofilter (k : Fmt) (preload : Bool) (tags : List String) (b : Bounds) (m : Nat)
    (hn : 0 < tags.length) (hm : Spec.C14.expected b.limit b.passes tags.length = some m) :
    run k preload tags [] b none = some ⟨cyclicPrefix (mkFile tags) m, .nil, true⟩ := by
  have hall : (mkFile tags).filter (isChosen []) = mkFile tags := filter_isChosen_nil _
  have hlen : (mkFile tags).length = tags.length := by simp [mkFile]
  have hf : 0 < ((mkFile tags).filter (isChosen [])).length := by rw [hall, hlen]; exact hn
  have hm' : target b.limit b.passes ((mkFile tags).filter (isChosen [])).length none = some m := by
    rw [← expected_eq_target _ _ _ hf, hall, hlen]; exact hm
  have := C14_run k preload (mkFile tags) (isChosen []) b none m hf hm'
  rw [hall] at this
  simpa [run, cancelled] using this

/-- **unbounded** (no limit, no passes): every finite prefix is the same — cancelled after `c ≥ 0` acquisitions,
both modes have delivered exactly the first `c` entries of the endlessly repeated chosen list. -/
theorem C14_unbounded_prefix (k : Fmt) (preload : Bool) (file : List α) (chosen : α → Bool) (c : Nat)
    (hf : 0 < (file.filter chosen).length) :
    runWith k preload file chosen ⟨0, 0⟩ (some c)
      = some ⟨cyclicPrefix (file.filter chosen) c, .canceled, true⟩ := by
  have := C14_run k preload file chosen ⟨0, 0⟩ (some c) c hf (by simp [target])
  simpa [cancelled] using this

/-- **cancelled in the middle** (of a pass, of the run): the context is cancelled when `c` ammo have been acquired
and `c` is below the number `m` of ammo the run would deliver by itself (any `c` for a run without limit and passes)
— both modes have delivered exactly the first `c` entries of the repeated list of the entries whose tag is listed,
`Run` returns context.Canceled in both modes and the sink is closed. -/
theorem C14_chosen_cancelled (k : Fmt) (preload : Bool) (tags cases : List String) (b : Bounds) (c : Nat)
    (hcases : cases ≠ []) (hf : 0 < (listed tags cases).length)
    (hcm : ∀ m, Spec.C14.expected b.limit b.passes (listed tags cases).length = some m → c < m) :
    run k preload tags cases b (some c) = some ⟨cyclicPrefix (listed tags cases) c, .canceled, true⟩ := by
  unfold listed at *
  rw [← filter_isChosen_eq_mem cases hcases] at hf hcm ⊢
  rw [expected_eq_target _ _ _ hf] at hcm
  have hT : target b.limit b.passes ((mkFile tags).filter (isChosen cases)).length (some c) = some c := by
    cases hE : target b.limit b.passes ((mkFile tags).filter (isChosen cases)).length none with
    | none =>
      obtain ⟨h1, h2⟩ := (target_none_iff _ _ _).mp hE
      simp [target, h1, h2]
    | some m =>
      have := hcm m hE
      rw [target_cancel _ _ _ m c hE, Nat.min_eq_left (by omega)]
  have := C14_run k preload (mkFile tags) (isChosen cases) b (some c) c hf hT
  simpa [run, cancelled] using this

/-- **whole passes**: with `passes = p ≥ 1` and no limit, both modes deliver the list of the entries whose tag is
listed, in file order, exactly `p` times — nothing else, nothing missing. -/
theorem C14_passes_complete (k : Fmt) (preload : Bool) (tags cases : List String) (p : Nat)
    (hcases : cases ≠ []) (hf : 0 < (listed tags cases).length) (hp : 0 < p) :
    run k preload tags cases ⟨0, p⟩ none = some ⟨(List.replicate p (listed tags cases)).flatten, .nil, true⟩ := by
  have hm : Spec.C14.expected 0 p (listed tags cases).length = some (p * (listed tags cases).length) := by
    unfold Spec.C14.expected
    cases p with
    | zero => omega
    | succ p => rfl
  rw [C14_chosen k preload tags cases ⟨0, p⟩ _ hcases hf hm]
  have : cyclicPrefix (listed tags cases) (p * (listed tags cases).length) = (List.replicate p (listed tags cases)).flatten := by
    have h := cycTake_full (listed tags cases) p hf
    unfold cycTake rep at h
    exact h
  rw [this]

/-- … so an entry of the file is delivered **iff its tag is listed** (as soon as one pass is complete). -/
theorem C14_exactly_listed (k : Fmt) (preload : Bool) (tags cases : List String) (p : Nat)
    (hcases : cases ≠ []) (hf : 0 < (listed tags cases).length) (hp : 0 < p) :
    ∃ o, run k preload tags cases ⟨0, p⟩ none = some o ∧
      ∀ e, e ∈ o.delivered ↔ (e ∈ mkFile tags ∧ e.tag ∈ cases) := by
  refine ⟨_, C14_passes_complete k preload tags cases p hcases hf hp, ?_⟩
  intro e
  simp only [List.mem_flatten, List.mem_replicate]
  constructor
  · rintro ⟨l, ⟨_, rfl⟩, he⟩
    simpa [listed] using he
  · intro he
    exact ⟨listed tags cases, ⟨by omega, rfl⟩, by simpa [listed] using he⟩

/-! ## the model is the source (regenerated definitions, `Pandora.Bridge.C14`) -/

/-- The chosen-case filter of the model is `confutil.IsChosenCase` as regenerated from the source, applied to the
entry's tag and the configured list; the preloaded path keeps exactly `filter chosen` of what `LoadAmmo` returned
(regenerated loop of `loadAmmo`), BEFORE the cyclic replay; the streaming path asks the filter about the ammo that
`Decoder.Scan` just returned and counts an ammo only when it is sent (regenerated loop body of `runFullScan`);
`Provider.Run` is built from these pieces, the sentinel mapping and the deferred close as regenerated; a failed
`LoadAmmo` ends `loadAmmo` (regenerated error branch) with an error — the decoder's error class while the context is
not cancelled, context.Canceled for a cancel that ended the load (`loadFail`) — never with nil or with the filter loop. -/
theorem C14_model_is_source :
    (∀ (cases : List String) (e : Entry), isChosen cases e = Gen.ChosenCases.isChosenCase e.tag cases) ∧
    (∀ (chosen : Entry → Bool) (ammos : List Entry), Gen.ChosenCases.loadAmmoKeep chosen ammos = ammos.filter chosen) ∧
    (∀ (preload : Bool) (l p f : RunRes), Gen.ChosenCases.httpRunBody preload l p f =
      if preload then (if l = .nil then (["loadAmmo", "runPreloaded"], mapSentinel p) else (["loadAmmo"], l))
      else (["runFullScan"], f)) ∧
    Gen.ChosenCases.passCounterImplemented = true ∧
    Gen.ChosenCases.httpRunCloses = true ∧ (∀ l, Gen.ChosenCases.decoderLimit l = 0) ∧
    Gen.ChosenCases.runPreloadedDone = Gen.ChosenCases.runFullScanDone ∧
    (∀ (c : Bool) (e : RunRes), e ≠ .nil →
      (Gen.ChosenCases.loadAmmoFail c e).isSome = true ∧ Gen.ChosenCases.loadAmmoFail c e ≠ some .nil ∧
      (c = false ∨ e = .canceled → Gen.ChosenCases.loadAmmoFail c e = some (loadFail c e))) :=
  ⟨Bridge.C14.isChosen_eq_source, Bridge.C14.loadAmmoKeep_eq, Bridge.C14.runBody_source, Bridge.C14.passCounter_source,
   rfl, fun _ => rfl, rfl,
   fun c e he => ⟨(Bridge.C14.loadFail_source.2.1 c e he).1, (Bridge.C14.loadFail_source.2.1 c e he).2, fun h => by
     rcases h with h | h
     · subst h; exact Bridge.C14.loadFail_source.2.2.1 e he
     · subst h; exact Bridge.C14.loadFail_source.2.2.2 c⟩⟩

/-- With a non-empty chosencases list, filtering a file with the REGENERATED `IsChosenCase` gives exactly the
entries whose tag is listed (the list the theorems above speak about); with an empty list, the whole file. -/
theorem C14_listed_is_source_filter (tags cases : List String) :
    (mkFile tags).filter (fun e => Gen.ChosenCases.isChosenCase e.tag cases)
      = if cases = [] then mkFile tags else listed tags cases := by
  have h : (fun e : Entry => Gen.ChosenCases.isChosenCase e.tag cases) = isChosen cases := by
    funext e; exact (Bridge.C14.isChosen_eq_source cases e).symm
  rw [h]
  by_cases hc : cases = []
  · subst hc; simp [filter_isChosen_nil]
  · rw [if_neg hc]; exact filter_isChosen_eq_mem cases hc _

/-- **Spec holds of Model.run** for every cell shape the harness generates (cap ≥ 1; cap different from the number
of ammo a bounded cell delivers — greater: never reached; smaller: the run is cancelled in the middle): the
executable Spec that judges the two real providers accepts the pair of observations the model predicts — for every
format, file (also the empty one and the one NewProvider rejects), chosencases list, limit and passes. -/
theorem C14_spec_holds (k : Fmt) (tags cases : List String) (limit passes cap : Nat) (hasFile closeFails : Bool)
    (hcap : 0 < cap) (hne : Spec.C14.inconclusive ⟨tags, cases, limit, passes, cap⟩ = false) :
    Spec.C14.holds ⟨tags, cases, limit, passes, cap⟩
      (Drv.C14.modelObsOf k tags cases ⟨limit, passes⟩ cap hasFile closeFails) = true := by
  have hcne : (if cap = 0 then none else some cap) = some cap := by rw [if_neg (by omega)]
  have hc0 : some cap ≠ some 0 := by simp; omega
  -- both sides of the model's observation are the same Side
  have hsame : Drv.C14.modelSideOf k true tags cases ⟨limit, passes⟩ cap hasFile closeFails
      = Drv.C14.modelSideOf k false tags cases ⟨limit, passes⟩ cap hasFile closeFails := by
    unfold Drv.C14.modelSideOf
    split
    · rw [hcne]; unfold run; rw [C14_equiv k (mkFile tags) (isChosen cases) ⟨limit, passes⟩ (some cap) hc0]
    · rfl
  have hids := chosenIds_eq tags cases limit passes cap
  have hidlen : (Spec.C14.chosenIds ⟨tags, cases, limit, passes, cap⟩).length
      = ((mkFile tags).filter (isChosen cases)).length := by rw [hids, List.length_map]
  unfold Spec.C14.holds Drv.C14.modelObsOf
  rw [hsame]
  by_cases hno : Spec.C14.noMatch ⟨tags, cases, limit, passes, cap⟩ = true
  · -- nothing chosen: nothing delivered
    rw [if_pos hno]
    have hf : ((mkFile tags).filter (isChosen cases)).length = 0 := by
      unfold Spec.C14.noMatch at hno; rw [hidlen] at hno; simpa using hno
    have hseq : (Drv.C14.modelSideOf k false tags cases ⟨limit, passes⟩ cap hasFile closeFails).seq = [] := by
      unfold Drv.C14.modelSideOf
      split
      · rw [hcne]; unfold run
        rw [C14_nomatch k false (mkFile tags) (isChosen cases) ⟨limit, passes⟩ (some cap) hf hc0]
        rfl
      · rfl
    simp [hseq, Spec.C14.equivOk, Spec.C14.seqEquivOk, Spec.C14.endEquivOk]
  · rw [if_neg hno]
    have hf : 0 < ((mkFile tags).filter (isChosen cases)).length := by
      unfold Spec.C14.noMatch at hno; rw [hidlen] at hno
      have : ((mkFile tags).filter (isChosen cases)).length ≠ 0 := by simpa using hno
      omega
    have hn : 0 < tags.length := by
      have h1 : ((mkFile tags).filter (isChosen cases)).length ≤ (mkFile tags).length := List.length_filter_le _ _
      have h2 : (mkFile tags).length = tags.length := by simp [mkFile]
      omega
    have hcon : constructs k tags.length = true := by
      unfold constructs
      cases tags with
      | nil => simp at hn
      | cons t ts => simp
    have hside : Drv.C14.modelSideOf k false tags cases ⟨limit, passes⟩ cap hasFile closeFails
        = Drv.C14.sideOf cap hasFile closeFails (run k false tags cases ⟨limit, passes⟩ (some cap)) := by
      unfold Drv.C14.modelSideOf; rw [if_pos hcon, hcne]
    have hcount : Spec.C14.expectedCount ⟨tags, cases, limit, passes, cap⟩
        = Spec.C14.expected limit passes ((mkFile tags).filter (isChosen cases)).length := by
      unfold Spec.C14.expectedCount; rw [hidlen]
    -- the count T at which the model's run stops, and what the Spec expects of it
    have hT : ∃ T, target limit passes ((mkFile tags).filter (isChosen cases)).length (some cap) = some T ∧
        Spec.C14.expectedLen ⟨tags, cases, limit, passes, cap⟩ = T ∧
        Spec.C14.cutExpected ⟨tags, cases, limit, passes, cap⟩ = decide (cap ≤ T) := by
      unfold Spec.C14.expectedLen Spec.C14.cutExpected
      cases hE : Spec.C14.expected limit passes ((mkFile tags).filter (isChosen cases)).length with
      | none =>
        have h00 : limit = 0 ∧ passes = 0 := by
          rw [expected_eq_target _ _ _ hf] at hE; exact (target_none_iff _ _ _).mp hE
        obtain ⟨rfl, rfl⟩ := h00
        exact ⟨cap, by simp [target], by simp [hcount, hE], by simp [hcount, hE]⟩
      | some m =>
        have hmc : m ≠ cap := by
          intro h
          have : Spec.C14.inconclusive ⟨tags, cases, limit, passes, cap⟩ = true := by
            unfold Spec.C14.inconclusive; rw [hcount, hE, h]; simp
          rw [this] at hne; exact Bool.noConfusion hne
        have htc := target_cancel limit passes _ m cap (by rw [← expected_eq_target _ _ _ hf]; exact hE)
        by_cases hlt : cap < m
        · refine ⟨cap, by rw [htc, Nat.min_eq_left (by omega)], by simp [hcount, hE, hlt], by simp [hcount, hE, hlt]⟩
        · have hgt : m < cap := by omega
          have hnle : ¬ cap ≤ m := by omega
          refine ⟨m, by rw [htc, Nat.min_eq_right (by omega)], by simp [hcount, hE, hlt], by simp [hcount, hE, hlt, hnle]⟩
    obtain ⟨T, hTt, hTlen, hTcut⟩ := hT
    have hchosen : Spec.C14.chosenOk ⟨tags, cases, limit, passes, cap⟩
        ⟨Drv.C14.modelSideOf k false tags cases ⟨limit, passes⟩ cap hasFile closeFails,
         Drv.C14.modelSideOf k false tags cases ⟨limit, passes⟩ cap hasFile closeFails, true⟩ = true := by
      rw [hside]
      unfold Spec.C14.chosenOk Spec.C14.expectedSeq
      unfold run
      rw [C14_run k false (mkFile tags) (isChosen cases) ⟨limit, passes⟩ (some cap) T hf hTt]
      have hl : (cyclicPrefix ((mkFile tags).filter (isChosen cases)) T).length = T := length_cycTake _ _ hf
      simp only [hTlen, hTcut, hids, Drv.C14.sideOf, hl]
      have hm := map_cycTake (fun e : Entry => e.id) ((mkFile tags).filter (isChosen cases)) T
      unfold cycTake rep at hm
      unfold cyclicPrefix
      simp [hm, hcap]
    simp [hchosen, Spec.C14.equivOk, Spec.C14.seqEquivOk, Spec.C14.endEquivOk, Spec.C14.tagsOk]

/-! ## the earlier revisions of the code do NOT have the property -/

/-- C14's equivalence for /repo before 8ec6c57 and c2aa5a1 (`Model.C14.Orig`): whenever both modes end, they
deliver the same and end the same way. -/
def C14_equiv_orig_statement : Prop :=
  ∀ (k : Fmt) (file : List Nat) (chosen : Nat → Bool) (b : Bounds) (fuel : Nat) (o₁ o₂ : Outcome Nat),
    Orig.runFuel k false file chosen b none fuel = some o₁ → Orig.runFuel k true file chosen b none fuel = some o₂ →
    o₁.delivered = o₂.delivered ∧ o₁.run = o₂.run

/-- `/a t1, /b t2, /c t3`, limit 2, chosencases [t2, t3]: streaming delivers `[/b]` (the decoder's limit counts the
filtered-out /a), preload delivers `[/b, /c]` and ends with the error "ammo limit faced". -/
theorem C14_equiv_orig_counterexample : ¬ C14_equiv_orig_statement := by
  intro h
  have h1 : Orig.runFuel .uri false [0, 1, 2] (fun i => decide (1 ≤ i)) ⟨2, 0⟩ none 10 = some ⟨[1], .nil, true⟩ := by decide
  have h2 : Orig.runFuel .uri true [0, 1, 2] (fun i => decide (1 ≤ i)) ⟨2, 0⟩ none 10 = some ⟨[1, 2], .errLimit, true⟩ := by decide
  have := (h .uri [0, 1, 2] (fun i => decide (1 ≤ i)) ⟨2, 0⟩ 10 _ _ h1 h2).1
  simp at this

/-- the same for /repo a3063a3 (with 8ec6c57 and c2aa5a1, before b8504d9; `Model.C14.Head`) -/
def C14_equiv_head_statement : Prop :=
  ∀ (k : Fmt) (file : List Nat) (chosen : Nat → Bool) (b : Bounds) (fuel : Nat) (o₁ o₂ : Outcome Nat),
    Head.runFuel k false file chosen b none fuel = some o₁ → Head.runFuel k true file chosen b none fuel = some o₂ →
    o₁.delivered = o₂.delivered ∧ o₁.run = o₂.run

/-- three entries, nothing chosen, passes 1: streaming ends with nil, preload with "no ammo in file". -/
theorem C14_equiv_head_counterexample : ¬ C14_equiv_head_statement := by
  intro h
  have h1 : Head.runFuel .uri false [0, 1, 2] (fun _ => false) ⟨0, 1⟩ none 10 = some ⟨[], .nil, true⟩ := by decide
  have h2 : Head.runFuel .uri true [0, 1, 2] (fun _ => false) ⟨0, 1⟩ none 10 = some ⟨[], .errNoAmmo, true⟩ := by decide
  have := (h .uri [0, 1, 2] (fun _ => false) ⟨0, 1⟩ 10 _ _ h1 h2).2
  simp at this

/-- … and with passes = 0 the streaming path of that revision NEVER ends on a non-empty file from which nothing
is chosen (for every format, limit and fuel: it rescans the file for ever), while the preloaded path ends with
ErrNoAmmo. -/
theorem C14_head_stream_never_ends (k : Fmt) (file : List α) (chosen : α → Bool) (limit : Nat)
    (cancelAt : Option Nat) (hn : 0 < file.length) (hf : (file.filter chosen).length = 0) (hc : cancelAt ≠ some 0)
    (fuel : Nat) : Head.runFuel k false file chosen ⟨limit, 0⟩ cancelAt fuel = none :=
  head_runFuel_never_ends k file chosen limit cancelAt hn (List.eq_nil_of_length_eq_zero hf) hc fuel


/-! ## round 2: the delivered REQUESTS — headers of the source and of the `headers` option -/

section Headers
open Pandora.Model.C14H Pandora.Proofs.C14H

/-- **preload is behaviour-preserving, headers included**: over a source that declares headers (uri / uripost:
`[K: v]` lines anywhere between the entries; http/json, raw: per entry) and any `headers` option, the outcome with
preload off and on is identical as a sequence of WHOLE decoded ammo (position, tag, the header map the request is
built from), for every format, chosencases list, limit, passes and cancellation point. -/
theorem C14_headers_equiv (k : Fmt) (s : Source) (cases : List String) (b : Bounds) (cancelAt : Option Nat)
    (hc : cancelAt ≠ some 0) :
    runH k false s cases b cancelAt = runH k true s cases b cancelAt :=
  C14_equiv k (decode k s) (isChosenH cases) b cancelAt hc

/-- … and every delivered ammo IS an entry of the source with the headers declared for it: it is `entryOf` of its
position and tag (so its header map is `hdrLines` / `hdrJson` / the option + own lines of that position — on every
pass, in both modes), and with chosencases set its tag is listed. -/
theorem C14_headers_delivered (k : Fmt) (preload : Bool) (s : Source) (cases : List String) (b : Bounds)
    (cancelAt : Option Nat) (hc : cancelAt ≠ some 0) (o : Outcome EntryH)
    (h : runH k preload s cases b cancelAt = some o) :
    ∀ e ∈ o.delivered, ∃ i t, s.tags[i]? = some t ∧ e = entryOf k s i t ∧ (cases ≠ [] → t ∈ cases) := by
  intro e he
  have key : e ∈ (decode k s).filter (isChosenH cases) := by
    unfold runH at h
    by_cases hf : ((decode k s).filter (isChosenH cases)).length = 0
    · rw [C14_nomatch k preload _ _ b cancelAt hf hc] at h
      cases h; simp at he
    · cases hT : target b.limit b.passes ((decode k s).filter (isChosenH cases)).length cancelAt with
      | none => simp [runWith, fuelOf, hf, hT] at h
      | some T =>
        rw [C14_run k preload _ _ b cancelAt T (by omega) hT] at h
        cases h
        exact mem_cycTake _ T e he
  obtain ⟨hmem, hch⟩ := List.mem_filter.mp key
  obtain ⟨i, t, ht, rfl⟩ := mem_decode k s e hmem
  refine ⟨i, t, ht, rfl, ?_⟩
  intro hcs
  have : isChosen cases ⟨i, t⟩ = true := by
    have h2 : (entryOf k s i t).entry = ⟨i, t⟩ := by cases k <;> rfl
    simpa [isChosenH, h2] using hch
  exact (isChosen_iff_mem cases hcs ⟨i, t⟩).mp this

/-- … hence the Host / headers text the harness reads off a delivered ammo is the one the Spec expects for its entry
(`Drv.C14.ehdrOf`, what `Spec.C14.hdOk` compares the real providers with). -/
theorem C14_headers_text (k : Fmt) (preload : Bool) (s : Source) (cases : List String) (b : Bounds)
    (cancelAt : Option Nat) (hc : cancelAt ≠ some 0) (o : Outcome EntryH)
    (h : runH k preload s cases b cancelAt = some o) :
    ∀ e ∈ o.delivered, (Drv.C14.ehdrOf k s)[e.id]? = some (render (reqOf k e)) := by
  intro e he
  obtain ⟨i, t, ht, rfl, _⟩ := C14_headers_delivered k preload s cases b cancelAt hc o h e he
  have hi : i < s.tags.length := by
    cases hlt : decide (i < s.tags.length) with
    | true => exact of_decide_eq_true hlt
    | false =>
      have : s.tags[i]? = none := List.getElem?_eq_none (by simpa using hlt)
      rw [this] at ht; cases ht
  have hid : (entryOf k s i t).id = i := by cases k <;> rfl
  rw [hid]
  unfold Drv.C14.ehdrOf
  rw [List.getElem?_map, List.getElem?_range hi]
  simp [reqText, ht]

/-- **the uri / uripost decoder with its header accumulator refines the abstract decoder**: `Provider.Run` over
`scanLines` (header lines Set on the accumulator, an entry gets a clone completed from the `headers` option, the
accumulator is replaced by an empty map when Scan wraps to the next pass) has exactly the outcome of `Provider.Run`
over the abstract stream decoder on the list of decoded entries — in both modes, for every source, filter, bound
and cancellation point. -/
theorem C14_lines_refine (s : Source) (preload : Bool) (chosen : EntryH → Bool) (b : Bounds)
    (cancelAt : Option Nat) (hc : cancelAt ≠ some 0) :
    runLines s preload chosen b cancelAt = runWith .uri preload (decodeLines s) chosen b cancelAt := by
  by_cases hf : ((decodeLines s).filter chosen).length = 0
  · rw [C14_nomatch .uri preload _ chosen b cancelAt hf hc]
    unfold runLines fuelOf
    rw [if_pos hf]
    exact runLinesFuel_nomatch s preload chosen b cancelAt hf hc
  · cases hT : target b.limit b.passes ((decodeLines s).filter chosen).length cancelAt with
    | none => simp [runLines, runWith, fuelOf, hf, hT]
    | some T =>
      rw [C14_run .uri preload _ chosen b cancelAt T (by omega) hT]
      unfold runLines fuelOf
      rw [if_neg hf, hT]
      exact runLinesFuel_spec s preload chosen b cancelAt T (by omega) (tgt_of_target _ _ _ _ _ (by omega) hT)

/-- so with the accumulator modelled, preload on and off still deliver the same whole ammo and end the same way -/
theorem C14_lines_equiv (s : Source) (chosen : EntryH → Bool) (b : Bounds) (cancelAt : Option Nat)
    (hc : cancelAt ≠ some 0) :
    runLines s false chosen b cancelAt = runLines s true chosen b cancelAt := by
  rw [C14_lines_refine s false chosen b cancelAt hc, C14_lines_refine s true chosen b cancelAt hc]
  exact C14_equiv .uri _ chosen b cancelAt hc

/-- **what `Scan` hands to `a.Setup` is the decoded entry's header map, in every pass**: from the decoder state after
`q` complete passes and `r` entries of the current pass, the next `Scan` returns entry `r` (resp. entry `0` after
wrapping) and the header map it built is the one of `decodeLines` at that position — nothing of an earlier pass or of
a later line is in it. -/
theorem C14_lines_handout (s : Source) (passes : Nat) (hn : 0 < s.n) (q r : Nat) (d : LDec) (hR : RLine s q r d) :
    (r < s.n → (passes = 0 ∨ q < passes) →
      ∃ d', scanLines s ⟨0, passes⟩ d = (.ammo r, d') ∧ RLine s q (r + 1) d' ∧
        ((decodeLines s)[r]?).map (·.hdr) = some d'.last) ∧
    (r = s.n → (passes = 0 ∨ q + 1 < passes) →
      ∃ d', scanLines s ⟨0, passes⟩ d = (.ammo 0, d') ∧ RLine s (q + 1) 1 d' ∧
        ((decodeLines s)[0]?).map (·.hdr) = some d'.last) :=
  lines_handout s passes hn q r d hR

/-- The decoder WITHOUT the clone (`readLine` handing its accumulator itself to the ammo when there is no `headers`
option): a preloaded provider — every entry decoded before the first is delivered — would deliver what the real one
delivers. -/
def C14_alias_statement : Prop :=
  ∀ s : Source, s.ch = [] → Alias.decodePreloaded s = decodeLines s

/-- true only for sources whose header lines all stand before the first entry … -/
theorem C14_alias_partial (s : Source) (hch : s.ch = []) (htop : ∀ i, 1 ≤ i → s.block i = []) :
    Alias.decodePreloaded s = decodeLines s := by
  unfold Alias.decodePreloaded decodeLines decode
  congr 1
  funext i t
  have h1 : accAt s (s.n + 1) = accAt s 1 := accAt_top_only s htop _ (by omega)
  have h2 : accAt s (i + 1) = accAt s 1 := accAt_top_only s htop _ (by omega)
  simp [entryOf, hdrLines, hch, mergeMissing_nil, h1, h2]

/-- … and false in general: `/e0 a`, `[X-A: 1]`, `/e1 b` — without the clone the preloaded `/e0` carries `X-A`,
which the source declares only for `/e1`. -/
theorem C14_alias_counterexample : ¬ C14_alias_statement := by
  intro h
  have := h ⟨["a", "b"], [[], [("X-A", "1")], []], []⟩ rfl
  have h2 := congrArg (fun l => l.map (fun e : EntryH => e.hdr.length)) this
  revert h2
  decide

/-- **the header model is the source** (regenerated area "c14hdr", `Bridge/C14.lean`): every decoder hands every ammo
a header map of its own (a clone defined once on the path to `Setup` — uri, uripost, http/json stream and array, raw);
the map an entry of a uri / uripost source gets, the header-line branch, what `Scan` does with the accumulator when it
wraps, the http/json map and one iteration of `EnrichRequestWithHeaders` are the model's definitions. -/
theorem C14_headers_model_is_source :
    (Gen.C14Hdr.uriEntryHeaderFresh = true ∧ Gen.C14Hdr.uripostEntryHeaderFresh = true ∧
      Gen.C14Hdr.jsonScanFresh = true ∧ Gen.C14Hdr.jsonArrayFresh = true ∧ Gen.C14Hdr.rawCommonFresh = true) ∧
    (∀ acc cfg, Gen.C14Hdr.uriEntryHeader acc cfg = mergeMissing acc cfg ∧
      Gen.C14Hdr.uripostEntryHeader acc cfg = mergeMissing acc cfg) ∧
    (∀ (acc : HMap) (kv : String × String), Gen.C14Hdr.uriHeaderLine acc kv.1 kv.2 = acc.setH kv ∧
      Gen.C14Hdr.uripostHeaderLine acc kv.1 kv.2 = acc.setH kv) ∧
    (Gen.C14Hdr.uriWrapAcc = some [] ∧ Gen.C14Hdr.uripostWrapAcc = some []) ∧
    (∀ s i, hdrJson s i = Gen.C14Hdr.jsonEntryHeader (cfgMap s.ch) (s.block i)) ∧
    (∀ k e, reqOf k e = e.hdr.foldl Gen.C14Hdr.enrichStep ((match k with | .uri | .uripost => "" | _ => entryHost), e.own)) :=
  ⟨Bridge.C14.hdr_fresh_source, Bridge.C14.hdr_entry_source, Bridge.C14.hdr_line_source, Bridge.C14.hdr_wrap_source,
   Bridge.C14.hdr_json_source, Bridge.C14.hdr_enrich_source⟩

/-- **the decoders' pass / limit / end-of-ammo logic is the source**: the limit check that opens every `Scan`, the
block that ends a pass in uri.go, uripost.go, raw.go (count the pass, ErrPassLimit, ErrNoAmmo, seek) and the top check
and end-of-file block of the http/json stream decoder, regenerated statement by statement (area "c14hdr"), are one
round of `Model.C08.scanStream` — the decoder machines that every theorem above is about — and of `scanLines`. -/
theorem C14_scan_model_is_source :
    (∀ style b n d, scanStream style b n d =
      if Gen.C14Hdr.uriScanLimit b.limit d.ammoNum then (.errLimit, d) else scanLoop style b.passes n 2 d) ∧
    (∀ passes n fuel (d : Dec), scanLoop .eofCheck passes n (fuel + 1) d =
      if d.pos < n then (.ammo d.pos, { d with pos := d.pos + 1, ammoNum := d.ammoNum + 1 })
      else match Gen.C14Hdr.uriEof passes d.ammoNum d.passNum with
        | .ret r pn => (r, { d with passNum := pn })
        | .again pn => scanLoop .eofCheck passes n fuel { d with passNum := pn, pos := 0 }) ∧
    (∀ passes n fuel (d : Dec), scanLoop .topCheck passes n (fuel + 1) d =
      if Gen.C14Hdr.jsonTopCheck passes d.passNum then (.errPass, d)
      else if d.pos < n then (.ammo d.pos, { d with pos := d.pos + 1, ammoNum := d.ammoNum + 1 })
      else match Gen.C14Hdr.jsonEof passes d.ammoNum d.passNum with
        | .ret r pn => (r, { d with passNum := pn })
        | .again pn => scanLoop .topCheck passes n fuel { d with pos := 0, passNum := pn }) ∧
    (Gen.C14Hdr.uripostEof = Gen.C14Hdr.uriEof ∧ Gen.C14Hdr.rawEof = Gen.C14Hdr.uriEof ∧
      Gen.C14Hdr.uripostScanLimit = Gen.C14Hdr.uriScanLimit ∧ Gen.C14Hdr.rawScanLimit = Gen.C14Hdr.uriScanLimit ∧
      Gen.C14Hdr.jsonScanLimit = Gen.C14Hdr.uriScanLimit) :=
  ⟨Bridge.C14.scanStream_limit_source, Bridge.C14.scanLoop_eof_source, Bridge.C14.scanLoop_top_source, Bridge.C14.eof_same⟩

/-- the model's two sides of a cell are the same `Side` -/
theorem C14_model_sides_agree (k : Fmt) (tags cases : List String) (b : Bounds) (cap : Nat) (hasFile closeFails : Bool)
    (hcap : 0 < cap) :
    Drv.C14.modelSideOf k true tags cases b cap hasFile closeFails
      = Drv.C14.modelSideOf k false tags cases b cap hasFile closeFails := by
  have hcne : (if cap = 0 then none else some cap) = some cap := by rw [if_neg (by omega)]
  have hc0 : some cap ≠ some 0 := by simp; omega
  unfold Drv.C14.modelSideOf
  split
  · rw [hcne]; unfold run; rw [C14_equiv k (mkFile tags) (isChosen cases) b (some cap) hc0]
  · rfl

/-- **Spec holds of the model, requests included**: for every cell shape (as in `C14_spec_holds`) over every source
with header declarations, the executable Spec that judges the two real providers — now also: no side kills its
process, every delivered request has the method and body of its entry, both sides carry the same Host / headers per
entry, and these are the ones the source declares — accepts the observation the model predicts. -/
theorem C14_spec_holds_hdr (k : Fmt) (src : Source) (cases : List String) (limit passes cap : Nat)
    (hasFile closeFails : Bool) (hcap : 0 < cap)
    (hne : Spec.C14.inconclusive ⟨src.tags, cases, limit, passes, cap⟩ = false) :
    Spec.C14.holdsH ⟨src.tags, cases, limit, passes, cap⟩ (Drv.C14.ehdrOf k src)
      (Drv.C14.modelObsHOf k src cases ⟨limit, passes⟩ cap hasFile closeFails) = true := by
  have hb := C14_spec_holds k src.tags cases limit passes cap hasFile closeFails hcap hne
  have hs := C14_model_sides_agree k src.tags cases ⟨limit, passes⟩ cap hasFile closeFails hcap
  have hf1 := modelSideOf_not_fatal k false src.tags cases ⟨limit, passes⟩ cap hasFile closeFails
  unfold Drv.C14.modelObsOf at hb
  rw [hs] at hb
  unfold Spec.C14.holdsH Drv.C14.modelObsHOf
  simp only [Spec.C14.fatalOk, Spec.C14.hdEquivOk, Spec.C14.hdOk, Drv.C14.modelObsOf, hs]
  simp [hb, hf1]

end Headers

/-! ## round 3: how `Run` ENDS — the deferred function (sink, source, ONE error) -/

section Epilogue

/-- **preload is behaviour-preserving, the end of `Run` included**: for every format, file, filter, bound and
cancellation point, whether or not `p.Close` is set and whether or not closing the ammo source FAILS, the whole run —
the delivered sequence, the sink closed, how often the source was closed, and the ONE error `Run` returns (as errors.Is
sees it: the provider's own class and/or the error of `Close`) — is identical with preload off and on. -/
theorem C14_equiv_final (k : Fmt) (file : List α) (chosen : α → Bool) (b : Bounds) (cancelAt : Option Nat)
    (hasClose closeFails : Bool) (hc : cancelAt ≠ some 0) :
    runFinal k false file chosen b cancelAt hasClose closeFails = runFinal k true file chosen b cancelAt hasClose closeFails := by
  unfold runFinal
  rw [C14_equiv k file chosen b cancelAt hc]

/-- … and what that run is, explicitly (something chosen, the run stops at count `T`): the first `T` entries of the
repeated chosen list, then the epilogue applied to nil (resp. context.Canceled iff the cancellation stopped it). -/
theorem C14_final_run (k : Fmt) (preload : Bool) (file : List α) (chosen : α → Bool) (b : Bounds)
    (cancelAt : Option Nat) (T : Nat) (hasClose closeFails : Bool) (hf : 0 < (file.filter chosen).length)
    (hT : target b.limit b.passes (file.filter chosen).length cancelAt = some T) :
    runFinal k preload file chosen b cancelAt hasClose closeFails
      = some ⟨cyclicPrefix (file.filter chosen) T,
              epilogue hasClose closeFails (EV.ofRun (if cancelled cancelAt T then .canceled else .nil))⟩ := by
  unfold runFinal
  rw [C14_run k preload file chosen b cancelAt T hf hT]
  rfl

/-- nothing chosen: nothing delivered, the epilogue applied to "no ammo in file" — in both modes -/
theorem C14_final_nomatch (k : Fmt) (preload : Bool) (file : List α) (chosen : α → Bool) (b : Bounds)
    (cancelAt : Option Nat) (hasClose closeFails : Bool) (hf : (file.filter chosen).length = 0) (hc : cancelAt ≠ some 0) :
    runFinal k preload file chosen b cancelAt hasClose closeFails
      = some ⟨[], epilogue hasClose closeFails (EV.ofRun .errNoAmmo)⟩ := by
  unfold runFinal
  rw [C14_nomatch k preload file chosen b cancelAt hf hc]
  rfl

/-- **the source is closed exactly once, the sink is closed** — by every run that returns, in both modes, whatever
the path ended with and whether or not closing fails (never twice: not early by the preloaded path and again at the
end; never not at all). -/
theorem C14_close_once (k : Fmt) (preload : Bool) (file : List α) (chosen : α → Bool) (b : Bounds)
    (cancelAt : Option Nat) (hasClose closeFails : Bool) (o : Final α)
    (h : runFinal k preload file chosen b cancelAt hasClose closeFails = some o) :
    o.fin.closeCalls = (if hasClose then 1 else 0) ∧ o.fin.sinkClosed = true := by
  unfold runFinal at h
  cases hr : runWith k preload file chosen b cancelAt with
  | none => rw [hr] at h; cases h
  | some o' =>
    rw [hr] at h
    cases h
    cases hasClose <;> cases closeFails <;> cases hre : o'.run <;>
      simp [finish, epilogue, hre, EV.ofRun, EV.isNil, EV.ofClose, EV.join]

/-- **a failing `Close` is never swallowed and never changes what was delivered**: with `p.Close` set and closing
failing, `Run` returns a non-nil error in both modes; if the path itself ended with nil (a bounded run that was not
cancelled) that error IS the error of `Close`; if the path ended with an error of its own (cancelled, "no ammo") the two
are made into one error in which errors.Is finds neither (xerrors.Errorf with two `%w`).  When closing succeeds the
epilogue returns the path's result untouched. -/
theorem C14_close_fault (k : Fmt) (preload : Bool) (file : List α) (chosen : α → Bool) (b : Bounds)
    (cancelAt : Option Nat) (closeFails : Bool) (o : Outcome α)
    (h : runWith k preload file chosen b cancelAt = some o) :
    ∃ f, runFinal k preload file chosen b cancelAt true closeFails = some f ∧ f.delivered = o.delivered ∧
      (closeFails = false → f.fin.err = EV.ofRun o.run) ∧
      (closeFails = true → f.fin.err.isNil = false ∧
        (o.run = .nil → f.fin.err = EV.ofClose true) ∧
        (o.run ≠ .nil → f.fin.err = ⟨.errOther, false⟩)) := by
  refine ⟨finish true closeFails o, by simp [runFinal, h], rfl, ?_, ?_⟩
  · intro hcf; subst hcf; simp [finish, epilogue]
  · intro hcf; subst hcf
    cases hre : o.run <;> simp [finish, epilogue, hre, EV.ofRun, EV.isNil, EV.ofClose, EV.join]

/-- **the epilogue is the source**: the deferred function of `Run` regenerated statement by statement (area
"chosencases", gen/area_chosencases_fin.go) is `Model.C14.epilogue`; the `Close` field is called nowhere else in package
provider, the `defer` stands before every `return` of Run, and NewProvider fills the field. -/
theorem C14_epilogue_is_source :
    (∀ hasClose closeFails e, Gen.ChosenCases.httpRunDefer hasClose closeFails e = epilogue hasClose closeFails e) ∧
    Gen.ChosenCases.closeCallsElsewhere = 0 ∧ Gen.ChosenCases.deferBeforeReturns = true ∧
    Gen.ChosenCases.newProviderSetsClose = true :=
  ⟨Bridge.C14.epilogue_source, Bridge.C14.close_sites_source.1, Bridge.C14.close_sites_source.2.1,
   Bridge.C14.close_sites_source.2.2⟩

/-- **NewProvider's source switch is the source, and does not look at `preload`**: which configurations are accepted as
an ammo source — inline `uris` only with the uri decoder and without a file, else a named file — is `sourceAccepted`,
read off the regenerated guards of uriReadSeekCloser / fileReadSeekCloser (in which the translator accepts nothing but
the decoder type and the file name: a guard on `conf.Preload` makes gen fail); so a source is rejected or accepted alike
with preload off and on, and a rejected one runs nothing in either mode. -/
theorem C14_source_switch_is_source (k : Fmt) (nUris : Nat) (hasFile : Bool) :
    sourceAccepted k nUris hasFile =
      !(if Gen.ChosenCases.sourceOf nUris = "uriReadSeekCloser" then Gen.ChosenCases.urisRejected (k == .uri) hasFile
        else Gen.ChosenCases.fileRejected hasFile) ∧
    (sourceAccepted k nUris hasFile = true ↔ (nUris > 0 ∧ k = .uri ∧ hasFile = false) ∨ (nUris = 0 ∧ hasFile = true)) := by
  refine ⟨Bridge.C14.source_guards_source k nUris hasFile, ?_⟩
  unfold sourceAccepted
  by_cases h : nUris > 0
  · simp only [h, if_true]
    cases k <;> cases hasFile <;> simp <;> omega
  · have h0 : nUris = 0 := by omega
    simp [h0]

/-- The variant in which the sentinel mapping of the preloaded path (ErrAmmoLimit / ErrPassLimit ↦ nil) is done at the
END of the deferred function, after Run's result and the error of Close were made into one: "both paths end the same
way whatever ended them". -/
def C14_equiv_latemap_statement : Prop :=
  ∀ (hasClose closeFails : Bool) (endedBy : RunRes),
    Late.epilogue hasClose closeFails (Late.pathResult false endedBy)
      = Late.epilogue hasClose closeFails (Late.pathResult true endedBy)

/-- true as long as closing the source succeeds (that is why no test without a failing Close notices) … -/
theorem C14_equiv_latemap_partial (hasClose : Bool) (endedBy : RunRes) :
    Late.epilogue hasClose false (Late.pathResult false endedBy)
      = Late.epilogue hasClose false (Late.pathResult true endedBy) := by
  cases hasClose <;> cases endedBy <;> decide

/-- … and false when it fails: a preloaded run that ends at its pass limit hands "passes limit faced" to the deferred
function, which combines it with the error of Close into an error in which the sentinel is no longer found — `Run`
returns that, while the streaming run (whose path already returned nil) returns the error of Close. -/
theorem C14_equiv_latemap_counterexample : ¬ C14_equiv_latemap_statement := by
  intro h
  have := h true true .errPasses
  revert this
  decide

end Epilogue

/-! ## non-vacuity: concrete cells, evaluated by the kernel -/

-- the documented witness, repaired behaviour: limit 2 counts DELIVERED entries, both modes deliver [/b, /c]
example : (runWith .uri false [0, 1, 2] (fun i => decide (1 ≤ i)) ⟨2, 0⟩ none).map (fun o => (o.delivered, o.run, o.sinkClosed))
    = some ([1, 2], .nil, true) := by decide
example : (runWith .uri true [0, 1, 2] (fun i => decide (1 ≤ i)) ⟨2, 0⟩ none).map (fun o => (o.delivered, o.run, o.sinkClosed))
    = some ([1, 2], .nil, true) := by decide
-- the same through tags and a chosencases list: `/a t1, /b t2, /c t3`, limit 2, chosencases [t2, t3]
example : (run .uri false ["t1", "t2", "t3"] ["t2", "t3"] ⟨2, 0⟩ none).map (fun o => (o.delivered.map (·.id), o.run))
    = some ([1, 2], .nil) := by decide
example : (run .uri true ["t1", "t2", "t3"] ["t2", "t3"] ⟨2, 0⟩ none).map (fun o => (o.delivered.map (·.id), o.run))
    = some ([1, 2], .nil) := by decide
example : (listed ["t1", "t2", "t3"] ["t2", "t3"]).map (·.id) = [1, 2] ∧
    Spec.C14.expected 2 0 (listed ["t1", "t2", "t3"] ["t2", "t3"]).length = some 2 := by decide
-- passes count passes over the file, limit cuts inside the third pass of the chosen entries
example : (runWith .jsonArray false [0, 1, 2, 3] (fun i => decide (i % 2 = 1)) ⟨5, 3⟩ none).map (·.delivered)
    = some [1, 3, 1, 3, 1] := by decide
example : (runWith .jsonLines true [0, 1, 2, 3] (fun i => decide (i % 2 = 1)) ⟨0, 2⟩ none).map (·.delivered)
    = some [1, 3, 1, 3] := by decide
-- nothing chosen, passes = 0: both modes end with ErrNoAmmo
example : (runWith .raw false [0, 1, 2] (fun _ => false) ⟨2, 0⟩ none).map (fun o => (o.delivered, o.run, o.sinkClosed))
    = some ([], .errNoAmmo, true) := by decide
example : (runWith .raw true [0, 1, 2] (fun _ => false) ⟨2, 0⟩ none).map (fun o => (o.delivered, o.run, o.sinkClosed))
    = some ([], .errNoAmmo, true) := by decide
-- unbounded, cancelled after 5 acquisitions
example : (runWith .uripost false [0, 1, 2] (fun i => decide (i ≠ 1)) ⟨0, 0⟩ (some 5)).map (fun o => (o.delivered, o.run))
    = some ([0, 2, 0, 2, 0], .canceled) := by decide
-- cancelled in the middle of the second pass: limit 5, chosen [t2,t3], cancelled after 3 acquisitions
example : (run .jsonLines false ["t1", "t2", "t3"] ["t2", "t3"] ⟨5, 0⟩ (some 3)).map (fun o => (o.delivered.map (·.id), o.run, o.sinkClosed))
    = some ([1, 2, 1], .canceled, true) := by decide
example : (run .jsonLines true ["t1", "t2", "t3"] ["t2", "t3"] ⟨5, 0⟩ (some 3)).map (fun o => (o.delivered.map (·.id), o.run, o.sinkClosed))
    = some ([1, 2, 1], .canceled, true) := by decide
-- hypotheses of C14_chosen_cancelled / C14_passes_complete / C14_exactly_listed
example : ["t2", "t3"] ≠ [] ∧ 0 < (listed ["t1", "t2", "t3"] ["t2", "t3"]).length ∧
    (∀ m, Spec.C14.expected 5 0 (listed ["t1", "t2", "t3"] ["t2", "t3"]).length = some m → 3 < m) := by
  refine ⟨by decide, by decide, ?_⟩
  intro m h
  have : Spec.C14.expected 5 0 (listed ["t1", "t2", "t3"] ["t2", "t3"]).length = some 5 := by decide
  rw [this] at h; cases h; decide
example : (run .raw true ["t1", "t2", "t3"] ["t2", "t3"] ⟨0, 2⟩ none).map (fun o => o.delivered.map (·.id)) = some [1, 2, 1, 2] := by decide
-- the regenerated IsChosenCase on concrete tags: whole-tag, case-sensitive comparison; untagged entries
example : Gen.ChosenCases.isChosenCase "ab" ["a", "b"] = false ∧ Gen.ChosenCases.isChosenCase "B" ["b"] = false ∧
    Gen.ChosenCases.isChosenCase "" ["a"] = false ∧ Gen.ChosenCases.isChosenCase "" [""] = true ∧
    Gen.ChosenCases.isChosenCase "x" [] = true ∧ Gen.ChosenCases.isChosenCase "b" ["a", "b"] = true := by decide
-- the regenerated error branch of loadAmmo on concrete errors (C14_model_is_source, hypothesis `e ≠ .nil`): a cancel that
-- ended the load ↦ context.Canceled, "no ammo" with a live context ↦ "no ammo", no error ↦ on to the filter loop; an
-- empty http/json array with preload ends with the decoder's "no ammo" through this branch (`LoadAmmo` fails)
example : RunRes.errNoAmmo ≠ RunRes.nil ∧ Gen.ChosenCases.loadAmmoFail true .canceled = some .canceled ∧
    Gen.ChosenCases.loadAmmoFail false .errNoAmmo = some .errNoAmmo ∧ Gen.ChosenCases.loadAmmoFail false .nil = none ∧
    (match loadAmmo (fun b => scanArr b 0) ([] : List Nat) 3 ArrDec.init [] with
     | some (.error e) => decide (e = .errNoAmmo) | _ => false) = true ∧
    (runWith .jsonArray true ([] : List Nat) (fun _ => true) ⟨0, 0⟩ none).map (fun o => (o.delivered, o.run)) = some ([], .errNoAmmo) := by decide
-- C14_spec_holds: a cell cancelled in the middle (cap 3 < 5) and one that is not (cap 9 > 5) are not inconclusive
example : Spec.C14.inconclusive ⟨["t1", "t2", "t3"], ["t2", "t3"], 5, 0, 3⟩ = false ∧
    Spec.C14.inconclusive ⟨["t1", "t2", "t3"], ["t2", "t3"], 5, 0, 9⟩ = false ∧
    Spec.C14.inconclusive ⟨["t1", "t2", "t3"], ["t2", "t3"], 5, 0, 5⟩ = true := by decide
-- hypotheses of C14_chosen / C14_spec_holds are satisfiable
example : Spec.C14.expected 2 1 3 = some 2 ∧ target 2 1 3 none = some 2 := by decide
example : cyclicPrefix [1, 2] 5 = [1, 2, 1, 2, 1] := by decide

-- C14_precancelled_lines: raw, nothing chosen, preload; its hypothesis; http/json differs (the counterexample above)
example : (runWith .raw true [0, 1] (fun _ => false) ⟨0, 0⟩ (some 0)).map (fun o => (o.delivered, o.run)) = some ([], .canceled) ∧
    scanChecksCtx .raw = true ∧ scanChecksCtx .jsonArray = false := by decide
-- round 2: a uri source `[X-A: 1]`, `/e0 a`, `[x-a: 2]`, `/e1 b`, `[X-B: z]` with `headers: [X-C: c]`, two passes:
-- the header redeclared between the entries reaches only /e1, the trailing one nobody, on both passes, in both modes
example : (Model.C14H.runH .uri true ⟨["a", "b"], [[("X-A", "1")], [("x-a", "2")], [("X-B", "z")]], [("X-C", "c")]⟩ [] ⟨0, 2⟩ none).map
      (fun o => o.delivered.map (fun e => (e.id, e.hdr)))
    = some [(0, [("X-A", ["1"]), ("X-C", ["c"])]), (1, [("X-A", ["2"]), ("X-C", ["c"])]),
            (0, [("X-A", ["1"]), ("X-C", ["c"])]), (1, [("X-A", ["2"]), ("X-C", ["c"])])] := by decide
-- the same source through the decoder WITH its accumulator (`scanLines`), streaming, limit 3 (cut inside pass 2)
example : (Model.C14H.runLines ⟨["a", "b"], [[("X-A", "1")], [("x-a", "2")], [("X-B", "z")]], [("X-C", "c")]⟩ false
      (fun _ => true) ⟨3, 0⟩ none).map (fun o => o.delivered.map (fun e => (e.id, e.hdr)))
    = some [(0, [("X-A", ["1"]), ("X-C", ["c"])]), (1, [("X-A", ["2"]), ("X-C", ["c"])]),
            (0, [("X-A", ["1"]), ("X-C", ["c"])])] := by decide
-- what the harness reads off the requests: Host from the source beats Host from the option; http/json ignores both
example : Drv.C14.ehdrOf .uripost ⟨["a", "b"], [[("Host", "f.example")], [("x-a", "2")], []], [("Host", "cfg.example"), ("X-C", "c1"), ("x-c", "c2")]⟩
      = ["f.example^X-C=c1+c2", "f.example^X-A=2&X-C=c1+c2"] ∧
    Drv.C14.ehdrOf .jsonArray ⟨["a", "b"], [[("X-A", "1")], [], []], [("Host", "cfg.example"), ("x-a", "c")]⟩
      = ["h.example^X-A=1", "h.example^X-A=c"] ∧
    Drv.C14.ehdrOf .raw ⟨["a", "b"], [[("X-A", "1")], [], []], [("Host", "cfg.example"), ("x-a", "c")]⟩
      = ["h.example^X-A=1", "h.example^X-A=c"] := by decide
-- hypotheses of C14_lines_handout (initial state) and of C14_alias_partial (header lines only on top)
example : Proofs.C14H.RLine ⟨["a", "b"], [[("X-A", "1")], [], []], []⟩ 0 0 Model.C14H.LDec.init ∧
    0 < (⟨["a", "b"], [[("X-A", "1")], [], []], []⟩ : Model.C14H.Source).n :=
  ⟨Proofs.C14H.RLine_init _, by decide⟩
example : ∀ i, 1 ≤ i → (⟨["a", "b"], [[("X-A", "1")]], []⟩ : Model.C14H.Source).block i = [] := by
  intro i hi
  match i, hi with
  | i + 1, _ => simp [Model.C14H.Source.block]
-- the Spec's request part is not vacuous: a side whose /e0 carries the header declared for /e1 is rejected
example : Spec.C14.renderHd ["^", "^X-A=1"] [0, 1, 0, 1] = "0:^|1:^X-A=1" ∧ Spec.C14.renderHd ["^", "^"] [1, 0] = "*:^" ∧
    Spec.C14.renderHd ["^"] [] = "-" := by decide

-- round 3: the epilogue on concrete runs.  `/e0 a, /e1 b, /e2 a`, chosencases [a], passes 2, closing the file fails:
-- both modes deliver [0,2,0,2], close the source once, and return the error of Close
example : (runFinal .uri false (mkFile ["a", "b", "a"]) (isChosen ["a"]) ⟨0, 2⟩ none true true).map
      (fun f => (f.delivered.map (·.id), f.fin.closeCalls, f.fin.sinkClosed, f.fin.err.token)) = some ([0, 2, 0, 2], 1, true, "closeerr") ∧
    (runFinal .uri true (mkFile ["a", "b", "a"]) (isChosen ["a"]) ⟨0, 2⟩ none true true).map
      (fun f => (f.delivered.map (·.id), f.fin.closeCalls, f.fin.sinkClosed, f.fin.err.token)) = some ([0, 2, 0, 2], 1, true, "closeerr") := by decide
-- the same cancelled after 3 acquisitions: context.Canceled and the close error become ONE error in which neither is found
example : (runFinal .jsonArray true (mkFile ["a", "b", "a"]) (isChosen ["a"]) ⟨0, 2⟩ (some 3) true true).map
      (fun f => (f.delivered.map (·.id), f.fin.closeCalls, f.fin.err.token)) = some ([0, 2, 0], 1, "other") ∧
    (runFinal .jsonArray true (mkFile ["a", "b", "a"]) (isChosen ["a"]) ⟨0, 2⟩ (some 3) true false).map
      (fun f => (f.delivered.map (·.id), f.fin.closeCalls, f.fin.err.token)) = some ([0, 2, 0], 1, "canceled") := by decide
-- hypotheses of C14_final_run / C14_close_fault are satisfiable; the regenerated deferred function on concrete values
example : target 0 2 ((mkFile ["a", "b", "a"]).filter (isChosen ["a"])).length none = some 4 ∧
    (runWith .raw false (mkFile ["a", "b", "a"]) (isChosen ["zz"]) ⟨0, 2⟩ none).map (·.run) = some .errNoAmmo ∧
    Gen.ChosenCases.httpRunDefer true true (EV.ofRun .nil) = ⟨true, 1, ⟨.errOther, true⟩⟩ ∧
    Gen.ChosenCases.httpRunDefer true true (EV.ofRun .errNoAmmo) = ⟨true, 1, ⟨.errOther, false⟩⟩ ∧
    Gen.ChosenCases.httpRunDefer true false (EV.ofRun .canceled) = ⟨true, 1, ⟨.canceled, false⟩⟩ ∧
    Gen.ChosenCases.httpRunDefer false true (EV.ofRun .nil) = ⟨true, 0, ⟨.nil, false⟩⟩ := by decide
-- the source switch on concrete configurations: uris with the raw decoder, a file and uris, no source, uris alone, a file alone
example : sourceAccepted .raw 2 false = false ∧ sourceAccepted .uri 2 true = false ∧ sourceAccepted .uri 0 false = false ∧
    sourceAccepted .uri 2 false = true ∧ sourceAccepted .jsonArray 0 true = true := by decide
-- what the harness prints for these errors; errors.Join instead of the two `%w` would keep both parts findable
example : (EV.ofClose true).token = "closeerr" ∧ (EV.join (EV.ofRun .canceled) (EV.ofClose true) true true).token = "canceled+closeerr" ∧
    (EV.join (EV.ofRun .canceled) (EV.ofClose true) false false).token = "other" ∧ (EV.ofRun .nil).token = "nil" := by decide

/-! ## round 4: the definitions regenerated by symbolic execution, on concrete values -/

/-- round 4 non-vacuity: the body of `Run` as regenerated by symbolic execution, on concrete results of the path methods -/
example : Gen.ChosenCases.httpRunBody true .nil .errPasses .nil = (["loadAmmo", "runPreloaded"], .nil) ∧
    Gen.ChosenCases.httpRunBody true .nil .canceled .nil = (["loadAmmo", "runPreloaded"], .canceled) ∧
    Gen.ChosenCases.httpRunBody true .errNoAmmo .nil .nil = (["loadAmmo"], .errNoAmmo) ∧
    Gen.ChosenCases.httpRunBody false .nil .nil .canceled = (["runFullScan"], .canceled) := by decide

/-- round 4 non-vacuity: the regenerated filter loop of loadAmmo and the regenerated IsChosenCase on an unsorted list
(only observable values: the way the source scans the list may change) -/
example : Gen.ChosenCases.loadAmmoKeep (fun n : Nat => n % 2 == 0) [1, 2, 3, 4] = [2, 4] ∧
    Gen.ChosenCases.isChosenCase "a" ["b", "a"] = true ∧ Gen.ChosenCases.isChosenCase "a" ["ab", "b"] = false ∧
    Gen.ChosenCases.passCounterImplemented = true := by decide

/-- round 4 non-vacuity: one iteration of each regenerated loop on concrete states — the limit is reached; nothing
delivered after a complete pass; a chosen ammo is offered and counted; a filtered-out ammo is not counted; the replay
offers entry `k % length` -/
example :
    (match Gen.ChosenCases.runFullScanStep 2 false 2 0 (.ammo 0) true with | .ret .nil => true | _ => false) = true ∧
    (match Gen.ChosenCases.runFullScanStep 0 false 0 1 (.ammo 0) true with | .ret .errNoAmmo => true | _ => false) = true ∧
    (match Gen.ChosenCases.runFullScanStep 5 false 1 0 (.ammo 3) true with | .offer 3 2 => true | _ => false) = true ∧
    (match Gen.ChosenCases.runFullScanStep 5 false 1 0 (.ammo 3) false with | .tau 1 => true | _ => false) = true ∧
    (match Gen.ChosenCases.runPreloadedStep 0 0 3 false 7 0 with | .offer 1 (8, _) => true | _ => false) = true ∧
    (match Gen.ChosenCases.runPreloadedStep 2 0 3 false 6 0 with | .ret .errPasses => true | _ => false) = true := by decide

/-! ## round 6: a cancellation that lands while the decoder is inside `Scan` (Model/C14Mid.lean)

`plan.j` = the Scan call of the run during which the context is cancelled (any), `plan.notices` / `plan.sendWins` = how
the two races it opens are decided (any).  The decoders' way of handing on a cancelled context (`Bridge.C14.ctxRetOf`)
and loadAmmo's normalisation are the REGENERATED ones. -/

/-- **However the cancellation lands, both modes end in a way core/engine recognises.**  For every format, file,
chosen-predicate, limit, passes, every Scan call in which the cancel lands and every outcome of the races: a run that
ends, ends with an error that is nil, a sentinel class, or the context's OWN error (errutil.IsCtxError holds — a stopped
run, not a failed provider) — with preload off and on alike; the preloaded provider has delivered nothing. -/
theorem C14_midscan_recognised (k : Fmt) (preload : Bool) (file : List α) (chosen : α → Bool) (b : Bounds)
    (plan : MidPlan) (fuel : Nat) (o : List α) (e : MidEnd)
    (h : runMid k preload file chosen b (Bridge.C14.ctxRetOf k) true plan fuel = some (o, e)) :
    e.recognised = true ∧ (preload = true → o = []) := by
  rw [Bridge.C14.scan_ctx_source.2 k] at h
  cases preload
  · refine ⟨?_, by simp⟩
    cases k <;> exact fullScanMid_recognised _ _ _ _ _ _ _ _ _ _ _ _ _ _ h
  · have := by
      cases k <;> exact preloadMid_recognised _ _ _ _ _ _ _ _ _ _ h
    exact ⟨this.2, fun _ => this.1⟩

/-- **Wherever the cancel lands, only listed entries are delivered.**  Every ammo the streaming provider has delivered
when it ends is an entry of the file that the filter chooses (the preloaded one has delivered nothing:
`C14_midscan_recognised`) — for every Scan call in which the cancel lands and every outcome of the races. -/
theorem C14_midscan_only_chosen (k : Fmt) (file : List α) (chosen : α → Bool) (b : Bounds) (ret : CtxRet) (norm : Bool)
    (plan : MidPlan) (fuel : Nat) (o : List α) (e : MidEnd)
    (h : runMid k false file chosen b ret norm plan fuel = some (o, e)) :
    ∀ a ∈ o, a ∈ file ∧ chosen a = true := by
  have key : ∃ more, o = [] ++ more ∧ ∀ a ∈ more, a ∈ file ∧ chosen a = true := by
    cases k <;> exact fullScanMid_only_chosen _ _ _ _ _ _ _ _ _ _ _ _ _ _ _ h
  obtain ⟨more, rfl, hm⟩ := key
  simpa using hm

/-- **The cancel lands in the first read of the file** (what the harness drives, `rc=1`): something is chosen; the
streaming provider delivers nothing or — the first entry being chosen and the send winning the race — that entry,
the preloaded provider nothing; BOTH end with the context's own error. -/
theorem C14_midscan_first (k : Fmt) (a : α) (rest : List α) (chosen : α → Bool) (b : Bounds) (notices sendWins : Bool)
    (fuel : Nat) (hfuel : rest.length + 2 ≤ fuel) (hf : 0 < ((a :: rest).filter chosen).length) :
    ∃ os, runMid k false (a :: rest) chosen b (Bridge.C14.ctxRetOf k) true ⟨0, notices, sendWins⟩ (fuel + 1)
            = some (os, ⟨.canceled, true⟩) ∧
          runMid k true (a :: rest) chosen b (Bridge.C14.ctxRetOf k) true ⟨0, notices, sendWins⟩ (fuel + 1)
            = some ([], ⟨.canceled, true⟩) ∧
          (os = [] ∨ (os = [a] ∧ chosen a = true)) := by
  rw [Bridge.C14.scan_ctx_source.2 k, runMid_stream_first]
  have hp : runMid k true (a :: rest) chosen b .bare true ⟨0, notices, sendWins⟩ (fuel + 1) = some ([], ⟨.canceled, true⟩) := by
    cases hk : scanChecksCtx k
    · rw [runMid_preload_first_json k hk a rest chosen b .bare true notices sendWins fuel hfuel]
      have : ¬ ((a :: rest).filter chosen).length = 0 := by omega
      simp only [this, if_false]
    · rw [runMid_preload_first_checks k hk]; rfl
  by_cases h1 : (scanChecksCtx k && notices) = true
  · exact ⟨[], by simp [h1, scanCtxEnd], hp, Or.inl rfl⟩
  · by_cases h2 : (chosen a && sendWins) = true
    · refine ⟨[a], by simp [h1, h2, ownCtxEnd], hp, Or.inr ⟨rfl, ?_⟩⟩
      simp at h2; exact h2.1
    · exact ⟨[], by simp [h1, h2, ownCtxEnd], hp, Or.inl rfl⟩

/-- the same claim for a decoder that hands the cancelled context on WRAPPED with `%w` (seeded change C14-r5-1) -/
def C14_midscan_wrapped_statement : Prop :=
  ∀ (k : Fmt) (a : Nat) (rest : List Nat) (chosen : Nat → Bool) (b : Bounds) (notices sendWins : Bool),
    0 < ((a :: rest).filter chosen).length →
    (runMid k false (a :: rest) chosen b .wrapped true ⟨0, notices, sendWins⟩ (rest.length + 3)).map (·.2) =
    (runMid k true (a :: rest) chosen b .wrapped true ⟨0, notices, sendWins⟩ (rest.length + 3)).map (·.2)

/-- … is false: a uripost file that starts with a header line (the Scan call goes round its loop once more and notices
the cancel): streaming ends with an error the engine does not recognise, preload with the context's own -/
theorem C14_midscan_wrapped_counterexample : ¬ C14_midscan_wrapped_statement := by
  intro h
  have := h .uripost 0 [] (fun _ => true) ⟨0, 0⟩ true false (by decide)
  revert this; decide

/-- what is true of the wrapped variant: as long as the Scan call does not go round its loop again both modes still
end alike -/
theorem C14_midscan_wrapped_partial (k : Fmt) (a : Nat) (rest : List Nat) (chosen : Nat → Bool) (b : Bounds) (sendWins : Bool)
    (hf : 0 < ((a :: rest).filter chosen).length) :
    (runMid k false (a :: rest) chosen b .wrapped true ⟨0, false, sendWins⟩ (rest.length + 3)).map (·.2) =
    (runMid k true (a :: rest) chosen b .wrapped true ⟨0, false, sendWins⟩ (rest.length + 3)).map (·.2) := by
  rw [runMid_stream_first]
  have hp : runMid k true (a :: rest) chosen b .wrapped true ⟨0, false, sendWins⟩ (rest.length + 2 + 1) = some ([], ⟨.canceled, true⟩) := by
    cases hk : scanChecksCtx k
    · rw [runMid_preload_first_json k hk a rest chosen b .wrapped true false sendWins _ (Nat.le_refl _)]
      have : ¬ ((a :: rest).filter chosen).length = 0 := by omega
      simp only [this, if_false]
    · rw [runMid_preload_first_checks k hk]; rfl
  rw [hp]
  by_cases h2 : (chosen a && sendWins) = true <;> simp [h2, ownCtxEnd]

/-- the regenerated facts the three theorems above rest on -/
theorem C14_midscan_is_source :
    ((Gen.C14Hdr.uriScanChecksCtx = scanChecksCtx .uri ∧ Gen.C14Hdr.uripostScanChecksCtx = scanChecksCtx .uripost ∧
      Gen.C14Hdr.rawScanChecksCtx = scanChecksCtx .raw ∧ Gen.C14Hdr.jsonScanChecksCtx = scanChecksCtx .jsonLines ∧
      Gen.C14Hdr.jsonScanChecksCtx = scanChecksCtx .jsonArray) ∧
     (∀ k, Bridge.C14.ctxRetOf k = .bare)) ∧
    ((∀ eb, Gen.ChosenCases.loadAmmoFailBare true .canceled eb = some true) ∧
     (∀ c e eb, Gen.ChosenCases.loadAmmoFailBare c e eb = none ↔ Gen.ChosenCases.loadAmmoFail c e = none)) ∧
    (ownCtxEnd = ⟨Gen.ChosenCases.runFullScanDone, Gen.ChosenCases.runFullScanCtxBare⟩ ∧
     ownCtxEnd = ⟨Gen.ChosenCases.runPreloadedDone, Gen.ChosenCases.runPreloadedCtxBare⟩) :=
  ⟨Bridge.C14.scan_ctx_source, Bridge.C14.loadFail_bare_source, Bridge.C14.own_ctx_source⟩

/-- **Where the two modes can part.**  In the current source the config field `Preload` is read by exactly two
functions: `Provider.Run` (which path — everything `C14_equiv` … `C14_midscan_first` are about) and `Provider.Release`
(a preloaded ammo is not handed back to the decoder's pool).  NewProvider, the decoders' constructors and Scan
functions, Acquire, loadAmmo, runFullScan and runPreloaded never ask: a new reader re-opens this obligation. -/
theorem C14_preload_read_only_by_run_and_release :
    Gen.ChosenCases.preloadReadSites = ["provider.Provider.Release", "provider.Provider.Run"] ∧
    (∀ preload, Gen.ChosenCases.releaseToPool preload = !preload) :=
  ⟨Bridge.C14.preload_sites_source, fun p => by rw [Bridge.C14.release_source]; rfl⟩

-- non-vacuity: a run of three entries, two chosen, cancel inside the SECOND Scan call, noticed there
example : runMid .uripost false [1, 2, 3] (fun x => x != 2) ⟨0, 2⟩ (Bridge.C14.ctxRetOf .uripost) true ⟨1, true, false⟩ 9
    = some ([1], ⟨.canceled, true⟩) := by decide
example : runMid .uripost true [1, 2, 3] (fun x => x != 2) ⟨0, 2⟩ (Bridge.C14.ctxRetOf .uripost) true ⟨1, true, false⟩ 9
    = some ([], ⟨.canceled, true⟩) := by decide
-- the hypotheses of C14_midscan_first, and its two streaming outcomes
example : (2 : Nat) + 2 ≤ 4 ∧ 0 < (([1, 2, 3] : List Nat).filter (fun x => x != 2)).length := by decide
example : runMid .jsonArray false [1, 2, 3] (fun x => x != 2) ⟨0, 0⟩ .bare true ⟨0, false, true⟩ 5 = some ([1], ⟨.canceled, true⟩) ∧
    runMid .jsonArray false [1, 2, 3] (fun x => x != 2) ⟨0, 0⟩ .bare true ⟨0, false, false⟩ 5 = some ([], ⟨.canceled, true⟩) ∧
    runMid .jsonArray true [1, 2, 3] (fun x => x != 2) ⟨0, 0⟩ .bare true ⟨0, false, true⟩ 5 = some ([], ⟨.canceled, true⟩) := by decide

end Pandora.Props.C14
