/-
C14 — preload is behaviour-preserving; chosencases selects exactly the listed tags.

Theorems are about `Pandora.Model.C14` (the http provider's two paths as executable machines over a file of
tagged entries: streaming = Decoder.Scan → filter → send, preloaded = LoadAmmo → filter → cyclic replay; REPAIRED
behaviour of c2aa5a1, 8ec6c57 and b8504d9), for ALL five file shapes of the four formats × ANY file (the empty
file included) × limit × passes × ANY chosen-predicate (chosencases subsets matching everything, something or
nothing) and any cancellation point ≥ 1; no bound on sizes (induction over the loops, `Proofs/C14.lean`,
`Proofs/C08*.lean`).  The loops carry explicit fuel; that the run ENDS within the fuel the model supplies is part
of the theorems (`runWith … = some o`).
Tie: (1) regenerated — `Pandora.Bridge.C14` proves that the filter function, the place where each path applies it,
the loop bodies of runFullScan / runPreloaded, the sentinel mapping and the deferred close regenerated from the
current Go source on every check run (`Gen/ChosenCases.lean`) are what the model says
(`C14_model_is_source`, `C14_listed_is_source_filter`); (2) correspondence — harness/cmd/c14 (real providers via
NewProvider or the plugin registry, preload off/on on the same source) + `Pandora.Drv.C14`; `C14_spec_holds` links
the executable Spec that judges the real providers to the model.
-/
import Pandora.Proofs.C14Spec
import Pandora.Bridge.C14

namespace Pandora.Props.C14
open Pandora.Model.C08 hiding fullScan httpRun runFuel run
open Pandora.Model.C14 Pandora.Proofs.C08 Pandora.Proofs.C14

variable {α : Type}

/-! ## statement-level definitions -/

/-- the first `t` entries of the list `F` repeated endlessly -/
def cyclicPrefix (F : List α) (t : Nat) : List α := ((List.replicate t F).flatten).take t

/-- the entries of an ammo file (`tags` = the tag of each entry, in file order) whose tag is listed -/
def listed (tags cases : List String) : List Entry := (mkFile tags).filter (fun e => decide (e.tag ∈ cases))

/-! ## the theorems -/

/-- **General form.**  Something is chosen (`f > 0`) and the run stops at count `T` (limit, passes·f or a
cancellation, whichever comes first): in BOTH modes the provider ends within the model's fuel, consumers have
acquired exactly the first `T` entries of the endlessly repeated list of chosen entries (file order), `Run`
returns nil (context.Canceled iff the cancellation is what stopped it) and the sink is closed. -/
theorem C14_run (k : Fmt) (preload : Bool) (file : List α) (chosen : α → Bool) (b : Bounds)
    (cancelAt : Option Nat) (T : Nat) (hf : 0 < (file.filter chosen).length)
    (hT : target b.limit b.passes (file.filter chosen).length cancelAt = some T) :
    runWith k preload file chosen b cancelAt
      = some ⟨cyclicPrefix (file.filter chosen) T, if cancelled cancelAt T then .canceled else .nil, true⟩ := by
  unfold runWith fuelOf
  rw [if_neg (by omega), hT]
  exact runFuel_spec k preload file chosen b cancelAt T hf (tgt_of_target _ _ _ _ _ hf hT)

/-- **Nothing chosen.**  If no entry of the file is chosen (chosencases matching nothing, or an empty file), both
modes deliver nothing and `Run` returns ErrNoAmmo ("no ammo in file") with the sink closed — whatever limit and
passes are. -/
theorem C14_nomatch (k : Fmt) (preload : Bool) (file : List α) (chosen : α → Bool) (b : Bounds)
    (cancelAt : Option Nat) (hf : (file.filter chosen).length = 0) (hc : cancelAt ≠ some 0) :
    runWith k preload file chosen b cancelAt = some ⟨[], .errNoAmmo, true⟩ := by
  unfold runWith fuelOf
  rw [if_pos hf]
  exact runFuel_nomatch k preload file chosen b cancelAt hf hc

/-- **preload is behaviour-preserving** (first sentence of the property): for every format, every file, every
limit, passes and chosen-predicate, and every cancellation point (`none`, or after `c ≥ 1` acquisitions), the
outcome — delivered sequence, what `Run` returns, sink closed — is identical with preload off and on.
(`cancelAt = some 0` is a context that is already cancelled when `Run` starts: not a configuration.) -/
theorem C14_equiv (k : Fmt) (file : List α) (chosen : α → Bool) (b : Bounds) (cancelAt : Option Nat)
    (hc : cancelAt ≠ some 0) :
    runWith k false file chosen b cancelAt = runWith k true file chosen b cancelAt := by
  by_cases hf : (file.filter chosen).length = 0
  · rw [C14_nomatch k false file chosen b cancelAt hf hc, C14_nomatch k true file chosen b cancelAt hf hc]
  · cases hT : target b.limit b.passes (file.filter chosen).length cancelAt with
    | none => simp [runWith, fuelOf, hf, hT]
    | some T =>
      rw [C14_run k false file chosen b cancelAt T (by omega) hT, C14_run k true file chosen b cancelAt T (by omega) hT]

/-- The same without the restriction on the cancellation point: it would also cover a context that is already
cancelled when `Run` is called (not a configuration of the property's quantifier; kept visible because it is FALSE). -/
def C14_equiv_precancelled_statement : Prop :=
  ∀ (k : Fmt) (file : List Nat) (chosen : Nat → Bool) (b : Bounds) (cancelAt : Option Nat),
    runWith k false file chosen b cancelAt = runWith k true file chosen b cancelAt

/-- `C14_equiv` is the part of it that holds. -/
theorem C14_equiv_precancelled_partial (k : Fmt) (file : List Nat) (chosen : Nat → Bool) (b : Bounds)
    (cancelAt : Option Nat) (hc : cancelAt ≠ some 0) :
    runWith k false file chosen b cancelAt = runWith k true file chosen b cancelAt := C14_equiv k file chosen b cancelAt hc

/-- http/json, one entry, nothing chosen, context cancelled before `Run`: the streaming path returns
context.Canceled at once, the preloaded path first loads the file (the http/json decoder never looks at the context)
and fails with "no ammo in file".  Nothing is delivered either way. -/
theorem C14_equiv_precancelled_counterexample : ¬ C14_equiv_precancelled_statement := by
  intro h
  have h1 : (runWith .jsonLines false [0] (fun _ => false) ⟨0, 0⟩ (some 0)).map (·.run) = some .canceled := by decide
  have h2 : (runWith .jsonLines true [0] (fun _ => false) ⟨0, 0⟩ (some 0)).map (·.run) = some .errNoAmmo := by decide
  rw [h .jsonLines [0] (fun _ => false) ⟨0, 0⟩ (some 0), h2] at h1
  simp at h1

/-- … and the equality is never the vacuous `none = none` for a run that has a reason to end: with a limit, with
passes, with a cancellation, or with nothing chosen, both modes END (within the model's fuel). -/
theorem C14_equiv_ends (k : Fmt) (preload : Bool) (file : List α) (chosen : α → Bool) (b : Bounds)
    (cancelAt : Option Nat) (hc : cancelAt ≠ some 0)
    (h : b.limit ≠ 0 ∨ b.passes ≠ 0 ∨ cancelAt ≠ none ∨ (file.filter chosen).length = 0) :
    ∃ o, runWith k preload file chosen b cancelAt = some o := by
  by_cases hf : (file.filter chosen).length = 0
  · exact ⟨_, C14_nomatch k preload file chosen b cancelAt hf hc⟩
  · cases hT : target b.limit b.passes (file.filter chosen).length cancelAt with
    | none =>
      exfalso
      cases cancelAt with
      | some c => unfold target at hT; simp only at hT; split at hT <;> simp at hT
      | none =>
        have := (target_none_iff _ _ _).mp hT
        rcases h with h | h | h | h
        · exact h this.1
        · exact h this.2
        · exact h rfl
        · exact hf h
    | some T => exact ⟨_, C14_run k preload file chosen b cancelAt T (by omega) hT⟩

/-- **chosencases selects exactly the listed tags; limit counts delivered entries** (second sentence): with a
non-empty chosencases list of which at least one tag occurs in the file, and a limit and/or passes, both modes
deliver exactly the first `m` entries of the endlessly repeated list of the entries WHOSE TAG IS LISTED, in file
order, where `m = min⁺(limit, passes · f)` and `f` = number of such entries — so `limit` counts delivered
entries, not entries read — and end with nil and a closed sink. -/
theorem C14_chosen (k : Fmt) (preload : Bool) (tags cases : List String) (b : Bounds) (m : Nat)
    (hcases : cases ≠ []) (hf : 0 < (listed tags cases).length)
    (hm : Spec.C14.expected b.limit b.passes (listed tags cases).length = some m) :
    run k preload tags cases b none = some ⟨cyclicPrefix (listed tags cases) m, .nil, true⟩ := by
  unfold listed at *
  rw [← filter_isChosen_eq_mem cases hcases] at hf hm ⊢
  rw [expected_eq_target _ _ _ hf] at hm
  have := C14_run k preload (mkFile tags) (isChosen cases) b none m hf hm
  simpa [run, cancelled] using this

/-- without chosencases the same holds for the whole file -/
theorem C14_nofilter (k : Fmt) (preload : Bool) (tags : List String) (b : Bounds) (m : Nat)
    (hn : 0 < tags.length) (hm : Spec.C14.expected b.limit b.passes tags.length = some m) :
    run k preload tags [] b none = some ⟨cyclicPrefix (mkFile tags) m, .nil, true⟩ := by
  have hall : (mkFile tags).filter (isChosen []) = mkFile tags := filter_isChosen_nil _
  have hlen : (mkFile tags).length = tags.length := by simp [mkFile]
  have hf : 0 < ((mkFile tags).filter (isChosen [])).length := by rw [hall, hlen]; exact hn
  have hm' : target b.limit b.passes ((mkFile tags).filter (isChosen [])).length none = some m := by
    rw [← expected_eq_target _ _ _ hf, hall, hlen]; exact hm
  have := C14_run k preload (mkFile tags) (isChosen []) b none m hf hm'
  rw [hall] at this
  simpa [run, cancelled] using this

/-- **unbounded** (no limit, no passes): every finite prefix is the same — cancelled after `c ≥ 0` acquisitions,
both modes have delivered exactly the first `c` entries of the endlessly repeated chosen list. -/
theorem C14_unbounded_prefix (k : Fmt) (preload : Bool) (file : List α) (chosen : α → Bool) (c : Nat)
    (hf : 0 < (file.filter chosen).length) :
    runWith k preload file chosen ⟨0, 0⟩ (some c)
      = some ⟨cyclicPrefix (file.filter chosen) c, .canceled, true⟩ := by
  have := C14_run k preload file chosen ⟨0, 0⟩ (some c) c hf (by simp [target])
  simpa [cancelled] using this

/-- **cancelled in the middle** (of a pass, of the run): the context is cancelled when `c` ammo have been acquired
and `c` is below the number `m` of ammo the run would deliver by itself (any `c` for a run without limit and passes)
— both modes have delivered exactly the first `c` entries of the repeated list of the entries whose tag is listed,
`Run` returns context.Canceled in both modes and the sink is closed. -/
theorem C14_chosen_cancelled (k : Fmt) (preload : Bool) (tags cases : List String) (b : Bounds) (c : Nat)
    (hcases : cases ≠ []) (hf : 0 < (listed tags cases).length)
    (hcm : ∀ m, Spec.C14.expected b.limit b.passes (listed tags cases).length = some m → c < m) :
    run k preload tags cases b (some c) = some ⟨cyclicPrefix (listed tags cases) c, .canceled, true⟩ := by
  unfold listed at *
  rw [← filter_isChosen_eq_mem cases hcases] at hf hcm ⊢
  rw [expected_eq_target _ _ _ hf] at hcm
  have hT : target b.limit b.passes ((mkFile tags).filter (isChosen cases)).length (some c) = some c := by
    cases hE : target b.limit b.passes ((mkFile tags).filter (isChosen cases)).length none with
    | none =>
      obtain ⟨h1, h2⟩ := (target_none_iff _ _ _).mp hE
      simp [target, h1, h2]
    | some m =>
      have := hcm m hE
      rw [target_cancel _ _ _ m c hE, Nat.min_eq_left (by omega)]
  have := C14_run k preload (mkFile tags) (isChosen cases) b (some c) c hf hT
  simpa [run, cancelled] using this

/-- **whole passes**: with `passes = p ≥ 1` and no limit, both modes deliver the list of the entries whose tag is
listed, in file order, exactly `p` times — nothing else, nothing missing. -/
theorem C14_passes_complete (k : Fmt) (preload : Bool) (tags cases : List String) (p : Nat)
    (hcases : cases ≠ []) (hf : 0 < (listed tags cases).length) (hp : 0 < p) :
    run k preload tags cases ⟨0, p⟩ none = some ⟨(List.replicate p (listed tags cases)).flatten, .nil, true⟩ := by
  have hm : Spec.C14.expected 0 p (listed tags cases).length = some (p * (listed tags cases).length) := by
    unfold Spec.C14.expected
    cases p with
    | zero => omega
    | succ p => rfl
  rw [C14_chosen k preload tags cases ⟨0, p⟩ _ hcases hf hm]
  have : cyclicPrefix (listed tags cases) (p * (listed tags cases).length) = (List.replicate p (listed tags cases)).flatten := by
    have h := cycTake_full (listed tags cases) p hf
    unfold cycTake rep at h
    exact h
  rw [this]

/-- … so an entry of the file is delivered **iff its tag is listed** (as soon as one pass is complete). -/
theorem C14_exactly_listed (k : Fmt) (preload : Bool) (tags cases : List String) (p : Nat)
    (hcases : cases ≠ []) (hf : 0 < (listed tags cases).length) (hp : 0 < p) :
    ∃ o, run k preload tags cases ⟨0, p⟩ none = some o ∧
      ∀ e, e ∈ o.delivered ↔ (e ∈ mkFile tags ∧ e.tag ∈ cases) := by
  refine ⟨_, C14_passes_complete k preload tags cases p hcases hf hp, ?_⟩
  intro e
  simp only [List.mem_flatten, List.mem_replicate]
  constructor
  · rintro ⟨l, ⟨_, rfl⟩, he⟩
    simpa [listed] using he
  · intro he
    exact ⟨listed tags cases, ⟨by omega, rfl⟩, by simpa [listed] using he⟩

/-! ## the model is the source (regenerated definitions, `Pandora.Bridge.C14`) -/

/-- The chosen-case filter of the model is `confutil.IsChosenCase` as regenerated from the source, applied to the
entry's tag and the configured list; the preloaded path keeps exactly `filter chosen` of what `LoadAmmo` returned
(regenerated loop of `loadAmmo`), BEFORE the cyclic replay; the streaming path asks the filter about the ammo that
`Decoder.Scan` just returned and counts an ammo only when it is sent (regenerated loop body of `runFullScan`);
`Provider.Run` is built from these pieces, the sentinel mapping and the deferred close as regenerated. -/
theorem C14_model_is_source :
    (∀ (cases : List String) (e : Entry), isChosen cases e = Gen.ChosenCases.isChosenCase e.tag cases) ∧
    (∀ (chosen : Entry → Bool) (ammos : List Entry), Gen.ChosenCases.loadAmmoKeep chosen ammos = ammos.filter chosen) ∧
    (∀ (preload : Bool), Gen.ChosenCases.runPath preload = if preload then ["loadAmmo", "ok:runPreloaded"] else ["runFullScan"]) ∧
    Gen.ChosenCases.httpRunCloses = true ∧ (∀ l, Gen.ChosenCases.decoderLimit l = 0) ∧
    Gen.ChosenCases.runPreloadedDone = Gen.ChosenCases.runFullScanDone :=
  ⟨Bridge.C14.isChosen_eq_source, Bridge.C14.loadAmmoKeep_eq, fun p => by cases p <;> rfl, rfl, fun _ => rfl, rfl⟩

/-- With a non-empty chosencases list, filtering a file with the REGENERATED `IsChosenCase` gives exactly the
entries whose tag is listed (the list the theorems above speak about); with an empty list, the whole file. -/
theorem C14_listed_is_source_filter (tags cases : List String) :
    (mkFile tags).filter (fun e => Gen.ChosenCases.isChosenCase e.tag cases)
      = if cases = [] then mkFile tags else listed tags cases := by
  have h : (fun e : Entry => Gen.ChosenCases.isChosenCase e.tag cases) = isChosen cases := by
    funext e; exact (Bridge.C14.isChosen_eq_source cases e).symm
  rw [h]
  by_cases hc : cases = []
  · subst hc; simp [filter_isChosen_nil]
  · rw [if_neg hc]; exact filter_isChosen_eq_mem cases hc _

/-- **Spec holds of Model.run** for every cell shape the harness generates (cap ≥ 1; cap different from the number
of ammo a bounded cell delivers — greater: never reached; smaller: the run is cancelled in the middle): the
executable Spec that judges the two real providers accepts the pair of observations the model predicts — for every
format, file (also the empty one and the one NewProvider rejects), chosencases list, limit and passes. -/
theorem C14_spec_holds (k : Fmt) (tags cases : List String) (limit passes cap : Nat) (hcap : 0 < cap)
    (hne : Spec.C14.inconclusive ⟨tags, cases, limit, passes, cap⟩ = false) :
    Spec.C14.holds ⟨tags, cases, limit, passes, cap⟩ (Drv.C14.modelObsOf k tags cases ⟨limit, passes⟩ cap) = true := by
  have hcne : (if cap = 0 then none else some cap) = some cap := by rw [if_neg (by omega)]
  have hc0 : some cap ≠ some 0 := by simp; omega
  -- both sides of the model's observation are the same Side
  have hsame : Drv.C14.modelSideOf k true tags cases ⟨limit, passes⟩ cap
      = Drv.C14.modelSideOf k false tags cases ⟨limit, passes⟩ cap := by
    unfold Drv.C14.modelSideOf
    split
    · rw [hcne]; unfold run; rw [C14_equiv k (mkFile tags) (isChosen cases) ⟨limit, passes⟩ (some cap) hc0]
    · rfl
  have hids := chosenIds_eq tags cases limit passes cap
  have hidlen : (Spec.C14.chosenIds ⟨tags, cases, limit, passes, cap⟩).length
      = ((mkFile tags).filter (isChosen cases)).length := by rw [hids, List.length_map]
  unfold Spec.C14.holds Drv.C14.modelObsOf
  rw [hsame]
  by_cases hno : Spec.C14.noMatch ⟨tags, cases, limit, passes, cap⟩ = true
  · -- nothing chosen: nothing delivered
    rw [if_pos hno]
    have hf : ((mkFile tags).filter (isChosen cases)).length = 0 := by
      unfold Spec.C14.noMatch at hno; rw [hidlen] at hno; simpa using hno
    have hseq : (Drv.C14.modelSideOf k false tags cases ⟨limit, passes⟩ cap).seq = [] := by
      unfold Drv.C14.modelSideOf
      split
      · rw [hcne]; unfold run
        rw [C14_nomatch k false (mkFile tags) (isChosen cases) ⟨limit, passes⟩ (some cap) hf hc0]
        rfl
      · rfl
    simp [hseq, Spec.C14.equivOk, Spec.C14.seqEquivOk, Spec.C14.endEquivOk]
  · rw [if_neg hno]
    have hf : 0 < ((mkFile tags).filter (isChosen cases)).length := by
      unfold Spec.C14.noMatch at hno; rw [hidlen] at hno
      have : ((mkFile tags).filter (isChosen cases)).length ≠ 0 := by simpa using hno
      omega
    have hn : 0 < tags.length := by
      have h1 : ((mkFile tags).filter (isChosen cases)).length ≤ (mkFile tags).length := List.length_filter_le _ _
      have h2 : (mkFile tags).length = tags.length := by simp [mkFile]
      omega
    have hcon : constructs k tags.length = true := by
      unfold constructs
      cases tags with
      | nil => simp at hn
      | cons t ts => simp
    have hside : Drv.C14.modelSideOf k false tags cases ⟨limit, passes⟩ cap
        = Drv.C14.sideOf cap (run k false tags cases ⟨limit, passes⟩ (some cap)) := by
      unfold Drv.C14.modelSideOf; rw [if_pos hcon, hcne]
    have hcount : Spec.C14.expectedCount ⟨tags, cases, limit, passes, cap⟩
        = Spec.C14.expected limit passes ((mkFile tags).filter (isChosen cases)).length := by
      unfold Spec.C14.expectedCount; rw [hidlen]
    -- the count T at which the model's run stops, and what the Spec expects of it
    have hT : ∃ T, target limit passes ((mkFile tags).filter (isChosen cases)).length (some cap) = some T ∧
        Spec.C14.expectedLen ⟨tags, cases, limit, passes, cap⟩ = T ∧
        Spec.C14.cutExpected ⟨tags, cases, limit, passes, cap⟩ = decide (cap ≤ T) := by
      unfold Spec.C14.expectedLen Spec.C14.cutExpected
      cases hE : Spec.C14.expected limit passes ((mkFile tags).filter (isChosen cases)).length with
      | none =>
        have h00 : limit = 0 ∧ passes = 0 := by
          rw [expected_eq_target _ _ _ hf] at hE; exact (target_none_iff _ _ _).mp hE
        obtain ⟨rfl, rfl⟩ := h00
        exact ⟨cap, by simp [target], by simp [hcount, hE], by simp [hcount, hE]⟩
      | some m =>
        have hmc : m ≠ cap := by
          intro h
          have : Spec.C14.inconclusive ⟨tags, cases, limit, passes, cap⟩ = true := by
            unfold Spec.C14.inconclusive; rw [hcount, hE, h]; simp
          rw [this] at hne; exact Bool.noConfusion hne
        have htc := target_cancel limit passes _ m cap (by rw [← expected_eq_target _ _ _ hf]; exact hE)
        by_cases hlt : cap < m
        · refine ⟨cap, by rw [htc, Nat.min_eq_left (by omega)], by simp [hcount, hE, hlt], by simp [hcount, hE, hlt]⟩
        · have hgt : m < cap := by omega
          have hnle : ¬ cap ≤ m := by omega
          refine ⟨m, by rw [htc, Nat.min_eq_right (by omega)], by simp [hcount, hE, hlt], by simp [hcount, hE, hlt, hnle]⟩
    obtain ⟨T, hTt, hTlen, hTcut⟩ := hT
    have hchosen : Spec.C14.chosenOk ⟨tags, cases, limit, passes, cap⟩
        ⟨Drv.C14.modelSideOf k false tags cases ⟨limit, passes⟩ cap,
         Drv.C14.modelSideOf k false tags cases ⟨limit, passes⟩ cap, true⟩ = true := by
      rw [hside]
      unfold Spec.C14.chosenOk Spec.C14.expectedSeq
      unfold run
      rw [C14_run k false (mkFile tags) (isChosen cases) ⟨limit, passes⟩ (some cap) T hf hTt]
      have hl : (cyclicPrefix ((mkFile tags).filter (isChosen cases)) T).length = T := length_cycTake _ _ hf
      simp only [hTlen, hTcut, hids, Drv.C14.sideOf, hl]
      have hm := map_cycTake (fun e : Entry => e.id) ((mkFile tags).filter (isChosen cases)) T
      unfold cycTake rep at hm
      unfold cyclicPrefix
      simp [hm, hcap]
    simp [hchosen, Spec.C14.equivOk, Spec.C14.seqEquivOk, Spec.C14.endEquivOk, Spec.C14.tagsOk]

/-! ## the earlier revisions of the code do NOT have the property -/

/-- C14's equivalence for /repo before 8ec6c57 and c2aa5a1 (`Model.C14.Orig`): whenever both modes end, they
deliver the same and end the same way. -/
def C14_equiv_orig_statement : Prop :=
  ∀ (k : Fmt) (file : List Nat) (chosen : Nat → Bool) (b : Bounds) (fuel : Nat) (o₁ o₂ : Outcome Nat),
    Orig.runFuel k false file chosen b none fuel = some o₁ → Orig.runFuel k true file chosen b none fuel = some o₂ →
    o₁.delivered = o₂.delivered ∧ o₁.run = o₂.run

/-- `/a t1, /b t2, /c t3`, limit 2, chosencases [t2, t3]: streaming delivers `[/b]` (the decoder's limit counts the
filtered-out /a), preload delivers `[/b, /c]` and ends with the error "ammo limit faced". -/
theorem C14_equiv_orig_counterexample : ¬ C14_equiv_orig_statement := by
  intro h
  have h1 : Orig.runFuel .uri false [0, 1, 2] (fun i => decide (1 ≤ i)) ⟨2, 0⟩ none 10 = some ⟨[1], .nil, true⟩ := by decide
  have h2 : Orig.runFuel .uri true [0, 1, 2] (fun i => decide (1 ≤ i)) ⟨2, 0⟩ none 10 = some ⟨[1, 2], .errLimit, true⟩ := by decide
  have := (h .uri [0, 1, 2] (fun i => decide (1 ≤ i)) ⟨2, 0⟩ 10 _ _ h1 h2).1
  simp at this

/-- the same for /repo a3063a3 (with 8ec6c57 and c2aa5a1, before b8504d9; `Model.C14.Head`) -/
def C14_equiv_head_statement : Prop :=
  ∀ (k : Fmt) (file : List Nat) (chosen : Nat → Bool) (b : Bounds) (fuel : Nat) (o₁ o₂ : Outcome Nat),
    Head.runFuel k false file chosen b none fuel = some o₁ → Head.runFuel k true file chosen b none fuel = some o₂ →
    o₁.delivered = o₂.delivered ∧ o₁.run = o₂.run

/-- three entries, nothing chosen, passes 1: streaming ends with nil, preload with "no ammo in file". -/
theorem C14_equiv_head_counterexample : ¬ C14_equiv_head_statement := by
  intro h
  have h1 : Head.runFuel .uri false [0, 1, 2] (fun _ => false) ⟨0, 1⟩ none 10 = some ⟨[], .nil, true⟩ := by decide
  have h2 : Head.runFuel .uri true [0, 1, 2] (fun _ => false) ⟨0, 1⟩ none 10 = some ⟨[], .errNoAmmo, true⟩ := by decide
  have := (h .uri [0, 1, 2] (fun _ => false) ⟨0, 1⟩ 10 _ _ h1 h2).2
  simp at this

/-- … and with passes = 0 the streaming path of that revision NEVER ends on a non-empty file from which nothing
is chosen (for every format, limit and fuel: it rescans the file for ever), while the preloaded path ends with
ErrNoAmmo. -/
theorem C14_head_stream_never_ends (k : Fmt) (file : List α) (chosen : α → Bool) (limit : Nat)
    (cancelAt : Option Nat) (hn : 0 < file.length) (hf : (file.filter chosen).length = 0) (hc : cancelAt ≠ some 0)
    (fuel : Nat) : Head.runFuel k false file chosen ⟨limit, 0⟩ cancelAt fuel = none :=
  head_runFuel_never_ends k file chosen limit cancelAt hn (List.eq_nil_of_length_eq_zero hf) hc fuel

/-! ## non-vacuity: concrete cells, evaluated by the kernel -/

-- the documented witness, repaired behaviour: limit 2 counts DELIVERED entries, both modes deliver [/b, /c]
example : (runWith .uri false [0, 1, 2] (fun i => decide (1 ≤ i)) ⟨2, 0⟩ none).map (fun o => (o.delivered, o.run, o.sinkClosed))
    = some ([1, 2], .nil, true) := by decide
example : (runWith .uri true [0, 1, 2] (fun i => decide (1 ≤ i)) ⟨2, 0⟩ none).map (fun o => (o.delivered, o.run, o.sinkClosed))
    = some ([1, 2], .nil, true) := by decide
-- the same through tags and a chosencases list: `/a t1, /b t2, /c t3`, limit 2, chosencases [t2, t3]
example : (run .uri false ["t1", "t2", "t3"] ["t2", "t3"] ⟨2, 0⟩ none).map (fun o => (o.delivered.map (·.id), o.run))
    = some ([1, 2], .nil) := by decide
example : (run .uri true ["t1", "t2", "t3"] ["t2", "t3"] ⟨2, 0⟩ none).map (fun o => (o.delivered.map (·.id), o.run))
    = some ([1, 2], .nil) := by decide
example : (listed ["t1", "t2", "t3"] ["t2", "t3"]).map (·.id) = [1, 2] ∧
    Spec.C14.expected 2 0 (listed ["t1", "t2", "t3"] ["t2", "t3"]).length = some 2 := by decide
-- passes count passes over the file, limit cuts inside the third pass of the chosen entries
example : (runWith .jsonArray false [0, 1, 2, 3] (fun i => decide (i % 2 = 1)) ⟨5, 3⟩ none).map (·.delivered)
    = some [1, 3, 1, 3, 1] := by decide
example : (runWith .jsonLines true [0, 1, 2, 3] (fun i => decide (i % 2 = 1)) ⟨0, 2⟩ none).map (·.delivered)
    = some [1, 3, 1, 3] := by decide
-- nothing chosen, passes = 0: both modes end with ErrNoAmmo
example : (runWith .raw false [0, 1, 2] (fun _ => false) ⟨2, 0⟩ none).map (fun o => (o.delivered, o.run, o.sinkClosed))
    = some ([], .errNoAmmo, true) := by decide
example : (runWith .raw true [0, 1, 2] (fun _ => false) ⟨2, 0⟩ none).map (fun o => (o.delivered, o.run, o.sinkClosed))
    = some ([], .errNoAmmo, true) := by decide
-- unbounded, cancelled after 5 acquisitions
example : (runWith .uripost false [0, 1, 2] (fun i => decide (i ≠ 1)) ⟨0, 0⟩ (some 5)).map (fun o => (o.delivered, o.run))
    = some ([0, 2, 0, 2, 0], .canceled) := by decide
-- cancelled in the middle of the second pass: limit 5, chosen [t2,t3], cancelled after 3 acquisitions
example : (run .jsonLines false ["t1", "t2", "t3"] ["t2", "t3"] ⟨5, 0⟩ (some 3)).map (fun o => (o.delivered.map (·.id), o.run, o.sinkClosed))
    = some ([1, 2, 1], .canceled, true) := by decide
example : (run .jsonLines true ["t1", "t2", "t3"] ["t2", "t3"] ⟨5, 0⟩ (some 3)).map (fun o => (o.delivered.map (·.id), o.run, o.sinkClosed))
    = some ([1, 2, 1], .canceled, true) := by decide
-- hypotheses of C14_chosen_cancelled / C14_passes_complete / C14_exactly_listed
example : ["t2", "t3"] ≠ [] ∧ 0 < (listed ["t1", "t2", "t3"] ["t2", "t3"]).length ∧
    (∀ m, Spec.C14.expected 5 0 (listed ["t1", "t2", "t3"] ["t2", "t3"]).length = some m → 3 < m) := by
  refine ⟨by decide, by decide, ?_⟩
  intro m h
  have : Spec.C14.expected 5 0 (listed ["t1", "t2", "t3"] ["t2", "t3"]).length = some 5 := by decide
  rw [this] at h; cases h; decide
example : (run .raw true ["t1", "t2", "t3"] ["t2", "t3"] ⟨0, 2⟩ none).map (fun o => o.delivered.map (·.id)) = some [1, 2, 1, 2] := by decide
-- the regenerated IsChosenCase on concrete tags: whole-tag, case-sensitive comparison; untagged entries
example : Gen.ChosenCases.isChosenCase "ab" ["a", "b"] = false ∧ Gen.ChosenCases.isChosenCase "B" ["b"] = false ∧
    Gen.ChosenCases.isChosenCase "" ["a"] = false ∧ Gen.ChosenCases.isChosenCase "" [""] = true ∧
    Gen.ChosenCases.isChosenCase "x" [] = true ∧ Gen.ChosenCases.isChosenCase "b" ["a", "b"] = true := by decide
-- C14_spec_holds: a cell cancelled in the middle (cap 3 < 5) and one that is not (cap 9 > 5) are not inconclusive
example : Spec.C14.inconclusive ⟨["t1", "t2", "t3"], ["t2", "t3"], 5, 0, 3⟩ = false ∧
    Spec.C14.inconclusive ⟨["t1", "t2", "t3"], ["t2", "t3"], 5, 0, 9⟩ = false ∧
    Spec.C14.inconclusive ⟨["t1", "t2", "t3"], ["t2", "t3"], 5, 0, 5⟩ = true := by decide
-- hypotheses of C14_chosen / C14_spec_holds are satisfiable
example : Spec.C14.expected 2 1 3 = some 2 ∧ target 2 1 3 none = some 2 := by decide
example : cyclicPrefix [1, 2] 5 = [1, 2, 1, 2, 1] := by decide

end Pandora.Props.C14
