/-
C09 — HTTP wire fidelity: the request reaching the target equals ammo plus gun config.

Theorems about the model `Pandora.Model.C09` (decoder merge per format → BuildRequest/Enrich → BaseGun.Shoot) against the
declarative expectations of `Pandora.Spec.C09`, for ALL configured header lists, ALL in-file header lines (any
names, any case, duplicates, Host), ALL entries and all five file syntaxes (uri, uripost, jsonline, json array,
raw). Lists are unbounded; proofs are inductions over them (`Pandora.Proofs.C09`).

The uri/uripost merge is the REPAIRED one (fixes/C09-uri-header-precedence.diff); the code of the unrepaired tree
is `mergeUriOld`, for which `C09_unrepaired_uri_counterexample` shows the precedence theorem false.

net/http's serialisation, URL escaping, TLS and connection pooling are library behaviour: observed by the tie
(harness/cmd/c09 against `Pandora.Drv.C09`), not proved.
-/
import Pandora.Proofs.C09

namespace Pandora.Props.C09
open Pandora.Model.C09 Pandora.Spec.C09 Pandora.Proofs.C09

/-- DecodeHeader over the rendered `[k:v]` lines of a uri/uripost file; `none` = some line is malformed -/
def decodeLines : List (Str × Str) → Option (List (Str × Str))
  | [] => some []
  | kv :: rest =>
    match decodeHeader (headerLine kv) with
    | .error _ => none
    | .ok p => match decodeLines rest with
      | some ps => some (p :: ps)
      | none => none

/-! ### the property theorems -/

/-- **Precedence, every format.** For every format, `headers` option list `conf` (decoded `[k: v]` pairs), header
lines `lines` in effect for the entry and entry `e`: BuildRequest succeeds (EnrichRequestWithHeaders never
indexes an empty slice), and on the request handed to the transport
* every header name `n` other than Host carries the ammo's value(s) when the ammo entry defines `n`, else the
  configured value(s), else nothing (`expHeader`; names compared after MIME canonicalisation);
* Host is the ammo's (URL host / `host` field / Host line) whenever the ammo gives a non-empty one;
* when the ammo gives no Host at all it is the configured Host, else the host of the gun's target. -/
theorem C09_precedence (f : Format) (conf lines : List (Str × Str)) (e : Entry) (g : Gun) :
    ∃ r, buildReq f (confHdr conf) lines e = some r ∧
      (∀ n, n ≠ hostKey → hget (shoot g r).header n = expHeader f conf (seenLines f lines) n) ∧
      (ammoHost f (seenLines f lines) e ≠ [] → (shoot g r).host = ammoHost f (seenLines f lines) e) ∧
      (ammoHasHost f (seenLines f lines) e = false →
        (shoot g r).host = confHost conf (hostWithoutPort g.target)) := by
  obtain ⟨r, hr⟩ := buildReq_total f conf lines e
  refine ⟨r, hr, fun n hn => header_of_buildReq f conf lines e r hr n hn, ?_, ?_⟩
  · intro ha
    have hh := host_of_buildReq f conf lines e r hr
    simp only [ammoHost] at ha ⊢
    simp only [shoot]
    by_cases hu : urlHost f e = []
    · simp only [hu, ne_eq, not_true_eq_false, if_false] at ha hh ⊢
      cases hf : fileHost f (seenLines f lines) with
      | none => simp [hf] at ha
      | some v =>
        simp only [hf, Option.getD_some] at ha hh ⊢
        have : r.host = v := by rw [hh]; simp [ha]
        simp [this, ha]
    · simp only [hu, ne_eq, not_false_eq_true, if_true] at hh ⊢
      simp [hh, hu]
  · intro hno
    have hh := host_of_buildReq f conf lines e r hr
    simp only [ammoHasHost, Bool.or_eq_false_iff, bne_eq_false_iff_eq, Option.isSome_eq_false_iff,
      Option.isNone_iff_eq_none] at hno
    simp only [hno.1, hno.2, ne_eq, not_true_eq_false, if_false] at hh
    simp only [shoot, confHost]
    cases hc : valsOf conf hostKey with
    | nil => simp [hc] at hh; simp [hh]
    | cons c cs =>
      simp only [hc] at hh
      by_cases hce : c = []
      · simp [hh, hce]
      · simp [hh, hce]

/-- the corner left open by `C09_precedence`: the ammo gives an EMPTY Host line. uri/uripost/jsonline then send the
target's host; raw falls back to the configured Host first. Either way Host is the configured one or the target's. -/
theorem C09_precedence_empty_host (f : Format) (conf lines : List (Str × Str)) (e : Entry) (g : Gun) (r : Req)
    (hr : buildReq f (confHdr conf) lines e = some r)
    (hno : ammoHost f (seenLines f lines) e = []) :
    (shoot g r).host = hostWithoutPort g.target ∨ (shoot g r).host = confHost conf (hostWithoutPort g.target) := by
  have hh := host_of_buildReq f conf lines e r hr
  simp only [ammoHost] at hno
  by_cases hu : urlHost f e = []
  · simp only [hu, ne_eq, not_true_eq_false, if_false] at hno hh
    simp only [shoot, confHost]
    cases hf : fileHost f (seenLines f lines) with
    | none =>
      simp only [hf] at hh
      cases hc : valsOf conf hostKey with
      | nil => simp [hc] at hh; simp [hh]
      | cons c cs => simp only [hc] at hh; by_cases hce : c = [] <;> simp [hh, hce]
    | some v =>
      simp only [hf, Option.getD_some] at hno hh
      subst hno
      by_cases hraw : f = .raw
      · simp only [hraw, not_true_eq_false, or_false, if_false] at hh
        cases hc : valsOf conf hostKey with
        | nil => simp [hc] at hh; simp [hh]
        | cons c cs => simp only [hc] at hh; by_cases hce : c = [] <;> simp [hh, hce]
      · simp [hraw] at hh; simp [hh]
  · simp [hu] at hno

/-- **Method, request-URI and body bytes are the entry's**, whatever the configured headers are: GET/POST for
uri/uripost, the entry's method token otherwise; `URL.RequestURI()` of the entry's URI; the body unchanged. -/
theorem C09_unchanged (f : Format) (conf : Hdr) (lines : List (Str × Str)) (e : Entry) (g : Gun) (r : Req)
    (h : buildReq f conf lines e = some r) :
    (shoot g r).method = methodOf f e ∧ (shoot g r).uri = (splitURL (urlOf f e)).2 ∧
      (shoot g r).body = bodyOf f e := by
  have hp : POST ≠ [] := by decide
  have hg : GET ≠ [] := by decide
  cases f <;> simp only [buildReq, buildAmmo] at h <;> have hf := enrich_fields _ _ _ h <;>
    simp [shoot, hf, newRequest, readRequest, methodOf, urlOf, bodyOf, hp, hg]

/-- **Target and scheme.** Whatever the entry says (absolute URI naming another host or scheme, any Host), the
transport is told to dial the gun's resolved target, with https iff `ssl`. -/
theorem C09_target (g : Gun) (r : Req) :
    (shoot g r).dial = g.targetResolved ∧ (shoot g r).scheme = (if g.ssl then Scheme.https else Scheme.http) :=
  ⟨rfl, rfl⟩

/-- **All formats merge alike.** Two entries in any two formats whose header lines define the same values
(name by name, as each format reads them) and that run under the same `headers` option reach the wire with the
same value(s) for every header; and with the same Host when they give the same non-empty Host or none at all. -/
theorem C09_formats_agree (f₁ f₂ : Format) (conf l₁ l₂ : List (Str × Str)) (e₁ e₂ : Entry) (g : Gun) (r₁ r₂ : Req)
    (h₁ : buildReq f₁ (confHdr conf) l₁ e₁ = some r₁) (h₂ : buildReq f₂ (confHdr conf) l₂ e₂ = some r₂)
    (hv : ∀ n, fileVals f₁ (seenLines f₁ l₁) n = fileVals f₂ (seenLines f₂ l₂) n) :
    (∀ n, n ≠ hostKey → hget (shoot g r₁).header n = hget (shoot g r₂).header n) ∧
    (ammoHost f₁ (seenLines f₁ l₁) e₁ = ammoHost f₂ (seenLines f₂ l₂) e₂ →
      ammoHasHost f₁ (seenLines f₁ l₁) e₁ = ammoHasHost f₂ (seenLines f₂ l₂) e₂ →
      (ammoHost f₁ (seenLines f₁ l₁) e₁ ≠ [] ∨ ammoHasHost f₁ (seenLines f₁ l₁) e₁ = false) →
      (shoot g r₁).host = (shoot g r₂).host) := by
  obtain ⟨r₁', hr₁, p₁, a₁, b₁⟩ := C09_precedence f₁ conf l₁ e₁ g
  obtain ⟨r₂', hr₂, p₂, a₂, b₂⟩ := C09_precedence f₂ conf l₂ e₂ g
  rw [h₁] at hr₁; rw [h₂] at hr₂
  cases hr₁; cases hr₂
  refine ⟨fun n hn => ?_, fun ha hs hc => ?_⟩
  · rw [p₁ n hn, p₂ n hn]; simp only [expHeader, hv n]
  · rcases hc with hc | hc
    · rw [a₁ hc, a₂ (ha ▸ hc), ha]
    · rw [b₁ hc, b₂ (hs ▸ hc)]

/-- the same lines with pairwise different names and values without surrounding blanks mean the same in every
format, so `C09_formats_agree` applies to one entry written in any two syntaxes -/
theorem C09_formats_agree_same_lines (f₁ f₂ : Format) (lines : List (Str × Str))
    (hd : ∀ n, (valsOf lines n).length ≤ 1) (ht : ∀ kv ∈ lines, trimHTTP kv.2 = kv.2) (n : Str) :
    fileVals f₁ (seenLines f₁ lines) n = fileVals f₂ (seenLines f₂ lines) n := by
  have hmap : (lines.map fun kv => (kv.1, trimHTTP kv.2)) = lines := by
    have : ∀ kv ∈ lines, (fun kv : Str × Str => (kv.1, trimHTTP kv.2)) kv = kv := fun kv hkv => by
      simp [ht kv hkv]
    simpa using List.map_congr_left this
  have hs : ∀ f, seenLines f lines = lines := fun f => by cases f <;> simp [seenLines, hmap]
  have hl : lastOf (valsOf lines n) = valsOf lines n := by
    have := hd n
    cases hv : valsOf lines n with
    | nil => rfl
    | cons v t =>
      cases t with
      | nil => rfl
      | cons w t' => rw [hv] at this; simp at this
  cases f₁ <;> cases f₂ <;> simp [fileVals, hs, hl]

/-- **uri/uripost: the header lines in effect are all `[k: v]` lines of the pass so far.** In a file
`pre ++ it :: rest` whose header lines up to and including `it`'s decode to `ls`, the request produced for `it`
(it has index `pre.length` in the pass) is `buildReq` of `ls`: headers persist across entries, later lines of a
name replace earlier ones, and nothing of an earlier REQUEST leaks into a later one. -/
theorem C09_uri_sequence (post : Bool) (conf : Hdr) (wc : WF conf) (pre : List Item) (it : Item) (rest : List Item)
    (ls : List (Str × Str)) (hdec : decodeLines ((pre ++ [it]).flatMap (·.hdrs)) = some ls) :
    (scanUri post conf [] (pre ++ it :: rest)).1[pre.length]? =
      buildReq (if post then .uripost else .uri) conf ls it.ent := by
  -- generalised over the common header accumulated before `pre`
  have key : ∀ (pre : List Item) (common : Hdr) (ls : List (Str × Str)), WF common →
      decodeLines ((pre ++ [it]).flatMap (·.hdrs)) = some ls →
      (scanUri post conf common (pre ++ it :: rest)).1[pre.length]? =
        buildAmmo (if post then POST else GET) it.ent.uri (if post then it.ent.body else [])
          (mergeUri (commonOf common ls) conf) := by
    have hread : ∀ (hs : List (Str × Str)) (common : Hdr) (l : List (Str × Str)), decodeLines hs = some l →
        readHeaderLines common hs = some (commonOf common l) := by
      intro hs
      induction hs with
      | nil => intro common l h; simp [decodeLines] at h; subst h; simp [readHeaderLines, commonOf]
      | cons kv t ih =>
        intro common l h
        simp only [decodeLines] at h
        cases hd : decodeHeader (headerLine kv) with
        | error e => simp [hd] at h
        | ok p =>
          simp only [hd] at h
          cases ht : decodeLines t with
          | none => simp [ht] at h
          | some ps =>
            simp only [ht, Option.some.injEq] at h
            subst h
            obtain ⟨k, v⟩ := p
            simp [readHeaderLines, hd, ih _ _ ht, commonOf]
    have hsplit : ∀ (a b : List (Str × Str)) (l : List (Str × Str)), decodeLines (a ++ b) = some l →
        ∃ la lb, decodeLines a = some la ∧ decodeLines b = some lb ∧ l = la ++ lb := by
      intro a
      induction a with
      | nil => intro b l h; exact ⟨[], l, rfl, by simpa using h, rfl⟩
      | cons kv t ih =>
        intro b l h
        simp only [List.cons_append, decodeLines] at h ⊢
        cases hd : decodeHeader (headerLine kv) with
        | error e => simp [hd] at h
        | ok p =>
          simp only [hd] at h ⊢
          cases ht : decodeLines (t ++ b) with
          | none => simp [ht] at h
          | some ps =>
            simp only [ht, Option.some.injEq] at h
            obtain ⟨la, lb, h1, h2, h3⟩ := ih b ps ht
            exact ⟨p :: la, lb, by simp [h1], h2, by rw [← h, h3]; rfl⟩
    intro pre
    induction pre with
    | nil =>
      intro common ls wcm hdec
      simp only [List.nil_append, List.flatMap_cons, List.flatMap_nil, List.append_nil] at hdec
      simp only [List.nil_append, scanUri, hread _ common ls hdec, List.length_nil]
      have wm := WF_mergeUri _ _ (WF_foldl_hset common wcm ls) wc
      obtain ⟨r, hr⟩ := enrich_no_panic (newRequest (if post then POST else GET) it.ent.uri
        (if post then it.ent.body else [])) _ wm.nonempty
      simp only [buildAmmo] at hr ⊢
      simp [hr]
    | cons p pre' ih =>
      intro common ls wcm hdec
      simp only [List.cons_append, List.flatMap_cons] at hdec
      obtain ⟨la, lb, h1, h2, h3⟩ := hsplit _ _ _ hdec
      simp only [List.cons_append, scanUri, hread _ common la h1, List.length_cons]
      have wcm' := WF_foldl_hset common wcm la
      have wm := WF_mergeUri _ _ wcm' wc
      obtain ⟨r, hr⟩ := enrich_no_panic (newRequest (if post then POST else GET) p.ent.uri
        (if post then p.ent.body else [])) _ wm.nonempty
      simp only [buildAmmo] at hr ⊢
      simp only [hr, List.getElem?_cons_succ]
      rw [ih _ lb wcm' h2, h3]
      simp [commonOf, List.foldl_append, buildAmmo]
  rw [key pre [] ls WF_nil hdec]
  cases post <;> simp [buildReq]

/-- **Connections, the one-line model.** With keep-alive and one client per instance the target sees at most
`inst` connections however many requests arrive; without keep-alive exactly one per arrived request. -/
theorem C09_connections (inst : Nat) (arrived : List Bool) :
    connsOf true inst arrived ≤ inst ∧ connsOf false inst arrived = countTrue arrived := by
  refine ⟨?_, by simp [connsOf]⟩
  simp only [connsOf, if_true]
  exact Nat.le_trans (List.length_filter_le _ _) (by simp)

/-! ### the unrepaired tree -/

/-- precedence for the uri format stated for an arbitrary merge function -/
def C09_uri_precedence_statement (merge : Hdr → Hdr → Hdr) : Prop :=
  ∀ (conf lines : List (Str × Str)) (e : Entry) (n : Str) (r : Req), n ≠ hostKey →
    buildAmmo GET e.uri [] (merge (commonOf [] lines) (confHdr conf)) = some r →
    hget r.header n = expHeader .uri conf lines n

/-- the repaired merge satisfies it (this is `C09_precedence` for `.uri`) -/
theorem C09_uri_precedence_repaired : C09_uri_precedence_statement mergeUri := by
  intro conf lines e n r hn h
  exact header_of_buildReq .uri conf lines e r (by simpa [buildReq] using h) n hn

/-- "X-A" -/
private def xa : Str := [88, 45, 65]
/-- "file" / "conf" -/
private def vFile : Str := [102, 105, 108, 101]
private def vConf : Str := [99, 111, 110, 102]
/-- "/" -/
private def slash : Entry := { method := [], uri := [47], host := [], body := [] }

/-- the merge of the unrepaired tree (`header.Set(k, v)` of every configured value over the file's headers) does
NOT: `[X-A: file]` in the file and `headers: ["[X-A: conf]"]` send `X-A: conf`. -/
theorem C09_unrepaired_uri_counterexample : ¬ C09_uri_precedence_statement mergeUriOld := by
  intro h
  have := h [(xa, vConf)] [(xa, vFile)] slash xa
    { method := GET, uri := [47], host := [], header := [(xa, [vConf])], body := [] } (by decide) (by decide)
  revert this
  decide

/-! ### non-vacuity -/

/-- precedence with a collision in another case, a duplicate in the option, and Host from the file -/
example :
    ∃ r, buildReq .uripost (confHdr [([120, 45, 97], vConf), (xa, vConf), (hostKey, vConf)])
        [(xa, vFile), (hostKey, vFile)] slash = some r ∧
      hget r.header xa = some [vFile] ∧ r.host = vFile := by decide

/-- a configured header the entry does not define arrives with all its values, in order -/
example :
    ∃ r, buildReq .uri (confHdr [([120, 45, 97], vConf), (xa, vFile)]) [] slash = some r ∧
      hget r.header xa = some [vConf, vFile] := by decide

/-- raw: field lines accumulate, configured value ignored; no Host anywhere → the target's host -/
example :
    ∃ r, buildReq .raw (confHdr [(xa, vConf)]) [(xa, vFile), ([120, 45, 97], vFile)]
        { slash with method := GET } = some r ∧
      hget r.header xa = some [vFile, vFile] ∧
      (shoot { ssl := true, target := [104, 58, 56, 48], targetResolved := [49, 58, 56, 48] } r).host = [104] ∧
      (shoot { ssl := true, target := [104, 58, 56, 48], targetResolved := [49, 58, 56, 48] } r).scheme = .https := by
  decide

/-- `C09_uri_sequence` has instances: two entries, the second inherits the first's header line `[X-A:file]` -/
example : decodeLines (List.flatMap Item.hdrs
    ([Item.mk [(xa, vFile)] slash] ++ [Item.mk [] slash])) = some [(xa, vFile)] := by decide

/-- `C09_formats_agree_same_lines` hypotheses are satisfiable with a non-empty list -/
example : (∀ n, (valsOf [(xa, vFile), (hostKey, vConf)] n).length ≤ 1) := by
  intro n
  simp only [valsOf, List.filter_cons, List.filter_nil]
  repeat' split
  all_goals simp_all
  all_goals (rename_i h1 h2; rw [← h1] at h2; revert h2; decide)

end Pandora.Props.C09
