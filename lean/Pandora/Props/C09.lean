/-
C09 — HTTP wire fidelity: the request reaching the target equals ammo plus gun config.

Theorems about the model `Pandora.Model.C09` (decoder merge per format → BuildRequest/Enrich → BaseGun.Shoot) against the
declarative expectations of `Pandora.Spec.C09`, for ALL configured header lists, ALL in-file header lines (any
names, any case, duplicates, Host), ALL entries and all five file syntaxes (uri, uripost, jsonline, json array,
raw). Lists are unbounded; proofs are inductions over them (`Pandora.Proofs.C09`).

The uri/uripost merge is the REPAIRED one (fixes/C09-uri-header-precedence.diff); the code of the unrepaired tree
is `mergeUriOld`, for which `C09_unrepaired_uri_counterexample` shows the precedence theorem false.

net/http's serialisation, URL escaping, TLS and connection pooling are library behaviour: observed by the tie
(harness/cmd/c09 against `Pandora.Drv.C09`), not proved.
-/
import Pandora.Proofs.C09
import Pandora.Proofs.C09Conn
import Pandora.Proofs.C09Volley
import Pandora.Proofs.C09R6
import Pandora.Bridge.HttpWire

namespace Pandora.Props.C09
open Pandora.Model.C09 Pandora.Spec.C09 Pandora.Proofs.C09

/-- DecodeHeader over the rendered `[k:v]` lines of a uri/uripost file; `none` = some line is malformed -/
def decodeLines : List (Str × Str) → Option (List (Str × Str))
  | [] => some []
  | kv :: rest =>
    match decodeHeader (headerLine kv) with
    | .error _ => none
    | .ok p => match decodeLines rest with
      | some ps => some (p :: ps)
      | none => none

/-! ### the property theorems -/

/-- **Precedence, every format.** For every format, `headers` option list `conf` (decoded `[k: v]` pairs), header
lines `lines` in effect for the entry and entry `e`: BuildRequest succeeds (EnrichRequestWithHeaders never
indexes an empty slice), and on the request handed to the transport
* every header name `n` other than Host carries the ammo's value(s) when the ammo entry defines `n`, else the
  configured value(s), else nothing (`expHeader`; names compared after MIME canonicalisation);
* Host is the ammo's (URL host / `host` field / Host line) whenever the ammo gives a non-empty one;
* when the ammo gives no Host at all it is the configured Host, else the host of the gun's target. -/
theorem C09_precedence (f : Format) (conf lines : List (Str × Str)) (e : Entry) (g : Gun) :
    ∃ r, buildReq f (confHdr conf) lines e = some r ∧
      (∀ n, n ≠ hostKey → hget (shoot g r).header n = expHeader f conf (seenLines f lines) n) ∧
      (ammoHost f (seenLines f lines) e ≠ [] → (shoot g r).host = ammoHost f (seenLines f lines) e) ∧
      (ammoHasHost f (seenLines f lines) e = false →
        (shoot g r).host = confHost conf (hostWithoutPort g.target)) := by
  obtain ⟨r, hr⟩ := buildReq_total f conf lines e
  refine ⟨r, hr, fun n hn => header_of_buildReq f conf lines e r hr n hn, ?_, ?_⟩
  · intro ha
    have hh := host_of_buildReq f conf lines e r hr
    simp only [ammoHost] at ha ⊢
    simp only [shoot]
    by_cases hu : urlHost f e = []
    · simp only [hu, ne_eq, not_true_eq_false, if_false] at ha hh ⊢
      cases hf : fileHost f (seenLines f lines) with
      | none => simp [hf] at ha
      | some v =>
        simp only [hf, Option.getD_some] at ha hh ⊢
        have : r.host = v := by rw [hh]; simp [ha]
        simp [this, ha]
    · simp only [hu, ne_eq, not_false_eq_true, if_true] at hh ⊢
      simp [hh, hu]
  · intro hno
    have hh := host_of_buildReq f conf lines e r hr
    simp only [ammoHasHost, Bool.or_eq_false_iff, bne_eq_false_iff_eq, Option.isSome_eq_false_iff,
      Option.isNone_iff_eq_none] at hno
    simp only [hno.1, hno.2, ne_eq, not_true_eq_false, if_false] at hh
    simp only [shoot, confHost]
    cases hc : valsOf conf hostKey with
    | nil => simp [hc] at hh; simp [hh]
    | cons c cs =>
      simp only [hc] at hh
      by_cases hce : c = []
      · simp [hh, hce]
      · simp [hh, hce]

/-- the corner left open by `C09_precedence`: the ammo gives an EMPTY Host line. uri/uripost/jsonline then send the
target's host; raw falls back to the configured Host first. Either way Host is the configured one or the target's. -/
theorem C09_precedence_empty_host (f : Format) (conf lines : List (Str × Str)) (e : Entry) (g : Gun) (r : Req)
    (hr : buildReq f (confHdr conf) lines e = some r)
    (hno : ammoHost f (seenLines f lines) e = []) :
    (shoot g r).host = hostWithoutPort g.target ∨ (shoot g r).host = confHost conf (hostWithoutPort g.target) := by
  have hh := host_of_buildReq f conf lines e r hr
  simp only [ammoHost] at hno
  by_cases hu : urlHost f e = []
  · simp only [hu, ne_eq, not_true_eq_false, if_false] at hno hh
    simp only [shoot, confHost]
    cases hf : fileHost f (seenLines f lines) with
    | none =>
      simp only [hf] at hh
      cases hc : valsOf conf hostKey with
      | nil => simp [hc] at hh; simp [hh]
      | cons c cs => simp only [hc] at hh; by_cases hce : c = [] <;> simp [hh, hce]
    | some v =>
      simp only [hf, Option.getD_some] at hno hh
      subst hno
      by_cases hraw : f = .raw
      · simp only [hraw, not_true_eq_false, or_false, if_false] at hh
        cases hc : valsOf conf hostKey with
        | nil => simp [hc] at hh; simp [hh]
        | cons c cs => simp only [hc] at hh; by_cases hce : c = [] <;> simp [hh, hce]
      · simp [hraw] at hh; simp [hh]
  · simp [hu] at hno

/-- **Method, request-URI and body bytes are the entry's**, whatever the configured headers are: GET/POST for
uri/uripost, the entry's method token otherwise; the entry's URI as its format's parser reads it (`wireURI`:
`URL.RequestURI()`, which for an origin-form URI is the URI itself — `C09_origin_form_unchanged`); the body unchanged. -/
theorem C09_unchanged (f : Format) (conf : Hdr) (lines : List (Str × Str)) (e : Entry) (g : Gun) (r : Req)
    (h : buildReq f conf lines e = some r) :
    (shoot g r).method = methodOf f e ∧ (shoot g r).uri = wireURI f e ∧
      (shoot g r).body = bodyOf f e := by
  have hp : POST ≠ [] := by decide
  have hg : GET ≠ [] := by decide
  cases f <;> simp only [buildReq, buildAmmo] at h <;> have hf := enrich_fields _ _ _ h <;>
    simp [shoot, hf, newRequest, readRequest, readRequestWith, methodOf, urlOf, bodyOf, wireURI, viaOf, splitURL, hp, hg]

/-- an origin-form request target: one leading `/` (not `//`: that is a network-path reference whose first segment
is an authority for url.Parse) -/
def originForm (u : Str) : Prop := ∃ rest, u = 47 :: rest ∧ rest.head? ≠ some 47

/-- **An origin-form URI reaches the wire byte for byte** in every format (for http/json provided the `host` field
is a plain authority: no `/`, `?`, `#` in it), and it names no host of its own. -/
theorem C09_origin_form_unchanged (f : Format) (e : Entry) (ho : originForm e.uri)
    (hh : e.host.all (fun c => !isAuthEnd c) = true) :
    wireURI f e = e.uri ∧ (f ≠ .jsonline → f ≠ .jsonarr → urlHost f e = []) := by
  obtain ⟨rest, hu, hr⟩ := ho
  have h1 : stripPrefix? httpPfx (47 :: rest) = none := by simp [stripPrefix?, httpPfx]
  have h2 : stripPrefix? httpsPfx (47 :: rest) = none := by simp [stripPrefix?, httpsPfx]
  have plain : ∀ via, splitURLv via (47 :: rest) = ([], 47 :: rest) := by
    intro via
    simp only [splitURLv, h1, h2]
    cases rest with
    | nil => simp
    | cons c cs =>
      have hc : c ≠ 47 := by simpa using hr
      simp [hc]
  have json : splitURLv false (httpPfx ++ (e.host ++ 47 :: rest)) = (e.host, 47 :: rest) := by
    have hs : ∀ (p s : Str), stripPrefix? p (p ++ s) = some s := by
      intro p s; induction p with
      | nil => cases s <;> rfl
      | cons a t ih => simp [stripPrefix?, ih]
    have hpre : stripPrefix? httpPfx (httpPfx ++ (e.host ++ 47 :: rest)) = some (e.host ++ 47 :: rest) := hs _ _
    have htw : ∀ (h : Str), h.all (fun c => !isAuthEnd c) = true →
        (h ++ 47 :: rest).takeWhile (fun c => !isAuthEnd c) = h ∧
        (h ++ 47 :: rest).dropWhile (fun c => !isAuthEnd c) = 47 :: rest := by
      intro h
      induction h with
      | nil => intro _; simp [isAuthEnd]
      | cons a t ih =>
        intro ha
        simp only [List.all_cons, Bool.and_eq_true] at ha
        have := ih ha.2
        simp [ha.1, this]
    obtain ⟨t1, t2⟩ := htw e.host hh
    simp only [splitURLv, hpre, splitAuth, t1, t2]
  cases f <;> simp [wireURI, urlHost, urlOf, viaOf, hu, plain, json]

/-- **Target and scheme.** Whatever the entry says (absolute URI naming another host or scheme, any Host), the
transport is told to dial the gun's resolved target, with https iff `ssl`. -/
theorem C09_target (g : Gun) (r : Req) :
    (shoot g r).dial = g.targetResolved ∧ (shoot g r).scheme = (if g.ssl then Scheme.https else Scheme.http) :=
  ⟨rfl, rfl⟩

/-- **All formats merge alike.** Two entries in any two formats whose header lines define the same values
(name by name, as each format reads them) and that run under the same `headers` option reach the wire with the
same value(s) for every header; and with the same Host when they give the same non-empty Host or none at all. -/
theorem C09_formats_agree (f₁ f₂ : Format) (conf l₁ l₂ : List (Str × Str)) (e₁ e₂ : Entry) (g : Gun) (r₁ r₂ : Req)
    (h₁ : buildReq f₁ (confHdr conf) l₁ e₁ = some r₁) (h₂ : buildReq f₂ (confHdr conf) l₂ e₂ = some r₂)
    (hv : ∀ n, fileVals f₁ (seenLines f₁ l₁) n = fileVals f₂ (seenLines f₂ l₂) n) :
    (∀ n, n ≠ hostKey → hget (shoot g r₁).header n = hget (shoot g r₂).header n) ∧
    (ammoHost f₁ (seenLines f₁ l₁) e₁ = ammoHost f₂ (seenLines f₂ l₂) e₂ →
      ammoHasHost f₁ (seenLines f₁ l₁) e₁ = ammoHasHost f₂ (seenLines f₂ l₂) e₂ →
      (ammoHost f₁ (seenLines f₁ l₁) e₁ ≠ [] ∨ ammoHasHost f₁ (seenLines f₁ l₁) e₁ = false) →
      (shoot g r₁).host = (shoot g r₂).host) := by
  obtain ⟨r₁', hr₁, p₁, a₁, b₁⟩ := C09_precedence f₁ conf l₁ e₁ g
  obtain ⟨r₂', hr₂, p₂, a₂, b₂⟩ := C09_precedence f₂ conf l₂ e₂ g
  rw [h₁] at hr₁; rw [h₂] at hr₂
  cases hr₁; cases hr₂
  refine ⟨fun n hn => ?_, fun ha hs hc => ?_⟩
  · rw [p₁ n hn, p₂ n hn]; simp only [expHeader, hv n]
  · rcases hc with hc | hc
    · rw [a₁ hc, a₂ (ha ▸ hc), ha]
    · rw [b₁ hc, b₂ (hs ▸ hc)]

/-- the same lines with pairwise different names and values without surrounding blanks mean the same in every
format, so `C09_formats_agree` applies to one entry written in any two syntaxes -/
theorem C09_formats_agree_same_lines (f₁ f₂ : Format) (lines : List (Str × Str))
    (hd : ∀ n, (valsOf lines n).length ≤ 1) (ht : ∀ kv ∈ lines, trimHTTP kv.2 = kv.2) (n : Str) :
    fileVals f₁ (seenLines f₁ lines) n = fileVals f₂ (seenLines f₂ lines) n := by
  have hmap : (lines.map fun kv => (kv.1, trimHTTP kv.2)) = lines := by
    have : ∀ kv ∈ lines, (fun kv : Str × Str => (kv.1, trimHTTP kv.2)) kv = kv := fun kv hkv => by
      simp [ht kv hkv]
    simpa using List.map_congr_left this
  have hs : ∀ f, seenLines f lines = lines := fun f => by cases f <;> simp [seenLines, hmap]
  have hl : lastOf (valsOf lines n) = valsOf lines n := by
    have := hd n
    cases hv : valsOf lines n with
    | nil => rfl
    | cons v t =>
      cases t with
      | nil => rfl
      | cons w t' => rw [hv] at this; simp at this
  cases f₁ <;> cases f₂ <;> simp [fileVals, hs, hl]

/-- **uri/uripost: the header lines in effect are all `[k: v]` lines of the pass so far.** In a file
`pre ++ it :: rest` whose header lines up to and including `it`'s decode to `ls`, the request produced for `it`
(it has index `pre.length` in the pass) is `buildReq` of `ls`: headers persist across entries, later lines of a
name replace earlier ones, and nothing of an earlier REQUEST leaks into a later one. -/
theorem C09_uri_sequence (post : Bool) (conf : Hdr) (wc : WF conf) (pre : List Item) (it : Item) (rest : List Item)
    (ls : List (Str × Str)) (hdec : decodeLines ((pre ++ [it]).flatMap (·.hdrs)) = some ls) :
    (scanUri post conf [] (pre ++ it :: rest)).1[pre.length]? =
      buildReq (if post then .uripost else .uri) conf ls it.ent := by
  -- generalised over the common header accumulated before `pre`
  have key : ∀ (pre : List Item) (common : Hdr) (ls : List (Str × Str)), WF common →
      decodeLines ((pre ++ [it]).flatMap (·.hdrs)) = some ls →
      (scanUri post conf common (pre ++ it :: rest)).1[pre.length]? =
        buildAmmo (if post then POST else GET) it.ent.uri (if post then it.ent.body else [])
          (mergeUri (commonOf common ls) conf) := by
    have hread : ∀ (hs : List (Str × Str)) (common : Hdr) (l : List (Str × Str)), decodeLines hs = some l →
        readHeaderLines common hs = some (commonOf common l) := by
      intro hs
      induction hs with
      | nil => intro common l h; simp [decodeLines] at h; subst h; simp [readHeaderLines, commonOf]
      | cons kv t ih =>
        intro common l h
        simp only [decodeLines] at h
        cases hd : decodeHeader (headerLine kv) with
        | error e => simp [hd] at h
        | ok p =>
          simp only [hd] at h
          cases ht : decodeLines t with
          | none => simp [ht] at h
          | some ps =>
            simp only [ht, Option.some.injEq] at h
            subst h
            obtain ⟨k, v⟩ := p
            simp [readHeaderLines, hd, ih _ _ ht, commonOf]
    have hsplit : ∀ (a b : List (Str × Str)) (l : List (Str × Str)), decodeLines (a ++ b) = some l →
        ∃ la lb, decodeLines a = some la ∧ decodeLines b = some lb ∧ l = la ++ lb := by
      intro a
      induction a with
      | nil => intro b l h; exact ⟨[], l, rfl, by simpa using h, rfl⟩
      | cons kv t ih =>
        intro b l h
        simp only [List.cons_append, decodeLines] at h ⊢
        cases hd : decodeHeader (headerLine kv) with
        | error e => simp [hd] at h
        | ok p =>
          simp only [hd] at h ⊢
          cases ht : decodeLines (t ++ b) with
          | none => simp [ht] at h
          | some ps =>
            simp only [ht, Option.some.injEq] at h
            obtain ⟨la, lb, h1, h2, h3⟩ := ih b ps ht
            exact ⟨p :: la, lb, by simp [h1], h2, by rw [← h, h3]; rfl⟩
    intro pre
    induction pre with
    | nil =>
      intro common ls wcm hdec
      simp only [List.nil_append, List.flatMap_cons, List.flatMap_nil, List.append_nil] at hdec
      simp only [List.nil_append, scanUri, hread _ common ls hdec, List.length_nil]
      have wm := WF_mergeUri _ _ (WF_foldl_hset common wcm ls) wc
      obtain ⟨r, hr⟩ := enrich_no_panic (newRequest (if post then POST else GET) it.ent.uri
        (if post then it.ent.body else [])) _ wm.nonempty
      simp only [buildAmmo] at hr ⊢
      simp [hr]
    | cons p pre' ih =>
      intro common ls wcm hdec
      simp only [List.cons_append, List.flatMap_cons] at hdec
      obtain ⟨la, lb, h1, h2, h3⟩ := hsplit _ _ _ hdec
      simp only [List.cons_append, scanUri, hread _ common la h1, List.length_cons]
      have wcm' := WF_foldl_hset common wcm la
      have wm := WF_mergeUri _ _ wcm' wc
      obtain ⟨r, hr⟩ := enrich_no_panic (newRequest (if post then POST else GET) p.ent.uri
        (if post then p.ent.body else [])) _ wm.nonempty
      simp only [buildAmmo] at hr ⊢
      simp only [hr, List.getElem?_cons_succ]
      rw [ih _ lb wcm' h2, h3]
      simp [commonOf, List.foldl_append, buildAmmo]
  rw [key pre [] ls WF_nil hdec]
  cases post <;> simp [buildReq]

/-- **The target of every gun plugin.** For the http, http2 and connect plugins alike (import.go): the address the
transport dials is the configured target itself or the address the reachability lookup found FOR that target; the
scheme is https iff `ssl`; and the default Host header is the host of the CONFIGURED target (not of the resolved
address), used exactly when the request has none. -/
theorem C09_target_all_guns (k : GunKind) (ssl dnsCache isResolved : Bool) (l : Lookup) (target : Str) (r : Req) :
    let g := factory k ssl dnsCache isResolved l target
    ((shoot g r).dial = target ∨ l = .found (shoot g r).dial) ∧
    (shoot g r).scheme = (if ssl then Scheme.https else Scheme.http) ∧
    (shoot g r).host = (if r.host = [] then hostWithoutPort target else r.host) := by
  refine ⟨?_, rfl, rfl⟩
  simp only [shoot, factory, preResolve]
  cases dnsCache <;> cases isResolved <;> cases l <;> simp

/-- **connect plugin: the tunnel.** The TCP connection of every tunnel and the authority of its `CONNECT` request are the
same address: the configured target, or the address the reachability lookup found for it (an address, if found, is not
empty). -/
theorem C09_connect_tunnel (ssl dnsCache isResolved : Bool) (l : Lookup) (target : Str) (r : Req)
    (hl : l ≠ .found []) :
    let g := factory .connect ssl dnsCache isResolved l target
    let t := connectTunnel g (shoot g r)
    t.tcp = t.authority ∧ (t.tcp = target ∨ l = .found t.tcp) := by
  simp only [connectTunnel, shoot, factory, preResolve]
  cases dnsCache <;> cases isResolved <;> cases l with
  | fails => simp
  | found a =>
    have ha : a ≠ [] := fun e => hl (by rw [e])
    by_cases ht : target = [] <;> simp [ha, ht]

/-- the http2 plugin refuses to be built without ssl, so whatever an http2 gun sends goes over TLS -/
theorem C09_http2_needs_ssl (ssl : Bool) (h : constructible .http2 ssl = true) : ssl = true := by
  simpa [constructible] using h

/-- the connect plugin of the UNREPAIRED tree overwrote `Target` with the resolved address: with a named target the
default Host was the resolved IP (fixes/C09-connect-gun-host.diff) -/
theorem C09_unrepaired_connect_counterexample :
    ¬ ∀ (ssl : Bool) (l : Lookup) (target : Str) (r : Req),
      (shoot (factoryOld .connect ssl true false l target) r).host =
        (if r.host = [] then hostWithoutPort target else r.host) := by
  intro h
  -- target "localhost:80", found "127.0.0.1:80"
  have := h false (.found [49, 50, 55, 46, 48, 46, 48, 46, 49, 58, 56, 48])
    [108, 111, 99, 97, 108, 104, 111, 115, 116, 58, 56, 48]
    { method := GET, uri := [47], host := [], header := [], body := [] }
  revert this
  decide

/-! ### connections -/

/-- **Keep-alive, the bound of the property.** `inst` guns, each with its own transport, each shooting one request
at a time; the flights `fs` in ANY order of sending (any interleaving of the instances); keep-alives enabled and no
request asking to close: the target sees at most `inst` connections — exactly one per gun that got a request through. -/
theorem C09_connections_keepalive (inst : Nat) (fs : List Flight) (hg : ∀ f ∈ fs, f.gun < inst)
    (hc : ∀ f ∈ fs, f.close = false) :
    connRun true inst fs ≤ inst := by
  have h := connRunFrom_keepalive (List.replicate inst false, 0) fs (by simpa using hg)
  have hlen := connRunFrom_length true (List.replicate inst false, 0) fs
  have hcl := countClosing_zero fs hc
  have hle := count_le_length (connRunFrom true (List.replicate inst false, 0) fs).1
  simp only [connRun]
  simp only [count_true_replicate_false, List.length_replicate] at h hlen
  omega

/-- with requests that ask to close (`Connection: close` given by the ammo or the option) every such request costs at
most one more connection -/
theorem C09_connections_close_bound (inst : Nat) (fs : List Flight) (hg : ∀ f ∈ fs, f.gun < inst) :
    connRun true inst fs ≤ inst + countClosing fs := by
  have h := connRunFrom_keepalive (List.replicate inst false, 0) fs (by simpa using hg)
  have hlen := connRunFrom_length true (List.replicate inst false, 0) fs
  have hle := count_le_length (connRunFrom true (List.replicate inst false, 0) fs).1
  simp only [connRun]
  simp only [count_true_replicate_false, List.length_replicate] at h hlen
  omega

/-- **Keep-alives disabled: one connection per request that arrives**, whatever the schedule. -/
theorem C09_connections_no_keepalive (inst : Nat) (fs : List Flight) :
    connRun false inst fs = countArrived fs := by
  have := (connRunFrom_no_keepalive (List.replicate inst false, 0) fs (count_true_replicate_false inst)).1
  simpa [connRun] using this

/-- **The count does not depend on the interleaving of the instances**: it is the sum over the guns of what each gun's
own sequence of requests costs (`gunConns`, a one-connection pool). Two sending orders with the same per-gun
subsequences give the same number of connections — so the sequential driver speaks for every interleaving. -/
theorem C09_connections_per_gun (ka : Bool) (inst : Nat) (fs : List Flight) (hg : ∀ f ∈ fs, f.gun < inst) :
    connRun ka inst fs = sumRange inst (fun g => gunConns ka false (flightsOf g fs)) := by
  have := connRunFrom_decompose ka (List.replicate inst false, 0) fs (by simpa using hg)
  simp only [connRun, this, List.length_replicate, Nat.zero_add]
  apply sumRange_congr
  intro i _
  rw [getD_replicate_false]

theorem C09_connections_interleaving (ka : Bool) (inst : Nat) (fs₁ fs₂ : List Flight)
    (h₁ : ∀ f ∈ fs₁, f.gun < inst) (h₂ : ∀ f ∈ fs₂, f.gun < inst)
    (hsame : ∀ g, flightsOf g fs₁ = flightsOf g fs₂) :
    connRun ka inst fs₁ = connRun ka inst fs₂ := by
  rw [C09_connections_per_gun ka inst fs₁ h₁, C09_connections_per_gun ka inst fs₂ h₂]
  apply sumRange_congr
  intro g _
  rw [hsame g]

/-- **Who asks to close.** In every format (raw with an HTTP/1.0 or 1.1 request line alike): a request whose ammo entry
and `headers` option define no `Connection` header does not ask the transport to close its connection — these are the
flights with `close = false` that `C09_connections_keepalive` speaks about. -/
theorem C09_no_connection_header_no_close (f : Format) (conf lines : List (Str × Str)) (e : Entry) (g : Gun) (r : Req)
    (h : buildReq f (confHdr conf) lines e = some r)
    (hn : expHeader f conf (seenLines f lines) connKey = none) :
    (shoot g r).close = false :=
  close_of_buildReq f conf lines e r h hn

/-- the keep-alive bound for shots: guns `< inst`, shots built from entries that say nothing about `Connection`, any
sending order, any subset arriving -/
theorem C09_connections_of_shots (inst : Nat) (shots : List (Nat × Shot)) (arrived : Shot → Bool)
    (hg : ∀ p ∈ shots, p.1 < inst) (hc : ∀ p ∈ shots, p.2.close = false) :
    connRun true inst (shots.map fun p => ⟨p.1, arrived p.2, p.2.close⟩) ≤ inst := by
  apply C09_connections_keepalive
  · intro f hf
    obtain ⟨p, hp, rfl⟩ := List.mem_map.mp hf
    exact hg p hp
  · intro f hf
    obtain ⟨p, hp, rfl⟩ := List.mem_map.mp hf
    exact hc p hp

/-- an instance on its own: with keep-alive and no request asking to close, all its requests share one connection -/
theorem C09_one_connection_per_instance (fs : List Flight) (hc : ∀ f ∈ fs, f.close = false) :
    gunConns true false fs ≤ 1 := (gunConns_keepalive_le_one false fs hc).1

/-! ### connections and time: the transport's timeouts (round 2) -/

/-- **Refinement.** With the gun's transport `t`, as long as no instance pauses as long as the idle timeout and no answer
takes as long as the response-header timeout, the timed pool is the untimed one with keep-alive = `keeps t`: all the
theorems above speak about it. -/
theorem C09_connections_timed_refines (t : Transport) (inst : Nat) (fs : List TFlight)
    (hq : ∀ f ∈ fs, idleExpired t f.pause = false ∧ responseLost t f.delay = false) :
    tconnRun t inst fs = connRun (keeps t) inst (fs.map TFlight.untimed) := by
  simp only [tconnRun, connRun, tconnRunFrom_quiet t _ fs hq]

/-- **Keep-alive over time.** A transport that keeps connections, `inst` instances in any interleaving, no request asking
to close, every pause of an instance shorter than the idle timeout, every answer in time: at most `inst` connections. -/
theorem C09_connections_timed_keepalive (t : Transport) (inst : Nat) (fs : List TFlight) (hk : keeps t = true)
    (hg : ∀ f ∈ fs, f.gun < inst) (hc : ∀ f ∈ fs, f.close = false)
    (hq : ∀ f ∈ fs, idleExpired t f.pause = false ∧ responseLost t f.delay = false) :
    tconnRun t inst fs ≤ inst := by
  rw [C09_connections_timed_refines t inst fs hq, hk]
  apply C09_connections_keepalive
  · intro f hf
    obtain ⟨g, hg', rfl⟩ := List.mem_map.mp hf
    exact hg g hg'
  · intro f hf
    obtain ⟨g, hg', rfl⟩ := List.mem_map.mp hf
    exact hc g hg'

/-- in general every connection beyond one per instance is paid for by a request that asked to close, a pause that
outlasted the idle timeout, or an answer lost to the response-header timeout -/
theorem C09_connections_timed_bound (t : Transport) (inst : Nat) (fs : List TFlight) (hk : keeps t = true)
    (hg : ∀ f ∈ fs, f.gun < inst) :
    tconnRun t inst fs ≤ inst + countClosing (fs.map TFlight.untimed) + countExpired t fs + countLost t fs := by
  have h := tconnRunFrom_bound t (List.replicate inst false, 0) fs (by simpa using hg) hk
  have hlen := tconnRunFrom_length t (List.replicate inst false, 0) fs
  have hle := count_le_length (tconnRunFrom t (List.replicate inst false, 0) fs).1
  simp only [tconnRun]
  simp only [count_true_replicate_false, List.length_replicate] at h hlen
  omega

/-- **Which options have a say.** Two configurations that agree on `disable-keep-alives`, `max-idle-conns`,
`max-idle-conns-per-host`, `idle-conn-timeout` and `response-header-timeout` give the same number of connections for
every run: `tls-handshake-timeout`, `expect-continue-timeout` and `disable-compression` do not decide about reuse
(NewTransport hands every option to the transport field of its own name: `Bridge.HttpWire.newTransport_eq`). -/
theorem C09_reuse_options_only (c c' : TransportCfg) (inst : Nat) (fs : List TFlight)
    (h1 : c.disableKeepAlives = c'.disableKeepAlives) (h2 : c.maxIdleConns = c'.maxIdleConns)
    (h3 : c.maxIdleConnsPerHost = c'.maxIdleConnsPerHost) (h4 : c.idleConnTimeout = c'.idleConnTimeout)
    (h5 : c.responseHeaderTimeout = c'.responseHeaderTimeout) :
    tconnRun (newTransport c) inst fs = tconnRun (newTransport c') inst fs := by
  have hs : tconnStep (newTransport c) = tconnStep (newTransport c') := by
    funext st f
    simp only [tconnStep, keeps, idleExpired, responseLost, newTransport, h1, h2, h3, h4, h5]
    rfl
  simp only [tconnRun, tconnRunFrom, hs]

/-- pandora's default transport options with the three options that have no say about reuse set to anything -/
def defaultsWith (hs ect : Int) (dc : Bool) : TransportCfg :=
  { defaultTransportCfg with tlsHandshakeTimeout := hs, expectContinueTimeout := ect, disableCompression := dc }

/-- **The defaults keep the property's promise, whatever the handshake timeout.** With pandora's default keep-alive
options (`DefaultTransportConfig`: keep-alives on, no idle limits, idle connections live 90 s, no response-header
timeout) and ANY `tls-handshake-timeout` / `expect-continue-timeout` / `disable-compression`: instances that pause less
than 90 s between their requests, none of which asks to close, share one connection each — for every interleaving,
however slowly the target answers. -/
theorem C09_default_transport_reuses (hs ect : Int) (dc : Bool) (inst : Nat) (fs : List TFlight)
    (hg : ∀ f ∈ fs, f.gun < inst) (hc : ∀ f ∈ fs, f.close = false) (hp : ∀ f ∈ fs, (f.pause : Int) < 90 * sec) :
    tconnRun (newTransport (defaultsWith hs ect dc)) inst fs ≤ inst := by
  apply C09_connections_timed_keepalive _ inst fs (by simp [keeps, newTransport, defaultsWith, defaultTransportCfg]) hg hc
  intro f hf
  have := hp f hf
  refine ⟨?_, by simp [responseLost, newTransport, defaultsWith, defaultTransportCfg]⟩
  simp only [idleExpired, newTransport, defaultsWith, defaultTransportCfg, sec] at this ⊢
  have h2 : ¬ ((90000000000 : Int) ≤ (f.pause : Int)) := by omega
  simp [h2]

/-- the same through the option decoding: a gun section that sets `tls-handshake-timeout` only -/
theorem C09_handshake_option_reuses (v : Int) (inst : Nat) (fs : List TFlight)
    (hg : ∀ f ∈ fs, f.gun < inst) (hc : ∀ f ∈ fs, f.close = false) (hp : ∀ f ∈ fs, (f.pause : Int) < 90 * sec) :
    tconnRun (transportOf [("tls-handshake-timeout", v)]) inst fs ≤ inst := by
  have : transportOf [("tls-handshake-timeout", v)] = newTransport (defaultsWith v (1 * sec) true) := by
    simp [transportOf, setTransportOpt, transportTags, defaultTransportCfg, defaultsWith]
  rw [this]
  exact C09_default_transport_reuses v (1 * sec) true inst fs hg hc hp

/-- the gun section that gives exactly the options of `ro` -/
def optsOf (ro : ReuseOpts) : List TransportOpt :=
  (match ro.idle with | some v => [("idle-conn-timeout", v)] | none => []) ++
  (match ro.rht with | some v => [("response-header-timeout", v)] | none => []) ++
  (match ro.mic with | some v => [("max-idle-conns", v)] | none => []) ++
  (match ro.mich with | some v => [("max-idle-conns-per-host", v)] | none => [])

/-- the transport of `optsOf ro`, field by field: the given value, else pandora's default -/
theorem C09_transportOf_optsOf (ro : ReuseOpts) :
    (transportOf (optsOf ro)).idleConnTimeout = ro.idle.getD (90 * sec) ∧
    (transportOf (optsOf ro)).responseHeaderTimeout = ro.rht.getD 0 ∧
    (transportOf (optsOf ro)).maxIdleConns = ro.mic.getD 0 ∧
    (transportOf (optsOf ro)).maxIdleConnsPerHost = ro.mich.getD 0 ∧
    (transportOf (optsOf ro)).disableKeepAlives = false := by
  obtain ⟨idle, rht, mic, mich⟩ := ro
  cases idle <;> cases rht <;> cases mic <;> cases mich <;>
    simp [transportOf, optsOf, setTransportOpt, transportTags, newTransport, defaultTransportCfg]

/-- **The Spec's reading of the documentation is the code's behaviour.** `reuseExpected` (Spec: the options as given, the
documented default of 90 s for `idle-conn-timeout`, "zero means no limit") holds for the pauses and delays of a run ⇒ the
transport pandora builds from these options keeps connections, none expires and no answer is lost, so `inst` instances
that do not ask to close see at most `inst` connections. Whenever the Spec judges the keep-alive bound, the model meets it. -/
theorem C09_reuse_expected_sound (ro : ReuseOpts) (mp md inst : Nat) (fs : List TFlight)
    (h : reuseExpected ro mp md = true) (hg : ∀ f ∈ fs, f.gun < inst) (hc : ∀ f ∈ fs, f.close = false)
    (hp : ∀ f ∈ fs, f.pause ≤ mp ∧ f.delay ≤ md) :
    tconnRun (transportOf (optsOf ro)) inst fs ≤ inst := by
  obtain ⟨t1, t2, t3, t4, t5⟩ := C09_transportOf_optsOf ro
  simp only [reuseExpected, docIdleConnTimeout, Bool.and_eq_true, Bool.or_eq_true] at h
  obtain ⟨⟨⟨h1, h2⟩, h3⟩, h4⟩ := h
  have hk : keeps (transportOf (optsOf ro)) = true := by
    simp only [keeps, t3, t4, t5, Bool.not_false, Bool.true_and, Bool.and_eq_true, decide_eq_true_eq]
    constructor
    · cases hm : ro.mich with
      | none => simp
      | some v => simpa [hm] using h4
    · cases hm : ro.mic with
      | none => simp
      | some v => simpa [hm] using h3
  apply C09_connections_timed_keepalive _ inst fs hk hg hc
  intro f hf
  obtain ⟨hp1, hp2⟩ := hp f hf
  constructor
  · simp only [idleExpired, t1, sec, Bool.and_eq_false_iff, decide_eq_false_iff_not, Int.reduceMul]
    simp only [Int.reduceMul] at h1
    have : (f.pause : Int) ≤ (mp : Int) := by exact_mod_cast hp1
    rcases h1 with h1 | h1
    · left; have := of_decide_eq_true h1; omega
    · right; have := of_decide_eq_true h1; omega
  · simp only [responseLost, t2, Bool.and_eq_false_iff, decide_eq_false_iff_not]
    have : (f.delay : Int) ≤ (md : Int) := by exact_mod_cast hp2
    cases hr : ro.rht with
    | none => left; simp
    | some v =>
      simp only [hr, Bool.or_eq_true, decide_eq_true_eq] at h2
      simp only [Option.getD_some]
      rcases h2 with h2 | h2
      · left; omega
      · right; omega

/-- an idle timeout below the pauses is the operator's own demand: a lone instance that pauses at least that long before
every request dials for each of them -/
theorem C09_idle_timeout_expires (t : Transport) (fs : List TFlight) (hg : ∀ f ∈ fs, f.gun = 0)
    (ha : ∀ f ∈ fs, f.arrived = true) (he : ∀ f ∈ fs, idleExpired t f.pause = true) :
    tconnRun t 1 fs = fs.length := by
  have key : ∀ (st : List Bool × Nat), st.1.length = 1 → (tconnRunFrom t st fs).2 = st.2 + fs.length := by
    induction fs with
    | nil => intro st _; rfl
    | cons f fs ih =>
      intro st hl
      rw [tconnRunFrom_cons, ih (fun f' h' => hg f' (List.mem_cons_of_mem _ h'))
        (fun f' h' => ha f' (List.mem_cons_of_mem _ h')) (fun f' h' => he f' (List.mem_cons_of_mem _ h'))
        _ (by rw [tconnStep_length]; exact hl)]
      simp only [tconnStep, ha f List.mem_cons_self, he f List.mem_cons_self, Bool.not_true, Bool.false_eq_true,
        if_false, Bool.and_false, List.length_cons]
      omega
  simpa [tconnRun] using key (List.replicate 1 false, 0) (by simp)

/-! ### absolute-form request targets -/

/-- **An absolute URI `http(s)://authority/path` reaches the wire as `/path` with Host `authority`** in the uri,
uripost and raw formats (the authority being a plain one: no `/`, `?`, `#`; the path starting with `/`): the
request-URI on the wire is the path-and-query of the entry byte for byte, and the connection still goes to the gun's
target (`C09_target`). -/
theorem C09_absolute_form (f : Format) (e : Entry) (https : Bool) (auth path : Str)
    (hf : f = .uri ∨ f = .uripost ∨ f = .raw)
    (hu : e.uri = (if https then httpsPfx else httpPfx) ++ auth ++ 47 :: path)
    (ha : auth.all (fun c => !isAuthEnd c) = true) :
    wireURI f e = 47 :: path ∧ urlHost f e = auth := by
  have hs : ∀ (p s : Str), stripPrefix? p (p ++ s) = some s := by
    intro p s; induction p with
    | nil => cases s <;> rfl
    | cons a t ih => simp [stripPrefix?, ih]
  have htw : ∀ (h : Str), h.all (fun c => !isAuthEnd c) = true →
      (h ++ 47 :: path).takeWhile (fun c => !isAuthEnd c) = h ∧
      (h ++ 47 :: path).dropWhile (fun c => !isAuthEnd c) = 47 :: path := by
    intro h
    induction h with
    | nil => intro _; simp [isAuthEnd]
    | cons a t ih =>
      intro hh
      simp only [List.all_cons, Bool.and_eq_true] at hh
      have := ih hh.2
      simp [hh.1, this]
  obtain ⟨t1, t2⟩ := htw auth ha
  have hsplit : ∀ via, splitURLv via e.uri = (auth, 47 :: path) := by
    intro via
    rw [hu]
    cases https with
    | false =>
      have hp : stripPrefix? httpPfx (httpPfx ++ auth ++ 47 :: path) = some (auth ++ 47 :: path) := by
        rw [List.append_assoc]; exact hs _ _
      simp only [Bool.false_eq_true, if_false, splitURLv, hp, splitAuth, t1, t2]
    | true =>
      have hn : stripPrefix? httpPfx (httpsPfx ++ auth ++ 47 :: path) = none := by
        simp [stripPrefix?, httpPfx, httpsPfx]
      have hp : stripPrefix? httpsPfx (httpsPfx ++ auth ++ 47 :: path) = some (auth ++ 47 :: path) := by
        rw [List.append_assoc]; exact hs _ _
      simp only [if_true, splitURLv, hn, hp, splitAuth, t1, t2]
  rcases hf with rfl | rfl | rfl <;> simp [wireURI, urlHost, urlOf, viaOf, hsplit]

/-! ### raw entries: the version in the request line does not decide about connections -/

/-- **raw, HTTP/1.0 or 1.1 alike** (repaired, fixes/C09-raw-http10-keepalive.diff): the request a raw entry becomes is
the same for both versions — in particular it asks to close iff the entry has an explicit `Connection: close`. -/
theorem C09_raw_version_irrelevant (method target : Str) (lines : List (Str × Str)) (body : Str) :
    readRequest 0 method target lines body = readRequest 1 method target lines body := by
  simp [readRequest, readRequestWith, decodeClose, goShouldClose]

/-- the unrepaired tree: http.ReadRequest marked an HTTP/1.0 request "close" — a raw entry `GET / HTTP/1.0` without
any Connection header cost one connection per request although keep-alives were enabled -/
theorem C09_unrepaired_raw10_counterexample :
    ¬ ∀ (minor : Nat) (conn : List Str), hasTok conn closeTok = false → decodeCloseOld minor conn = false := by
  intro h
  have := h 0 [] (by decide)
  revert this
  decide

/-! ### preload -/

/-- **`preload: true` delivers what scanning delivers**: when a pass over the file decodes, the preloaded provider
hands out exactly the requests the scanning provider does, pass after pass. -/
theorem C09_preload_same_requests (f : Format) (conf : Hdr) (items : List Item) (passes : Nat) (rs : List Req)
    (hok : scanPass f conf items = (rs, .ok)) :
    provide true f conf items passes = provide false f conf items passes := by
  simp only [provide, hok, if_true, Bool.false_eq_true, if_false]
  induction passes with
  | zero => simp [scanAll]
  | succ n ih =>
    simp only [scanAll, hok, List.replicate_succ, List.flatten_cons]
    rw [← ih]

/-! ### entries of the http/json and raw formats do not influence each other -/

/-- **http/json: the request of an entry depends on that entry (and the option) only.** -/
theorem C09_json_sequence (conf : Hdr) (wc : WF conf) (pre : List Item) (it : Item) (rest : List Item)
    (hm : ∀ x ∈ pre ++ [it], validMethod x.ent.method = true) :
    (scanJson conf (pre ++ it :: rest)).1[pre.length]? = buildReq .jsonline conf it.hdrs it.ent := by
  induction pre with
  | nil =>
    have hv : validMethod it.ent.method = true := hm it (by simp)
    obtain ⟨r, hr⟩ := enrich_no_panic (newRequest it.ent.method (httpPfx ++ (it.ent.host ++ it.ent.uri)) it.ent.body)
      (mergeJson conf it.hdrs) (by rw [mergeJson_eq]; exact (WF_foldl_hset _ wc it.hdrs).nonempty)
    simp [scanJson, hv, buildReq, buildAmmo, hr]
  | cons p pre' ih =>
    have hv : validMethod p.ent.method = true := hm p (by simp)
    obtain ⟨r, hr⟩ := enrich_no_panic (newRequest p.ent.method (httpPfx ++ p.ent.host ++ p.ent.uri) p.ent.body)
      (mergeJson conf p.hdrs) (by rw [mergeJson_eq]; exact (WF_foldl_hset _ wc p.hdrs).nonempty)
    have := ih (fun x hx => hm x (by simp at hx ⊢; rcases hx with hx | hx; exact Or.inr (Or.inl hx); exact Or.inr (Or.inr hx)))
    simp only [List.cons_append, scanJson, hv, Bool.not_true, Bool.false_eq_true, if_false, buildAmmo, hr,
      List.length_cons, List.getElem?_cons_succ]
    exact this

/-- **raw: the request of an entry depends on that entry (and the option) only.** -/
theorem C09_raw_sequence (conf : Hdr) (wc : WF conf) (pre : List Item) (it : Item) (rest : List Item) :
    (scanRaw conf (pre ++ it :: rest)).1[pre.length]? = buildReq .raw conf it.hdrs it.ent := by
  induction pre with
  | nil =>
    obtain ⟨r, hr⟩ := enrich_no_panic (readRequest it.ent.minor it.ent.method it.ent.uri it.hdrs it.ent.body) conf wc.nonempty
    simp [scanRaw, buildReq, hr]
  | cons p pre' ih =>
    obtain ⟨r, hr⟩ := enrich_no_panic (readRequest p.ent.minor p.ent.method p.ent.uri p.hdrs p.ent.body) conf wc.nonempty
    simp only [List.cons_append, scanRaw, hr, List.length_cons, List.getElem?_cons_succ]
    exact ih

/-! ### round 3: shared clients, the provider's limit, redirects, the body under the gun's optional features -/

/-- **Shared clients** (`shared-client`, outside the property's "per-instance clients"): `inst` guns bound to a pool of
`clients` shared transports (the k-th gun takes client `(k+1) % clients`, one client when the number is below one), requests sent
ONE AT A TIME in any order, keep-alive, nobody asking to close: sharing never costs a connection compared with per-instance
clients, so the target sees at most as many connections as there are clients and at most as many as there are instances. -/
theorem C09_shared_client_connections (clients inst : Nat) (fs : List Flight) (hg : ∀ f ∈ fs, f.gun < inst)
    (hc : ∀ f ∈ fs, f.close = false) :
    connRun true (max clients 1) (fs.map (viaShared clients)) ≤ connRun true inst fs ∧
    connRun true (max clients 1) (fs.map (viaShared clients)) ≤ min (max clients 1) inst := by
  have hpos : 0 < max clients 1 := by omega
  have h1 : connRun true (max clients 1) (fs.map (viaShared clients)) ≤ connRun true inst fs := by
    have := connRunFrom_merge (clientOf clients) (List.replicate inst false, 0) (List.replicate (max clients 1) false, 0) fs
      (by simpa using hg)
      (by intro f _; simp only [List.length_replicate, clientOf]; exact Nat.mod_lt _ hpos)
      hc
      (by intro g h; rw [getD_replicate_false] at h; exact absurd h (by decide))
      (Nat.le_refl _)
    have hmap : (fs.map fun f => ({ f with gun := clientOf clients f.gun } : Flight)) = fs.map (viaShared clients) := rfl
    rw [hmap] at this
    simpa [connRun] using this
  have h2 : connRun true (max clients 1) (fs.map (viaShared clients)) ≤ max clients 1 := by
    apply C09_connections_keepalive
    · intro f hf
      obtain ⟨f0, _, rfl⟩ := List.mem_map.mp hf
      simp only [viaShared, clientOf]
      exact Nat.mod_lt _ hpos
    · intro f hf
      obtain ⟨f0, h0, rfl⟩ := List.mem_map.mp hf
      exact hc f0 h0
  have h3 := C09_connections_keepalive inst fs hg hc
  exact ⟨h1, by omega⟩

/-- **The provider's `limit`**: the requests delivered are the first `lim` of those delivered without a limit (all of them
when there are fewer); `limit: 0` is no limit. -/
theorem C09_limit_is_prefix (pre : Bool) (f : Format) (conf : Hdr) (items : List Item) (passes lim : Nat) :
    (provideLim pre f conf items passes lim).1 =
      if lim = 0 then (provide pre f conf items passes).1 else (provide pre f conf items passes).1.take lim := by
  simp only [provideLim]
  by_cases h0 : lim = 0
  · simp [h0]
  · by_cases hl : lim ≤ (provide pre f conf items passes).1.length
    · simp [h0, hl]
    · simp only [h0, hl, if_false]
      rw [List.take_of_length_le (by omega)]

/-- **Redirects are followed only at the operator's demand**: with the default `redirect: false` nothing reaches another host,
whatever the target answers and however many requests it got. -/
theorem C09_redirects_only_on_demand (targetRedirects : Bool) (arrived : Nat) :
    decoyHits false targetRedirects arrived = 0 := by
  simp [decoyHits]

/-- **The answer log's GetBody keeps the body**: what the transport reads afterwards is what it would have read before,
a request without a body stays without one, and the bytes kept for the log are those very bytes. -/
theorem C09_answlog_keeps_body (b : BodyRd) :
    (getBody b).2.rest = b.rest ∧ (getBody b).2.present = b.present ∧
    (b.present = true → (getBody b).1 = some b.rest) := by
  cases hb : b.present <;> simp [getBody, hb, BodyRd.readAll, BodyRd.ofBytes]

/-- without the put-back the body is gone: the repaired statement is not a tautology of the reader model -/
theorem C09_answlog_without_put_back_counterexample :
    ¬ (∀ b : BodyRd, (getBodyNoPutBack b).2.rest = b.rest) := by
  intro h
  have := h { present := true, rest := [98] }
  revert this
  decide

/-- **The optional features of the gun leave the body alone**: whatever combination of debug log, auto-tag, answer log,
trace and dump is switched on, Client.Do gets a body reader that yields the entry's body bytes. -/
theorem C09_features_keep_body (ft : Feat) (body : Str) :
    (bodyAtDo ft (BodyRd.fresh body)).rest = body := by
  have hg := fun b => (C09_answlog_keeps_body b).1
  have hd : ∀ b : BodyRd, (dumpRequestBody b).rest = b.rest := by
    intro b
    cases hb : b.present <;> simp [dumpRequestBody, hb, BodyRd.readAll, BodyRd.ofBytes]
  simp only [bodyAtDo]
  cases ft.answLog <;> cases ft.dump <;> simp [hg, hd, BodyRd.fresh]

/-! ### round 4: the shared-client switch, paced shooting under all timeouts, instances that shoot in volleys -/

/-- **`shared-client.enabled` decides alone.** With `enabled: false` there is no pool whatever `client-number` says (also the
`client-number: 1` that the full config of docs/eng/http-generator.md prints): every instance keeps the client of its own;
with `enabled: true` the pool has `client-number` clients, one when the number is below one. (`sharedPool` IS
prepareClientPool: `Bridge.HttpWire.sharedPool_eq`.) -/
theorem C09_shared_switch_decides (n : Int) :
    sharedPool false n = none ∧ (∀ g, transportOfGun (sharedPool false n) g = g) ∧
    sharedPool true n = some (max n 1) := by
  refine ⟨rfl, fun _ => rfl, ?_⟩
  simp only [sharedPool, Bool.not_true, Bool.false_eq_true, if_false]
  split <;> congr 1 <;> omega

/-- hence the keep-alive clause for a gun section that carries `shared-client {enabled: false, client-number: n}`: `inst`
instances, any interleaving, nobody asking to close, pauses below the idle timeout, answers in time: at most `inst` connections -/
theorem C09_disabled_shared_client_connections (n : Int) (t : Transport) (inst : Nat) (fs : List TFlight)
    (hk : keeps t = true) (hg : ∀ f ∈ fs, f.gun < inst) (hc : ∀ f ∈ fs, f.close = false)
    (hq : ∀ f ∈ fs, idleExpired t f.pause = false ∧ responseLost t f.delay = false) :
    tconnRun t inst (fs.map fun f => { f with gun := transportOfGun (sharedPool false n) f.gun }) ≤ inst := by
  have : (fs.map fun f => ({ f with gun := transportOfGun (sharedPool false n) f.gun } : TFlight)) = fs := by
    simp [sharedPool, transportOfGun]
  rw [this]
  exact C09_connections_timed_keepalive t inst fs hk hg hc hq

/-- **`response-header-timeout` has a say against late answers only.** Two gun sections that agree on `disable-keep-alives`,
the idle limits and `idle-conn-timeout` and differ in `response-header-timeout` (and anything else) in any way: as long as
the target answers before either timeout — a target that answers at once does, whatever the value — the connections are the
same for EVERY sequence of pauses. The connection count of paced shooting does not depend on `response-header-timeout`. -/
theorem C09_response_header_timeout_only_against_late_answers (c c' : TransportCfg) (inst : Nat) (fs : List TFlight)
    (h1 : c.disableKeepAlives = c'.disableKeepAlives) (h2 : c.maxIdleConns = c'.maxIdleConns)
    (h3 : c.maxIdleConnsPerHost = c'.maxIdleConnsPerHost) (h4 : c.idleConnTimeout = c'.idleConnTimeout)
    (hd : ∀ f ∈ fs, responseLost (newTransport c) f.delay = false ∧ responseLost (newTransport c') f.delay = false) :
    tconnRun (newTransport c) inst fs = tconnRun (newTransport c') inst fs := by
  have hk : keeps (newTransport c) = keeps (newTransport c') := by
    simp only [keeps, newTransport, h1, h2, h3]; rfl
  have he : ∀ p, idleExpired (newTransport c) p = idleExpired (newTransport c') p := by
    intro p; simp only [idleExpired, newTransport, h4]; rfl
  simp only [tconnRun]
  rw [tconnRunFrom_congr (newTransport c) (newTransport c') fs]
  intro f hf st
  obtain ⟨a, b⟩ := hd f hf
  simp only [tconnStep, a, b, hk, he]

/-- an answer that comes at once is never lost, whatever the response-header timeout -/
theorem C09_responseLost_zero (t : Transport) : responseLost t 0 = false := by
  simp only [responseLost, Bool.and_eq_false_iff, decide_eq_false_iff_not]
  by_cases h : 0 < t.responseHeaderTimeout
  · right; simp only [Int.natCast_zero]; omega
  · left; exact h

/-- NewTransport with the two adjacent duration options crossed (the wrong-operand slip): the statement above is false for it -/
def newTransportCrossed (c : TransportCfg) : Transport :=
  { newTransport c with idleConnTimeout := c.responseHeaderTimeout, responseHeaderTimeout := c.idleConnTimeout }

theorem C09_crossed_timeouts_counterexample :
    ¬ (∀ (c c' : TransportCfg) (inst : Nat) (fs : List TFlight),
        c.disableKeepAlives = c'.disableKeepAlives → c.maxIdleConns = c'.maxIdleConns →
        c.maxIdleConnsPerHost = c'.maxIdleConnsPerHost → c.idleConnTimeout = c'.idleConnTimeout →
        (∀ f ∈ fs, f.delay = 0) →
        tconnRun (newTransportCrossed c) inst fs = tconnRun (newTransportCrossed c') inst fs) := by
  intro h
  have := h { defaultTransportCfg with responseHeaderTimeout := 60000000 } defaultTransportCfg 1
    [⟨0, true, false, 0, 0⟩, ⟨0, true, false, 200000000, 0⟩] rfl rfl rfl rfl (by decide)
  revert this
  decide

/-- **A client of its own never sees more than one request at a time**: the volley pool (a transport that serves several
requests at once and keeps at most `idleLimit` idle connections) is, for the volleys of one instance, the one-connection pool
of the theorems above. -/
theorem C09_volley_pool_refines_per_instance (t : Transport) (fs : List TFlight) (hg : ∀ f ∈ fs, f.gun = 0) :
    vpoolRun t (fs.map TFlight.volley) = tconnRun t 1 fs := by
  have := vpoolRunFrom_single t fs hg false 0
  simp only [b2n, Bool.false_eq_true, if_false] at this
  simp only [vpoolRun, tconnRun, this]
  rfl

/-- **Room for everybody.** A transport that `m` instances share and that may keep `m` idle connections for the target (or
more), nobody asking to close, pauses below the idle timeout, answers in time: at most `m` connections however the instances'
requests overlap. For per-instance clients `m = 1` and every transport that keeps connections at all has that room
(`keeps_idleLimit_pos`), whatever `max-idle-conns-per-host` ≥ 1 says. -/
theorem C09_volleys_with_room (t : Transport) (m : Nat) (hk : keeps t = true) (hL : m ≤ idleLimit t) (vs : List Volley)
    (hv : ∀ v ∈ vs, v.k ≤ m ∧ v.closing = 0 ∧ idleExpired t v.pause = false ∧ responseLost t v.delay = false) :
    vpoolRun t vs ≤ m :=
  (vpoolRunFrom_room t m hk hL vs hv (0, 0) ⟨rfl, Nat.zero_le _⟩).2

theorem C09_volleys_per_instance (t : Transport) (hk : keeps t = true) (vs : List Volley)
    (hv : ∀ v ∈ vs, v.k ≤ 1 ∧ v.closing = 0 ∧ idleExpired t v.pause = false ∧ responseLost t v.delay = false) :
    vpoolRun t vs ≤ 1 :=
  C09_volleys_with_room t 1 hk (keeps_idleLimit_pos t hk) vs hv

/-- the bound of the keep-alive clause stated for a SHARED transport: `m` instances on one transport, at most `m` connections -/
def C09_shared_volley_bound_statement : Prop :=
  ∀ (t : Transport) (m : Nat) (vs : List Volley), keeps t = true →
    (∀ v ∈ vs, v.k ≤ m ∧ v.closing = 0 ∧ idleExpired t v.pause = false ∧ responseLost t v.delay = false) →
    vpoolRun t vs ≤ m

/-- **Why the clause says "per-instance clients".** `n + 1` volleys of `m` requests over ONE transport whose pool keeps
`L < m` connections for the target (pandora's defaults: L = 2): the first volley dials `m`, every further one the surplus
`m − L` again — `m + n·(m − L)` connections. This is what three and more instances see once a change puts them on one
transport (`shared-client {enabled: false, client-number: 1}` read as a pool). -/
theorem C09_shared_volley_surplus (t : Transport) (m p d n : Nat) (hk : keeps t = true) (hm : idleLimit t ≤ m) (hpos : 0 < m)
    (he : idleExpired t p = false) (hl : responseLost t d = false) :
    vpoolRun t (List.replicate (n + 1) { k := m, closing := 0, pause := p, delay := d }) = m + n * (m - idleLimit t) := by
  simp only [vpoolRun, List.replicate_succ, vpoolRunFrom_cons, vpoolStep_first t m p d hk hpos hl, Nat.min_eq_left hm,
    vpoolRunFrom_replicate t m p d hk hm hpos he hl n m]

theorem C09_shared_volley_bound_counterexample : ¬ C09_shared_volley_bound_statement := by
  intro h
  have := h (newTransport defaultTransportCfg) 3 (List.replicate 2 { k := 3, closing := 0, pause := 60000000, delay := 120000000 })
    (by decide) (by decide)
  revert this
  decide

/-- **A `[k: v]` line means header `k` with value `v`.** For every name without a colon (not blank) and EVERY value — colons,
brackets, blanks inside — the line `[k:v]` of a uri / uripost file (and the string `[k: v]` of the `headers` option) is decoded
into exactly (k, v) with the blanks around each of them removed; and the code as it stands now (regenerated DecodeHeader) returns
that, without a run-time panic. -/
theorem C09_header_line_means_header (k v : Str) (hc : 58 ∉ k) (hk : trim k ≠ []) :
    decodeHeader (headerLine (k, v)) = .ok (trim k, trim v) ∧
    Gen.HttpWire.decodeHeader (headerLine (k, v)) = some (.ok (trim k, trim v)) := by
  have h := decodeHeader_headerLine k v hc hk
  exact ⟨h, by rw [Bridge.HttpWire.decodeHeader_eq, h]⟩

/-! ### the model is what the source says now -/

/-- **The regenerated code is the model.** `Pandora.Gen.HttpWire` is re-extracted from /repo's current source on every
check (translator `/verif/gen -area httpwire`); the functions the theorems above speak about are exactly those:
* `enrich` iterates the regenerated body of EnrichRequestWithHeaders' loop;
* `shoot` is what the regenerated statements of BaseGun.Shoot do to the request, whatever scheme / URL host it had;
* `hostWithoutPort`, `preResolve` are the regenerated getHostWithoutPort / PreResolveTargetAddr;
* `mergeUri` / `mergeJson` fold the regenerated merge-loop bodies of uri.go, uripost.go / jsonline.go (Scan and readArray);
* `decodeClose` is the regenerated rule of raw.DecodeRequest over net/http's shouldClose;
* the http2 constructor's ssl check is the one of `constructible`;
* `newTransport`, `defaultTransportCfg`, `transportTags` are the regenerated NewTransport literal, DefaultTransportConfig
  and `config:` tags of TransportConfig (round 2);
* `getBody` is the regenerated GetBody of the answer log (round 3);
* `sharedPool` is the regenerated prepareClientPool: which `shared-client` sections get a pool, and of what size (round 4);
* `decodeHeader` is the regenerated util.DecodeHeader (the `[key: value]` lines of the option and of uri / uripost files), which
  moreover never panics on any string (round 4);
* `decodeAll` + `confHdr` are the regenerated loop of util.DecodeHTTPConfigHeaders: stop at the first bad string, ADD every pair (round 4).
(The shape facts — where Setup / NewRequest arguments, the per-gun client, the keep-alive option and the factories'
Target/TargetResolved come from — are pinned in `Pandora.Bridge.HttpWire` and compiled with this module.) -/
theorem C09_regenerated_code_is_model :
    (∀ (r : Req) (k : Str) (vs : List Str) (rest : Hdr),
      enrich r ((k, vs) :: rest) = (Gen.HttpWire.enrichStep r k vs).bind (fun r' => enrich r' rest)) ∧
    (∀ (g : Gun) (r : Req) (sch : Scheme) (d : Str),
      Gen.HttpWire.shootRewrite g.ssl g.target g.targetResolved
        { scheme := sch, dial := d, method := r.method, uri := r.uri, host := r.host, header := r.header, body := r.body,
          close := wantsClose r } = some (shoot g r)) ∧
    (∀ t, Gen.HttpWire.getHostWithoutPort t (splitHostPort? t) = hostWithoutPort t) ∧
    (∀ dns isResolved l t, (Gen.HttpWire.preResolve dns isResolved l t).1 = preResolve dns isResolved l t) ∧
    (∀ common conf, mergeUri common conf =
      conf.foldl (fun h kv => (Gen.HttpWire.uriMergeStep h kv.1 kv.2).getD h) common) ∧
    (∀ h k vv, Gen.HttpWire.uripostMergeStep h k vv = Gen.HttpWire.uriMergeStep h k vv) ∧
    (∀ conf lines, mergeJson conf lines =
      lines.foldl (fun h kv => (Gen.HttpWire.jsonScanMergeStep h kv.1 kv.2).getD h) conf) ∧
    (∀ h k v, Gen.HttpWire.jsonArrayMergeStep h k v = Gen.HttpWire.jsonScanMergeStep h k v) ∧
    (∀ minor conn, Gen.HttpWire.decodeRequestClose 1 minor (goShouldClose minor conn) (hasTok conn closeTok) =
      decodeClose minor conn) ∧
    (∀ ssl, constructible .http2 ssl = (!Gen.HttpWire.http2NeedsSSL || ssl)) ∧
    Gen.HttpWire.defaultDisableKeepAlives = false ∧
    (∀ c, Gen.HttpWire.newTransport c = newTransport c) ∧
    Gen.HttpWire.defaultTransportCfg = defaultTransportCfg ∧
    Gen.HttpWire.transportTags = transportTags ∧
    (∀ b, Gen.HttpWire.getBody b = getBody b) ∧
    (∀ enabled n, Gen.HttpWire.sharedPool enabled n = sharedPool enabled n) ∧
    (∀ h, Gen.HttpWire.decodeHeader h = some (decodeHeader h)) ∧
    (∀ strs, Bridge.HttpWire.runConfigHeaders Gen.HttpWire.configHeadersInit strs =
      some (match decodeAll strs with
        | .error e => .error e
        | .ok kvs => .ok (confHdr kvs))) :=
  ⟨Bridge.HttpWire.enrich_cons, Bridge.HttpWire.shootRewrite_eq, Bridge.HttpWire.getHostWithoutPort_eq,
   fun d i l t => by rw [Bridge.HttpWire.preResolve_eq], Bridge.HttpWire.mergeUri_eq,
   Bridge.HttpWire.uripostMergeStep_eq, Bridge.HttpWire.mergeJson_eq, fun _ _ _ => rfl,
   Bridge.HttpWire.decodeRequestClose_eq, Bridge.HttpWire.http2NeedsSSL_eq, rfl,
   Bridge.HttpWire.newTransport_eq, Bridge.HttpWire.defaultTransportCfg_eq, Bridge.HttpWire.transportTags_eq,
   Bridge.HttpWire.getBody_eq, Bridge.HttpWire.sharedPool_eq,
   Bridge.HttpWire.decodeHeader_eq, Bridge.HttpWire.configHeaders_eq⟩

/-! ### the unrepaired tree -/

/-- precedence for the uri format stated for an arbitrary merge function -/
def C09_uri_precedence_statement (merge : Hdr → Hdr → Hdr) : Prop :=
  ∀ (conf lines : List (Str × Str)) (e : Entry) (n : Str) (r : Req), n ≠ hostKey →
    buildAmmo GET e.uri [] (merge (commonOf [] lines) (confHdr conf)) = some r →
    hget r.header n = expHeader .uri conf lines n

/-- the repaired merge satisfies it (this is `C09_precedence` for `.uri`) -/
theorem C09_uri_precedence_repaired : C09_uri_precedence_statement mergeUri := by
  intro conf lines e n r hn h
  exact header_of_buildReq .uri conf lines e r (by simpa [buildReq] using h) n hn

/-- "X-A" -/
private def xa : Str := [88, 45, 65]
/-- "file" / "conf" -/
private def vFile : Str := [102, 105, 108, 101]
private def vConf : Str := [99, 111, 110, 102]
/-- "/" -/
private def slash : Entry := { method := [], uri := [47], host := [], body := [] }

/-- the merge of the unrepaired tree (`header.Set(k, v)` of every configured value over the file's headers) does
NOT: `[X-A: file]` in the file and `headers: ["[X-A: conf]"]` send `X-A: conf`. -/
theorem C09_unrepaired_uri_counterexample : ¬ C09_uri_precedence_statement mergeUriOld := by
  intro h
  have := h [(xa, vConf)] [(xa, vFile)] slash xa
    { method := GET, uri := [47], host := [], header := [(xa, [vConf])], body := [] } (by decide) (by decide)
  revert this
  decide

/-! ### non-vacuity -/

/-- precedence with a collision in another case, a duplicate in the option, and Host from the file -/
example :
    ∃ r, buildReq .uripost (confHdr [([120, 45, 97], vConf), (xa, vConf), (hostKey, vConf)])
        [(xa, vFile), (hostKey, vFile)] slash = some r ∧
      hget r.header xa = some [vFile] ∧ r.host = vFile := by decide

/-- a configured header the entry does not define arrives with all its values, in order -/
example :
    ∃ r, buildReq .uri (confHdr [([120, 45, 97], vConf), (xa, vFile)]) [] slash = some r ∧
      hget r.header xa = some [vConf, vFile] := by decide

/-- raw: field lines accumulate, configured value ignored; no Host anywhere → the target's host -/
example :
    ∃ r, buildReq .raw (confHdr [(xa, vConf)]) [(xa, vFile), ([120, 45, 97], vFile)]
        { slash with method := GET } = some r ∧
      hget r.header xa = some [vFile, vFile] ∧
      (shoot { ssl := true, target := [104, 58, 56, 48], targetResolved := [49, 58, 56, 48] } r).host = [104] ∧
      (shoot { ssl := true, target := [104, 58, 56, 48], targetResolved := [49, 58, 56, 48] } r).scheme = .https := by
  decide

/-- `C09_uri_sequence` has instances: two entries, the second inherits the first's header line `[X-A:file]` -/
example : decodeLines (List.flatMap Item.hdrs
    ([Item.mk [(xa, vFile)] slash] ++ [Item.mk [] slash])) = some [(xa, vFile)] := by decide

/-- `C09_formats_agree_same_lines` hypotheses are satisfiable with a non-empty list -/
example : (∀ n, (valsOf [(xa, vFile), (hostKey, vConf)] n).length ≤ 1) := by
  intro n
  simp only [valsOf, List.filter_cons, List.filter_nil]
  repeat' split
  all_goals simp_all
  all_goals (rename_i h1 h2; rw [← h1] at h2; revert h2; decide)

/-- `C09_origin_form_unchanged`: "/a" is origin-form, "h" a plain authority -/
example : originForm [47, 97] ∧ ([104] : Str).all (fun c => !isAuthEnd c) = true :=
  ⟨⟨[97], rfl, by decide⟩, by decide⟩

/-- `//a` is NOT origin-form: url.Parse reads `a` as the authority (Host) and the path is empty -/
example : splitURLv false [47, 47, 97] = ([97], [47]) ∧ splitURLv true [47, 47, 97] = ([], [47, 47, 97]) := by decide

/-- `C09_http2_needs_ssl` -/
example : constructible .http2 true = true ∧ constructible .http2 false = false := by decide

/-- `C09_connections_keepalive` / `_interleaving`: 2 guns, 4 arriving requests in two different sending orders with the
same per-gun subsequences: 2 connections both times; one closing request in between costs a third -/
example :
    connRun true 2 [⟨0, true, false⟩, ⟨1, true, false⟩, ⟨0, true, false⟩, ⟨1, true, false⟩] = 2 ∧
    connRun true 2 [⟨1, true, false⟩, ⟨1, true, false⟩, ⟨0, true, false⟩, ⟨0, true, false⟩] = 2 ∧
    (∀ g, flightsOf g [⟨0, true, false⟩, ⟨1, true, false⟩, ⟨0, true, false⟩] =
          flightsOf g [⟨1, true, false⟩, ⟨0, true, false⟩, ⟨0, true, false⟩]) ∧
    connRun true 2 [⟨0, true, false⟩, ⟨0, true, true⟩, ⟨0, true, false⟩] = 2 ∧
    connRun false 2 [⟨0, true, false⟩, ⟨0, false, false⟩, ⟨0, true, false⟩] = 2 := by
  refine ⟨by decide, by decide, ?_, by decide, by decide⟩
  intro g
  simp only [flightsOf, List.filter_cons, List.filter_nil]
  by_cases h0 : (0 == g) = true <;> by_cases h1 : (1 == g) = true <;> simp_all

/-- `C09_no_connection_header_no_close`: a raw HTTP/1.0 entry without headers, option without Connection -/
example : expHeader .raw [(xa, vConf)] (seenLines .raw []) connKey = none := by decide

/-- `C09_preload_same_requests` / `C09_json_sequence` / `C09_raw_sequence`: a pass that decodes, with a well-formed option -/
example : (scanPass .raw (confHdr [(xa, vConf)]) [Item.mk [(xa, vFile)] { slash with method := GET, minor := 0 }]).2 = .ok ∧
    validMethod GET = true := by decide

/-- round 2, `C09_connections_timed_keepalive` / `C09_default_transport_reuses` / `C09_handshake_option_reuses`: one
instance, two requests 1.2 s apart, `tls-handshake-timeout: 300ms`: one connection; with `idle-conn-timeout: 300ms`
instead (`C09_idle_timeout_expires`, `C09_connections_timed_bound`): two; an answer 0.9 s late under
`response-header-timeout: 300ms` is lost with its connection -/
example :
    tconnRun (transportOf [("tls-handshake-timeout", 300 * msec)]) 1
      [⟨0, true, false, 0, 0⟩, ⟨0, true, false, 1200000000, 0⟩] = 1 ∧
    tconnRun (transportOf [("idle-conn-timeout", 300 * msec)]) 1
      [⟨0, true, false, 0, 0⟩, ⟨0, true, false, 1200000000, 0⟩] = 2 ∧
    idleExpired (transportOf [("idle-conn-timeout", 300 * msec)]) 1200000000 = true ∧
    keeps (transportOf [("idle-conn-timeout", 300 * msec)]) = true ∧
    tconnRun (transportOf [("response-header-timeout", 300 * msec)]) 1
      [⟨0, true, false, 0, 900000000⟩, ⟨0, true, false, 0, 900000000⟩] = 2 ∧
    keeps (transportOf [("max-idle-conns-per-host", -1)]) = false ∧
    ((1200000000 : Nat) : Int) < 90 * sec := by decide

/-- `C09_reuse_expected_sound`: the seeded witness — nothing but pauses of 0.8 s — and an idle timeout of 2 s given -/
example : reuseExpected {} 800000000 0 = true ∧ reuseExpected { idle := some (2 * sec) } 300000000 0 = true ∧
    reuseExpected { idle := some (300 * msec) } 800000000 0 = false ∧ reuseExpected { mich := some (-1) } 0 0 = false := by
  decide

/-- `C09_reuse_options_only`: two configurations that differ in the handshake timeout only -/
example : ({ defaultTransportCfg with tlsHandshakeTimeout := 5 } : TransportCfg).idleConnTimeout =
    defaultTransportCfg.idleConnTimeout := rfl

/-- `C09_connect_tunnel`: a found address is not empty -/
example : Lookup.found [49, 58, 56, 48] ≠ Lookup.found [] := by decide

/-- `C09_absolute_form`: `https://h/p` -/
example : (if true then httpsPfx else httpPfx) ++ [104] ++ 47 :: [112] =
      [104, 116, 116, 112, 115, 58, 47, 47, 104, 47, 112] ∧
    ([104] : Str).all (fun c => !isAuthEnd c) = true := by decide

/-! round 3 non-vacuity -/

-- three guns on two shared clients, five requests in an interleaved order: hypotheses met, two connections instead of three
example :
    (∀ f ∈ ([⟨0, true, false⟩, ⟨1, true, false⟩, ⟨2, true, false⟩, ⟨0, true, false⟩, ⟨1, false, false⟩] : List Flight),
      f.gun < 3 ∧ f.close = false) ∧
    connRun true (max 2 1) (([⟨0, true, false⟩, ⟨1, true, false⟩, ⟨2, true, false⟩, ⟨0, true, false⟩, ⟨1, false, false⟩] :
      List Flight).map (viaShared 2)) = 2 ∧
    connRun true 3 [⟨0, true, false⟩, ⟨1, true, false⟩, ⟨2, true, false⟩, ⟨0, true, false⟩, ⟨1, false, false⟩] = 3 := by
  decide

-- a request that asks to close on a shared client does cost the other gun its connection (why `hc` is needed)
example :
    connRun true 1 (([⟨0, true, false⟩, ⟨1, true, true⟩, ⟨0, true, false⟩] : List Flight).map (viaShared 1)) = 2 := by decide

-- a limit that bites and one that does not
example :
    (provideLim false .uri [] [⟨[], slash⟩, ⟨[], slash⟩, ⟨[], slash⟩] 2 4).1.length = 4 ∧
    (provideLim false .uri [] [⟨[], slash⟩, ⟨[], slash⟩, ⟨[], slash⟩] 2 9).1.length = 6 := by decide

example : decoyHits true true 3 = 3 ∧ decoyHits true false 3 = 0 := by decide

example : (getBody (BodyRd.fresh [98, 99])).1 = some [98, 99] ∧ (getBody (BodyRd.fresh [])).1 = none ∧
    (bodyAtDo { answLog := true, dump := true } (BodyRd.fresh [98, 99])).rest = [98, 99] := by decide

-- round 4. `enabled: false` with the documented `client-number: 1`: no pool; `enabled: true` with 0: one client
example : sharedPool false 1 = none ∧ sharedPool true 0 = some 1 ∧ sharedPool true 3 = some 3 ∧
    transportOfGun (sharedPool true 1) 4 = 0 ∧ transportOfGun (sharedPool false 1) 4 = 4 := by decide

-- paced shooting: response-header-timeout 60 ms vs none, pauses of 200 ms, answers at once — hypotheses met, one connection both ways;
-- the crossed wiring dials again (the counterexample above)
example :
    (∀ f ∈ ([⟨0, true, false, 0, 0⟩, ⟨0, true, false, 200000000, 0⟩] : List TFlight),
      responseLost (newTransport { defaultTransportCfg with responseHeaderTimeout := 60000000 }) f.delay = false ∧
      responseLost (newTransport defaultTransportCfg) f.delay = false) ∧
    tconnRun (newTransport { defaultTransportCfg with responseHeaderTimeout := 60000000 }) 1
      [⟨0, true, false, 0, 0⟩, ⟨0, true, false, 200000000, 0⟩] = 1 ∧
    tconnRun (newTransportCrossed { defaultTransportCfg with responseHeaderTimeout := 60000000 }) 1
      [⟨0, true, false, 0, 0⟩, ⟨0, true, false, 200000000, 0⟩] = 2 := by decide

-- volleys: pandora's default transport keeps two idle connections per host; one with `max-idle-conns-per-host: 1`
example : idleLimit (newTransport defaultTransportCfg) = 2 ∧
    idleLimit (newTransport { defaultTransportCfg with maxIdleConnsPerHost := 1 }) = 1 ∧
    keeps (newTransport { defaultTransportCfg with maxIdleConnsPerHost := 1 }) = true := by decide

-- three volleys of an instance's own client: one connection; three volleys of three instances on one default transport: 3 + 1 + 1
example :
    vpoolRun (newTransport defaultTransportCfg) (List.replicate 3 { k := 1, closing := 0, pause := 60000000, delay := 120000000 }) = 1 ∧
    vpoolRun (newTransport defaultTransportCfg) (List.replicate 3 { k := 3, closing := 0, pause := 60000000, delay := 120000000 }) = 5 ∧
    volleyFloor (List.replicate 3 { k := 3, closing := 0, pause := 60000000, delay := 120000000 }) = 3 := by decide

-- two instances on one default transport have room (m = 2 ≤ idleLimit)
example : vpoolRun (newTransport defaultTransportCfg)
    (List.replicate 4 { k := 2, closing := 0, pause := 60000000, delay := 120000000 }) = 2 := by decide

-- a flight as a volley of one
example : (⟨0, true, true, 5, 7⟩ : TFlight).volley = { k := 1, closing := 1, pause := 5, delay := 7 } := by decide

-- `[X-A: with:colon x]y ]`: hypotheses met; the value keeps its colon, bracket and inner blanks. A colon in the NAME cuts there.
example : (58 ∉ ([88, 45, 65] : Str)) ∧ trim ([88, 45, 65] : Str) ≠ [] ∧
    (decodeHeader (headerLine ([88, 45, 65], [32, 119, 58, 99, 32, 32, 120, 93, 121, 32]))).toOption = some ([88, 45, 65], [119, 58, 99, 32, 32, 120, 93, 121]) ∧
    (decodeHeader (headerLine ([88, 58, 65], [118]))).toOption = some ([88], [65, 58, 118]) := by decide

/-! ### round 6 — COMPOSITION with C07: from the BYTES of the ammo file to what `Client.Do` is handed

`Pandora.Model.C07.uriPassLim` / `uripostPass` are C07's models of uriDecoder.Scan / uripostDecoder.Scan over the bytes of the file
(bufio line reading, TrimSpace, `[k: v]` lines through util.DecodeHeader, the URL / tag cut, size-prefixed bodies), tied to
decoders/uri.go, uripost.go by C07's own regenerated area and bridge lemmas and imported here read-only. The theorems below do not
assume what the decoder hands to `Ammo.Setup`: they quantify over ALL file contents, take whatever ammo C07's model decodes
and carry it through C09's model (add-if-absent merge with the `headers` option → http.NewRequest → Enrich → Shoot). The two
models were written independently (bytes as `UInt8` / `Nat`, single-valued / multi-valued header maps); that they fit is proved
(`Pandora.Proofs.C09R6.canonKey_eq`: the two models of CanonicalMIMEHeaderKey agree on every key, `toHdr_hset`: so do the two
models of http.Header.Set). -/

open Pandora.Proofs.C09R6 in
/-- **uri file → wire.** For EVERY file content, line limit, `headers` option list and gun: each ammo the uri decoder model
of C07 reads from the file is built and shot without panic; the request handed to `Client.Do` is a GET without body whose
request-URI is `URL.RequestURI()` of the ammo's URL; every header other than Host is the FILE's (the header map in effect at
that line, as C07 computes it) when the file defines it, else the option's, else absent; Host is the URL's authority, else
the file's / option's Host, else the target's host; scheme by `ssl`, dialed at the resolved target. -/
theorem C09_uri_file_to_wire (lim : Option Nat) (file : Pandora.Model.C07.Bytes) (confL : List (Str × Str)) (g : Gun)
    (a : Pandora.Model.C07.Ammo) (ha : a ∈ (Pandora.Model.C07.uriPassLim lim file []).1) :
    ∃ r, buildAmmo (toStr a.method) (toStr a.url) (toStr a.body) (mergeUri (toHdr a.hdrs) (confHdr confL)) = some r ∧
      (shoot g r).method = GET ∧ (shoot g r).uri = (splitURL (toStr a.url)).2 ∧ (shoot g r).body = [] ∧
      (shoot g r).dial = g.targetResolved ∧ (shoot g r).scheme = (if g.ssl then Scheme.https else Scheme.http) ∧
      (∀ n, n ≠ hostKey → hget (shoot g r).header n = match hget (toHdr a.hdrs) n with
          | some x => some x
          | none => hget (confHdr confL) n) ∧
      (shoot g r).host =
        (if (splitURL (toStr a.url)).1 ≠ [] then (splitURL (toStr a.url)).1
         else if mapsHost (toHdr a.hdrs) (confHdr confL) ≠ [] then mapsHost (toHdr a.hdrs) (confHdr confL)
         else hostWithoutPort g.target) := by
  obtain ⟨ok, hb⟩ := uriPass_ok lim file [] WF_nil a ha
  obtain ⟨r, h1, h2, h3, h4, h5, h6, h7, h8⟩ := wire_of_ammo _ a ok confL g
  refine ⟨r, h1, ?_, h3, ?_, h5, h6, h7, h8⟩
  · rw [h2]; decide
  · rw [h4, hb]; rfl

open Pandora.Proofs.C09R6 in
/-- **uripost file → wire.** The same for the uripost decoder model of C07 (with or without the last-line repair): a POST whose
body is the bytes C07's model cut out of the file. -/
theorem C09_uripost_file_to_wire (fixed : Bool) (file : Pandora.Model.C07.Bytes) (confL : List (Str × Str)) (g : Gun)
    (a : Pandora.Model.C07.Ammo) (ha : a ∈ (Pandora.Model.C07.uripostPass fixed file []).1) :
    ∃ r, buildAmmo (toStr a.method) (toStr a.url) (toStr a.body) (mergeUri (toHdr a.hdrs) (confHdr confL)) = some r ∧
      (shoot g r).method = POST ∧ (shoot g r).uri = (splitURL (toStr a.url)).2 ∧ (shoot g r).body = toStr a.body ∧
      (shoot g r).dial = g.targetResolved ∧ (shoot g r).scheme = (if g.ssl then Scheme.https else Scheme.http) ∧
      (∀ n, n ≠ hostKey → hget (shoot g r).header n = match hget (toHdr a.hdrs) n with
          | some x => some x
          | none => hget (confHdr confL) n) ∧
      (shoot g r).host =
        (if (splitURL (toStr a.url)).1 ≠ [] then (splitURL (toStr a.url)).1
         else if mapsHost (toHdr a.hdrs) (confHdr confL) ≠ [] then mapsHost (toHdr a.hdrs) (confHdr confL)
         else hostWithoutPort g.target) := by
  have ok := uripostPass_ok fixed file [] WF_nil a ha
  obtain ⟨r, h1, h2, h3, h4, h5, h6, h7, h8⟩ := wire_of_ammo _ a ok confL g
  refine ⟨r, h1, ?_, h3, h4, h5, h6, h7, h8⟩
  rw [h2]; decide

open Pandora.Proofs.C09R6 in
/-- what "the file defines header k" means in C07's terms: the lookups of the two models correspond -/
theorem C09_file_header_lookup (h : Pandora.Model.C07.Hdrs) (k : Pandora.Model.C07.Bytes) :
    hget (toHdr h) (toStr k) = (Pandora.Model.C07.hget h k).map fun v => [toStr v] := hget_toHdr h k

open Pandora.Proofs.C09R6 in
/-- the two independently written models of textproto.CanonicalMIMEHeaderKey (C07: bytes, C09: naturals) agree on EVERY key -/
theorem C09_canon_models_agree (k : Pandora.Model.C07.Bytes) :
    toStr (Pandora.Model.C07.canonKey k) = canon (toStr k) := canonKey_eq k

-- non-vacuity: the file `[x-a: f]\n/a t\n` has an ammo (C07's model computes it), with the header map {X-A: f}; with the option
-- `[X-A: conf]`, `[X-B: conf]` the request carries the FILE's X-A and the option's X-B
example : (Pandora.Model.C07.uriPassLim none [91, 120, 45, 97, 58, 32, 102, 93, 10, 47, 97, 32, 116, 10] []).1 =
    [{ method := Pandora.Model.C07.getBytes, url := [47, 97], body := [], tag := [116], hdrs := [([88, 45, 65], [102])] }] := by
  decide +kernel

open Pandora.Proofs.C09R6 in
example :
    (buildAmmo GET [47, 97] [] (mergeUri (toHdr [([88, 45, 65], [102])]) (confHdr [([88, 45, 65], [99]), ([88, 45, 66], [99])]))).map
      (fun r => (r.header, r.uri)) = some ([([88, 45, 65], [[102]]), ([88, 45, 66], [[99]])], [47, 97]) := by decide

-- uripost: `5 /p\nhello\n` is one POST with body `hello`
example : ((Pandora.Model.C07.uripostPass true [53, 32, 47, 112, 10, 104, 101, 108, 108, 111, 10] []).1.map
    fun a => (a.method, a.url, a.body)) = [(Pandora.Model.C07.postBytes, [47, 112], [104, 101, 108, 108, 111])] := by
  decide +kernel

open Pandora.Proofs.C09R6 in
/-- **http/json entity → wire.** For every entity C07's JSON reader yields (any members) that its decoder model accepts: what
C07's model hands to `Ammo.Setup` (method, `http://` + host + uri, body) together with the header map Scan / readArray build
(`headers` option cloned, the entity's `headers` members Set over it) is exactly what C09's `buildReq .jsonline` starts from — so
`C09_precedence`, `C09_unchanged`, `C09_json_sequence` speak about the ammo of C07's model; and a header lookup in that map is the
entity's own header map first (C07's `hdrs`), the option second. An entity C07's model refuses (bad method) is refused by
C09's `scanJson` too. -/
theorem C09_json_entity_to_wire (e : Pandora.Model.C07.Entity) (a : Pandora.Model.C07.Ammo)
    (h : Pandora.Model.C07.entityAmmo e = .ok a) (conf : Hdr) :
    buildAmmo (toStr a.method) (toStr a.url) (toStr a.body) (mergeJson conf (jsonLines e)) =
        buildReq .jsonline conf (jsonLines e) (jsonEntry e) ∧
      validMethod (jsonEntry e).method = true ∧
      (∀ n, hget (mergeJson conf (jsonLines e)) n = match hget (toHdr a.hdrs) n with
        | some x => some x
        | none => hget conf n) := by
  obtain ⟨h1, h2, h3, h4, h5⟩ := entityAmmo_json e a h
  refine ⟨?_, h5, ?_⟩
  · simp only [buildReq, h1, h2, h3]
  · intro n
    rw [h4, mergeJson_eq, hget_commonOf, hget_commonOf]
    cases lastOf (valsOf (jsonLines e) n) <;> simp [hget]

open Pandora.Proofs.C09R6 in
theorem C09_json_entity_refused (e : Pandora.Model.C07.Entity) (err : Pandora.Model.C07.Err)
    (h : Pandora.Model.C07.entityAmmo e = .error err) (conf : Hdr) (rest : List Item) :
    scanJson conf ({ hdrs := jsonLines e, ent := jsonEntry e } :: rest) = ([], .err) := by
  have := entityAmmo_refused e err h
  simp [scanJson, this]

-- non-vacuity: an entity with method PUT, host h, uri /p, one header member x-a: accepted by C07's model, Setup gets `http://h/p`
open Pandora.Proofs.C09R6 in
example : (Pandora.Model.C07.entityAmmo (⟨[104], [80, 85, 84], [47, 112], [], [98], [([120, 45, 97], [102])]⟩ : Pandora.Model.C07.Entity)).toOption.map
      (fun a => (toStr a.url, toHdr a.hdrs)) =
    some ([104, 116, 116, 112, 58, 47, 47, 104, 47, 112], [([88, 45, 65], [[102]])]) := by decide +kernel

end Pandora.Props.C09
