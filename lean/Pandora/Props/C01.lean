/-
C01 — RPS schedules realise the configured load profile.

Theorems are about the REGENERATED constructors (`Pandora.Gen.Schedule`, rewritten
from /repo on every run), in exact real arithmetic; float64 rounding is measured
by the sampling tie (harness `c01.go` + `Pandora.Drv.C01`), not proved.
What `Sched.doAt D n f` means operationally (token k at start+f k for k<n, then
(start+D,false) for ever) is the leaf model of C02 (`Model.Sched.doAtNext`), tied
to `doAtSchedule.Next` by C02's correspondence.
-/
import Pandora.Bridge.Schedule

namespace Pandora.Props.C01
open Pandora Pandora.Gen.Schedule Pandora.Bridge.Schedule Pandora.Proofs.LineMath

/-- configured rate (ops/s) of `line(from,to,D)` at `x` seconds after its start -/
noncomputable def lineRate (f t : ℝ) (D : ℤ) (x : ℝ) : ℝ := f + (t - f) * x / secs D
/-- ∫₀ˣ lineRate -/
noncomputable def lineCum (f t : ℝ) (D : ℤ) (x : ℝ) : ℝ := f * x + (t - f) * x ^ 2 / (2 * secs D)
/-- ∫₀ˣ of the constant rate `ops` -/
noncomputable def constCum (ops : ℝ) (x : ℝ) : ℝ := ops * x

/-- `x` (seconds) is the earliest instant of the profile at which the integral `c` reaches `k` -/
def EarliestAt (c : ℝ → ℝ) (D : ℤ) (k : ℝ) (x : ℝ) : Prop :=
  0 ≤ x ∧ x ≤ secs D ∧ c x = k ∧ ∀ y, 0 ≤ y → y < x → c y < k

/-- exactly what config validation accepts (`min=0`, `min-time=1ms`) -/
structure Valid (f t : ℝ) (D : ℤ) : Prop where
  from_nonneg : 0 ≤ f
  to_nonneg : 0 ≤ t
  dur : 1000000 ≤ D

theorem lineCum_eq (f t : ℝ) (D : ℤ) (hD : 1000000 ≤ D) (x : ℝ) :
    lineCum f t D x = cum (slope f t D) f x := by
  have := (secs_pos hD).ne'
  unfold lineCum cum slope; field_simp; ring

theorem line_cfg {f t : ℝ} {D : ℤ} (h : Valid f t D) (hne : f ≠ t) : Cfg (slope f t D) f (secs D) := by
  have hs := secs_pos h.dur
  refine ⟨hs, ?_, h.from_nonneg, ?_⟩
  · unfold slope; exact div_ne_zero (sub_ne_zero.mpr (Ne.symm hne)) hs.ne'
  · have : slope f t D * secs D + f = t := by unfold slope; field_simp; ring
    rw [this]; exact h.to_nonneg

/-- **line**: count = ⌊∫ rate over the whole duration⌋ = ⌊(from+to)/2 · D⌋; operation k sits at the
ns-truncation of the earliest instant where the integral reaches k; inside [0, D]. Every duration ≥ 1 ms. -/
theorem C01_line (f t : ℝ) (D : ℤ) (h : Valid f t D) (hne : f ≠ t) :
    ∃ (n : ℤ) (at_ : ℤ → ℤ), NewLine f t D = Sched.doAt D n at_ ∧
      n = ⌊lineCum f t D (secs D)⌋ ∧
      lineCum f t D (secs D) = (f + t) / 2 * secs D ∧
      ∀ k : ℤ, 0 ≤ k → k < n →
        ∃ x : ℝ, EarliestAt (lineCum f t D) D k x ∧ at_ k = ⌊x * 1000000000⌋ ∧ 0 ≤ at_ k ∧ at_ k ≤ D := by
  have hc := line_cfg h hne
  have hs := secs_pos h.dur
  have hend : slope f t D * secs D + f = t := by unfold slope; field_simp; ring
  have htot : cum (slope f t D) f (secs D) = (f + t) / 2 * secs D := by
    rw [cum_total, hend]
  have htot0 : 0 ≤ cum (slope f t D) f (secs D) := by
    rw [htot]; have := h.from_nonneg; have := h.to_nonneg; positivity
  refine ⟨_, _, NewLine_eq f t D hne, ?_, ?_, ?_⟩
  · rw [lineCum_eq f t D h.dur, Go.f2i_of_nonneg htot0]
  · rw [lineCum_eq f t D h.dur, htot]
  · intro k hk0 hkn
    rw [Go.f2i_of_nonneg htot0] at hkn
    have hk0' : (0:ℝ) ≤ (k:ℝ) := by exact_mod_cast hk0
    have hkle : (k:ℝ) ≤ cum (slope f t D) f (secs D) := by
      have : ((k:ℤ):ℝ) < ⌊cum (slope f t D) f (secs D)⌋ := by exact_mod_cast hkn
      exact le_of_lt (lt_of_lt_of_le this (Int.floor_le _))
    have he := earliest_xk hc hk0' hkle
    have hx0 := he.1
    have hxs := he.2.1
    refine ⟨xk (slope f t D) f k, ?_, ?_, ?_, ?_⟩
    · refine ⟨hx0, hxs, ?_, ?_⟩
      · rw [lineCum_eq f t D h.dur]; exact he.2.2.1
      · intro y hy0 hyx; rw [lineCum_eq f t D h.dur]; exact he.2.2.2 y hy0 hyx
    · exact Go.f2i_of_nonneg (by positivity)
    · rw [Go.f2i_of_nonneg (by positivity)]; exact Int.floor_nonneg.mpr (by positivity)
    · rw [Go.f2i_of_nonneg (by positivity)]
      have : xk (slope f t D) f k * 1000000000 ≤ (D:ℝ) := by
        rw [← secs_mul D]; exact mul_le_mul_of_nonneg_right hxs (by norm_num)
      have h2 := Int.floor_le_floor this
      simpa using h2

/-- **const**: count = ⌊ops·D⌋; operation k at the ns-truncation of k/ops seconds — the earliest
instant with ops·x = k; inside [0, D]. -/
theorem C01_const (ops : ℝ) (D : ℤ) (hops : 0 ≤ ops) (hD : 1000000 ≤ D) :
    ∃ (n : ℤ) (at_ : ℤ → ℤ), NewConst ops D = Sched.doAt D n at_ ∧
      n = ⌊constCum ops (secs D)⌋ ∧
      ∀ k : ℤ, 0 ≤ k → k < n →
        ∃ x : ℝ, EarliestAt (constCum ops) D k x ∧ at_ k = ⌊x * 1000000000⌋ ∧ 0 ≤ at_ k ∧ at_ k ≤ D := by
  have hs := secs_pos hD
  have htot0 : 0 ≤ ops * secs D := by positivity
  refine ⟨_, _, NewConst_eq ops D hops, ?_, ?_⟩
  · unfold constCum; exact Go.f2i_of_nonneg htot0
  · intro k hk0 hkn
    rw [Go.f2i_of_nonneg htot0] at hkn
    have hk0' : (0:ℝ) ≤ (k:ℝ) := by exact_mod_cast hk0
    have hklt : (k:ℝ) < ops * secs D := by
      have : ((k:ℤ):ℝ) < ⌊ops * secs D⌋ := by exact_mod_cast hkn
      exact lt_of_lt_of_le this (Int.floor_le _)
    have hops' : 0 < ops := by
      rcases hops.lt_or_eq with h | h
      · exact h
      · rw [← h] at hklt; simp at hklt; linarith
    have hx0 : 0 ≤ (k:ℝ) / ops := by positivity
    have hxs : (k:ℝ) / ops ≤ secs D := by
      rw [div_le_iff₀ hops']; linarith [mul_comm ops (secs D)]
    have harg : (k:ℝ) * (1000000000 / ops) = (k:ℝ) / ops * 1000000000 := by field_simp
    refine ⟨(k:ℝ) / ops, ⟨hx0, hxs, ?_, ?_⟩, ?_, ?_, ?_⟩
    · unfold constCum; field_simp
    · intro y _ hyx; unfold constCum
      have := (lt_div_iff₀ hops').mp hyx; linarith [mul_comm ops y]
    · show Go.f2i ((k:ℝ) * (1000000000 / ops)) = _
      rw [harg]; exact Go.f2i_of_nonneg (by positivity)
    · show 0 ≤ Go.f2i ((k:ℝ) * (1000000000 / ops))
      rw [harg, Go.f2i_of_nonneg (by positivity)]; exact Int.floor_nonneg.mpr (by positivity)
    · show Go.f2i ((k:ℝ) * (1000000000 / ops)) ≤ D
      rw [harg, Go.f2i_of_nonneg (by positivity)]
      have : (k:ℝ) / ops * 1000000000 ≤ (D:ℝ) := by
        rw [← secs_mul D]; exact mul_le_mul_of_nonneg_right hxs (by norm_num)
      have h2 := Int.floor_le_floor this
      simpa using h2

/-- a flat line is the const profile -/
theorem C01_line_flat (f : ℝ) (D : ℤ) : NewLine f f D = NewConst f D := NewLine_flat f D

/-- **step**: the succession of one const profile per rate level from, from+step, … ≤ to
(chaining "part j starts where part j−1 finished" is C02's composite theorem). -/
theorem C01_step (f t : ℝ) (s D : ℤ) (hne : f ≠ t) :
    NewStep f t s D = Sched.composite ((Go.loopLE f t (s : ℝ)).map (fun r => NewConst r D)) :=
  NewStep_eq f t s D hne

theorem C01_step_levels (f t : ℝ) (s : ℤ) (hs : 1 ≤ s) (hft : f ≤ t) :
    Go.loopLE f t (s:ℝ) = (List.range (⌊(t - f) / (s:ℝ)⌋₊ + 1)).map (fun (j : ℕ) => f + (j:ℝ) * (s:ℝ)) ∧
    ∀ r ∈ Go.loopLE f t (s:ℝ), f ≤ r ∧ r ≤ t := by
  have hs' : (0:ℝ) < (s:ℝ) := by exact_mod_cast (by omega : (0:ℤ) < s)
  constructor
  · unfold Go.loopLE; simp [hft]
  · intro r hr
    rw [Go.loopLE, if_pos hft, List.mem_map] at hr
    obtain ⟨j, hj, rfl⟩ := hr
    rw [List.mem_range] at hj
    constructor
    · have : (0:ℝ) ≤ (j:ℝ) * (s:ℝ) := mul_nonneg (Nat.cast_nonneg j) hs'.le
      linarith
    · have hj' : (j:ℝ) ≤ ((⌊(t - f) / (s:ℝ)⌋₊ : ℕ) : ℝ) := by exact_mod_cast Nat.lt_succ_iff.mp hj
      have h2 : ((⌊(t - f) / (s:ℝ)⌋₊ : ℕ) : ℝ) ≤ (t - f) / (s:ℝ) :=
        Nat.floor_le (div_nonneg (by linarith) hs'.le)
      have h3 : (j:ℝ) * (s:ℝ) ≤ t - f := by
        have := le_trans hj' h2
        rwa [le_div_iff₀ hs'] at this
      linarith

theorem C01_step_flat (f : ℝ) (s D : ℤ) : NewStep f f s D = NewConst f D := NewStep_flat f s D

/-- **once**: all operations at offset 0 of a zero-length profile -/
theorem C01_once (n : ℤ) : NewOnce n = Sched.doAt 0 n (fun _ => 0) := NewOnce_eq n

/-- instance_step startup profile: `from` at once, then (wait stepDuration, `step` more)* while ≤ to -/
theorem C01_instance_step (f t s D : ℤ) :
    NewInstanceStep f t s D = Sched.composite
      (NewOnce f :: (Go.loopLEInt (f + s) t s).flatMap (fun _ => [NewConst 0 D, NewOnce s])) :=
  NewInstanceStep_eq f t s D

-- non-vacuity: hypotheses are met by concrete profiles incl. fractional-second and decreasing ones
example : Valid 0 10 1500000000 ∧ (0:ℝ) ≠ 10 := ⟨⟨by norm_num, by norm_num, by norm_num⟩, by norm_num⟩
example : Valid 10 0 500000000 ∧ (10:ℝ) ≠ 0 := ⟨⟨by norm_num, by norm_num, by norm_num⟩, by norm_num⟩
example : Valid 7.5 7.5 1000000 := ⟨by norm_num, by norm_num, by norm_num⟩

end Pandora.Props.C01
